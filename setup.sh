#!/bin/sh
# Offline build of the framework: regenerate Gen/ from /repo, build the Lean
# library (model, proofs, property theorems) and the native model driver.
set -e
HERE="$(cd "$(dirname "$0")" && pwd)"
: "${QUANTITY_REPO:=/repo}"
export QUANTITY_REPO
python3 "$HERE/harness/translate.py"
cd "$HERE/lean"
lake build QuantityModel QuantityModel.All driver
