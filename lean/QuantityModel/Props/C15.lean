import QuantityModel.Model.Quantity
namespace QM.Props.C15
end QM.Props.C15
