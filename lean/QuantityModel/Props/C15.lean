/-
C15 — directory coherence: unique symbols, own type, definitions mean what
they say.  (The model is tied to the code by running random declaration
histories — valid and invalid — against the real registries after every step.)
-/
import QuantityModel.Proofs.Registry
import QuantityModel.Proofs.Invariants
import QuantityModel.Proofs.Scale
namespace QM.Props.C15
open QM

/-- the symbols of the directory are pairwise distinct -/
def SymbolsUnique (s : RegState) : Prop := (s.symMap.map Prod.fst).Nodup

/-- every directory entry points to a unit carrying that symbol -/
def SymbolsPointBack (s : RegState) : Prop :=
  ∀ sym u, (sym, u) ∈ s.symMap → u < s.units.length ∧ (s.unit u).symbol = sym

/-- symbols stay unique and keep pointing back -/
theorem makeUnit_preserves_symbols (s : RegState) (c : Nat) (sym : String)
    (defn : Option Items) (isRef : Bool) (s' : RegState) (uid : Nat)
    (h : s.makeUnit c sym defn isRef = .ok (s', uid))
    (hu : SymbolsUnique s) (hp : SymbolsPointBack s) :
    SymbolsUnique s' ∧ SymbolsPointBack s' := by
  obtain ⟨huid, hunits, hsym, -, -, hmap, hnot, -, -, -, -, -, -, -⟩ := makeUnit_effect s c sym defn isRef s' uid h
  constructor
  · unfold SymbolsUnique at *
    rw [hmap, List.map_append, List.nodup_append]
    refine ⟨hu, by simp, ?_⟩
    intro a ha b hb
    simp only [List.map_cons, List.map_nil, List.mem_singleton] at hb
    subst hb; intro hab; subst hab; exact hnot ha
  · intro sy u hmem
    rw [hmap, List.mem_append] at hmem
    rcases hmem with hmem | hmem
    · obtain ⟨hlt, hs⟩ := hp sy u hmem
      refine ⟨by rw [hunits]; simp; omega, ?_⟩
      rw [← hs]; unfold RegState.unit; rw [hunits]
      simp [List.getD_eq_getElem?_getD, List.getElem?_append_left hlt]
    · simp only [List.mem_singleton, Prod.mk.injEq] at hmem
      obtain ⟨rfl, rfl⟩ := hmem
      exact ⟨by rw [hunits, huid]; simp, hsym⟩

/-- `Unit(symbol)` after a successful creation returns the new unit -/
theorem makeUnit_lookup (s : RegState) (c : Nat) (sym : String) (defn : Option Items)
    (isRef : Bool) (s' : RegState) (uid : Nat)
    (h : s.makeUnit c sym defn isRef = .ok (s', uid)) :
    s'.symMap.lookup sym = some uid := by
  obtain ⟨-, -, -, -, -, hmap, hnot, -, -, -, -, -, -, -⟩ := makeUnit_effect s c sym defn isRef s' uid h
  rw [hmap]
  have : s.symMap.lookup sym = none := lookup_none_of_not_mem _ _ hnot
  rw [List.lookup_append, this]; simp

/-- a quantity built by the generic factory is an instance of its unit's type;
built through a type, it is accepted iff that is the unit's type -/
theorem factory_dispatches_to_unit_class (s : RegState) (d : Rounding) (a : Rat) (u : Nat)
    (q : Qty) (h : s.mkQty d none a u = .ok q) : q.unit = u := by
  unfold RegState.mkQty RegState.mkQty.go at h
  simp only at h
  split at h
  · simp only [Except.ok.injEq] at h; rw [← h]
  · split at h
    · simp only [Except.ok.injEq] at h; rw [← h]
    · simp at h

theorem typed_constructor_rejects_foreign_unit (s : RegState) (d : Rounding) (c : Nat) (a : Rat)
    (u : Nat) (h : c ≠ s.unitCls u) : s.mkQty d (some c) a u = .error .QuantityError := by
  unfold RegState.mkQty; simp [h]

/-- the decision table of `_make_unit` / `new_unit` rejections -/
theorem duplicate_symbol_rejected (s : RegState) (c : Nat) (sym : String) (defn : Option Items)
    (isRef : Bool) (hne : sym ≠ "") (h : (s.symMap.lookup sym).isSome = true) :
    s.makeUnit c sym defn isRef = .error .valueError := by
  unfold RegState.makeUnit; simp [hne, h]

theorem empty_symbol_rejected (s : RegState) (c : Nat) (d : UnitDefArg) :
    (s.newUnit c (some "") d).2 = .error .valueError := by
  unfold RegState.newUnit; simp

theorem nonstring_symbol_rejected (s : RegState) (c : Nat) (d : UnitDefArg) :
    (s.newUnit c none d).2 = .error .typeError := by
  unfold RegState.newUnit; simp

theorem foreign_quantity_definition_rejected (s : RegState) (c : Nat) (sym : String) (a : Rat)
    (u : Nat) (hs : sym ≠ "") (h : (s.unit u).cls ≠ c) :
    (s.newUnit c (some sym) (.qty a u)).2 = .error .typeError := by
  unfold RegState.newUnit; simp [hs, h]

/-- a term definition is accepted only if it resolves to a unit of the very
class the new unit is declared for (same dimension) -/
theorem term_definition_must_resolve_to_own_class (s : RegState) (c : Nat) (sym : String)
    (t : Items) (hs : sym ≠ "")
    (h : ∀ f u, s.amntAndUnit t = some (f, some u) → (s.unit u).cls ≠ c) :
    (s.newUnit c (some sym) (.term t)).2 = .error .valueError := by
  unfold RegState.newUnit
  simp only [hs, String.isEmpty_iff, ↓reduceIte]
  cases hr : s.amntAndUnit t with
  | none => simp
  | some p =>
    obtain ⟨f, ou⟩ := p
    cases ou with
    | none => simp
    | some u => simp [h f u hr]

/-- a second quantity type for a dimension already taken is rejected -/
theorem duplicate_dimension_rejected (s : RegState) (d : ClassDecl) (t : Items)
    (hd : d.defineAs = some t) (ht : t ≠ [])
    (h : (s.clsMap.lookup (termNormalized s.clsEnv t)).isSome = true) :
    (s.declClass d).2 = .error .valueError := by
  unfold RegState.declClass
  simp [hd, ht, h]

/-! ### after ANY sequence of declarations (valid or rejected, any order) -/

theorem lookup_of_mem_nodup {α β} [BEq α] [LawfulBEq α] (l : List (α × β)) (k : α) (v : β)
    (hm : (k, v) ∈ l) (hn : (l.map Prod.fst).Nodup) : l.lookup k = some v := by
  induction l with
  | nil => simp at hm
  | cons p rest ih =>
    obtain ⟨k', v'⟩ := p
    simp only [List.map_cons, List.nodup_cons] at hn
    rw [List.lookup]
    rcases List.mem_cons.mp hm with heq | hm'
    · simp only [Prod.mk.injEq] at heq
      obtain ⟨rfl, rfl⟩ := heq
      simp
    · have hne : k ≠ k' := by
        intro h; subst h
        exact hn.1 (List.mem_map.mpr ⟨(k, v), hm', rfl⟩)
      have : (k == k') = false := by simpa using hne
      simp only [this]
      exact ih hm' hn.2

/-- in every reachable state: every unit is found under its symbol as the
identical unit, symbols are unique, and a type lists only units created for it -/
theorem reachable_directories_coherent (s : RegState) (h : Reachable s) :
    (∀ u, u < s.units.length → s.symMap.lookup (s.unit u).symbol = some u) ∧
    (s.symMap.map Prod.fst).Nodup ∧
    (∀ c u, u ∈ (s.cls c).units → (s.unit u).cls = c) ∧
    (∀ sym u, s.symMap.lookup sym = some u → (s.unit u).symbol = sym) := by
  have hI := reachable_dirInv h
  refine ⟨?_, hI.symNodup, fun c u hu => (hI.unitLists c u hu).2, ?_⟩
  · intro u hu
    exact lookup_of_mem_nodup _ _ _ (hI.symTotal u hu) hI.symNodup
  · intro sym u hl
    exact (hI.symMap sym u (lookup_mem _ _ _ hl)).2

/-- in every reachable state the term → unit directory is keyed by the units'
own normalised definitions: the hypothesis of C02 / C10 / C17 always holds -/
theorem reachable_term_directory_sound (s : RegState) (h : Reachable s) : TermMapSound s :=
  (reachable_dirInv h).termMapSound

/-! ### the scale a definition denotes — closed form, every reachable state

`ReachableWF` : states reached from `import quantity` by ANY sequence of
declarations (accepted or rejected) whose definitions mention existing units
and do not denote zero.  `s.nu u` is the scale stored for `u` (1 for a unit
without one). -/

theorem liftMake_ok (s s' : RegState) (r : Except DeclErr (RegState × Nat)) (uid : Nat)
    (h : liftMake s r = (s', .ok uid)) : r = .ok (s', uid) := by
  unfold liftMake at h
  cases r with
  | error e => simp at h
  | ok p => obtain ⟨a, b⟩ := p; simp only [Prod.mk.injEq, Except.ok.injEq] at h; rw [h.1, h.2]

/-- `cls.new_unit(sym, define_as = a * u)` : the new unit's scale is exactly
`a · scale(u)` -/
theorem scale_of_multiple (s s' : RegState) (h : ReachableWF s) (c : Nat) (sym : String) (a : Rat)
    (u uid : Nat) (ha : a ≠ 0) (hu : u < s.units.length)
    (hok : s.newUnit c (some sym) (.qty a u) = (s', .ok uid)) :
    (s'.unit uid).equiv = some (a * s.nu u) := by
  have hS := reachableWF_scaleInv h
  have hA := admissible_nu s hS
  unfold RegState.newUnit at hok
  simp only at hok
  split at hok
  · simp at hok
  · split at hok
    · simp at hok
    · rename_i defn heq
      split at heq
      · cases heq
      · simp only [Except.ok.injEq] at heq
        subst heq
        have hm := liftMake_ok _ _ _ _ hok
        have hden : den s.nu (mkTerm s.unitEnv [(.num a, 1), (.atom u, 1)]) = a * s.nu u := by
          rw [den_mkTerm _ s.nu hA.nz hA.resp]
          simp only [den_cons, den_nil, evalElem, zpow_one, mul_one]
        have := (makeUnit_scale s s' c sym _ uid hm hS
          (by
            intro x hx
            have := mkTerm_atoms _ _ x hx
            simp only [atomsOf, List.filterMap_cons, List.filterMap_nil, List.mem_singleton] at this
            subst this; exact hu)
          (by rw [hden]; exact mul_ne_zero ha (hA.nz u))).1
        rw [this, hden]

/-- `cls.new_unit(sym, define_as = term)` : the new unit's scale is exactly
what the term denotes, `factor · ∏ scale(uᵢ)^eᵢ` -/
theorem scale_of_term_definition (s s' : RegState) (h : ReachableWF s) (c : Nat) (sym : String)
    (t : Items) (uid : Nat) (hv : ∀ a ∈ atomsOf t, a < s.units.length) (hn : den s.nu t ≠ 0)
    (hok : s.newUnit c (some sym) (.term t) = (s', .ok uid)) :
    (s'.unit uid).equiv = some (den s.nu t) := by
  have hS := reachableWF_scaleInv h
  unfold RegState.newUnit at hok
  simp only at hok
  split at hok
  · simp at hok
  · split at hok
    · simp at hok
    · rename_i defn heq
      have hd : defn = some t := by
        split at heq
        · cases heq
        · cases heq
        · split at heq
          · cases heq
          · simp only [Except.ok.injEq] at heq; exact heq.symm
      subst hd
      exact (makeUnit_scale s s' c sym t uid (liftMake_ok _ _ _ _ hok) hS hv hn).1

/-- `cls.derive_unit_from(u₁, …, uₙ)` for a type defined as `∏ Bᵢ^eᵢ` : the new
unit's scale is exactly `∏ scale(uᵢ)^eᵢ` -/
theorem scale_of_derived_unit (s s' : RegState) (h : ReachableWF s) (c : Nat) (args : List Nat)
    (sym : Option String) (uid : Nat) (cdef : Items) (hc : (s.cls c).defn = some cdef)
    (hv : ∀ u ∈ args, u < s.units.length)
    (hok : s.deriveUnit c args sym = (s', .ok uid)) :
    (s'.unit uid).equiv =
      some (den s.nu ((cdef.zip args).map fun (it, u) => (Elem.atom u, it.2))) := by
  have hS := reachableWF_scaleInv h
  have hA := admissible_nu s hS
  have key : ∀ sy, liftMake s (s.makeUnit c sy (some (mkTerm s.unitEnv
      ((cdef.zip args).map fun (it, u) => (Elem.atom u, it.2)))) false) = (s', .ok uid) →
      (s'.unit uid).equiv =
        some (den s.nu ((cdef.zip args).map fun (it, u) => (Elem.atom u, it.2))) := by
    intro sy hl
    have hm := liftMake_ok _ _ _ _ hl
    have hden := den_mkTerm s.unitEnv s.nu hA.nz hA.resp
      ((cdef.zip args).map fun (it, u) => (Elem.atom u, it.2))
    have := (makeUnit_scale s s' c sy _ uid hm hS
      (by
        intro a ha
        have := mkTerm_atoms _ _ a ha
        rw [mem_atomsOf] at this
        obtain ⟨e, he⟩ := this
        simp only [List.mem_map, Prod.mk.injEq, Elem.atom.injEq] at he
        obtain ⟨⟨it, u⟩, hz, rfl, _⟩ := he
        exact hv u (List.of_mem_zip hz).2)
      (by
        rw [hden]
        apply den_ne_zero_of_atoms _ hA.nz
        intro it hit
        simp only [List.mem_map] at hit
        obtain ⟨⟨x, u⟩, _, rfl⟩ := hit
        left; exact ⟨u, rfl⟩)).1
    rw [this, hden]
  unfold RegState.deriveUnit at hok
  simp only [hc] at hok
  repeat' (first
    | (simp only [Prod.mk.injEq, reduceCtorEq, and_false] at hok; done)
    | exact key _ hok
    | split at hok)

/-- in every such state the scale invariant holds: base units define
themselves; a derived unit's stored scale is the numeric part of its
normalised definition, whose other elements are existing base units; reference
units have scale 1; no scale is zero -/
theorem reachable_scale_invariant (s : RegState) (h : ReachableWF s) : ScaleInv s :=
  reachableWF_scaleInv h

/-- … and the valuation "unit ↦ stored scale" is admissible: the hypotheses
`Admissible s ν` of the C01 / C02 / C10 / C17 theorems are satisfiable in
every such state (non-vacuity for every history, not for one example) -/
theorem reachable_admissible (s : RegState) (h : ReachableWF s) : Admissible s s.nu :=
  admissible_nu s (reachableWF_scaleInv h)

/-- the reference unit of every type exists and has scale 1 -/
theorem reachable_ref_unit_scale_one (s : RegState) (h : ReachableWF s) (c r : Nat)
    (hr : (s.cls c).refUnit = some r) : r < s.units.length ∧ (s.unit r).equiv = some 1 :=
  (reachableWF_scaleInv h).refs c r hr

/-! ### known finding D10: a definition denoting zero

`L.new_unit('z', define_as = 0 * m)` is accepted and the unit gets scale 1
(`num_elem or ONE` in `_make_unit`), not the 0 its definition denotes — the
hypothesis `a ≠ 0` of `scale_of_multiple` cannot be dropped. -/

def d10Base : RegState :=
  (RegState.init.declClass
    { name := "L", defineAs := none, refUnitSymbol := some "m", quantum := none }).1
def d10State : RegState := (d10Base.newUnit 1 (some "z") (.qty 0 0)).1

theorem scale_of_zero_multiple_FALSE :
    (d10State.unit 1).symbol = "z" ∧ (d10State.unit 1).equiv = some 1 ∧
    (d10State.unit 1).equiv ≠ some (0 * d10Base.nu 0) := by
  decide +kernel

end QM.Props.C15
