/-
C04 — equality and ordering agree with exact reference values.
Reference value of `x` (unit scale `a`): `a * x.amount`.
-/
import QuantityModel.Proofs.Quantity
import Mathlib.Tactic.FieldSimp
import Mathlib.Tactic.Ring
import Mathlib.Tactic.Linarith
import Mathlib.Tactic.Positivity
namespace QM.Props.C04
open QM QM.QState

variable {s : QState}

/-- `==` is equality of reference values (any non-zero scales) -/
theorem eq_iff_reference_values_equal {x y : Qty} {a b} (h : Linear s.reg y.unit x.unit b a)
    (ha : a ≠ 0) :
    s.qtyEq x y = .ok (decide (a * x.amount = b * y.amount)) := by
  unfold QState.qtyEq
  have hc : (s.reg.unitCls x.unit != s.reg.unitCls y.unit) = false := by simp [h.sameCls]
  simp only [hc, Bool.false_eq_true, ↓reduceIte]
  by_cases huv : x.unit = y.unit
  · have hab : a = b := by
      have := h.ev; rw [huv, h.eu] at this; exact (Option.some.inj this).symm
    subst hab
    simp only [huv, beq_self_eq_true, ↓reduceIte, Except.ok.injEq]
    rw [Bool.eq_iff_iff]; simp only [beq_iff_eq, decide_eq_true_eq]
    constructor
    · intro e; rw [e]
    · intro e; exact mul_left_cancel₀ ha e
  · have : (x.unit == y.unit) = false := by simpa using huv
    simp only [this, Bool.false_eq_true, ↓reduceIte]
    rw [equivAmount_linear h ha]
    simp only [Except.ok.injEq]
    rw [Bool.eq_iff_iff]; simp only [beq_iff_eq, decide_eq_true_eq]
    constructor
    · intro e; rw [e]; field_simp
    · intro e; field_simp; linarith

/-- each of the four order operators returns what it returns on the
reference values — for *positive* scales (the hypothesis the proof forces; the
code accepts units with a negative factor, for which the statement is false:
known finding D6, witness below) -/
theorem cmp_iff_reference_values {x y : Qty} {a b} (c : Cmp) (h : Linear s.reg y.unit x.unit b a)
    (ha : 0 < a) :
    s.qtyCmp c x y = .ok (c.eval (a * x.amount) (b * y.amount)) := by
  unfold QState.qtyCmp
  have hc : (s.reg.unitCls x.unit != s.reg.unitCls y.unit) = false := by simp [h.sameCls]
  simp only [hc, Bool.false_eq_true, ↓reduceIte]
  have key : ∀ e : ℚ, a * e = b * y.amount → c.eval x.amount e = c.eval (a * x.amount) (b * y.amount) := by
    intro e he
    rw [← he]
    cases c <;> simp only [Cmp.eval, decide_eq_decide] <;> constructor <;> intro hh <;> nlinarith
  by_cases huv : x.unit = y.unit
  · have hab : a = b := by
      have := h.ev; rw [huv, h.eu] at this; exact (Option.some.inj this).symm
    subst hab
    simp only [huv, beq_self_eq_true, ↓reduceIte, Except.ok.injEq]
    exact key _ rfl
  · have : (x.unit == y.unit) = false := by simpa using huv
    simp only [this, Bool.false_eq_true, ↓reduceIte]
    rw [equivAmount_linear h (ne_of_gt ha)]
    simp only [Except.ok.injEq]
    apply key; field_simp

/-- consequently: trichotomy, totality and transitivity are those of ℚ -/
theorem trichotomy (ra rb : ℚ) : (ra < rb ∧ ra ≠ rb ∧ ¬ ra > rb) ∨ (¬ ra < rb ∧ ra = rb ∧ ¬ ra > rb)
    ∨ (¬ ra < rb ∧ ra ≠ rb ∧ ra > rb) := by
  rcases lt_trichotomy ra rb with h | h | h
  · left; exact ⟨h, ne_of_lt h, not_lt.mpr h.le⟩
  · right; left; exact ⟨by rw [h]; exact lt_irrefl _, h, by rw [h]; exact lt_irrefl _⟩
  · right; right; exact ⟨not_lt.mpr h.le, ne_of_gt h, h⟩

/-- units of one type compare by their scale -/
theorem units_compare_by_scale {u v a b} (h : Linear s.reg u v a b) :
    s.reg.unitEq u v = some (a == b) := unitEq_linear h

/-- … and order by it: `u < v` etc. is the comparison of the scales (positive
scales; a pair from different types raises IncompatibleUnitsError) -/
theorem units_order_by_scale {u v a b} (c : Cmp) (h : Linear s.reg u v a b) (hb : 0 < b) :
    s.unitCmp c u v = .ok (c.eval a b) := by
  unfold QState.unitCmp
  rw [unitFactor_linear h]
  simp only [Except.ok.injEq]
  cases c <;> simp only [Cmp.eval, decide_eq_decide]
  · rw [div_lt_one hb]
  · rw [div_le_one hb]
  · rw [gt_iff_lt, one_lt_div hb]
  · rw [ge_iff_le, one_le_div hb]

theorem units_of_different_types_do_not_compare {u v} (c : Cmp)
    (h : s.reg.unitCls u ≠ s.reg.unitCls v) :
    s.unitCmp c u v = .error .IncompatibleUnitsError := by
  unfold QState.unitCmp RegState.unitFactor
  have : (s.reg.unitCls u != s.reg.unitCls v) = true := by simpa using h
  simp [this]

/-! ### known finding D6: negative scale.  With `a = -1` the order of two
quantities in that unit is the *reverse* of the order of their reference
values; the code compares amounts (`1 < 2`) although `-1 > -2`. -/
theorem cmp_FALSE_for_negative_scale :
    ¬ (∀ (a x y : ℚ), a ≠ 0 → (decide (x < y) = decide (a * x < a * y))) := by
  intro h
  have := h (-1) 1 2 (by norm_num)
  norm_num at this

end QM.Props.C04
