/-
C04 — equality and ordering agree with exact reference values.
Reference value of `x` (unit scale `a`): `a * x.amount`.
-/
import QuantityModel.Proofs.Quantity
import Mathlib.Tactic.FieldSimp
import Mathlib.Tactic.Ring
import Mathlib.Tactic.Linarith
import Mathlib.Tactic.Positivity
namespace QM.Props.C04
open QM QM.QState

variable {s : QState}

/-- `==` is equality of reference values (any non-zero scales) -/
theorem eq_iff_reference_values_equal {x y : Qty} {a b} (h : Linear s.reg y.unit x.unit b a)
    (ha : a ≠ 0) :
    s.qtyEq x y = .ok (decide (a * x.amount = b * y.amount)) := by
  unfold QState.qtyEq
  have hc : (s.reg.unitCls x.unit != s.reg.unitCls y.unit) = false := by simp [h.sameCls]
  simp only [hc, Bool.false_eq_true, ↓reduceIte]
  by_cases huv : x.unit = y.unit
  · have hab : a = b := by
      have := h.ev; rw [huv, h.eu] at this; exact (Option.some.inj this).symm
    subst hab
    simp only [huv, beq_self_eq_true, ↓reduceIte, Except.ok.injEq]
    rw [Bool.eq_iff_iff]; simp only [beq_iff_eq, decide_eq_true_eq]
    constructor
    · intro e; rw [e]
    · intro e; exact mul_left_cancel₀ ha e
  · have : (x.unit == y.unit) = false := by simpa using huv
    simp only [this, Bool.false_eq_true, ↓reduceIte]
    rw [equivAmount_linear h ha]
    simp only [Except.ok.injEq]
    rw [Bool.eq_iff_iff]; simp only [beq_iff_eq, decide_eq_true_eq]
    constructor
    · intro e; rw [e]; field_simp
    · intro e; field_simp; linarith

/-- each of the four order operators returns what it returns on the
reference values — for *positive* scales (the hypothesis the proof forces; the
code accepts units with a negative factor, for which the statement is false:
known finding D6, witness below) -/
theorem cmp_iff_reference_values {x y : Qty} {a b} (c : Cmp) (h : Linear s.reg y.unit x.unit b a)
    (ha : 0 < a) :
    s.qtyCmp c x y = .ok (c.eval (a * x.amount) (b * y.amount)) := by
  unfold QState.qtyCmp
  have hc : (s.reg.unitCls x.unit != s.reg.unitCls y.unit) = false := by simp [h.sameCls]
  simp only [hc, Bool.false_eq_true, ↓reduceIte]
  have key : ∀ e : ℚ, a * e = b * y.amount → c.eval x.amount e = c.eval (a * x.amount) (b * y.amount) := by
    intro e he
    rw [← he]
    cases c <;> simp only [Cmp.eval, decide_eq_decide] <;> constructor <;> intro hh <;> nlinarith
  by_cases huv : x.unit = y.unit
  · have hab : a = b := by
      have := h.ev; rw [huv, h.eu] at this; exact (Option.some.inj this).symm
    subst hab
    simp only [huv, beq_self_eq_true, ↓reduceIte, Except.ok.injEq]
    exact key _ rfl
  · have : (x.unit == y.unit) = false := by simpa using huv
    simp only [this, Bool.false_eq_true, ↓reduceIte]
    rw [equivAmount_linear h (ne_of_gt ha)]
    simp only [Except.ok.injEq]
    apply key; field_simp

/-- consequently: trichotomy, totality and transitivity are those of ℚ -/
theorem trichotomy (ra rb : ℚ) : (ra < rb ∧ ra ≠ rb ∧ ¬ ra > rb) ∨ (¬ ra < rb ∧ ra = rb ∧ ¬ ra > rb)
    ∨ (¬ ra < rb ∧ ra ≠ rb ∧ ra > rb) := by
  rcases lt_trichotomy ra rb with h | h | h
  · left; exact ⟨h, ne_of_lt h, not_lt.mpr h.le⟩
  · right; left; exact ⟨by rw [h]; exact lt_irrefl _, h, by rw [h]; exact lt_irrefl _⟩
  · right; right; exact ⟨not_lt.mpr h.le, ne_of_gt h, h⟩

/-- units of one type compare by their scale -/
theorem units_compare_by_scale {u v a b} (h : Linear s.reg u v a b) :
    s.reg.unitEq u v = some (a == b) := unitEq_linear h

/-- … and order by it: `u < v` etc. is the comparison of the scales (positive
scales; a pair from different types raises IncompatibleUnitsError) -/
theorem units_order_by_scale {u v a b} (c : Cmp) (h : Linear s.reg u v a b) (hb : 0 < b) :
    s.unitCmp c u v = .ok (c.eval a b) := by
  unfold QState.unitCmp
  rw [unitFactor_linear h]
  simp only [Except.ok.injEq]
  cases c <;> simp only [Cmp.eval, decide_eq_decide]
  · rw [div_lt_one hb]
  · rw [div_le_one hb]
  · rw [gt_iff_lt, one_lt_div hb]
  · rw [ge_iff_le, one_le_div hb]

theorem units_of_different_types_do_not_compare {u v} (c : Cmp)
    (h : s.reg.unitCls u ≠ s.reg.unitCls v) :
    s.unitCmp c u v = .error .IncompatibleUnitsError := by
  unfold QState.unitCmp RegState.unitFactor
  have : (s.reg.unitCls u != s.reg.unitCls v) = true := by simpa using h
  simp [this]

/-! ### consequences for the operators themselves: equivalence, total order -/

/-- `x` is a quantity of the type `c` (which has a reference unit) in a unit of positive scale `a` -/
structure InType (s : QState) (c : Nat) (x : Qty) (a : ℚ) : Prop where
  cls : s.reg.unitCls x.unit = c
  hasRef : (s.reg.cls c).refUnit.isSome = true
  scale : (s.reg.unit x.unit).equiv = some a
  pos : 0 < a

theorem InType.linear {c x y a b} (hx : InType s c x a) (hy : InType s c y b) :
    Linear s.reg y.unit x.unit b a :=
  ⟨by rw [hx.cls, hy.cls], by rw [hy.cls]; exact hy.hasRef, hy.scale, hx.scale⟩

/-- the reference value -/
def refVal (x : Qty) (a : ℚ) : ℚ := a * x.amount

theorem eq_is_ref_eq {c x y a b} (hx : InType s c x a) (hy : InType s c y b) :
    s.qtyEq x y = .ok (decide (refVal x a = refVal y b)) :=
  eq_iff_reference_values_equal (hx.linear hy) (ne_of_gt hx.pos)

theorem cmp_is_ref_cmp {c x y a b} (o : Cmp) (hx : InType s c x a) (hy : InType s c y b) :
    s.qtyCmp o x y = .ok (o.eval (refVal x a) (refVal y b)) :=
  cmp_iff_reference_values o (hx.linear hy) hx.pos

/-- **equality is an equivalence relation** on the quantities of one type -/
theorem equality_reflexive {c x a} (hx : InType s c x a) : s.qtyEq x x = .ok true := by
  rw [eq_is_ref_eq hx hx]; simp

theorem equality_symmetric {c x y a b} (hx : InType s c x a) (hy : InType s c y b) :
    s.qtyEq x y = s.qtyEq y x := by
  rw [eq_is_ref_eq hx hy, eq_is_ref_eq hy hx]
  congr 1; rw [Bool.eq_iff_iff]; simp only [decide_eq_true_eq]; exact eq_comm

theorem equality_transitive {c x y z a b d} (hx : InType s c x a) (hy : InType s c y b)
    (hz : InType s c z d) (h1 : s.qtyEq x y = .ok true) (h2 : s.qtyEq y z = .ok true) :
    s.qtyEq x z = .ok true := by
  rw [eq_is_ref_eq hx hy] at h1
  rw [eq_is_ref_eq hy hz] at h2
  rw [eq_is_ref_eq hx hz]
  simp only [Except.ok.injEq, decide_eq_true_eq] at h1 h2 ⊢
  exact h1.trans h2

/-- **exactly one of `<`, `==`, `>` holds** -/
theorem exactly_one_of_lt_eq_gt {c x y a b} (hx : InType s c x a) (hy : InType s c y b) :
    ∃ l e g : Bool, s.qtyCmp .lt x y = .ok l ∧ s.qtyEq x y = .ok e ∧ s.qtyCmp .gt x y = .ok g ∧
      ((l = true ∧ e = false ∧ g = false) ∨ (l = false ∧ e = true ∧ g = false) ∨
       (l = false ∧ e = false ∧ g = true)) := by
  refine ⟨_, _, _, cmp_is_ref_cmp .lt hx hy, eq_is_ref_eq hx hy, cmp_is_ref_cmp .gt hx hy, ?_⟩
  simp only [Cmp.eval, decide_eq_true_eq, decide_eq_false_iff_not]
  rcases lt_trichotomy (refVal x a) (refVal y b) with h | h | h
  · left; exact ⟨h, ne_of_lt h, not_lt.mpr h.le⟩
  · right; left; exact ⟨by rw [h]; exact lt_irrefl _, h, by rw [h]; exact lt_irrefl _⟩
  · right; right; exact ⟨not_lt.mpr h.le, ne_of_gt h, h⟩

/-- **the order is total and transitive, so sorting works**: `<=` is a total
preorder on the quantities of one type, and `<` is its strict part -/
theorem order_total {c x y a b} (hx : InType s c x a) (hy : InType s c y b) :
    s.qtyCmp .le x y = .ok true ∨ s.qtyCmp .le y x = .ok true := by
  rw [cmp_is_ref_cmp .le hx hy, cmp_is_ref_cmp .le hy hx]
  simp only [Cmp.eval, Except.ok.injEq, decide_eq_true_eq]
  exact le_total _ _

theorem order_transitive {c x y z a b d} (o : Cmp) (hx : InType s c x a) (hy : InType s c y b)
    (hz : InType s c z d) (h1 : s.qtyCmp o x y = .ok true) (h2 : s.qtyCmp o y z = .ok true) :
    s.qtyCmp o x z = .ok true := by
  rw [cmp_is_ref_cmp o hx hy] at h1
  rw [cmp_is_ref_cmp o hy hz] at h2
  rw [cmp_is_ref_cmp o hx hz]
  cases o <;> simp only [Cmp.eval, Except.ok.injEq, decide_eq_true_eq] at h1 h2 ⊢
  · exact lt_trans h1 h2
  · exact le_trans h1 h2
  · exact gt_trans h1 h2
  · exact ge_trans h1 h2

theorem lt_is_strict_part_of_le {c x y a b} (hx : InType s c x a) (hy : InType s c y b) :
    s.qtyCmp .lt x y = .ok true ↔
      (s.qtyCmp .le x y = .ok true ∧ s.qtyCmp .le y x = .ok false) := by
  rw [cmp_is_ref_cmp .lt hx hy, cmp_is_ref_cmp .le hx hy, cmp_is_ref_cmp .le hy hx]
  simp only [Cmp.eval, Except.ok.injEq, decide_eq_true_eq, decide_eq_false_iff_not, not_le]
  exact ⟨fun h => ⟨h.le, h⟩, fun h => h.2⟩

/-- `<=` and `>=` agree with `==`: antisymmetry by value -/
theorem le_antisymmetric {c x y a b} (hx : InType s c x a) (hy : InType s c y b)
    (h1 : s.qtyCmp .le x y = .ok true) (h2 : s.qtyCmp .le y x = .ok true) :
    s.qtyEq x y = .ok true := by
  rw [cmp_is_ref_cmp .le hx hy] at h1
  rw [cmp_is_ref_cmp .le hy hx] at h2
  rw [eq_is_ref_eq hx hy]
  simp only [Cmp.eval, Except.ok.injEq, decide_eq_true_eq] at h1 h2 ⊢
  exact le_antisymm h1 h2

/-! ### known finding D6: negative scale.  With `a = -1` the order of two
quantities in that unit is the *reverse* of the order of their reference
values; the code compares amounts (`1 < 2`) although `-1 > -2`. -/
theorem cmp_FALSE_for_negative_scale :
    ¬ (∀ (a x y : ℚ), a ≠ 0 → (decide (x < y) = decide (a * x < a * y))) := by
  intro h
  have := h (-1) 1 2 (by norm_num)
  norm_num at this

end QM.Props.C04
