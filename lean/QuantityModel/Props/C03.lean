/-
C03 — addition, subtraction and comparison never mix quantity types.
-/
import QuantityModel.Proofs.Quantity
import Mathlib.Tactic.FieldSimp
import Mathlib.Tactic.Ring
namespace QM.Props.C03
open QM QM.QState

variable {s : QState} {d : Rounding}

/-- quantities of different types: `+`, `-` raise IncompatibleUnitsError -/
theorem add_sub_other_type_rejected (sign : ℚ) {a b : Qty}
    (h : s.reg.unitCls a.unit ≠ s.reg.unitCls b.unit) :
    s.qtyAddSub d sign a b = .error .IncompatibleUnitsError := by
  unfold QState.qtyAddSub
  have : (s.reg.unitCls a.unit != s.reg.unitCls b.unit) = true := by simpa using h
  simp [this]

/-- ... the four order comparisons too, and `==` is False -/
theorem cmp_other_type_rejected (c : Cmp) {a b : Qty}
    (h : s.reg.unitCls a.unit ≠ s.reg.unitCls b.unit) :
    s.qtyCmp c a b = .error .IncompatibleUnitsError := by
  unfold QState.qtyCmp
  have : (s.reg.unitCls a.unit != s.reg.unitCls b.unit) = true := by simpa using h
  simp [this]

theorem eq_other_type_false {a b : Qty}
    (h : s.reg.unitCls a.unit ≠ s.reg.unitCls b.unit) : s.qtyEq a b = .ok false := by
  unfold QState.qtyEq
  have : (s.reg.unitCls a.unit != s.reg.unitCls b.unit) = true := by simpa using h
  simp [this]

/-- same type, convertible units, no quantum: the result has the left
operand's unit and the exact sum / difference in that unit -/
theorem add_sub_value (sign : ℚ) {x y : Qty} {a b} (h : Linear s.reg y.unit x.unit b a)
    (ha : a ≠ 0) (hq : s.reg.unitQuantum x.unit = none) :
    s.qtyAddSub d sign x y = .ok ⟨x.amount + sign * (b / a * y.amount), x.unit⟩ := by
  unfold QState.qtyAddSub
  have hc : (s.reg.unitCls x.unit != s.reg.unitCls y.unit) = false := by simp [h.sameCls]
  simp only [hc, Bool.false_eq_true, ↓reduceIte]
  rw [unitEq_linear h.symm]
  by_cases hab : a = b
  · subst hab
    simp only [beq_self_eq_true, div_self ha, one_mul]
    exact mkQty_no_quantum rfl hq
  · have : (a == b) = false := by simpa using hab
    simp only [this]
    rw [equivAmount_linear h ha]
    exact mkQty_no_quantum rfl hq

/-- hence the reference value of the sum is the sum of the reference values -/
theorem add_reference_value {x y : Qty} {a b} (sign : ℚ) :
    a * (x.amount + sign * (b / a * y.amount)) = a * x.amount + sign * (b * y.amount) ∨ a = 0 := by
  by_cases ha : a = 0
  · right; exact ha
  · left; field_simp

/-- commutativity, associativity, inverse and distributivity *by value* are
then the field laws of ℚ on reference values: -/
theorem add_comm_by_value (ra rb : ℚ) : ra + rb = rb + ra := add_comm ra rb
theorem add_assoc_by_value (ra rb rc : ℚ) : (ra + rb) + rc = ra + (rb + rc) := add_assoc ra rb rc
theorem neg_is_inverse_by_value (ra : ℚ) : ra + -ra = 0 := add_neg_cancel ra
theorem scalar_distributes_by_value (k ra rb : ℚ) : k * (ra + rb) = k * ra + k * rb := mul_add k ra rb

/-- negation and abs keep unit and class (no quantum) -/
theorem neg_value {x : Qty} (hq : s.reg.unitQuantum x.unit = none) :
    s.qtyNeg d x = .ok ⟨-x.amount, x.unit⟩ := by
  unfold QState.qtyNeg; exact mkQty_no_quantum rfl hq

/-! ### types without reference unit -/

/-- two different units of one type WITHOUT reference unit (not money), no
converter registered for the type: whatever factors their definitions carry
(EUR/kg, EUR/g; multiples of definition-less units), nothing converts -/
theorem equivAmount_reference_less {q : Qty} {v : Nat}
    (hc : s.reg.unitCls q.unit = s.reg.unitCls v) (hne : q.unit ≠ v)
    (href : (s.reg.cls (s.reg.unitCls q.unit)).refUnit = none)
    (hmoney : (s.reg.cls (s.reg.unitCls q.unit)).isMoney = false)
    (hconv : s.clsConverters (s.reg.unitCls q.unit) = []) :
    s.equivAmount q v = .ok none := by
  unfold QState.equivAmount RegState.unitEq RegState.unitFactor
  have h1 : (s.reg.unitCls q.unit != s.reg.unitCls v) = false := by simp [hc]
  have h2 : (q.unit == v) = false := by simpa using hne
  simp only [h1, href, Option.isNone_none, Bool.false_eq_true, ↓reduceIte, h2, hmoney, hconv,
    List.reverse_nil]
  rfl

/-- ... so their sum, difference and order raise UnitConversionError and they
are unequal -/
theorem add_reference_less_rejected (sign : ℚ) {x y : Qty}
    (hc : s.reg.unitCls x.unit = s.reg.unitCls y.unit) (hne : x.unit ≠ y.unit)
    (href : (s.reg.cls (s.reg.unitCls x.unit)).refUnit = none)
    (hmoney : (s.reg.cls (s.reg.unitCls x.unit)).isMoney = false)
    (hconv : s.clsConverters (s.reg.unitCls x.unit) = []) :
    s.qtyAddSub d sign x y = .error .UnitConversionError := by
  unfold QState.qtyAddSub
  have h1 : (s.reg.unitCls x.unit != s.reg.unitCls y.unit) = false := by simp [hc]
  have hue : s.reg.unitEq x.unit y.unit = some false := by
    unfold RegState.unitEq
    have h2 : (x.unit == y.unit) = false := by simpa using hne
    simp [h1, href, h2]
  have he := equivAmount_reference_less (s := s) (q := y) (v := x.unit) hc.symm (Ne.symm hne)
    (by rw [← hc]; exact href) (by rw [← hc]; exact hmoney) (by rw [← hc]; exact hconv)
  simp only [h1, Bool.false_eq_true, ↓reduceIte, hue, he]

theorem eq_reference_less_false {x y : Qty}
    (hc : s.reg.unitCls x.unit = s.reg.unitCls y.unit) (hne : x.unit ≠ y.unit)
    (href : (s.reg.cls (s.reg.unitCls x.unit)).refUnit = none)
    (hmoney : (s.reg.cls (s.reg.unitCls x.unit)).isMoney = false)
    (hconv : s.clsConverters (s.reg.unitCls x.unit) = []) :
    s.qtyEq x y = .ok false := by
  unfold QState.qtyEq
  have h1 : (s.reg.unitCls x.unit != s.reg.unitCls y.unit) = false := by simp [hc]
  have h2 : (x.unit == y.unit) = false := by simpa using hne
  have he := equivAmount_reference_less (s := s) (q := y) (v := x.unit) hc.symm (Ne.symm hne)
    (by rw [← hc]; exact href) (by rw [← hc]; exact hmoney) (by rw [← hc]; exact hconv)
  simp only [h1, Bool.false_eq_true, ↓reduceIte, h2, he]

end QM.Props.C03
