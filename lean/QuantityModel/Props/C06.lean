/-
C06 — allocation conserves the total and deviates by less than one quantum.
Amounts are in the receiver's unit; `quantum` is its unit's quantum.
The receiver is unchanged because the model is pure; the implementation side
of the correspondence check compares amount and unit before and after and
asserts that no portion is the receiver.
-/
import QuantityModel.Proofs.Allocate
import QuantityModel.Proofs.Quantity
namespace QM.Props.C06
open QM

/-- without a quantum every portion is exactly its proportional share and the
remainder is zero -/
theorem no_quantum_exact_shares (d : Rounding) (A : ℚ) (ratios : List ℚ) (disp : Bool)
    (hne : ratios ≠ []) (ht : ratios.sum ≠ 0) :
    allocate d A none ratios disp = .ok (ratios.map (fun r => A * (r / ratios.sum)), 0) := by
  unfold allocate
  have h1 : ratios.isEmpty = false := by simpa using hne
  have hp : allocPortions d A none ratios = ratios.map (fun r => A * (r / ratios.sum)) := by
    simp [allocPortions, toGrid, List.map_map, Function.comp_def]
  have hsum : (ratios.map (fun r => A * (r / ratios.sum))).sum = A := by
    have : (List.map (fun x => A * (x / ratios.sum)) ratios) =
        (List.map (A * ·) (List.map (· / ratios.sum) ratios)) := by simp [List.map_map, Function.comp_def]
    rw [this, sum_map_mul_left, sum_map_div, div_self ht, mul_one]
  simp only [h1, Bool.false_eq_true, ↓reduceIte, ht, hp]
  unfold finishAlloc
  simp [hsum]

/-- the second phase conserves `portions + remainder = A`, with or without
dispersal -/
theorem finish_conserves (A : ℚ) (quantum : Option ℚ) (ratios portions : List ℚ) (disp : Bool)
    (ps : List ℚ) (rem : ℚ) (h : finishAlloc A quantum ratios portions disp = .ok (ps, rem)) :
    ps.sum + rem = A ∧ ps.length = portions.length := by
  unfold finishAlloc at h
  simp only at h
  by_cases hrem : A - portions.sum = 0
  · simp only [hrem, ↓reduceIte, Except.ok.injEq, Prod.mk.injEq] at h
    obtain ⟨rfl, rfl⟩ := h
    exact ⟨by linarith, rfl⟩
  · simp only [hrem, ↓reduceIte] at h
    cases quantum with
    | none => simp at h
    | some q =>
      simp only at h
      cases disp with
      | false =>
        simp only [Bool.false_eq_true, ↓reduceIte, Except.ok.injEq, Prod.mk.injEq] at h
        obtain ⟨rfl, rfl⟩ := h
        exact ⟨by ring, rfl⟩
      | true =>
        simp only [↓reduceIte, Except.ok.injEq] at h
        have hvalid : ∀ e ∈ sortErrs (decide (A - portions.sum < 0)) (allocErrs A ratios portions),
            e.2 < portions.length := by
          intro e he
          rw [sortErrs_mem] at he
          simp only [allocErrs, List.mem_map, List.mem_range] at he
          obtain ⟨i, hi, rfl⟩ := he; exact hi
        obtain ⟨h1, h2⟩ := disperse_conserves (if A - portions.sum < 0 then -q else q) _ portions
          (A - portions.sum) hvalid
        rw [h] at h1 h2
        simp only at h1 h2
        exact ⟨by linarith, h2⟩

/-- conservation: portions plus remainder equal the receiver's amount exactly,
one portion per ratio, with or without dispersal, whatever the mode -/
theorem conservation (d : Rounding) (A : ℚ) (quantum : Option ℚ) (ratios : List ℚ) (disp : Bool)
    (ps : List ℚ) (rem : ℚ) (h : allocate d A quantum ratios disp = .ok (ps, rem)) :
    ps.sum + rem = A ∧ ps.length = ratios.length := by
  unfold allocate at h
  split at h
  · simp at h
  · split at h
    · simp at h
    · obtain ⟨h1, h2⟩ := finish_conserves A quantum ratios _ disp ps rem h
      exact ⟨h1, by rw [h2]; simp [allocPortions]⟩

/-- before dispersal every portion is the grid value of its exact share: a
multiple of the quantum less than one quantum away (at most half a quantum
under the half modes) -/
theorem portion_is_rounded_share (d : Rounding) (q share : ℚ) (hq : q ≠ 0) :
    (∃ k : ℤ, toGrid d (some q) share = k * q) ∧
    |toGrid d (some q) share - share| < |q| ∧
    (d.isHalf = true → |toGrid d (some q) share - share| ≤ |q| / 2) :=
  ⟨⟨_, rfl⟩, toGrid_bound d q share hq⟩

/-- without dispersal the remainder is the sum of the rounding errors: smaller
in magnitude than one quantum per portion (half a quantum under half modes) -/
theorem remainder_bound_without_dispersal (d : Rounding) (q : ℚ) (hq : q ≠ 0) (shares : List ℚ) :
    |shares.sum - (shares.map (toGrid d (some q))).sum| ≤ shares.length * |q| ∧
    (d.isHalf = true →
      |shares.sum - (shares.map (toGrid d (some q))).sum| ≤ shares.length * (|q| / 2)) := by
  induction shares with
  | nil => simp
  | cons s rest ih =>
    have b := toGrid_bound d q s hq
    have e : (s :: rest).sum - ((s :: rest).map (toGrid d (some q))).sum =
        (s - toGrid d (some q) s) + (rest.sum - (rest.map (toGrid d (some q))).sum) := by
      simp; ring
    have hs : |s - toGrid d (some q) s| = |toGrid d (some q) s - s| := abs_sub_comm _ _
    constructor
    · rw [e]
      calc _ ≤ |s - toGrid d (some q) s| + |rest.sum - (rest.map (toGrid d (some q))).sum| :=
            abs_add_le _ _
        _ ≤ |q| + rest.length * |q| := by rw [hs]; linarith [b.1, ih.1]
        _ = ((s :: rest).length : ℚ) * |q| := by simp; ring
    · intro hm
      rw [e]
      calc _ ≤ |s - toGrid d (some q) s| + |rest.sum - (rest.map (toGrid d (some q))).sum| :=
            abs_add_le _ _
        _ ≤ |q| / 2 + rest.length * (|q| / 2) := by rw [hs]; linarith [b.2 hm, ih.2 hm]
        _ = ((s :: rest).length : ℚ) * (|q| / 2) := by simp; ring

theorem sum_multiple_of (q : ℚ) (l : List ℚ) (h : ∀ x ∈ l, ∃ k : ℤ, x = k * q) :
    ∃ K : ℤ, l.sum = K * q := by
  induction l with
  | nil => exact ⟨0, by simp⟩
  | cons x xs ih =>
    obtain ⟨k, hk⟩ := h x (by simp)
    obtain ⟨K, hK⟩ := ih (fun y hy => h y (List.mem_cons_of_mem _ hy))
    exact ⟨k + K, by rw [List.sum_cons, hk, hK]; push_cast; ring⟩

/-- THE RESULT: with a (positive) quantum, a receiver on the grid and the
rounding error dispersed, the remainder is ZERO and every portion is less than
one quantum away from its exact proportional share — for every amount, every
non-empty list of ratios with non-zero total, and every default rounding mode.
(Dispersal lemma: the errors lie in (-q, q) and sum to -remainder, so at least
|remainder/q| of them have the sign that makes moving one quantum keep them
inside (-q, q); the loop walks them in sorted order.) -/
theorem dispersal_zero_remainder_and_one_quantum_bound (d : Rounding) (A q : ℚ) (hq : 0 < q)
    (kA : ℤ) (hA : A = kA * q) (ratios : List ℚ) (hne : ratios ≠ []) (ht : ratios.sum ≠ 0)
    (ps : List ℚ) (rem : ℚ) (h : allocate d A (some q) ratios true = .ok (ps, rem)) :
    rem = 0 ∧ ps.length = ratios.length ∧
    ∀ i, i < ratios.length → |ps.getD i 0 - A * (ratios.getD i 0 / ratios.sum)| < q := by
  unfold allocate at h
  have h1 : ratios.isEmpty = false := by simpa using hne
  simp only [h1, Bool.false_eq_true, ↓reduceIte, ht] at h
  set fr := ratios.map (· / ratios.sum) with hfr
  set P := allocPortions d A (some q) ratios with hP
  have hPlen : P.length = ratios.length := by simp [hP, allocPortions]
  have hfrlen : fr.length = ratios.length := by simp [hfr]
  have hPget : ∀ i, i < ratios.length → P.getD i 0 = toGrid d (some q) (A * fr.getD i 0) := by
    intro i hi
    simp only [hP, allocPortions, ← hfr]
    rw [List.getD_eq_getElem?_getD, List.getD_eq_getElem?_getD, List.getElem?_map]
    have : i < fr.length := by rw [hfrlen]; exact hi
    simp [List.getElem?_eq_getElem this]
  have hfrget : ∀ i, i < ratios.length → fr.getD i 0 = ratios.getD i 0 / ratios.sum := by
    intro i hi
    simp only [hfr]
    rw [List.getD_eq_getElem?_getD, List.getD_eq_getElem?_getD, List.getElem?_map]
    simp [List.getElem?_eq_getElem hi]
  have hbound0 : ∀ i, i < P.length → |P.getD i 0 - A * fr.getD i 0| < q := by
    intro i hi
    rw [hPlen] at hi
    rw [hPget i hi]
    have := (toGrid_bound d q (A * fr.getD i 0) (ne_of_gt hq)).1
    rwa [abs_of_pos hq] at this
  unfold finishAlloc at h
  simp only at h
  by_cases hrem : A - P.sum = 0
  · simp only [hrem, ↓reduceIte, Except.ok.injEq, Prod.mk.injEq] at h
    obtain ⟨rfl, rfl⟩ := h
    refine ⟨rfl, hPlen, ?_⟩
    intro i hi
    rw [← hfrget i hi]
    exact hbound0 i (by rw [hPlen]; exact hi)
  · simp only [hrem, ↓reduceIte, Except.ok.injEq] at h
    -- the remainder is a non-zero whole number of quanta
    have hPmult : ∀ x ∈ P, ∃ k : ℤ, x = k * q := by
      intro x hx
      simp only [hP, allocPortions, List.mem_map] at hx
      obtain ⟨f, _, rfl⟩ := hx
      exact ⟨_, rfl⟩
    obtain ⟨K, hK⟩ := sum_multiple_of q P hPmult
    have hremq : A - P.sum = ((kA - K : ℤ) : ℚ) * q := by rw [hA, hK]; push_cast; ring
    set j := kA - K with hj
    have hj0 : j ≠ 0 := by
      intro h0; apply hrem; rw [hremq, h0]; simp
    set desc := decide (A - P.sum < 0) with hdesc
    have hσq : (if A - P.sum < 0 then -q else q) = sgn desc * q := by
      by_cases hn : A - P.sum < 0 <;> simp [hdesc, sgn, hn]
    have hσ : sgn desc = 1 ∨ sgn desc = -1 := by
      cases desc <;> simp [sgn]
    have hm1 : 1 ≤ j.natAbs := Int.natAbs_pos.mpr hj0
    have hremσ : A - P.sum = sgn desc * ((j.natAbs : ℚ) * q) := by
      rw [hremq]
      by_cases hn : A - P.sum < 0
      · have hjneg : j < 0 := by
          rw [hremq] at hn
          by_contra hc
          have : (0:ℚ) ≤ (j : ℚ) := by exact_mod_cast (not_lt.mp hc)
          nlinarith
        have : ((j.natAbs : ℕ) : ℚ) = -(j : ℚ) := by
          have := Int.ofNat_natAbs_of_nonpos (le_of_lt hjneg)
          have h2 : ((j.natAbs : ℤ) : ℚ) = ((-j : ℤ) : ℚ) := by exact_mod_cast congrArg (Int.cast (R := ℚ)) this
          simpa using h2
        simp only [hdesc, hn, decide_true, sgn, ↓reduceIte, this]; ring
      · have hjpos : 0 < j := by
          rw [hremq] at hn hrem
          by_contra hc
          have hle : (j : ℚ) ≤ 0 := by exact_mod_cast (not_lt.mp hc)
          have : (j : ℚ) * q ≤ 0 := mul_nonpos_of_nonpos_of_nonneg hle hq.le
          rcases lt_or_eq_of_le this with hlt | heq
          · exact hn hlt
          · exact hrem heq
        have : ((j.natAbs : ℕ) : ℚ) = (j : ℚ) := by
          have h3 : ((j.natAbs : ℤ)) = j := Int.natAbs_of_nonneg (le_of_lt hjpos)
          have h4 : (((j.natAbs : ℤ)) : ℚ) = (j : ℚ) := by rw [h3]
          simpa using h4
        simp only [hdesc, hn, decide_false, sgn, Bool.false_eq_true, ↓reduceIte, this, one_mul]
    set R := sortErrs desc (allocErrs A ratios P) with hR
    have hperm : R.Perm (allocErrs A ratios P) := sortErrs_perm desc _
    have hsnd : (allocErrs A ratios P).map Prod.snd = List.range P.length := by
      simp [allocErrs, List.map_map, Function.comp_def]
    have hnodup : (R.map Prod.snd).Nodup := by
      have := (hperm.map Prod.snd).nodup_iff.mpr (by rw [hsnd]; exact List.nodup_range)
      exact this
    set shares := fr.map (A * ·) with hsh
    have hshget : ∀ i, i < P.length → shares.getD i 0 = A * fr.getD i 0 := by
      intro i hi
      rw [hPlen, ← hfrlen] at hi
      simp only [hsh]
      rw [List.getD_eq_getElem?_getD, List.getD_eq_getElem?_getD, List.getElem?_map]
      simp [List.getElem?_eq_getElem hi]
    have hRmem : ∀ x ∈ R, x.2 < P.length ∧ x.1 = P.getD x.2 0 - shares.getD x.2 0 := by
      intro x hx
      have hx' := hperm.mem_iff.mp hx
      simp only [allocErrs, List.mem_map, List.mem_range] at hx'
      obtain ⟨i, hi, rfl⟩ := hx'
      exact ⟨hi, by simp only; rw [hshget i hi, hfr]⟩
    have hsum : (R.map fun x => sgn desc * x.1).sum ≤ -((j.natAbs : ℚ) * q) := by
      have e1 : (R.map fun x => sgn desc * x.1).sum = sgn desc * (R.map Prod.fst).sum := by
        rw [← sum_map_mul_left]; simp [List.map_map, Function.comp_def]
      have e2 : (R.map Prod.fst).sum = P.sum - A := by
        rw [(hperm.map Prod.fst).sum_eq, sum_allocErrs A ratios P ht hPlen]
      have hσ2 : sgn desc * sgn desc = 1 := by rcases hσ with hh | hh <;> rw [hh] <;> norm_num
      rw [e1, e2]
      have : P.sum - A = -(sgn desc * ((j.natAbs : ℚ) * q)) := by rw [← hremσ]; ring
      rw [this]
      have : sgn desc * -(sgn desc * ((j.natAbs : ℚ) * q)) = -((sgn desc * sgn desc) * ((j.natAbs : ℚ) * q)) := by ring
      rw [this, hσ2, one_mul]
    have hbound : ∀ i, i < P.length → |P.getD i 0 - shares.getD i 0| < q := by
      intro i hi; rw [hshget i hi]; exact hbound0 i hi
    obtain ⟨r1, r2, r3⟩ := disperse_spec q (sgn desc) hq hσ shares R P j.natAbs hm1
      (sortErrs_sorted desc _) hnodup hRmem hsum hbound
    rw [hσq, hremσ] at h
    rw [h] at r1 r2 r3
    simp only at r1 r2 r3
    refine ⟨r1, by rw [r2, hPlen], ?_⟩
    intro i hi
    have := r3 i (by rw [hPlen]; exact hi)
    rw [hshget i (by rw [hPlen]; exact hi), hfrget i hi] at this
    exact this

/-- zero total and empty ratio lists are rejected -/
theorem zero_total_rejected (d : Rounding) (A : ℚ) (quantum : Option ℚ) (ratios : List ℚ)
    (disp : Bool) (hne : ratios ≠ []) (ht : ratios.sum = 0) :
    allocate d A quantum ratios disp = .error .ZeroDivisionError := by
  unfold allocate
  have h1 : ratios.isEmpty = false := by simpa using hne
  simp [h1, ht]

/-! Non-vacuity: 7.77 split 1:1:1:1:7 on a grid of 0.01 under HALF_EVEN with
dispersal (the example of a mis-sorted dispersal loop): conserved, remainder 0,
every portion within one quantum of its share. -/
example : allocate .ROUND_HALF_EVEN (777 / 100) (some (1 / 100)) [1, 1, 1, 1, 7] true =
    .ok ([71 / 100, 71 / 100, 71 / 100, 70 / 100, 494 / 100], 0) := by decide +kernel

/-! ### the level of quantities (`allocateQty`, executed by the driver) -/

section Qty
open QM.QState
variable {s : QState}

/-- **`Quantity.allocate` conserves the total**, for number and quantity ratios
alike: portions plus remainder equal the original amount exactly (the portions
are returned in the quantity's own unit and type: `allocateQty` builds amounts
for `a.unit`) -/
theorem allocate_conserves (d : Rounding) (a : Qty) (ratios : List Ratio) (disp : Bool)
    (ps : List ℚ) (rem : ℚ) (h : s.allocateQty d a ratios disp = .ok (ps, rem)) :
    ps.sum + rem = a.amount ∧ ps.length = ratios.length := by
  have := conservation d a.amount _ _ disp ps rem h
  simpa using this

/-- a quantity ratio in a unit of scale `k` of a type with reference unit counts
with its reference value `k · amount`: ratios of one type in DIFFERENT units
are compared by what they are worth (1 kg and 500 g: 2 to 1) -/
theorem quantity_ratio_counts_with_reference_value (x : Qty) (k : ℚ)
    (href : (s.reg.cls (s.reg.unitCls x.unit)).refUnit.isSome = true)
    (hk : (s.reg.unit x.unit).equiv = some k) :
    s.ratioValue (.qty x) = k * x.amount := by
  unfold QState.ratioValue QState.refValue
  simp [href, hk]

theorem number_ratio_counts_as_itself (r : ℚ) : s.ratioValue (.num r) = r := rfl

end Qty

end QM.Props.C06
