/-
C13 — quantize and round follow the requested rounding mode exactly.
Property theorems only (helper lemmas live in Proofs/).  `Gen.*` is the
translation of /repo's `_floordiv_rounded` / `_quantize_fraction`,
regenerated on every run.
-/
import QuantityModel.Proofs.RoundingQ
import QuantityModel.Proofs.Quantity
namespace QM.Props.C13
open QM QM.Gen QM.QState

/-- The generated kernel returns, for every dividend, every non-zero divisor
and every one of the eight modes, an integer meeting the *standard definition*
of that mode on the exact quotient. -/
theorem floordiv_is_standard_mode (x y : ℤ) (m d : Rounding) (hy : y ≠ 0) :
    ∃ r, floordivRounded x y (some m) d = .ok r ∧ RoundSpecQ m ((x : ℚ) / y) r :=
  ⟨_, floordiv_eq_roundQ x y m d hy, roundQ_spec m _⟩

/-- ... and that definition leaves no freedom: ties, signs and all. -/
theorem standard_mode_is_unique (m : Rounding) (v : ℚ) (r₁ r₂ : ℤ)
    (h₁ : RoundSpecQ m v r₁) (h₂ : RoundSpecQ m v r₂) : r₁ = r₂ :=
  RoundSpecQ_unique m v r₁ r₂ h₁ h₂

/-- Without an explicit mode the configured default mode is used. -/
theorem floordiv_default_mode (x y : ℤ) (d : Rounding) :
    floordivRounded x y none d = floordivRounded x y (some d) d :=
  floordiv_none x y d

/-- Division by zero is an error, never a value. -/
theorem floordiv_zero_divisor (x : ℤ) (m : Option Rounding) (d : Rounding) :
    floordivRounded x 0 m d = .error .ZeroDivisionError :=
  floordiv_zero x m d

/-- Fraction path (`_quantize_fraction`): the multiple of `quant` selected by
the mode on the exact ratio. -/
theorem quantize_fraction_eq (a quant : ℚ) (m : Option Rounding) (d : Rounding)
    (hq : quant ≠ 0) :
    quantizeFraction a quant m d = .ok ((roundQ (m.getD d) (a / quant) : ℚ) * quant) := by
  unfold quantizeFraction
  have := floordiv_eq_roundQ' (a / quant).num (a / quant).den m d
    (by exact_mod_cast (a / quant).den_nz)
  simp only [bne_iff_ne, ne_eq, hq, not_false_eq_true, ↓reduceIte, this]
  rw [num_div_den]

/-- Decimal path (`decimalfp.Decimal.quantize` on the internal pair `(v, p)`):
the same function of the value, for quanta of either sign. -/
theorem quantize_decimal_eq (v : ℤ) (p : ℕ) (quant : ℚ) (m : Option Rounding)
    (d : Rounding) (hq : quant ≠ 0) :
    decQuantize v p quant m d =
      .ok ((roundQ (m.getD d) (((v : ℚ) / 10 ^ p) / quant) : ℚ) * quant) := by
  unfold decQuantize
  have hnum : quant.num ≠ 0 := Rat.num_ne_zero.mpr hq
  have hy : (10 ^ p * quant.num : ℤ) ≠ 0 := mul_ne_zero (by positivity) hnum
  rw [floordiv_eq_roundQ' _ _ m d hy]
  simp only
  congr 3
  have hden : (quant.den : ℚ) ≠ 0 := by exact_mod_cast quant.den_nz
  have hnumq : (quant.num : ℚ) ≠ 0 := by exact_mod_cast hnum
  conv_rhs => rw [← Rat.num_div_den quant]
  push_cast
  field_simp

/-- The result does not depend on whether the amount is held as a decimal
`v / 10^p` or as the equal fraction. -/
theorem quantize_representation_independent (v : ℤ) (p : ℕ) (quant : ℚ)
    (m : Option Rounding) (d : Rounding) (hq : quant ≠ 0) :
    decQuantize v p quant m d = quantizeFraction ((v : ℚ) / 10 ^ p) quant m d := by
  rw [quantize_decimal_eq _ _ _ _ _ hq, quantize_fraction_eq _ _ _ _ hq]

/-- The result is an integer multiple of the quantum less than one quantum
away from the amount, at most half a quantum under the half modes. -/
theorem quantize_error_bound (a quant : ℚ) (m : Rounding) (hq : quant ≠ 0) :
    let r := (roundQ m (a / quant) : ℚ) * quant
    |a - r| < |quant| ∧ (m.isHalf = true → |a - r| ≤ |quant| / 2) := by
  intro r
  have e : a - r = (a / quant - roundQ m (a / quant)) * quant := by
    simp only [r]; field_simp
  have hpos : 0 < |quant| := abs_pos.mpr hq
  constructor
  · rw [e, abs_mul]
    calc _ < 1 * |quant| := mul_lt_mul_of_pos_right (roundQ_err_lt_one m _) hpos
      _ = |quant| := one_mul _
  · intro hm
    rw [e, abs_mul]
    calc _ ≤ (1/2) * |quant| := mul_le_mul_of_nonneg_right (roundQ_half m hm _) hpos.le
      _ = |quant| / 2 := by ring

/-- An amount that already is a multiple of the quantum is returned unchanged
by every mode. -/
theorem quantize_exact (k : ℤ) (quant : ℚ) (m : Rounding) (hq : quant ≠ 0) :
    (roundQ m ((k : ℚ) * quant / quant) : ℚ) * quant = k * quant := by
  rw [mul_div_cancel_right₀ _ hq, roundQ_int]

/-- A zero quantum is rejected on both paths. -/
theorem quantize_zero_quantum (a : ℚ) (v : ℤ) (p : ℕ) (m : Option Rounding) (d : Rounding) :
    quantizeFraction a 0 m d = .error .ZeroDivisionError ∧
    decQuantize v p 0 m d = .error .ZeroDivisionError := by
  constructor
  · simp [quantizeFraction]
  · simp [decQuantize, floordiv_zero]

/-! ### the level of quantities: `Quantity.quantize`, `round()` -/

variable {s : QState}

/-- a quantum of another quantity type is rejected with TypeError -/
theorem quantize_other_type_rejected (d : Rounding) (a quant : Qty) (aDec : Option (Int × Nat))
    (m : Option Rounding) (h : s.reg.unitCls quant.unit ≠ s.reg.unitCls a.unit) :
    s.qtyQuantize d a aDec quant m = .error .TypeError := by
  unfold QState.qtyQuantize
  have : (s.reg.unitCls quant.unit != s.reg.unitCls a.unit) = true := by simpa using h
  simp [this]

/-- a type without reference unit cannot be quantized: TypeError -/
theorem quantize_reference_less_rejected (d : Rounding) (a quant : Qty) (aDec : Option (Int × Nat))
    (m : Option Rounding) (hc : s.reg.unitCls quant.unit = s.reg.unitCls a.unit)
    (h : (s.reg.cls (s.reg.unitCls a.unit)).refUnit = none) :
    s.qtyQuantize d a aDec quant m = .error .TypeError := by
  unfold QState.qtyQuantize
  simp [hc, h]

/-- **quantize at the level of quantities**: for a quantity in a unit of scale
`ua` and a quantum in a unit of scale `uq` of the same type (no quantum declared
for the type), the result is — in the called quantity's unit and type — the
integer multiple of the quantum converted to that unit (`uq/ua · quant`)
selected by the requested mode, or by the default mode when none is given, on
the exact ratio; the same for an amount held as the Decimal `v/10^p` and as the
equal Fraction. -/
theorem quantize_in_own_unit (d : Rounding) (a quant : Qty) (aDec : Option (Int × Nat))
    (m : Option Rounding) {uq ua : ℚ} (h : Linear s.reg quant.unit a.unit uq ua) (hua : ua ≠ 0)
    (hnq : uq / ua * quant.amount ≠ 0) (ha : a.amount ≠ 0)
    (hdec : ∀ v p, aDec = some (v, p) → a.amount = (v : ℚ) / 10 ^ p)
    (hnoq : s.reg.unitQuantum a.unit = none) :
    s.qtyQuantize d a aDec quant m =
      .ok ⟨(roundQ (m.getD d) (a.amount / (uq / ua * quant.amount)) : ℚ) * (uq / ua * quant.amount),
           a.unit⟩ := by
  unfold QState.qtyQuantize
  have hc : (s.reg.unitCls quant.unit != s.reg.unitCls a.unit) = false := by simp [h.sameCls]
  have hr : (s.reg.cls (s.reg.unitCls a.unit)).refUnit.isNone = false := by
    have := h.hasRef; rw [h.sameCls] at this
    cases hx : (s.reg.cls (s.reg.unitCls a.unit)).refUnit <;> simp_all
  simp only [hc, hr, Bool.false_eq_true, ↓reduceIte, equivAmount_linear h hua, ha]
  cases aDec with
  | none =>
    simp only [quantize_fraction_eq _ _ _ _ hnq]
    exact mkQty_no_quantum rfl hnoq
  | some vp =>
    obtain ⟨v, p⟩ := vp
    simp only [quantize_decimal_eq _ _ _ _ _ hnq, ← hdec v p rfl]
    exact mkQty_no_quantum rfl hnoq

/-- a zero amount is returned as it is -/
theorem quantize_zero_amount (d : Rounding) (a quant : Qty) (aDec : Option (Int × Nat))
    (m : Option Rounding) {uq ua : ℚ} (h : Linear s.reg quant.unit a.unit uq ua) (hua : ua ≠ 0)
    (ha : a.amount = 0) : s.qtyQuantize d a aDec quant m = .ok a := by
  unfold QState.qtyQuantize
  have hc : (s.reg.unitCls quant.unit != s.reg.unitCls a.unit) = false := by simp [h.sameCls]
  have hr : (s.reg.cls (s.reg.unitCls a.unit)).refUnit.isNone = false := by
    have := h.hasRef; rw [h.sameCls] at this
    cases hx : (s.reg.cls (s.reg.unitCls a.unit)).refUnit <;> simp_all
  simp only [hc, hr, Bool.false_eq_true, ↓reduceIte, equivAmount_linear h hua, ha]

/-- **`round(q, n)`** keeps unit and type and rounds the amount to `n`
decimals: the result is a multiple of `10^-n` less than one such unit from the
amount (`n ≥ 0`; types without quantum) -/
theorem round_keeps_unit_and_rounds (d : Rounding) (a : Qty) (isDec : Bool) (n : ℕ)
    (hnoq : s.reg.unitQuantum a.unit = none) :
    ∃ k : ℤ, s.qtyRound d a isDec n = .ok ⟨(k : ℚ) / 10 ^ n, a.unit⟩ ∧
      |a.amount - (k : ℚ) / 10 ^ n| < 1 / 10 ^ n := by
  unfold QState.qtyRound roundAmount
  simp only [Int.natCast_nonneg, ↓reduceIte, Int.toNat_natCast]
  refine ⟨_, mkQty_no_quantum rfl hnoq, ?_⟩
  set mm := if isDec = true then d else Rounding.ROUND_HALF_EVEN
  have herr := roundQ_err_lt_one mm (a.amount * 10 ^ n)
  have hp : (0 : ℚ) < 10 ^ n := by positivity
  have e : a.amount - (roundQ mm (a.amount * 10 ^ n) : ℚ) / 10 ^ n =
      (a.amount * 10 ^ n - roundQ mm (a.amount * 10 ^ n)) / 10 ^ n := by field_simp
  rw [e, abs_div, abs_of_pos hp]
  exact div_lt_div_of_pos_right herr hp

/-! Non-vacuity: concrete ties under the modes (kernel evaluation). -/
example : floordivRounded 5 2 (some .ROUND_HALF_EVEN) .ROUND_UP = .ok 2 := by decide +kernel
example : floordivRounded 7 2 (some .ROUND_HALF_EVEN) .ROUND_UP = .ok 4 := by decide +kernel
example : floordivRounded (-5) 2 (some .ROUND_HALF_UP) .ROUND_UP = .ok (-3) := by decide +kernel
example : floordivRounded (-5) 2 (some .ROUND_HALF_DOWN) .ROUND_UP = .ok (-2) := by decide +kernel
example : floordivRounded 5 (-2) none .ROUND_05UP = .ok (-2) := by decide +kernel
example : floordivRounded 11 2 none .ROUND_05UP = .ok 6 := by decide +kernel

end QM.Props.C13
