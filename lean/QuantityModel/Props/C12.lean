/-
C12 — converter registration is last-in-first-out and restores prior behaviour.
`Money._converters` is a list of converter identities, most recent last.
-/
import QuantityModel.Model.Money
import Mathlib.Data.List.Basic
namespace QM.Props.C12
open QM

/-- `register_converter` / `__enter__`: the model's `stackPush` (what the driver
executes against the real `Money` class) -/
abbrev push := stackPush

/-- removing the most recently registered converter succeeds and undoes its
registration -/
theorem remove_top (stack : List Nat) (c : Nat) :
    stackRemove (push stack c) c = (stack, .ok ()) := by
  simp [stackRemove, push, stackPush]

/-- a converter other than the most recent one cannot be unregistered: the
attempt raises and changes nothing -/
theorem remove_non_top_rejected (stack : List Nat) (top c : Nat) (h : top ≠ c) :
    stackRemove (push stack top) c = (push stack top, .error .ValueError) := by
  simp [stackRemove, push, stackPush, h]

/-- nothing registered: IndexError, nothing changes -/
theorem remove_from_empty : stackRemove [] c = ([], .error .IndexError) := by
  simp [stackRemove]

/-- conversions consult the most recently registered converter still active -/
theorem top_is_consulted (stack : List Nat) (c : Nat) :
    (push stack c).reverse.head? = some c := by simp [push, stackPush]

/-- programs over the stack: converts (no effect on the stack), and
`with c: body` blocks whose body ends normally or by an exception at any point -/
inductive Prog where
  | skip
  | seq (p q : Prog)
  | convert                       -- any conversion / arithmetic
  | withBlock (c : Nat) (body : Prog)
  | raise                         -- an exception is raised here

/-- run: returns the stack and whether an exception is propagating.
`__exit__` runs on both kinds of exit and does not swallow the exception. -/
def run : Prog → List Nat → List Nat × Bool
  | .skip, s => (s, false)
  | .convert, s => (s, false)
  | .raise, s => (s, true)
  | .seq p q, s =>
    let (s', exc) := run p s
    if exc then (s', true) else run q s'
  | .withBlock c body, s =>
    let (s', exc) := run body (push s c)
    ((stackRemove s' c).1, exc)

/-- for every well-nested program — normal or exceptional exit at any point of
any body — the stack after equals the stack before: conversion behaves as
before the first block was entered -/
theorem with_blocks_restore_stack (p : Prog) (s : List Nat) : (run p s).1 = s := by
  induction p generalizing s with
  | skip => rfl
  | convert => rfl
  | raise => rfl
  | seq p q ihp ihq =>
    simp only [run]
    have hp := ihp s
    cases h : run p s with
    | mk s' exc =>
      rw [h] at hp; simp only at hp; subst hp
      cases exc
      · simpa using ihq s'
      · rfl
  | withBlock c body ih =>
    simp only [run]
    have hb := ih (push s c)
    cases h : run body (push s c) with
    | mk s' exc =>
      rw [h] at hb; simp only at hb; subst hb
      simp [remove_top]

/-- generic (non-money) types: registration is idempotent and removal restores
the previous list (`registerGeneric` / `removeGeneric` are the model functions
the driver executes against `register_converter` / `remove_converter`) -/
theorem register_twice_no_effect (l : List Nat) (c : Nat) :
    registerGeneric (registerGeneric l c) c = registerGeneric l c := by
  unfold registerGeneric
  simp only [List.contains_eq_mem, decide_eq_true_eq]
  by_cases h : c ∈ l <;> simp [h]

theorem remove_restores (l : List Nat) (c : Nat) (h : c ∉ l) :
    removeGeneric (registerGeneric l c) c = some l := by
  unfold registerGeneric removeGeneric
  simp only [List.contains_eq_mem, decide_eq_true_eq, h, ↓reduceIte, List.mem_append,
    List.mem_singleton, or_true, Option.some.injEq]
  rw [List.erase_append_right _ h]; simp

/-- a converter that is not registered cannot be removed: ValueError, nothing changes -/
theorem remove_unregistered_rejected (l : List Nat) (c : Nat) (h : c ∉ l) :
    removeGeneric l c = none := by
  unfold removeGeneric
  simp [h]

/-- non-vacuity: nested blocks with an exception in the inner body -/
example : run (.withBlock 1 (.seq .convert (.withBlock 2 (.seq .convert .raise)))) [7] = ([7], true) := by
  decide

end QM.Props.C12
