/-
C14 — table (affine) converters are exact, invertible and mutually consistent.
`Gen.tempTable` is regenerated from predefined.py's `_temp_conv` on every run.
-/
import QuantityModel.Model.Converters
import QuantityModel.Gen.TempTable
import QuantityModel.Proofs.Quantity
import Mathlib.Algebra.Order.Field.Rat
import Mathlib.Tactic.FieldSimp
import Mathlib.Tactic.Ring
namespace QM.Props.C14
open QM

variable {κ : Type} [BEq κ]

/-- a tabulated pair applies exactly `amount * factor + offset` -/
theorem direct_row_applies (rows : List (Row κ)) (u v : κ) (f o a : ℚ)
    (h : rowLookup rows u v = some (f, o)) : tableConvert rows u v a = some (f * a + o) := by
  unfold tableConvert; simp [h]

/-- only the opposite direction tabulated: the exact inverse -/
theorem reverse_row_applies (rows : List (Row κ)) (u v : κ) (f o a : ℚ)
    (h₁ : rowLookup rows u v = none) (h₂ : rowLookup rows v u = some (f, o)) :
    tableConvert rows u v a = some ((a - o) / f) := by
  unfold tableConvert; simp [h₁, h₂]

/-- neither direction tabulated: no answer (→ UnitConversionError) -/
theorem no_row_no_answer (rows : List (Row κ)) (u v : κ) (a : ℚ)
    (h₁ : rowLookup rows u v = none) (h₂ : rowLookup rows v u = none) :
    tableConvert rows u v a = none := by
  unfold tableConvert; simp [h₁, h₂]

/-- list form: the last row for a pair wins -/
theorem last_row_wins [LawfulBEq κ] (rows : List (Row κ)) (r : Row κ) :
    rowLookup (rows ++ [r]) r.src r.dst = some (r.factor, r.offset) := by
  unfold rowLookup; simp

/-- a pair tabulated in ONE direction round-trips identically, for every amount -/
theorem one_direction_round_trip (rows : List (Row κ)) (u v : κ) (f o a : ℚ) (hf : f ≠ 0)
    (h₁ : rowLookup rows u v = some (f, o)) (h₂ : rowLookup rows v u = none) :
    (tableConvert rows u v a).bind (tableConvert rows v u) = some a := by
  rw [direct_row_applies rows u v f o a h₁]
  simp only [Option.bind]
  rw [reverse_row_applies rows v u f o _ h₂ h₁]
  congr 1; field_simp; ring

/-- a pair tabulated in BOTH directions round-trips iff the two rows are
inverse to each other -/
theorem two_direction_round_trip (rows : List (Row κ)) (u v : κ) (f o f' o' a : ℚ)
    (h₁ : rowLookup rows u v = some (f, o)) (h₂ : rowLookup rows v u = some (f', o'))
    (hc : f * f' = 1) (ho : o' = -(o * f')) :
    (tableConvert rows u v a).bind (tableConvert rows v u) = some a := by
  rw [direct_row_applies rows u v f o a h₁]
  simp only [Option.bind]
  rw [direct_row_applies rows v u f' o' _ h₂]
  congr 1; rw [ho]
  have : f' * (f * a + o) + -(o * f') = (f * f') * a := by ring
  rw [this, hc, one_mul]

/-- going through a third unit equals the direct conversion when the three
rows compose -/
theorem via_third_unit (rows : List (Row κ)) (u v w : κ) (f₁ o₁ f₂ o₂ f₃ o₃ a : ℚ)
    (h₁ : rowLookup rows u v = some (f₁, o₁)) (h₂ : rowLookup rows v w = some (f₂, o₂))
    (h₃ : rowLookup rows u w = some (f₃, o₃)) (hf : f₃ = f₂ * f₁) (ho : o₃ = f₂ * o₁ + o₂) :
    (tableConvert rows u v a).bind (tableConvert rows v w) = tableConvert rows u w a := by
  rw [direct_row_applies rows u v f₁ o₁ a h₁, direct_row_applies rows u w f₃ o₃ a h₃]
  simp only [Option.bind]
  rw [direct_row_applies rows v w f₂ o₂ _ h₂, hf, ho]
  congr 1; ring

/-! ### the predefined temperature table -/

def tempRows : List (Row String) :=
  Gen.tempTable.map fun (f, t, k, o) => { src := f, dst := t, factor := k, offset := o }

/-- all six rows are pairwise inverse and compose: hence (by the theorems
above) round trips are identical and going through a third unit equals the
direct conversion for ALL amounts -/
theorem temperature_table_consistent :
    inverseConsistent tempRows = true ∧ triangleConsistent tempRows = true ∧
    tempRows.length = 6 := by decide +kernel

/-- every ordered pair of distinct temperature units is tabulated -/
theorem temperature_table_complete :
    (["°C", "°F", "K"].all fun u => ["°C", "°F", "K"].all fun v =>
      u == v || (rowLookup tempRows u v).isSome) = true := by decide +kernel

/-- the defining fixed points -/
theorem temperature_fixed_points :
    tableConvert tempRows "°C" "K" 0 = some (27315 / 100) ∧
    tableConvert tempRows "°C" "°F" 0 = some 32 ∧
    tableConvert tempRows "°C" "°F" (-40) = some (-40) ∧
    tableConvert tempRows "°F" "°C" (-40) = some (-40) ∧
    tableConvert tempRows "K" "°F" 0 = some (-45967 / 100) ∧
    tableConvert tempRows "K" "°C" 0 = some (-27315 / 100) ∧
    tableConvert tempRows "°F" "K" 32 = some (27315 / 100) := by decide +kernel

/-! ### the tie to the quantity model -/

section Tie
open QM.QState

/-- the rows of a registered table converter as `Row`s -/
def toRows (t : ConvTable) : List (Row Nat) :=
  t.rows.map fun r => ⟨r.1.1, r.1.2, r.2.1, r.2.2⟩

theorem lookup_eq_rowLookup_aux (l : List ((Nat × Nat) × (Rat × Rat))) (u v : Nat) :
    ((l.map fun r => (⟨r.1.1, r.1.2, r.2.1, r.2.2⟩ : Row Nat)).find?
        fun r => r.src == u && r.dst == v).map (fun r => (r.factor, r.offset)) = l.lookup (u, v) := by
  induction l with
  | nil => rfl
  | cons x rest ih =>
    obtain ⟨⟨f, t⟩, ⟨k, o⟩⟩ := x
    simp only [List.map_cons, List.find?_cons, List.lookup_cons]
    by_cases h : f = u ∧ t = v
    · obtain ⟨rfl, rfl⟩ := h
      simp
    · have h1 : (f == u && t == v) = false := by
        simp only [Bool.and_eq_false_imp, beq_iff_eq, beq_eq_false_iff_ne, ne_eq]
        intro hf ht; exact h ⟨hf, ht⟩
      have h2 : ((u, v) == (f, t)) = false := by
        simp only [beq_eq_false_iff_ne, ne_eq, Prod.mk.injEq]
        intro ⟨a, b⟩; exact h ⟨a.symm, b.symm⟩
      simp only [h1, h2]
      exact ih

/-- **the table look-up of the quantity model is the `tableConvert` the C14
theorems are about** — so everything proved above (direct / reverse rows, last
row wins, round trips, composition) holds for `Quantity.convert` through a
registered table converter -/
theorem tableLookup_eq_tableConvert (t : ConvTable) (u v : Nat) (a : ℚ) :
    tableLookup t u v a = tableConvert (toRows t) u v a := by
  have key : ∀ x y, rowLookup (toRows t) x y = t.rows.reverse.lookup (x, y) := by
    intro x y
    unfold rowLookup toRows
    rw [← List.map_reverse]
    exact lookup_eq_rowLookup_aux _ x y
  unfold tableLookup tableConvert
  simp only [key]
  cases h1 : t.rows.reverse.lookup (u, v) with
  | some p => obtain ⟨f, o⟩ := p; rfl
  | none =>
    cases h2 : t.rows.reverse.lookup (v, u) with
    | some p => obtain ⟨f, o⟩ := p; rfl
    | none => rfl

/-- `Quantity.convert` in a type without reference unit whose only registered
converter is the table `t`: exactly what the table says, UnitConversionError
where it says nothing -/
theorem convert_through_table {s : QState} {d : Rounding} {q : Qty} {v : Nat} (tid : Nat)
    (hc : s.reg.unitCls q.unit = s.reg.unitCls v) (hne : q.unit ≠ v)
    (href : (s.reg.cls (s.reg.unitCls q.unit)).refUnit = none)
    (hmoney : (s.reg.cls (s.reg.unitCls q.unit)).isMoney = false)
    (hconv : s.clsConverters (s.reg.unitCls q.unit) = [tid])
    (hq : s.reg.unitQuantum v = none) :
    s.convert d q v =
      match tableConvert (toRows (s.tables.getD tid default)) q.unit v q.amount with
      | some a => .ok ⟨a, v⟩
      | none => .error .UnitConversionError := by
  have he : s.equivAmount q v =
      .ok (tableConvert (toRows (s.tables.getD tid default)) q.unit v q.amount) := by
    unfold QState.equivAmount RegState.unitEq RegState.unitFactor
    have h1 : (s.reg.unitCls q.unit != s.reg.unitCls v) = false := by simp [hc]
    have h2 : (q.unit == v) = false := by simpa using hne
    simp only [h1, href, Option.isNone_none, Bool.false_eq_true, ↓reduceIte, h2, hmoney, hconv,
      List.reverse_cons, List.reverse_nil, List.nil_append]
    unfold QState.equivAmount.tryConv QState.applyTable
    simp only [h2, Bool.false_eq_true, ↓reduceIte, hc, beq_self_eq_true, tableLookup_eq_tableConvert]
    cases tableConvert (toRows (s.tables.getD tid default)) q.unit v q.amount with
    | some a => rfl
    | none => unfold QState.equivAmount.tryConv; rfl
  unfold QState.convert
  rw [he]
  cases tableConvert (toRows (s.tables.getD tid default)) q.unit v q.amount with
  | none => rfl
  | some a => simp only; exact mkQty_no_quantum rfl hq

end Tie

end QM.Props.C14
