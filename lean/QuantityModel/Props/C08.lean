/-
C08 — money never mixes currencies implicitly and follows ISO 4217.
`Gen.isoTable` is produced by the translator's own reading of
`money/iso_4217.xml` (not by `currencies.py`); that `currencies.py` reads the
same table is validated exhaustively (all entries, every run) by the
correspondence check.
-/
import QuantityModel.Model.Money
import QuantityModel.Gen.Iso4217
import QuantityModel.Proofs.Quantity
namespace QM.Props.C08
open QM QM.QState

/-- two distinct currencies: units of one reference-less class, no scales -/
structure TwoCurrencies (s : QState) (u v : Nat) : Prop where
  ne : u ≠ v
  sameCls : s.reg.unitCls u = s.reg.unitCls v
  money : (s.reg.cls (s.reg.unitCls u)).isMoney = true
  noRef : (s.reg.cls (s.reg.unitCls u)).refUnit = none
  eu : (s.reg.unit u).equiv = none
  ev : (s.reg.unit v).equiv = none

variable {s : QState}

/-- with no converter active there is no implicit factor between currencies -/
theorem no_implicit_factor {q : Qty} {v} (h : TwoCurrencies s q.unit v) (hstack : s.mstack = []) :
    s.equivAmount q v = .ok none := by
  unfold QState.equivAmount RegState.unitEq RegState.unitFactor
  have h1 : (s.reg.unitCls q.unit != s.reg.unitCls v) = false := by simp [h.sameCls]
  have h2 : (q.unit == v) = false := by simpa using h.ne
  simp [h1, h.eu, h.ev, h2, h.noRef, h.money, hstack]

variable {d : Rounding}

theorem add_sub_mixed_currencies_rejected (sign : ℚ) {a b : Qty}
    (h : TwoCurrencies s b.unit a.unit) (hstack : s.mstack = []) :
    s.qtyAddSub d sign a b = .error .UnitConversionError := by
  unfold QState.qtyAddSub
  have h1 : (s.reg.unitCls a.unit != s.reg.unitCls b.unit) = false := by simp [h.sameCls]
  have h2 : s.reg.unitEq a.unit b.unit = some false := by
    unfold RegState.unitEq
    have : (a.unit == b.unit) = false := by simpa using fun e => h.ne e.symm
    simp [h1, h.eu, h.ev, this]
  simp [h1, h2, no_implicit_factor h hstack]

theorem compare_mixed_currencies_rejected (c : Cmp) {a b : Qty}
    (h : TwoCurrencies s b.unit a.unit) (hstack : s.mstack = []) :
    s.qtyCmp c a b = .error .UnitConversionError := by
  unfold QState.qtyCmp
  have h1 : (s.reg.unitCls a.unit != s.reg.unitCls b.unit) = false := by simp [h.sameCls]
  have h2 : (a.unit == b.unit) = false := by simpa using fun e => h.ne e.symm
  simp [h1, h2, no_implicit_factor h hstack]

theorem equality_mixed_currencies_false {a b : Qty}
    (h : TwoCurrencies s b.unit a.unit) (hstack : s.mstack = []) :
    s.qtyEq a b = .ok false := by
  unfold QState.qtyEq
  have h1 : (s.reg.unitCls a.unit != s.reg.unitCls b.unit) = false := by simp [h.sameCls]
  have h2 : (a.unit == b.unit) = false := by simpa using fun e => h.ne e.symm
  simp [h1, h2, no_implicit_factor h hstack]

theorem convert_mixed_currencies_rejected {q : Qty} {v}
    (h : TwoCurrencies s q.unit v) (hstack : s.mstack = []) :
    s.convert d q v = .error .UnitConversionError := by
  unfold QState.convert; simp [no_implicit_factor h hstack]

theorem divide_mixed_currencies_rejected {a b : Qty}
    (h : TwoCurrencies s b.unit a.unit) (hstack : s.mstack = []) :
    (s.qtyDiv d a b).2 = .error .UnitConversionError := by
  unfold QState.qtyDiv
  have h1 : (s.reg.unitCls a.unit == s.reg.unitCls b.unit) = true := by simp [h.sameCls]
  simp [h1, no_implicit_factor h hstack]

/-- money × money is undefined unless someone declared a unit for money² -/
theorem money_times_money_undefined (u v : Nat)
    (hmiss : s.reg.opCache.lookup (UOp.mul, u, v) = none)
    (hno : s.reg.amntAndUnit (mkTerm s.reg.unitEnv [(.atom u, 1), (.atom v, 1)]) = none) :
    (s.mulUnits u v).2 = .error .UndefinedResultError := by
  unfold QState.mulUnits; simp [hmiss, hno]

/-! ### registration against ANY table -/

variable (table : List (String × String × Nat))

/-- an unknown code is rejected and nothing changes -/
theorem unknown_code_rejected (r : RegState) (mc : Nat) (code : String)
    (h1 : ((r.cls mc).units.find? fun u => (r.unit u).symbol == code) = none)
    (h2 : (table.find? fun e => e.1 == code) = none) :
    r.registerCurrency mc table code = (r, .error .valueError) := by
  unfold RegState.registerCurrency; simp [h1, h2]

/-- registering a currency that is already registered returns the same unit
and leaves the state unchanged (idempotent) -/
theorem registration_idempotent (r : RegState) (mc : Nat) (code : String) (u : Nat)
    (h : ((r.cls mc).units.find? fun u => (r.unit u).symbol == code) = some u) :
    r.registerCurrency mc table code = (r, .ok u) := by
  unfold RegState.registerCurrency; simp [h]

/-- a first registration declares the currency with the table's minor units:
smallest fraction = 10^-minor (the quantum every amount is rounded to, C05) -/
theorem first_registration_uses_table (r : RegState) (mc : Nat) (code name : String) (minor : Nat)
    (h1 : ((r.cls mc).units.find? fun u => (r.unit u).symbol == code) = none)
    (h2 : (table.find? fun e => e.1 == code) = some (code, name, minor)) :
    r.registerCurrency mc table code = r.newCurrency mc (some code) (.int minor) .none := by
  unfold RegState.registerCurrency; simp [h1, h2]

theorem new_currency_fraction (r r' : RegState) (mc : Nat) (code : String) (minor : Nat) (uid : Nat)
    (h : r.newCurrency mc (some code) (.int minor) .none = (r', .ok uid))
    (hlt : uid < r'.units.length) :
    (r'.unit uid).smallestFraction = some (1 / (10 : Rat) ^ minor) := by
  unfold RegState.newCurrency at h
  have hn : ¬ ((minor : Int) < 0) := by omega
  simp only [hn, ↓reduceIte, Int.toNat_natCast] at h
  unfold finishCurrency at h
  split at h
  · simp at h
  · rename_i s' uid' hnu
    simp only [Prod.mk.injEq, Except.ok.injEq] at h
    obtain ⟨rfl, rfl⟩ := h
    simp only [List.length_modify] at hlt
    simp [RegState.unit, List.getD_eq_getElem?_getD, List.getElem?_modify, hlt]

/-- a currency declared with a smallest fraction — alone or together with a
minor unit — and accepted has exactly THAT smallest fraction (also when it is
not a power of ten: 0.05, 0.25); it is the quantum every amount in that
currency is rounded to (`C05.currency_quantum_is_smallest_fraction`) -/
theorem given_smallest_fraction_is_kept (r r' : RegState) (mc : Nat) (sym : Option String)
    (mi : MinorArg) (v : ℚ) (p : Nat) (uid : Nat)
    (h : r.newCurrency mc sym mi (.dec v p) = (r', .ok uid)) (hlt : uid < r'.units.length) :
    (r'.unit uid).smallestFraction = some v ∧ r'.unitQuantum uid = some v := by
  have key : (r'.unit uid).smallestFraction = some v := by
    unfold RegState.newCurrency at h
    have fin : ∀ (x : RegState × Except DeclErr Nat),
        finishCurrency r x v = (r', .ok uid) → (r'.unit uid).smallestFraction = some v := by
      intro x hx
      unfold finishCurrency at hx
      split at hx
      · simp at hx
      · rename_i s' uid' _
        simp only [Prod.mk.injEq, Except.ok.injEq] at hx
        obtain ⟨rfl, rfl⟩ := hx
        simp only [List.length_modify] at hlt
        simp [RegState.unit, List.getD_eq_getElem?_getD, List.getElem?_modify, hlt]
    have fr : ∀ (e : Except DeclErr ℚ) (x : RegState × Except DeclErr Nat),
        (∀ f, e = .ok f → f = v) →
        (match e with
          | .error er => (r, Except.error er)
          | .ok frac => finishCurrency r x frac) = (r', Except.ok uid) →
        (r'.unit uid).smallestFraction = some v := by
      intro e x he hx
      cases e with
      | error er => simp at hx
      | ok f => rw [he f rfl] at hx; exact fin x hx
    split at h
    · simp at h
    · simp only at h
      refine fr _ _ ?_ h
      intro f hf
      repeat' (first
        | (simp at hf; done)
        | (simp only [Except.ok.injEq] at hf; exact hf.symm)
        | split at hf)
  refine ⟨key, ?_⟩
  unfold RegState.unitQuantum; simp [key]

/-! ### the bundled table -/

theorem iso_table_facts :
    Gen.isoTable.length = 167 ∧
    (Gen.isoTable.map (·.1)).Nodup ∧
    Gen.isoTable.all (fun e => e.2.2 == 0 || e.2.2 == 2 || e.2.2 == 3 || e.2.2 == 4) = true ∧
    Gen.isoTable.all (fun e => e.1.length == 3) = true := by
  refine ⟨by decide +kernel, by decide +kernel, by decide +kernel, by decide +kernel⟩

theorem iso_table_samples :
    (Gen.isoTable.find? fun e => e.1 == "EUR") = some ("EUR", "Euro", 2) ∧
    (Gen.isoTable.find? fun e => e.1 == "JPY") = some ("JPY", "Yen", 0) ∧
    (Gen.isoTable.find? fun e => e.1 == "BHD") = some ("BHD", "Bahraini Dinar", 3) ∧
    (Gen.isoTable.find? fun e => e.1 == "CLF") = some ("CLF", "Unidad de Fomento", 4) := by
  decide +kernel

/-! ### user currencies: the validation table of `MoneyMeta.new_unit` -/

theorem negative_minor_unit_rejected (r : RegState) (mc : Nat) (sym : Option String) (n : Int)
    (h : n < 0) (sf : SfArg) : r.newCurrency mc sym (.int n) sf = (r, .error .valueError) := by
  unfold RegState.newCurrency; simp [h]

theorem non_integral_minor_unit_rejected (r : RegState) (mc : Nat) (sym : Option String)
    (sf : SfArg) : r.newCurrency mc sym .nonInt sf = (r, .error .typeError) := by
  unfold RegState.newCurrency; simp

theorem fraction_not_fitting_minor_unit_rejected (r : RegState) (mc : Nat) (sym : Option String)
    (n : Int) (hn : 0 ≤ n) (v : Rat) (p : Nat) (h : n ≠ p) :
    r.newCurrency mc sym (.int n) (.dec v p) = (r, .error .valueError) := by
  unfold RegState.newCurrency
  have : ¬ n < 0 := by omega
  simp [this, h]

/-- a rejected currency declaration leaves no trace (C16 for currencies) -/
def NoTrace (s : RegState) (r : RegState × Except DeclErr Nat) : Prop :=
  ∀ e, r.2 = .error e → r.1 = s

private theorem noTrace_err (s : RegState) (e : DeclErr) : NoTrace s (s, .error e) := fun _ _ => rfl
private theorem noTrace_finish (s : RegState) (r frac) : NoTrace s (finishCurrency s r frac) := by
  unfold finishCurrency
  obtain ⟨s', x⟩ := r
  cases x with
  | error e => exact noTrace_err _ _
  | ok u => intro e h; simp at h

theorem rejected_currency_no_trace (r : RegState) (mc : Nat) (sym : Option String)
    (mi : MinorArg) (sf : SfArg) : NoTrace r (r.newCurrency mc sym mi sf) := by
  unfold RegState.newCurrency
  repeat' (first | exact noTrace_err _ _ | exact noTrace_finish _ _ _ | split | dsimp only)

end QM.Props.C08
