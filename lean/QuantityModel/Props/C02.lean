/-
C02 — products, quotients and powers respect dimensions and scales.

Values are taken under every admissible valuation `ν` of the units (a unit is
worth what its normalised definition denotes, convertible units are related by
their factor; C07).  Since `ν` ranges over all such valuations, "same value"
is "same factor and same exponent for every base unit": dimension and scale in
one statement, uniformly for types with and without reference unit.
`TermMapSound` is the directory invariant (entries keyed by the unit's own
normalised definition), `CacheSound` the cache invariant (C17).
-/
import QuantityModel.Proofs.UnitOps
import QuantityModel.Proofs.Invariants
import QuantityModel.Proofs.Quantity
import QuantityModel.Proofs.RegistryTerm
import QuantityModel.Proofs.Resolve
import QuantityModel.Proofs.RefUnique
namespace QM.Props.C02
open QM QM.QState

variable {s : QState} {ν : Nat → ℚ}

/-- unit × unit: `(f, w)` with `f · w` worth exactly the product; `w = None`
means the dimensions cancel and `f` is the exact plain number -/
theorem unit_product_value (hA : Admissible s.reg ν) (hT : TermMapSound s.reg)
    (hC : CacheSound s.reg ν) (u v : Nat) (f : ℚ) (w : Option Nat)
    (h : (s.mulUnits u v).2 = .ok (f, w)) : f * optVal ν w = ν u * ν v :=
  (mulUnits_sound s ν hA hT hC u v).1 f w h

/-- unit / unit: exactly the quotient -/
theorem unit_quotient_value (hA : Admissible s.reg ν) (hT : TermMapSound s.reg)
    (hC : CacheSound s.reg ν) (u v : Nat)
    (href : s.reg.unitCls u = s.reg.unitCls v →
      (s.reg.cls (s.reg.unitCls u)).refUnit.isSome = true)
    (f : ℚ) (w : Option Nat) (h : (s.divUnits u v).2 = .ok (f, w)) :
    f * optVal ν w = ν u / ν v :=
  (divUnits_sound s ν hA hT hC u v href).1 f w h

/-- resolution of any unit term (also used by `**` and by rate application) -/
theorem resolved_term_value (hA : Admissible s.reg ν) (hT : TermMapSound s.reg)
    (t : Items) (f : ℚ) (w : Option Nat) (h : s.reg.amntAndUnit t = some (f, w)) :
    f * optVal ν w = den ν t :=
  amntAndUnit_sound s.reg ν hA hT t f w h

/-- the product of units is undefined exactly when the directory has no unit
for the normalised result term nor for that term without its numeric factor
(for types with reference unit: no declared type has the combined dimension,
because a type's reference unit is registered under the product of the base
reference units — C15/C20) -/
theorem unit_product_undefined_iff (u v : Nat)
    (hmiss : s.reg.opCache.lookup (UOp.mul, u, v) = none) :
    (s.mulUnits u v).2 = .error .UndefinedResultError ↔
      s.reg.amntAndUnit (mkTerm s.reg.unitEnv [(.atom u, 1), (.atom v, 1)]) = none := by
  unfold QState.mulUnits
  simp only [hmiss]
  cases h : s.reg.amntAndUnit (mkTerm s.reg.unitEnv [(.atom u, 1), (.atom v, 1)]) <;> simp

/-- no other error is possible for unit × unit -/
theorem unit_product_only_undefined (u v : Nat) (e : Err)
    (h : (s.mulUnits u v).2 = .error e) : e = .UndefinedResultError := by
  unfold QState.mulUnits at h
  split at h
  · simp at h
  · simp only at h
    split at h
    · simp only [Except.error.injEq] at h; exact h.symm
    · simp at h

/-- quantity × quantity: the amount is `a · b · f`, constructed once in the
resolved unit; when the dimensions cancel the plain exact number is returned -/
theorem quantity_product (d : Rounding) (a b : Qty) (f : ℚ) (w : Option Nat)
    (h : (s.mulUnits a.unit b.unit).2 = .ok (f, w)) :
    (s.qtyMul d a b).2 = (s.mulUnits a.unit b.unit).1.numTimesUnit d (a.amount * b.amount * f) w := by
  unfold QState.qtyMul
  generalize hm : s.mulUnits a.unit b.unit = r at h ⊢
  obtain ⟨s', x⟩ := r
  simp only at h; subst h; rfl

theorem cancelling_product_is_plain_number (d : Rounding) (a : ℚ) :
    s.numTimesUnit d a none = .ok (.num a) := rfl

/-- multiplying / dividing by a plain number scales the amount and keeps unit
and type (no quantum) -/
theorem number_scales_amount (d : Rounding) (x : Qty) (k : ℚ)
    (hq : s.reg.unitQuantum x.unit = none) :
    s.qtyScale d x k = .ok (.qty ⟨x.amount * k, x.unit⟩) ∧
    (k ≠ 0 → s.qtyDivNum d x k = .ok (.qty ⟨x.amount / k, x.unit⟩)) := by
  constructor
  · unfold QState.qtyScale; rw [mkQty_no_quantum rfl hq]; rfl
  · intro hk; unfold QState.qtyDivNum; simp only [hk, ↓reduceIte]; rw [mkQty_no_quantum rfl hq]; rfl

/-- same-type division returns the plain exact ratio of reference values -/
theorem same_type_quotient_is_plain_ratio (d : Rounding) (x y : Qty) {a b : ℚ}
    (h : Linear s.reg y.unit x.unit b a) (ha : a ≠ 0) (hy : b / a * y.amount ≠ 0) :
    (s.qtyDiv d x y).2 = .ok (.num (x.amount / (b / a * y.amount))) := by
  unfold QState.qtyDiv
  have hc : (s.reg.unitCls x.unit == s.reg.unitCls y.unit) = true := by simp [h.sameCls]
  simp only [hc, ↓reduceIte]
  rw [equivAmount_linear h ha]
  simp [hy]

/-- `unit ** 0` is the number one, `unit ** 1` the unit itself -/
theorem unit_pow_zero_one (d : Rounding) (u : Nat) :
    s.powUnit d u 0 = .ok (.num 1) ∧
    s.powUnit d u 1 = (s.reg.mkQty d (some (s.reg.unitCls u)) 1 u).map Val.qty := by
  constructor <;> simp [QState.powUnit]

/-- **The resolution of a unit term is a function of what the term denotes.**
Two terms with the same normal form resolve to the same `(factor, unit)` or
both to "undefined" ... -/
theorem resolution_depends_on_normal_form (r : RegState) (t₁ t₂ : Items)
    (h : termNormalized r.unitEnv t₁ = termNormalized r.unitEnv t₂) :
    r.amntAndUnit t₁ = r.amntAndUnit t₂ := by
  unfold RegState.amntAndUnit RegState.unitFromTerm
  have he : ∀ x, termEq r.unitEnv x t₁ = termEq r.unitEnv x t₂ := by
    intro x; unfold termEq; rw [h]
  simp only [he, h]

/-- ... hence, by C07's equivalence, two (constructed) terms that denote the
same rational factor and the same exponent for every base unit — `km·h` and
`h·km`, `m/s` written either way, a product of three units bracketed either
way — get the same result type, unit and factor, or are both undefined:
whether a product is defined depends on its dimension and scale only. -/
theorem resolution_depends_on_denotation (r : RegState)
    (hd : DefsBaseOnly r.unitEnv) (hnc : BaseNoConv r.unitEnv) (t₁ t₂ : Items)
    (hsep : KeysSeparate r.unitEnv t₁ t₂) (h₁ : Clean t₁) (h₂ : Clean t₂)
    (hn : numVal (expanded r.unitEnv t₁) = numVal (expanded r.unitEnv t₂))
    (he : ∀ a, expOf a (expanded r.unitEnv t₁) = expOf a (expanded r.unitEnv t₂)) :
    r.amntAndUnit t₁ = r.amntAndUnit t₂ := by
  apply resolution_depends_on_normal_form
  have hk := keysNonneg_unitEnv r
  have := (termEq_iff r.unitEnv hk hd hnc t₁ t₂ hsep h₁ h₂).mpr ⟨hn, he⟩
  unfold termEq at this
  simpa using this

/-- **Completeness: a product is defined whenever a type of the combined
dimension is declared.**  `K` is the key under which some unit `w` is
registered in the term directory — for a type with reference unit, the
normalised definition of its reference unit: the product of the base types'
reference units, with factor 1 — and it carries exactly the exponents the term
`t` (e.g. `u·v`, `u/v`, `u^n`) denotes.  Then the resolution of `t` does not
fail, whatever numeric factor `t` carries.  (`K` is a normal form: `hKnf`.  With a registered unit of that dimension but another factor
only, the second look-up misses: known finding D2.) -/
theorem resolution_complete (r : RegState)
    (hd : DefsBaseOnly r.unitEnv) (hnc : BaseNoConv r.unitEnv)
    (t : Items) (ht : Clean t) (K : Items) (w : Nat) (hK : (K, w) ∈ r.termMap)
    (hKnf : normalizedItems r.unitEnv K = K)
    (hK1 : numVal K = 1) (hsep : KeysSeparate r.unitEnv t K)
    (hexp : ∀ a, expOf a (expanded r.unitEnv t) = expOf a K) :
    r.amntAndUnit t ≠ none :=
  amntAndUnit_complete r hd hnc t ht K w hK hKnf hK1 hsep hexp

/-- the same in every registry reachable by well-formed declarations, for
terms over units that have a scale: no hypothesis on the registry is left
(`BaseNoConv` and the separation of sort keys are theorems there,
Proofs/RefUnique.lean) -/
theorem resolution_complete_reachable (r : RegState) (h : ReachableWF r)
    (t : Items) (ht : Clean t) (K : Items) (w : Nat) (hK : (K, w) ∈ r.termMap)
    (hKnf : normalizedItems r.unitEnv K = K) (hK1 : numVal K = 1)
    (hst : ScaledAtoms r.unitEnv t) (hsK : ScaledAtoms r.unitEnv K)
    (hexp : ∀ a, expOf a (expanded r.unitEnv t) = expOf a K) :
    r.amntAndUnit t ≠ none :=
  amntAndUnit_complete r (defsBaseOnly_of_scaleInv r (reachableWF_scaleInv h))
    (reachable_baseNoConv h.reachable) t ht K w hK hKnf hK1
    (keysSeparate_of_scaled r (reachableWF_scaleInv h) (reachable_refInv h.reachable) t K hst hsK)
    hexp

/-- ... so `unit × unit` raises UndefinedResultError only if no such unit is
registered (with `unit_product_undefined_iff`: exactly then, for types with
reference unit) -/
theorem unit_product_defined_of_registered_dimension (u v : Nat)
    (hmiss : s.reg.opCache.lookup (UOp.mul, u, v) = none)
    (hd : DefsBaseOnly s.reg.unitEnv) (hnc : BaseNoConv s.reg.unitEnv)
    (ht : Clean (mkTerm s.reg.unitEnv [(.atom u, 1), (.atom v, 1)]))
    (K : Items) (w : Nat) (hK : (K, w) ∈ s.reg.termMap)
    (hKnf : normalizedItems s.reg.unitEnv K = K)
    (hK1 : numVal K = 1)
    (hsep : KeysSeparate s.reg.unitEnv (mkTerm s.reg.unitEnv [(.atom u, 1), (.atom v, 1)]) K)
    (hexp : ∀ a, expOf a (expanded s.reg.unitEnv
        (mkTerm s.reg.unitEnv [(.atom u, 1), (.atom v, 1)])) = expOf a K) :
    (s.mulUnits u v).2 ≠ .error .UndefinedResultError := by
  rw [Ne, unit_product_undefined_iff u v hmiss]
  exact amntAndUnit_complete s.reg hd hnc _ ht K w hK hKnf hK1 hsep hexp

/-- the same for EVERY state reachable by declarations (valid or rejected, in
any order) with a fresh operation cache: the directory invariant is not an
assumption but a theorem (`reachable_dirInv`) -/
theorem unit_product_value_reachable (hR : Reachable s.reg) (hcache : s.reg.opCache = [])
    (hA : Admissible s.reg ν) (u v : Nat) (f : ℚ) (w : Option Nat)
    (h : (s.mulUnits u v).2 = .ok (f, w)) : f * optVal ν w = ν u * ν v := by
  have hC : CacheSound s.reg ν := by
    intro op u' v' f' w' hm; rw [hcache] at hm; simp at hm
  exact (mulUnits_sound s ν hA (reachable_dirInv hR).termMapSound hC u v).1 f w h

/-! ### a unit and a plain number -/

section UnitNum
variable {d : Rounding}

/-- **`k * unit` is the quantity `k unit`**, in the unit's own type; rounded once
to the unit's grid if the type has a quantum (the unit stands for itself, not
for a rounded `1 unit`) -/
theorem number_times_unit (u : Nat) (k : ℚ) :
    (s.reg.unitQuantum u = none → s.unitTimesNum d u k = .ok (.qty ⟨k, u⟩)) ∧
    (∀ qu, s.reg.unitQuantum u = some qu → qu ≠ 0 →
      s.unitTimesNum d u k = .ok (.qty ⟨(roundQ d (k / qu) : ℚ) * qu, u⟩)) := by
  constructor
  · intro hq
    unfold QState.unitTimesNum RegState.mkQty RegState.mkQty.go
    simp only [hq]
    rfl
  · intro qu hq hne
    have := mkQty_quantum (s := s.reg) (d := d) (c := s.reg.unitCls u) (a := k) (u := u) rfl hq hne
    unfold QState.unitTimesNum
    unfold RegState.mkQty at this ⊢
    simp only [bne_self_eq_false, Bool.false_eq_true, ↓reduceIte] at this
    simp only [this, Except.map]

/-- `unit / k` is `1/k unit`; `unit / 0` raises ZeroDivisionError -/
theorem unit_div_number (u : Nat) (k : ℚ) :
    (k = 0 → s.unitDivNum d u k = .error .ZeroDivisionError) ∧
    (k ≠ 0 → s.unitDivNum d u k = s.unitTimesNum d u (1 / k)) := by
  constructor <;> intro h <;> unfold QState.unitDivNum <;> simp [h, QState.unitTimesNum]

end UnitNum

end QM.Props.C02
