/-
C17 — results do not depend on evaluation history.

The value of a unit operation is characterised by C02 purely in terms of the
operands (`ν u * ν v`, for every admissible valuation), whatever was evaluated
or declared before; the cache only ever holds sound entries, a hit returns the
stored (sound) entry, failures are never cached.
-/
import QuantityModel.Proofs.UnitOps
import QuantityModel.Proofs.Scale
import QuantityModel.Proofs.History
namespace QM.Props.C17
open QM QM.QState

variable {ν : Nat → ℚ}

/-- the cache invariant is preserved by every unit operation -/
theorem cache_stays_sound_mul (s : QState) (hA : Admissible s.reg ν) (hT : TermMapSound s.reg)
    (hC : CacheSound s.reg ν) (u v : Nat) : CacheSound (s.mulUnits u v).1.reg ν :=
  (mulUnits_sound s ν hA hT hC u v).2

theorem cache_stays_sound_div (s : QState) (hA : Admissible s.reg ν) (hT : TermMapSound s.reg)
    (hC : CacheSound s.reg ν) (u v : Nat)
    (href : s.reg.unitCls u = s.reg.unitCls v →
      (s.reg.cls (s.reg.unitCls u)).refUnit.isSome = true) :
    CacheSound (s.divUnits u v).1.reg ν :=
  (divUnits_sound s ν hA hT hC u v href).2

/-- the empty cache (fresh process) is sound -/
theorem empty_cache_sound (s : RegState) (h : s.opCache = []) : CacheSound s ν := by
  intro op u v f w hm; rw [h] at hm; simp at hm

/-- two histories: whatever states `s₁`, `s₂` they lead to (different caches,
different declaration order), successful results of the same operation have
the same value under every valuation admissible in both -/
theorem value_independent_of_history (s₁ s₂ : QState)
    (hA₁ : Admissible s₁.reg ν) (hT₁ : TermMapSound s₁.reg) (hC₁ : CacheSound s₁.reg ν)
    (hA₂ : Admissible s₂.reg ν) (hT₂ : TermMapSound s₂.reg) (hC₂ : CacheSound s₂.reg ν)
    (u v : Nat) (f₁ f₂ : ℚ) (w₁ w₂ : Option Nat)
    (h₁ : (s₁.mulUnits u v).2 = .ok (f₁, w₁)) (h₂ : (s₂.mulUnits u v).2 = .ok (f₂, w₂)) :
    f₁ * optVal ν w₁ = f₂ * optVal ν w₂ := by
  rw [(mulUnits_sound s₁ ν hA₁ hT₁ hC₁ u v).1 f₁ w₁ h₁,
      (mulUnits_sound s₂ ν hA₂ hT₂ hC₂ u v).1 f₂ w₂ h₂]

/-- repeating an operation returns the identical result (it is now a cache
hit on the entry just stored) -/
theorem repeat_returns_same (s : QState) (u v : Nat) (r : ℚ × Option Nat)
    (h : (s.mulUnits u v).2 = .ok r) :
    ((s.mulUnits u v).1.mulUnits u v).2 = .ok r := by
  unfold QState.mulUnits at h ⊢
  cases hl : s.reg.opCache.lookup (UOp.mul, u, v) with
  | some r' =>
    simp only [hl] at h ⊢
    simp only [Except.ok.injEq] at h; subst h
    simp [hl]
  | none =>
    simp only [hl] at h ⊢
    cases ha : s.reg.amntAndUnit (mkTerm s.reg.unitEnv [(.atom u, 1), (.atom v, 1)]) with
    | none => simp [ha] at h
    | some r' =>
      simp only [ha] at h ⊢
      simp only [Except.ok.injEq] at h; subst h
      have : (s.reg.opCache ++ [((UOp.mul, u, v), r')]).lookup (UOp.mul, u, v) = some r' := by
        rw [List.lookup_append, hl]; simp
      simp [this]

/-- an operation that raised UndefinedResultError is *not* remembered: it is
recomputed against whatever has been declared since (C16: the state after a
failure is the state before) -/
theorem failure_not_cached (s : QState) (u v : Nat) (e : Err)
    (h : (s.mulUnits u v).2 = .error e) : (s.mulUnits u v).1 = s := by
  unfold QState.mulUnits at h ⊢
  split
  · rfl
  · simp only
    split
    · rfl
    · rename_i h1 _ _ h2; simp [h1, h2] at h

/-- in every registry reachable by well-formed declarations (any order, rejected
attempts included) with a sound operation cache, the result of `u * v` is worth
exactly the product of the two stored scales: `f · scale(w) = scale(u) · scale(v)` -/
theorem product_value_is_product_of_scales (s : QState) (hR : ReachableWF s.reg)
    (hC : CacheSound s.reg s.reg.nu) (u v : Nat) (f : ℚ) (w : Option Nat)
    (h : (s.mulUnits u v).2 = .ok (f, w)) :
    f * optVal s.reg.nu w = s.reg.nu u * s.reg.nu v :=
  (mulUnits_sound s s.reg.nu (admissible_nu s.reg (reachableWF_scaleInv hR))
    (reachable_dirInv hR.reachable).termMapSound hC u v).1 f w h

theorem quotient_value_is_quotient_of_scales (s : QState) (hR : ReachableWF s.reg)
    (hC : CacheSound s.reg s.reg.nu) (u v : Nat) (f : ℚ) (w : Option Nat)
    (hlin : s.reg.unitCls u = s.reg.unitCls v → (s.reg.cls (s.reg.unitCls u)).refUnit.isSome = true)
    (h : (s.divUnits u v).2 = .ok (f, w)) :
    f * optVal s.reg.nu w = s.reg.nu u / s.reg.nu v :=
  (divUnits_sound s s.reg.nu (admissible_nu s.reg (reachableWF_scaleInv hR))
    (reachable_dirInv hR.reachable).termMapSound hC u v hlin).1 f w h

/-- **whichever order types and units were declared in**: two registries reached
by ANY two declaration sequences (so the same unit may carry different ids:
`u₁ ↔ u₂`, `v₁ ↔ v₂`), whatever was evaluated before (sound caches): if the
operands have the same scales in both — which their definitions fix (C15:
`scale_of_multiple`, `scale_of_term_definition`, `scale_of_derived_unit`) —
successful products have the same value in reference units -/
theorem value_independent_of_declaration_order (s₁ s₂ : QState)
    (hR₁ : ReachableWF s₁.reg) (hR₂ : ReachableWF s₂.reg)
    (hC₁ : CacheSound s₁.reg s₁.reg.nu) (hC₂ : CacheSound s₂.reg s₂.reg.nu)
    (u₁ v₁ u₂ v₂ : Nat) (hu : s₁.reg.nu u₁ = s₂.reg.nu u₂) (hv : s₁.reg.nu v₁ = s₂.reg.nu v₂)
    (f₁ f₂ : ℚ) (w₁ w₂ : Option Nat)
    (h₁ : (s₁.mulUnits u₁ v₁).2 = .ok (f₁, w₁)) (h₂ : (s₂.mulUnits u₂ v₂).2 = .ok (f₂, w₂)) :
    f₁ * optVal s₁.reg.nu w₁ = f₂ * optVal s₂.reg.nu w₂ := by
  rw [product_value_is_product_of_scales s₁ hR₁ hC₁ u₁ v₁ f₁ w₁ h₁,
      product_value_is_product_of_scales s₂ hR₂ hC₂ u₂ v₂ f₂ w₂ h₂, hu, hv]

/-! ### every history: declarations and operations interleaved in any order

`ReachableQ` (Proofs/History.lean): the states reached from `import quantity`
by any sequence of declarations (well-formed arguments, valid or rejected) and
unit products / quotients.  No hypothesis about the cache is left: it is an
invariant of every such history that cached entries name existing units and
are worth the operation they stand for under the stored scales. -/

/-- whatever was declared and evaluated before, a successful `u * v` is worth
the product of the stored scales of `u` and `v` -/
theorem product_value_after_any_history (s : QState) (h : ReachableQ s) (u v : Nat) (f : ℚ)
    (w : Option Nat) (hr : (s.mulUnits u v).2 = .ok (f, w)) :
    f * optVal s.reg.nu w = s.reg.nu u * s.reg.nu v := by
  have hI := reachableQ_histInv h
  exact (mulUnits_sound s s.reg.nu (admissible_nu s.reg hI.scale) hI.dir.termMapSound hI.sound u v).1
    f w hr

theorem quotient_value_after_any_history (s : QState) (h : ReachableQ s) (u v : Nat) (f : ℚ)
    (w : Option Nat)
    (hlin : s.reg.unitCls u = s.reg.unitCls v → (s.reg.cls (s.reg.unitCls u)).refUnit.isSome = true)
    (hr : (s.divUnits u v).2 = .ok (f, w)) :
    f * optVal s.reg.nu w = s.reg.nu u / s.reg.nu v := by
  have hI := reachableQ_histInv h
  exact (divUnits_sound s s.reg.nu (admissible_nu s.reg hI.scale) hI.dir.termMapSound hI.sound u v
    hlin).1 f w hr

/-- **Results do not depend on evaluation history**: two histories — any
declarations in any order, any operations evaluated in between, in any order —
and an operation on corresponding units (the same scales; the ids may differ):
if it succeeds in both, the two results have the same value in reference
units. -/
theorem results_do_not_depend_on_history (s₁ s₂ : QState) (h₁ : ReachableQ s₁) (h₂ : ReachableQ s₂)
    (u₁ v₁ u₂ v₂ : Nat) (hu : s₁.reg.nu u₁ = s₂.reg.nu u₂) (hv : s₁.reg.nu v₁ = s₂.reg.nu v₂)
    (f₁ f₂ : ℚ) (w₁ w₂ : Option Nat)
    (r₁ : (s₁.mulUnits u₁ v₁).2 = .ok (f₁, w₁)) (r₂ : (s₂.mulUnits u₂ v₂).2 = .ok (f₂, w₂)) :
    f₁ * optVal s₁.reg.nu w₁ = f₂ * optVal s₂.reg.nu w₂ := by
  rw [product_value_after_any_history s₁ h₁ u₁ v₁ f₁ w₁ r₁,
      product_value_after_any_history s₂ h₂ u₂ v₂ f₂ w₂ r₂, hu, hv]

/-- non-vacuity: a history that declares, multiplies, declares again and
divides is a `ReachableQ` history -/
example : ∃ s, ReachableQ s ∧ s.reg.units.length = 2 ∧ s.reg.opCache.length = 1 := by
  let d1 : Decl := .cls { name := "Length", defineAs := none, refUnitSymbol := some "m", quantum := none }
  let d2 : Decl := .newUnit 1 (some "km") (.qty 1000 0)
  have h0 := ReachableQ.init
  have h1 := ReachableQ.decl _ d1 h0 (by simp [d1, Decl.WF])
  have h2 := ReachableQ.decl _ d2 h1 (by
    show (1000 : ℚ) ≠ 0 ∧ 0 < _
    exact ⟨by norm_num, by decide +kernel⟩)
  have h3 := ReachableQ.div _ 1 0 h2 (by decide +kernel) (by decide +kernel) (by decide +kernel)
  exact ⟨_, h3, by decide +kernel, by decide +kernel⟩

end QM.Props.C17
