/-
C11 — the money converter yields the right rate for every update history and
date.  The converter state is the log of accepted entries; a lookup is
"the most recent entry whose key is (period of the date, currency)".
-/
import QuantityModel.Model.Money
import Mathlib.Data.List.Basic
namespace QM.Props.C11
open QM

variable (dflt : Rounding)

/-- `r` is the outcome of an update attempted on `c`: if it was rejected,
what remains is `c` itself -/
def Unchanged (c : MConv) (r : MConv × Except Err Unit) : Prop := ∀ e, r.2 = .error e → r.1 = c

private theorem unchanged_err (c : MConv) (e : Err) : Unchanged c (c, .error e) := fun _ _ => rfl
private theorem unchanged_ok (c c' : MConv) : Unchanged c (c', .ok ()) := fun _ h => by simp at h

/-- a rejected update (invalid period, other kind of validity, any invalid
rate spec) leaves the converter exactly as it was -/
theorem rejected_update_changes_nothing (c : MConv) (v : VSpell) (specs : List RateSpec) :
    Unchanged c (c.update dflt v specs) := by
  unfold MConv.update
  repeat' (first | exact unchanged_err _ _ | exact unchanged_ok _ _ | split | dsimp only)

/-- mixing kinds of validity is rejected -/
theorem mixed_kinds_rejected (c : MConv) (v : VSpell) (specs : List RateSpec) (k : VKind)
    (val : Validity) (hk : c.kind = some k) (hv : parseValidity v = .ok val) (hne : val.kind ≠ k) :
    (c.update dflt v specs).2 = .error .ValueError := by
  unfold MConv.update
  have : ¬ k = val.kind := fun h => hne h.symm
  simp [hv, hk, this]

/-- an accepted update appends rates under the normalised period (one per
spec, in order) and fixes the kind of validity; nothing else changes -/
theorem accepted_update_effect (c : MConv) (v : VSpell) (specs : List RateSpec)
    (h : (c.update dflt v specs).2 = .ok ()) :
    ∃ val rs, parseValidity v = .ok val ∧
      (c.update dflt v specs).1 = { c with kind := some val.kind, rates := c.rates ++ rs } ∧
      specs.mapM (fun sp =>
          (mkRate dflt c.base sp.termCur sp.unitMultiple sp.termAmount).map
            fun r => ((val, sp.termCur), r)) = .ok rs := by
  unfold MConv.update at h ⊢
  cases hv : parseValidity v with
  | error e => simp [hv] at h
  | ok val =>
    simp only [hv] at h ⊢
    split
    · rename_i hk; simp [hk] at h
    · cases hm : specs.mapM fun sp =>
          (mkRate dflt c.base sp.termCur sp.unitMultiple sp.termAmount).map
            fun r => ((val, sp.termCur), r) with
      | error e => rename_i hk; simp [hk, hm] at h
      | ok rs => exact ⟨val, rs, rfl, by simp, hm⟩

theorem reverse_lookup_eq_last_match {κ β} [BEq κ] [LawfulBEq κ] (l : List (κ × β)) (k : κ) :
    l.reverse.lookup k = ((l.filter fun e => e.1 == k).getLast?.map (·.2)) := by
  induction l with
  | nil => rfl
  | cons a l ih =>
    rw [List.reverse_cons, List.lookup_append, ih, List.filter_cons]
    by_cases ha : a.1 = k
    · have h1 : (a.1 == k) = true := by simp [ha]
      have h2 : (k == a.1) = true := by simp [ha]
      simp only [h1, ↓reduceIte, List.getLast?_cons, List.lookup, h2]
      cases (l.filter fun e => e.1 == k).getLast? <;> simp
    · have h1 : (a.1 == k) = false := by simpa using ha
      have h2 : (k == a.1) = false := by simpa using fun h => ha h.symm
      simp only [h1, Bool.false_eq_true, ↓reduceIte, List.lookup, h2]
      cases (l.filter fun e => e.1 == k).getLast? <;> simp

/-- the stored rate for a date is the MOST RECENT entry whose key is the
period containing that date: entries of other periods or other currencies
never influence the result -/
theorem stored_rate_ignores_other_keys (c : MConv) (k : VKind) (hk : c.kind = some k)
    (cur : Nat) (y m d : Int) :
    c.storedRate cur y m d =
      ((c.rates.filter fun e => e.1 == (dateToValidity k y m d, cur)).getLast?.map (·.2)) := by
  unfold MConv.storedRate
  simp only [hk]
  exact reverse_lookup_eq_last_match _ _

/-- last write wins: after an accepted update that carries a spec for `cur`,
the lookup for a date in that period returns a rate built by that update -/
theorem storedRate_after_append (c : MConv) (k : VKind) (key : Validity) (cur : Nat) (r : Rate)
    (y m d : Int) (hkey : dateToValidity k y m d = key) :
    ({ c with kind := some k, rates := c.rates ++ [((key, cur), r)] } : MConv).storedRate cur y m d
      = some r := by
  unfold MConv.storedRate
  simp [hkey, List.lookup]

/-- spellings of one period map to the same key -/
theorem year_spellings_agree :
    parseValidity (.int 2020) = parseValidity (.strParts ["2020"]) := by decide +kernel
theorem month_spellings_agree :
    parseValidity (.tuple 2020 3) = parseValidity (.strParts ["2020", "03"]) := by decide +kernel
theorem day_spellings_agree :
    parseValidity (.date 2020 2 29) = parseValidity (.strParts ["2020", "02", "29"]) := by decide +kernel
theorem invalid_periods_rejected :
    parseValidity (.strParts ["2021", "02", "29"]) = .error .ValueError ∧
    parseValidity (.tuple 2020 13) = .error .ValueError ∧
    parseValidity (.int 0) = .error .ValueError ∧
    parseValidity (.strParts ["2020", "3"]) = .error .ValueError ∧
    parseValidity .other = .error .ValueError := by decide +kernel

/-- the three lookup shapes -/
theorem from_base_is_stored_rate (c : MConv) (t : Nat) (y m d : Int) (h : c.base ≠ t) :
    c.getRate dflt c.base t y m d = .ok (c.storedRate t y m d) := by
  unfold MConv.getRate
  have : (c.base == t) = false := by simpa using h
  simp [this]

theorem towards_base_is_inverted (c : MConv) (u : Nat) (y m d : Int) (h : u ≠ c.base) (r : Rate)
    (hs : c.storedRate u y m d = some r) :
    c.getRate dflt u c.base y m d = (r.inverted dflt).map some := by
  unfold MConv.getRate
  have h1 : (u == c.base) = false := by simpa using h
  have h2 : (c.base == u) = false := by simpa using fun e => h e.symm
  simp [h1, h2, hs]

theorem cross_is_quotient_of_base_rates (c : MConv) (u t : Nat) (y m d : Int)
    (hut : u ≠ t) (hu : c.base ≠ u) (ht : c.base ≠ t) (ur tr : Rate)
    (h1 : c.storedRate u y m d = some ur) (h2 : c.storedRate t y m d = some tr) :
    c.getRate dflt u t y m d = (mkRate dflt u t (.val 1) (taOf (tr.rate / ur.rate))).map some := by
  unfold MConv.getRate
  have e1 : (u == t) = false := by simpa using hut
  have e2 : (c.base == u) = false := by simpa using hu
  have e3 : (c.base == t) = false := by simpa using ht
  simp [e1, e2, e3, h1, h2]

theorem missing_entry_gives_none (c : MConv) (u t : Nat) (y m d : Int)
    (hut : u ≠ t) (hu : c.base ≠ u) (ht : c.base ≠ t)
    (h : c.storedRate u y m d = none ∨ c.storedRate t y m d = none) :
    c.getRate dflt u t y m d = .ok none := by
  unfold MConv.getRate
  have e1 : (u == t) = false := by simpa using hut
  have e2 : (c.base == u) = false := by simpa using hu
  have e3 : (c.base == t) = false := by simpa using ht
  rcases h with h | h
  · simp [e1, e2, e3, h]
  · cases hu' : c.storedRate u y m d <;> simp [e1, e2, e3, h, hu']

/-- calling the converter multiplies the amount by exactly the reported rate -/
theorem call_is_amount_times_rate (c : MConv) (a : Rat) (u t : Nat) (y m d : Int) (r : Rate)
    (h : c.getRate dflt u t y m d = .ok (some r)) : c.call dflt a u t y m d = .ok (r.rate * a) := by
  unfold MConv.call; simp [h]

/-! Known finding D8 (kept visible): "one for a currency and itself" is false
of the code — the lookup builds `ExchangeRate(c, 1, c, 1)`, which is rejected
(identical currencies). -/
theorem same_currency_rate_is_one_FALSE (c : MConv) (u : Nat) (y m d : Int) :
    c.getRate dflt u u y m d = .error .ValueError := by
  unfold MConv.getRate mkRate; simp [Except.map]

end QM.Props.C11
