import QuantityModel.Model.Term
namespace QM.Props.C07
end QM.Props.C07
