/-
C07 — term algebra is an exact commutative group with a canonical form.

`den ν t` is the value a term denotes under a valuation `ν` of its elements.
Quantifying over *all* admissible valuations (no element worth zero,
convertible elements related by their factor, derived elements worth their
definition) is the free-group reading: same rational factor and same exponent
for every base element.  Exactness is by construction: numeric items of the
model are `Rat`; the implementation side of the correspondence check reports
the Python type of every numeric item (a float is an oracle failure).
-/
import QuantityModel.Proofs.Term
import QuantityModel.Proofs.TermNormal
import QuantityModel.Proofs.RegistryTerm
import QuantityModel.Proofs.TermKeep
import QuantityModel.Proofs.RefUnique
namespace QM.Props.C07
open QM

variable (env : Env) (ν : Nat → ℚ) (hν : NonZero ν) (hr : Respects env ν)
  (hd : RespectsDefs env ν)

/-- Item reduction (every `n_items` shortcut, both `keep_item_order` modes)
preserves the denoted value. -/
theorem reduce_preserves_value (hν : NonZero ν) (hr : Respects env ν)
    (items : Items) (n : Option Nat) (keep : Bool) :
    den ν (reduceItems env items n keep) = den ν items :=
  den_reduceItems env ν hν hr items n keep

/-- Normalisation preserves the denoted value. -/
theorem normalize_preserves_value (hν : NonZero ν) (hr : Respects env ν)
    (hd : RespectsDefs env ν) (t : Items) :
    den ν (termNormalized env t) = den ν t :=
  den_termNormalized env ν hν hr hd t

/-- Product, quotient, reciprocal and integer power compute the group
operation; rational scalars act on either side. -/
theorem mul_is_product (hν : NonZero ν) (hr : Respects env ν) (t₁ t₂ : Items) :
    den ν (mulTerm env t₁ t₂) = den ν t₁ * den ν t₂ := by
  unfold mulTerm; rw [den_reduceItems env ν hν hr, den_append]

theorem div_is_quotient (hν : NonZero ν) (hr : Respects env ν) (t₁ t₂ : Items) :
    den ν (divTerm env t₁ t₂) = den ν t₁ / den ν t₂ := by
  unfold divTerm; rw [den_reduceItems env ν hν hr, den_append, den_reciprocal, div_eq_mul_inv]

theorem reciprocal_is_inverse (t : Items) :
    den ν (reciprocalItems t) = (den ν t)⁻¹ := den_reciprocal ν t

theorem pow_is_power (hν : NonZero ν) (hr : Respects env ν) (t : Items) (n : ℤ) :
    den ν (powTerm env t n) = den ν t ^ n := by
  unfold powTerm
  have key : den ν (t.map fun (el, e) => (el, n * e)) = den ν t ^ n := by
    have := den_map_mulExp ν t n
    rw [← this]; congr 1
    apply List.map_congr_left; intro ⟨el, e⟩ _; simp [mul_comm]
  simp only
  split
  · rename_i h
    simp only [List.isEmpty_iff, List.map_eq_nil_iff] at h
    simp [h]
  · rw [den_reduceItems env ν hν hr, key]

theorem scalar_mul (hν : NonZero ν) (hr : Respects env ν) (q : ℚ) (t : Items) :
    den ν (scaleTerm env q t) = q * den ν t := by
  unfold scaleTerm; rw [den_reduceItems env ν hν hr]; simp [evalElem]

theorem scalar_div (hν : NonZero ν) (hr : Respects env ν) (q : ℚ) (t : Items) :
    den ν (divScalar env t q) = den ν t / q := by
  unfold divScalar; rw [den_reduceItems env ν hν hr]; simp [evalElem]; ring

theorem scalar_rdiv (hν : NonZero ν) (hr : Respects env ν) (q : ℚ) (t : Items) :
    den ν (rdivScalar env q t) = q / den ν t := by
  unfold rdivScalar; rw [den_reduceItems env ν hν hr]; simp [evalElem, den_reciprocal]; ring

/-- Equality is sound: terms that compare equal denote the same value under
every admissible valuation. -/
theorem eq_sound (hν : NonZero ν) (hr : Respects env ν) (hd : RespectsDefs env ν)
    (t₁ t₂ : Items) (h : termEq env t₁ t₂ = true) : den ν t₁ = den ν t₂ := by
  unfold termEq at h
  have h' : termNormalized env t₁ = termNormalized env t₂ := by simpa using h
  rw [← den_termNormalized env ν hν hr hd t₁, ← den_termNormalized env ν hν hr hd t₂, h']

/-- Equal terms hash equal (the code hashes the item tuple of the normal form;
Python's `hash` of equal tuples of equal numbers/identical objects is trusted). -/
theorem eq_implies_same_hash_key (t₁ t₂ : Items) (h : termEq env t₁ t₂ = true) :
    termHashKey env t₁ = termHashKey env t₂ := by
  unfold termEq at h; unfold termHashKey; simpa using h

/-- `num_elem` / `split` agree with the denotation. -/
theorem split_agrees (hν : NonZero ν) (hr : Respects env ν) (t : Items) :
    (splitTerm env t).1 * den ν (splitTerm env t).2 = den ν t := by
  unfold splitTerm
  match t with
  | [] => simp [numElem]
  | (.atom a, e) :: rest => simp [numElem]
  | (.num q, e) :: rest =>
    simp only [numElem, List.tail_cons, den_mkTerm env ν hν hr, den_cons, evalElem, rpow_eq_zpow]

/-- The normal form has at most one numeric item: it comes first, has exponent
1 and is not 1; everything after it is non-numeric. -/
theorem normal_form_numeric_part (items : Items) (keep : Bool) :
    (∀ it ∈ (reduceGeneral env items keep).tail, ∃ a, it.1 = Elem.atom a) ∧
    (∀ q e, (reduceGeneral env items keep).head? = some (Elem.num q, e) → e = 1 ∧ q ≠ 1) := by
  unfold reduceGeneral
  simp only
  split
  · rename_i h
    refine ⟨?_, ?_⟩
    · intro it hit
      simp only [List.tail_cons, atomItems, List.mem_map] at hit
      obtain ⟨p, _, rfl⟩ := hit; exact ⟨p.1, rfl⟩
    · intro q e hq
      simp only [List.head?_cons, Option.some.injEq, Prod.mk.injEq, Elem.num.injEq] at hq
      obtain ⟨rfl, rfl⟩ := hq
      exact ⟨rfl, by simpa using h⟩
  · refine ⟨?_, ?_⟩
    · intro it hit
      have := List.mem_of_mem_tail hit
      simp only [atomItems, List.mem_map] at this
      obtain ⟨p, _, rfl⟩ := this; exact ⟨p.1, rfl⟩
    · intro q e hq
      simp only [atomItems, List.head?_map, Option.map_eq_some_iff, Prod.mk.injEq, reduceCtorEq,
        false_and, and_false, exists_false] at hq

/-- **Normalisation is idempotent**: the normal form of a normal form is that
normal form (so the cached `_normalized` of a normal form may point to itself).
Hypotheses: sort keys are not negative (the code reserves -1 for numbers) and
stored normalised definitions mention base elements only; both hold in every
reachable registry (`normalize_idempotent_reachable`). -/
theorem normalize_idempotent (hk : KeysNonneg env) (hdb : DefsBaseOnly env) (t : Items) :
    termNormalized env (termNormalized env t) = termNormalized env t :=
  termNormalized_idem env hk hdb t

/-- **The canonical form**: normalising yields at most one numeric item — in
front, with exponent 1 and ≠ 1 — followed by base elements only, in ascending
order of their sort keys, each at most once, each with a non-zero exponent. -/
theorem normal_form (hk : KeysNonneg env) (hdb : DefsBaseOnly env) (t : Items) :
    ∃ (q : ℚ) (l : List (Nat × Int)),
      normalizedItems env t = (if q != 1 then [(Elem.num q, 1)] else []) ++ atomItems l ∧
      (l.map Prod.fst).Pairwise (fun a b => (env.info a).key ≤ (env.info b).key) ∧
      (l.map Prod.fst).Nodup ∧
      (∀ p ∈ l, p.2 ≠ 0) ∧ (∀ p ∈ l, (env.info p.1).isBase = true) :=
  normalizedItems_shape env hk hdb t

/-- Reducing the items of an already reduced term changes nothing (every
`Term(...)` built from a reduced term's items is that term again). -/
theorem reduce_idempotent (hk : KeysNonneg env) (items : Items) :
    reduceGeneral env (reduceGeneral env items false) false = reduceGeneral env items false :=
  reduceGeneral_idem env hk items

/-- In every registry reachable by well-formed declarations the two hypotheses
hold: unit terms there normalise idempotently and to the canonical form. -/
theorem keys_nonneg_registry (s : RegState) : KeysNonneg s.unitEnv := keysNonneg_unitEnv s

theorem normalize_idempotent_reachable (s : RegState) (h : ReachableWF s) (t : Items) :
    termNormalized s.unitEnv (termNormalized s.unitEnv t) = termNormalized s.unitEnv t :=
  termNormalized_idem _ (keys_nonneg_registry s)
    (defsBaseOnly_of_scaleInv s (reachableWF_scaleInv h)) t

theorem normal_form_reachable (s : RegState) (h : ReachableWF s) (t : Items) :
    ∃ (q : ℚ) (l : List (Nat × Int)),
      normalizedItems s.unitEnv t = (if q != 1 then [(Elem.num q, 1)] else []) ++ atomItems l ∧
      (l.map Prod.fst).Pairwise (fun a b => (s.unitEnv.info a).key ≤ (s.unitEnv.info b).key) ∧
      (l.map Prod.fst).Nodup ∧
      (∀ p ∈ l, p.2 ≠ 0) ∧ (∀ p ∈ l, (s.unitEnv.info p.1).isBase = true) :=
  normalizedItems_shape _ (keys_nonneg_registry s)
    (defsBaseOnly_of_scaleInv s (reachableWF_scaleInv h)) t

/-- Building a term from the items of a (factor-free) normal form gives the same
items again, although `Term.__init__` reduces with `keep_item_order=True`
(keys by first occurrence) while normalisation reduces by sort key. -/
theorem construct_from_normal_form (hk : KeysNonneg env) (l : List (Nat × Int))
    (hl : AtomsNF env l)
    (hnc : ∀ p ∈ l, ∀ q ∈ l, p.1 ≠ q.1 → getFactor env q.1 p.1 = none) :
    mkTerm env (atomItems l) = atomItems l :=
  mkTerm_fixed env hk l hl hnc

/-- **Equal exactly when they denote the same thing.**  `numVal (expanded t)`
is the rational factor of `t` and `expOf a (expanded t)` the exponent of the
base element `a` after every derived element has been replaced by its
definition.  Two constructed terms compare equal iff these agree — provided
distinct base elements are not convertible into each other and no two
distinct base elements occurring in the two terms share a sort key.  The second proviso is exactly what known finding D5 violates (two
units of a type without reference unit share their type's key); where it
holds the statement is an equivalence, not only `eq_sound`. -/
theorem eq_iff_same_factor_and_exponents (hk : KeysNonneg env) (hdb : DefsBaseOnly env)
    (hnc : BaseNoConv env) (t₁ t₂ : Items) (hinj : KeysSeparate env t₁ t₂)
    (h₁ : Clean t₁) (h₂ : Clean t₂) :
    termEq env t₁ t₂ = true ↔
      (numVal (expanded env t₁) = numVal (expanded env t₂) ∧
       ∀ a, expOf a (expanded env t₁) = expOf a (expanded env t₂)) :=
  termEq_iff env hk hdb hnc t₁ t₂ hinj h₁ h₂

/-- the same for normal forms of arbitrary item lists -/
theorem normal_forms_equal_iff (hk : KeysNonneg env) (hdb : DefsBaseOnly env)
    (hnc : BaseNoConv env) (t₁ t₂ : Items) (hinj : KeysSeparate env t₁ t₂) :
    normalizedItems env t₁ = normalizedItems env t₂ ↔
      (numVal (expanded env t₁) = numVal (expanded env t₂) ∧
       ∀ a, expOf a (expanded env t₁) = expOf a (expanded env t₂)) :=
  normalizedItems_eq_iff env hk hdb hnc t₁ t₂ hinj

/-- Reduction (either `keep_item_order` mode) changes neither the factor nor
any exponent of a list of pairwise non-convertible elements. -/
theorem reduce_preserves_factor_and_exponents (hnc : BaseNoConv env) (items : Items)
    (hb : BaseOnly env items) (keep : Bool) :
    numVal (reduceGeneral env items keep) = numVal items ∧
    ∀ a, expOf a (reduceGeneral env items keep) = expOf a items :=
  sem_reduceGeneral env (fun a => (env.info a).isBase = true) hnc items hb keep

/-! ### Known finding D5 (kept visible): completeness of equality fails for
non-convertible elements sharing a sort key.  The *full* statement
"terms are equal exactly when they denote the same value" is false of the code;
`eq_sound` above is the provable half.  Negation witness (two reference-less
base elements 0 and 1 of one class, as two currencies): -/

def d5env : Env := { atoms := [
  { key := 5, group := 0, scale := none, isBase := true, normDef := [] },
  { key := 5, group := 0, scale := none, isBase := true, normDef := [] }] }

theorem eq_complete_FALSE_same_key_order :
    (∀ ν : Nat → ℚ, den ν [(.atom 0, 1), (.atom 1, -1)] = den ν [(.atom 1, -1), (.atom 0, 1)]) ∧
    termEq d5env (mkTerm d5env [(.atom 0, 1), (.atom 1, -1)])
                 (mkTerm d5env [(.atom 1, -1), (.atom 0, 1)]) = false := by
  refine ⟨fun ν => by simp [evalElem, mul_comm], by decide +kernel⟩

/-- In every registry reachable by declarations — valid or rejected, in any
order — two distinct base units are never convertible into each other: a base
unit that carries a scale is the reference unit of its type
(Proofs/RefUnique.lean).  This was a hypothesis of the equivalence above. -/
theorem distinct_base_units_not_convertible_reachable (s : RegState) (h : Reachable s) :
    BaseNoConv s.unitEnv :=
  reachable_baseNoConv h

/-- **The equivalence without any hypothesis on the registry**: in every
registry reachable by well-formed declarations, two terms over units that have
a scale (units of types with reference unit, defined by scaling it) are equal
exactly when they denote the same rational factor and the same exponent for
every base unit.  (`ScaledAtoms` excludes exactly the units known finding D5
is about.) -/
theorem eq_iff_same_factor_and_exponents_reachable (s : RegState) (h : ReachableWF s)
    (t₁ t₂ : Items) (h₁ : ScaledAtoms s.unitEnv t₁) (h₂ : ScaledAtoms s.unitEnv t₂)
    (c₁ : Clean t₁) (c₂ : Clean t₂) :
    termEq s.unitEnv t₁ t₂ = true ↔
      (numVal (expanded s.unitEnv t₁) = numVal (expanded s.unitEnv t₂) ∧
       ∀ a, expOf a (expanded s.unitEnv t₁) = expOf a (expanded s.unitEnv t₂)) :=
  termEq_iff_reachable h t₁ t₂ h₁ h₂ c₁ c₂

/-! Non-vacuity of the reachable form: Length {m, km = 1000 m}, Duration {s},
Velocity = Length / Duration {m/s}, declared through the model of the class
statement and of `new_unit`; `km/s` and `1000 · m/s` meet the hypotheses. -/

def exDecls : List Decl := [
  .cls { name := "Length", defineAs := none, refUnitSymbol := some "m", quantum := none },
  .cls { name := "Duration", defineAs := none, refUnitSymbol := some "s", quantum := none },
  .newUnit 1 (some "km") (.qty 1000 0),
  .cls { name := "Velocity", defineAs := some [(.atom 1, 1), (.atom 2, -1)],
         refUnitSymbol := none, quantum := none }]

def exReg : RegState := exDecls.foldl RegState.applyDecl RegState.init

theorem exReg_reachable : ReachableWF exReg := by
  have h0 := ReachableWF.init
  have h1 := ReachableWF.step _ (exDecls[0]) h0 (by simp [exDecls, Decl.WF])
  have h2 := ReachableWF.step _ (exDecls[1]) h1 (by simp [exDecls, Decl.WF])
  have h3 := ReachableWF.step _ (exDecls[2]) h2 (by
    show (1000 : ℚ) ≠ 0 ∧ 0 < _
    exact ⟨by norm_num, by decide +kernel⟩)
  have h4 := ReachableWF.step _ (exDecls[3]) h3 (by simp [exDecls, Decl.WF])
  exact h4

example : (exReg.units.map (·.symbol)) = ["m", "s", "km", "m/s"] := by decide +kernel
example : ScaledAtoms exReg.unitEnv [(.atom 2, 1), (.atom 1, -1)] ∧
    ScaledAtoms exReg.unitEnv [(.num 1000, 1), (.atom 3, 1)] := by
  unfold ScaledAtoms; decide +kernel
example : termEq exReg.unitEnv [(.atom 2, 1), (.atom 1, -1)] [(.num 1000, 1), (.atom 3, 1)] = true := by
  decide +kernel

/-! ### Non-vacuity: an environment like Length {m, km} / Duration {s} / Velocity {m/s}
with an admissible valuation, and a reduction that converts, merges and folds. -/

def exEnv : Env := { atoms := [
  { key := 2, group := 1, scale := some 1, isBase := true, normDef := [] },                -- m
  { key := 2, group := 1, scale := some 1000, isBase := false,
    normDef := [(.num 1000, 1), (.atom 0, 1)] },                                            -- km
  { key := 3, group := 2, scale := some 1, isBase := true, normDef := [] },                -- s
  { key := 7, group := 3, scale := some 1, isBase := false,
    normDef := [(.atom 0, 1), (.atom 2, -1)] }] }                                           -- m/s

/-- the hypotheses of the equivalence are met by this environment ... -/
theorem exEnv_hypotheses : KeysNonneg exEnv ∧ DefsBaseOnly exEnv ∧ BaseNoConv exEnv := by
  have info : ∀ a, 4 ≤ a → exEnv.info a =
      { key := 1, group := 0, scale := none, isBase := true, normDef := [] } := by
    intro a ha
    unfold Env.info exEnv
    simp only [List.getD_eq_getElem?_getD]
    rw [List.getElem?_eq_none (by simpa using ha)]; rfl
  refine ⟨?_, ?_, ?_⟩
  · intro a
    unfold keyOf
    rcases a with _ | _ | _ | _ | a
    · decide
    · decide
    · decide
    · decide
    · rw [info (a + 4) (by omega)]; decide
  · intro a hb c hc
    rcases a with _ | _ | _ | _ | a
    · simp [exEnv, Env.info] at hb
    · simp only [exEnv, Env.info, List.getD_cons_succ, List.getD_cons_zero, atomsOf,
        List.filterMap_cons, List.filterMap_nil, List.mem_singleton] at hc
      subst hc; rfl
    · simp [exEnv, Env.info] at hb
    · simp only [exEnv, Env.info, List.getD_cons_succ, List.getD_cons_zero, atomsOf,
        List.filterMap_cons, List.filterMap_nil, List.mem_cons, List.not_mem_nil, or_false] at hc
      rcases hc with rfl | rfl <;> rfl
    · rw [info (a + 4) (by omega)] at hb; simp at hb
  · intro x y hx hy hne
    unfold getFactor
    rcases x with _ | _ | _ | _ | x <;> rcases y with _ | _ | _ | _ | y <;>
      first
        | (exfalso; exact hne rfl)
        | (simp [exEnv, Env.info] at hx; done)
        | (simp [exEnv, Env.info] at hy; done)
        | (simp [exEnv, Env.info])

/-- ... and by these two terms (km/h-like and m/s-like: elements 0 = m, 2 = s
with keys 2 and 3), which are equal as the theorem says -/
example : KeysSeparate exEnv [(.atom 1, 1), (.atom 2, -1)] [(.num 1000, 1), (.atom 3, 1)] := by
  have hl : atomsOf (iterNormalized exEnv normFuel [(.atom 1, 1), (.atom 2, -1)]) ++
      atomsOf (iterNormalized exEnv normFuel [(.num 1000, 1), (.atom 3, 1)]) = [0, 2, 0, 2] := by
    decide +kernel
  intro x hx y hy hk
  rw [hl] at hx hy
  simp only [List.mem_cons, List.not_mem_nil, or_false] at hx hy
  have k0 : keyOf exEnv 0 = 2 := by decide +kernel
  have k2 : keyOf exEnv 2 = 3 := by decide +kernel
  rcases hx with rfl | rfl | rfl | rfl <;> rcases hy with rfl | rfl | rfl | rfl <;>
    first | rfl | (rw [k0, k2] at hk; omega)
example : termEq exEnv [(.atom 1, 1), (.atom 2, -1)] [(.num 1000, 1), (.atom 3, 1)] = true := by
  decide +kernel

example : reduceItems exEnv [(.atom 1, 2), (.num 3, 1), (.atom 0, -1), (.atom 2, 0)] none true
    = [(.num 3000, 1), (.atom 1, 1)] := by decide +kernel
example : normalizedItems exEnv [(.atom 3, 2), (.atom 1, -1)]
    = [(.num (1/1000), 1), (.atom 0, 1), (.atom 2, -2)] := by decide +kernel

end QM.Props.C07
