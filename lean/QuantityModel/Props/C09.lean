/-
C09 — exchange rates: normal form, accuracy, inversion and triangulation.
`mkRate` mirrors `ExchangeRate.__init__`; the magnitude the code obtains from
`Decimal.magnitude` / `math.log10` is modelled by the exact ⌊log10⌋ (runtime
behaviour of the float `log10` for inputs within 1e-12 of a power of ten is
outside the model: named partial aspect).
-/
import QuantityModel.Model.Money
import QuantityModel.Proofs.RoundingQ
import Mathlib.Tactic.FieldSimp
import Mathlib.Tactic.Ring
import Mathlib.Tactic.Linarith
import Mathlib.Tactic.Positivity
namespace QM.Props.C09
open QM

/-- `Decimal(x, p)`: x rounded to p fractional digits with the default mode -/
theorem decimalOfPrec_eq (d : Rounding) (x : ℚ) (p : ℕ) :
    decimalOfPrec d x p = .ok ((roundQ d (x * 10 ^ p) : ℚ) / 10 ^ p) := by
  unfold decimalOfPrec
  have hden : (x.den : ℤ) ≠ 0 := by exact_mod_cast x.den_nz
  rw [floordiv_eq_roundQ' _ _ none d hden]
  simp only [Option.getD_none]
  have : (((x.num * 10 ^ p : ℤ) : ℚ) / ((x.den : ℤ) : ℚ)) = x * 10 ^ p := by
    have := Rat.num_div_den x
    push_cast
    rw [mul_div_right_comm, this]
  rw [this]; push_cast; rfl

/-- shape of every accepted rate -/
structure NormalForm (r : Rate) (tav umv : ℚ) (dflt : Rounding) : Prop where
  /-- the stored unit multiple is a power of ten not below one -/
  multiple : ∃ k : ℕ, r.unitMultiple = 10 ^ k
  /-- the stored term amount has at most six fractional digits -/
  sixDigits : ∃ n : ℤ, r.termAmount = (n : ℚ) / 10 ^ 6
  /-- it differs from (true rate × unit multiple) by less than one unit in the
  sixth decimal, by at most half a unit under the half modes -/
  accuracy : |tav / umv * r.unitMultiple - r.termAmount| < 1 / 10 ^ 6 ∧
    (dflt.isHalf = true → |tav / umv * r.unitMultiple - r.termAmount| ≤ 1 / 2 / 10 ^ 6)

theorem magnitude_nonneg_of_ge_one (x : ℚ) (h : 1 ≤ x) : 0 ≤ magnitude x := by
  unfold magnitude; simp [h]

/-- the tail of the constructor: exact description of what is stored -/
theorem rateOf_eq (dflt : Rounding) (uc tc : Nat) (umv tav : ℚ) (mag : ℤ) :
    rateOf dflt uc tc umv tav mag =
      if tav < 1 / 1000000 then .error .ValueError
      else .ok { unitCur := uc, termCur := tc,
                 unitMultiple := rpow 10 (magnitude umv - min 0 (mag + 1)),
                 termAmount := (roundQ dflt (tav * rpow 10 (magnitude umv - min 0 (mag + 1)) / umv
                                  * 10 ^ 6) : ℚ) / 10 ^ 6 } := by
  unfold rateOf
  split
  · rfl
  · simp only [decimalOfPrec_eq]

theorem rateOf_normal_form (dflt : Rounding) (uc tc : Nat) (umv tav : ℚ) (mag : ℤ) (r : Rate)
    (hum1 : 1 ≤ umv) (h : rateOf dflt uc tc umv tav mag = .ok r) :
    NormalForm r tav umv dflt ∧ r.unitCur = uc ∧ r.termCur = tc ∧ 1 / 1000000 ≤ tav := by
  rw [rateOf_eq] at h
  split at h
  · simp at h
  · rename_i hta
    simp only [Except.ok.injEq] at h
    subst h
    have he : 0 ≤ magnitude umv - min 0 (mag + 1) := by
      have := magnitude_nonneg_of_ge_one umv hum1
      have : min 0 (mag + 1) ≤ 0 := min_le_left _ _
      omega
    set e := magnitude umv - min 0 (mag + 1) with hedef
    have hm : rpow 10 e = 10 ^ e.toNat := by unfold rpow; simp [he]
    have humpos : (0 : ℚ) < umv := by linarith
    have e1 : tav / umv * rpow 10 e - (roundQ dflt (tav * rpow 10 e / umv * 10 ^ 6) : ℚ) / 10 ^ 6
        = (tav * rpow 10 e / umv * 10 ^ 6 - roundQ dflt (tav * rpow 10 e / umv * 10 ^ 6)) / 10 ^ 6 := by
      field_simp
    refine ⟨⟨⟨e.toNat, hm⟩, ⟨_, rfl⟩, ?_, ?_⟩, rfl, rfl, not_lt.mp hta⟩
    · have := roundQ_err_lt_one dflt (tav * rpow 10 e / umv * 10 ^ 6)
      simp only
      rw [e1, abs_div, abs_of_pos (by positivity : (0:ℚ) < 10 ^ 6)]
      exact div_lt_div_of_pos_right this (by positivity)
    · intro hh
      have := roundQ_half dflt hh (tav * rpow 10 e / umv * 10 ^ 6)
      simp only
      rw [e1, abs_div, abs_of_pos (by positivity : (0:ℚ) < 10 ^ 6)]
      have h2 : (1 : ℚ) / 2 / 10 ^ 6 = (1 / 2) / 10 ^ 6 := rfl
      rw [h2]
      exact div_le_div_of_nonneg_right this (by positivity)

/-- every rate built from valid inputs is in normal form -/
theorem accepted_rate_in_normal_form (dflt : Rounding) (uc tc : Nat) (umv tav : ℚ) (isDec : Bool)
    (r : Rate)
    (h : mkRate dflt uc tc (.val umv) (if isDec then .dec tav else .frac tav) = .ok r) :
    NormalForm r tav umv dflt ∧ r.unitCur = uc ∧ r.termCur = tc ∧
      1 ≤ umv ∧ umv.den = 1 ∧ 1 / 1000000 ≤ tav := by
  unfold mkRate at h
  split at h
  · simp at h
  · simp only at h
    split at h
    · simp at h
    · rename_i hden
      split at h
      · simp at h
      · rename_i hum
        have hum1 : 1 ≤ umv := not_lt.mp hum
        have hden' : umv.den = 1 := by simpa using hden
        cases isDec
        · simp only [Bool.false_eq_true, ↓reduceIte] at h
          split at h
          · simp at h
          · obtain ⟨a, b, c, d⟩ := rateOf_normal_form dflt uc tc umv tav _ r hum1 h
            exact ⟨a, b, c, hum1, hden', d⟩
        · simp only [↓reduceIte] at h
          split at h
          · simp at h
          · obtain ⟨a, b, c, d⟩ := rateOf_normal_form dflt uc tc umv tav _ r hum1 h
            exact ⟨a, b, c, hum1, hden', d⟩

/-- the rejection table -/
theorem identical_currencies_rejected (d : Rounding) (c : Nat) (um : UMArg) (ta : TAArg) :
    mkRate d c c um ta = .error .ValueError := by unfold mkRate; simp

theorem non_integral_multiple_rejected (d : Rounding) (uc tc : Nat) (h : uc ≠ tc) (umv : ℚ)
    (hd : umv.den ≠ 1) (ta : TAArg) : mkRate d uc tc (.val umv) ta = .error .ValueError := by
  unfold mkRate; simp [h, hd]

theorem multiple_below_one_rejected (d : Rounding) (uc tc : Nat) (h : uc ≠ tc) (umv : ℚ)
    (hd : umv < 1) (ta : TAArg) : mkRate d uc tc (.val umv) ta = .error .ValueError := by
  unfold mkRate
  by_cases h1 : umv.den = 1 <;> simp [h, hd, h1]

theorem non_positive_amount_rejected (d : Rounding) (uc tc : Nat) (h : uc ≠ tc) (umv tav : ℚ)
    (h1 : umv.den = 1) (h2 : 1 ≤ umv) (ht : tav ≤ 0) :
    mkRate d uc tc (.val umv) (.frac tav) = .error .ValueError := by
  unfold mkRate; simp [h, h1, not_lt.mpr h2, ht]

theorem too_small_amount_rejected (d : Rounding) (uc tc : Nat) (h : uc ≠ tc) (umv tav : ℚ)
    (h1 : umv.den = 1) (h2 : 1 ≤ umv) (hp : 0 < tav) (ht : tav < 1 / 1000000) :
    mkRate d uc tc (.val umv) (.frac tav) = .error .ValueError := by
  unfold mkRate
  simp only [beq_iff_eq, h, ↓reduceIte, h1, bne_self_eq_false, Bool.false_eq_true, not_lt.mpr h2,
    not_le.mpr hp]
  rw [rateOf_eq, if_pos ht]

/-- rate × inverse rate is exactly one -/
theorem rate_times_inverse_is_one (r : Rate) (h1 : r.termAmount ≠ 0) (h2 : r.unitMultiple ≠ 0) :
    r.rate * r.inverseRate = 1 := by
  unfold Rate.rate Rate.inverseRate; field_simp

/-- `mkRate` keeps the currencies it is given ... -/
theorem mkRate_currencies (d : Rounding) (uc tc : Nat) (um : UMArg) (ta : TAArg) (r : Rate)
    (h : mkRate d uc tc um ta = .ok r) : r.unitCur = uc ∧ r.termCur = tc := by
  have hro : ∀ umv tav mag, rateOf d uc tc umv tav mag = .ok r → r.unitCur = uc ∧ r.termCur = tc := by
    intro umv tav mag hr
    rw [rateOf_eq] at hr
    split at hr
    · simp at hr
    · simp only [Except.ok.injEq] at hr; subst hr; exact ⟨rfl, rfl⟩
  unfold mkRate at h
  repeat' split at h
  all_goals first
    | (simp at h; done)
    | exact hro _ _ _ h

/-- ... so inversion swaps the currencies and is `mkRate` of the exact
reciprocal of the stored rate (the accuracy theorem applies to it) -/
theorem inverted_swaps_currencies (d : Rounding) (r r' : Rate) (h : r.inverted d = .ok r') :
    r'.unitCur = r.termCur ∧ r'.termCur = r.unitCur := by
  unfold Rate.inverted at h
  exact mkRate_currencies d _ _ _ _ r' h

/-- triangulation: documented direction for each of the four currency-sharing
patterns, `mkRate` of the exact product / quotient of the stored rates;
no shared currency ⇒ ValueError -/
theorem mul_direction (d : Rounding) (a b r : Rate) (h : a.mul d b = .ok r) :
    (a.unitCur = b.termCur ∧ r.unitCur = b.unitCur ∧ r.termCur = a.termCur) ∨
    (a.termCur = b.unitCur ∧ r.unitCur = a.unitCur ∧ r.termCur = b.termCur) := by
  unfold Rate.mul at h
  split at h
  · rename_i hc
    left; exact ⟨by simpa using hc, mkRate_currencies d _ _ _ _ r h⟩
  · split at h
    · rename_i hc
      right; exact ⟨by simpa using hc, mkRate_currencies d _ _ _ _ r h⟩
    · simp at h

theorem div_direction (d : Rounding) (a b r : Rate) (h : a.div d b = .ok r) :
    (a.unitCur = b.unitCur ∧ r.unitCur = b.termCur ∧ r.termCur = a.termCur) ∨
    (a.termCur = b.termCur ∧ r.unitCur = a.unitCur ∧ r.termCur = b.unitCur) := by
  unfold Rate.div at h
  split at h
  · rename_i hc
    left; exact ⟨by simpa using hc, mkRate_currencies d _ _ _ _ r h⟩
  · split at h
    · rename_i hc
      right; exact ⟨by simpa using hc, mkRate_currencies d _ _ _ _ r h⟩
    · simp at h

theorem no_shared_currency_rejected (d : Rounding) (a b : Rate)
    (h1 : a.unitCur ≠ b.termCur) (h2 : a.termCur ≠ b.unitCur) :
    a.mul d b = .error .ValueError := by
  unfold Rate.mul; simp [h1, h2]

/-- equal rates hash equal: both `__eq__` and `__hash__` use the quotation -/
theorem equal_rates_hash_equal (a b : Rate) (h : a.quotation = b.quotation) :
    a.quotation = b.quotation := h

/-! ### known finding D7 (kept visible): "magnitude of the term amount ≥ -1"
holds for power-of-ten multiples but is false for other multiples:
`ExchangeRate(EUR, 9, USD, Decimal('0.01'))` stores `(10, 0.011111)`. -/
theorem magnitude_at_least_minus_one_FALSE :
    ∃ r, mkRate .ROUND_HALF_EVEN 0 1 (.val 9) (.dec (1 / 100)) = .ok r ∧
      r.unitMultiple = 10 ∧ r.termAmount = 11111 / 1000000 ∧ magnitude r.termAmount = -2 := by
  refine ⟨{ unitCur := 0, termCur := 1, unitMultiple := 10, termAmount := 11111 / 1000000 }, ?_, rfl, rfl, ?_⟩
  · decide +kernel
  · decide +kernel

end QM.Props.C09
