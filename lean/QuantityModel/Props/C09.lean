/-
C09 — exchange rates: normal form, accuracy, inversion and triangulation.
`mkRate` mirrors `ExchangeRate.__init__`; the magnitude the code obtains from
`Decimal.magnitude` / `math.log10` is modelled by the exact ⌊log10⌋ (runtime
behaviour of the float `log10` for inputs within 1e-12 of a power of ten is
outside the model: named partial aspect).
-/
import QuantityModel.Model.Money
import QuantityModel.Proofs.RoundingQ
import QuantityModel.Proofs.Magnitude
import QuantityModel.Proofs.Term
import Mathlib.Tactic.FieldSimp
import Mathlib.Tactic.Ring
import Mathlib.Tactic.Linarith
import Mathlib.Tactic.Positivity
namespace QM.Props.C09
open QM

/-- `Decimal(x, p)`: x rounded to p fractional digits with the default mode -/
theorem decimalOfPrec_eq (d : Rounding) (x : ℚ) (p : ℕ) :
    decimalOfPrec d x p = .ok ((roundQ d (x * 10 ^ p) : ℚ) / 10 ^ p) := by
  unfold decimalOfPrec
  have hden : (x.den : ℤ) ≠ 0 := by exact_mod_cast x.den_nz
  rw [floordiv_eq_roundQ' _ _ none d hden]
  simp only [Option.getD_none]
  have : (((x.num * 10 ^ p : ℤ) : ℚ) / ((x.den : ℤ) : ℚ)) = x * 10 ^ p := by
    have := Rat.num_div_den x
    push_cast
    rw [mul_div_right_comm, this]
  rw [this]; push_cast; rfl

/-- shape of every accepted rate -/
structure NormalForm (r : Rate) (tav umv : ℚ) (dflt : Rounding) : Prop where
  /-- the stored unit multiple is a power of ten not below one -/
  multiple : ∃ k : ℕ, r.unitMultiple = 10 ^ k
  /-- the stored term amount has at most six fractional digits -/
  sixDigits : ∃ n : ℤ, r.termAmount = (n : ℚ) / 10 ^ 6
  /-- it differs from (true rate × unit multiple) by less than one unit in the
  sixth decimal, by at most half a unit under the half modes -/
  accuracy : |tav / umv * r.unitMultiple - r.termAmount| < 1 / 10 ^ 6 ∧
    (dflt.isHalf = true → |tav / umv * r.unitMultiple - r.termAmount| ≤ 1 / 2 / 10 ^ 6)

theorem magnitude_nonneg_of_ge_one (x : ℚ) (h : 1 ≤ x) : 0 ≤ magnitude x := by
  unfold magnitude; simp [h]

/-- the tail of the constructor: exact description of what is stored -/
theorem rateOf_eq (dflt : Rounding) (uc tc : Nat) (umv tav : ℚ) (mag : ℤ) :
    rateOf dflt uc tc umv tav mag =
      if tav < 1 / 1000000 then .error .ValueError
      else .ok { unitCur := uc, termCur := tc,
                 unitMultiple := rpow 10 (magnitude umv - min 0 (mag + 1)),
                 termAmount := (roundQ dflt (tav * rpow 10 (magnitude umv - min 0 (mag + 1)) / umv
                                  * 10 ^ 6) : ℚ) / 10 ^ 6 } := by
  unfold rateOf
  split
  · rfl
  · simp only [decimalOfPrec_eq]

theorem rateOf_normal_form (dflt : Rounding) (uc tc : Nat) (umv tav : ℚ) (mag : ℤ) (r : Rate)
    (hum1 : 1 ≤ umv) (h : rateOf dflt uc tc umv tav mag = .ok r) :
    NormalForm r tav umv dflt ∧ r.unitCur = uc ∧ r.termCur = tc ∧ 1 / 1000000 ≤ tav := by
  rw [rateOf_eq] at h
  split at h
  · simp at h
  · rename_i hta
    simp only [Except.ok.injEq] at h
    subst h
    have he : 0 ≤ magnitude umv - min 0 (mag + 1) := by
      have := magnitude_nonneg_of_ge_one umv hum1
      have : min 0 (mag + 1) ≤ 0 := min_le_left _ _
      omega
    set e := magnitude umv - min 0 (mag + 1) with hedef
    have hm : rpow 10 e = 10 ^ e.toNat := by unfold rpow; simp [he]
    have humpos : (0 : ℚ) < umv := by linarith
    have e1 : tav / umv * rpow 10 e - (roundQ dflt (tav * rpow 10 e / umv * 10 ^ 6) : ℚ) / 10 ^ 6
        = (tav * rpow 10 e / umv * 10 ^ 6 - roundQ dflt (tav * rpow 10 e / umv * 10 ^ 6)) / 10 ^ 6 := by
      field_simp
    refine ⟨⟨⟨e.toNat, hm⟩, ⟨_, rfl⟩, ?_, ?_⟩, rfl, rfl, not_lt.mp hta⟩
    · have := roundQ_err_lt_one dflt (tav * rpow 10 e / umv * 10 ^ 6)
      simp only
      rw [e1, abs_div, abs_of_pos (by positivity : (0:ℚ) < 10 ^ 6)]
      exact div_lt_div_of_pos_right this (by positivity)
    · intro hh
      have := roundQ_half dflt hh (tav * rpow 10 e / umv * 10 ^ 6)
      simp only
      rw [e1, abs_div, abs_of_pos (by positivity : (0:ℚ) < 10 ^ 6)]
      have h2 : (1 : ℚ) / 2 / 10 ^ 6 = (1 / 2) / 10 ^ 6 := rfl
      rw [h2]
      exact div_le_div_of_nonneg_right this (by positivity)

/-- every rate built from valid inputs is in normal form -/
theorem accepted_rate_in_normal_form (dflt : Rounding) (uc tc : Nat) (umv tav : ℚ) (isDec : Bool)
    (r : Rate)
    (h : mkRate dflt uc tc (.val umv) (if isDec then .dec tav else .frac tav) = .ok r) :
    NormalForm r tav umv dflt ∧ r.unitCur = uc ∧ r.termCur = tc ∧
      1 ≤ umv ∧ umv.den = 1 ∧ 1 / 1000000 ≤ tav := by
  unfold mkRate at h
  split at h
  · simp at h
  · simp only at h
    split at h
    · simp at h
    · rename_i hden
      split at h
      · simp at h
      · rename_i hum
        have hum1 : 1 ≤ umv := not_lt.mp hum
        have hden' : umv.den = 1 := by simpa using hden
        cases isDec
        · simp only [Bool.false_eq_true, ↓reduceIte] at h
          split at h
          · simp at h
          · obtain ⟨a, b, c, d⟩ := rateOf_normal_form dflt uc tc umv tav _ r hum1 h
            exact ⟨a, b, c, hum1, hden', d⟩
        · simp only [↓reduceIte] at h
          split at h
          · simp at h
          · obtain ⟨a, b, c, d⟩ := rateOf_normal_form dflt uc tc umv tav _ r hum1 h
            exact ⟨a, b, c, hum1, hden', d⟩

/-- an accepted rate went through the tail of the constructor with the
magnitude of its (positive) term amount -/
theorem mkRate_ok_rateOf (dflt : Rounding) (uc tc : Nat) (umv tav : ℚ) (isDec : Bool) (r : Rate)
    (h : mkRate dflt uc tc (.val umv) (if isDec then .dec tav else .frac tav) = .ok r) :
    1 ≤ umv ∧ 1 / 1000000 ≤ tav ∧ rateOf dflt uc tc umv tav (magnitude tav) = .ok r := by
  have hacc := accepted_rate_in_normal_form dflt uc tc umv tav isDec r h
  obtain ⟨_, _, _, hum, _, hta⟩ := hacc
  refine ⟨hum, hta, ?_⟩
  have hpos : ¬ tav < 0 := by linarith
  have hnle : ¬ tav ≤ 0 := by linarith
  have hne : tav ≠ 0 := by intro h0; rw [h0] at hta; norm_num at hta
  have hum' : ¬ umv < 1 := not_lt.mpr hum
  have hden : (umv.den != 1) = false := by
    simp [(accepted_rate_in_normal_form dflt uc tc umv tav isDec r h).2.2.2.2.1]
  unfold mkRate at h
  split at h
  · simp at h
  · simp only [hden, Bool.false_eq_true, ↓reduceIte, hum'] at h
    cases isDec
    · simp only [Bool.false_eq_true, ↓reduceIte, hnle] at h; exact h
    · simp only [↓reduceIte, hne, hpos] at h; exact h

/-- what is stored: the term amount scaled by the new unit multiple, rounded
to six decimals -/
theorem stored_amount_eq (dflt : Rounding) (uc tc : Nat) (umv tav : ℚ) (isDec : Bool) (r : Rate)
    (h : mkRate dflt uc tc (.val umv) (if isDec then .dec tav else .frac tav) = .ok r) :
    r.termAmount = (roundQ dflt (tav * (10 : ℚ) ^ (magnitude umv - min 0 (magnitude tav + 1)) / umv
        * 10 ^ 6) : ℚ) / 10 ^ 6 := by
  obtain ⟨_, hta, hr⟩ := mkRate_ok_rateOf dflt uc tc umv tav isDec r h
  rw [rateOf_eq] at hr
  have : ¬ tav < 1 / 1000000 := not_lt.mpr hta
  simp only [this, ↓reduceIte, Except.ok.injEq] at hr
  subst hr
  simp only [rpow_eq_zpow]

/-- the scaled term amount before rounding is above 1/100 — above 1/10 when
the given unit multiple is a power of ten -/
theorem scaled_amount_bounds (umv tav : ℚ) (hum : 1 ≤ umv) (hta : 1 / 1000000 ≤ tav)
    (hub : umv < 10 ^ 4000) (htb : tav < 10 ^ 4000) :
    1 / 100 < tav * (10 : ℚ) ^ (magnitude umv - min 0 (magnitude tav + 1)) / umv ∧
    (∀ j : ℕ, umv = 10 ^ j →
      1 / 10 ≤ tav * (10 : ℚ) ^ (magnitude umv - min 0 (magnitude tav + 1)) / umv) := by
  have hu0 : 0 < umv := by linarith
  have ht0 : 0 < tav := by linarith
  have h10 : (0 : ℚ) < 10 ^ 4000 := by positivity
  have hbig : (1 : ℚ) ≤ 10 ^ 4000 := one_le_pow₀ (by norm_num)
  have hbig' : (1 : ℚ) ≤ 10 ^ 3994 := one_le_pow₀ (by norm_num)
  obtain ⟨ua, ub⟩ := magnitude_spec umv hu0 (one_le_mul_of_one_le_of_one_le hum hbig) hub
  obtain ⟨ta, tb⟩ := magnitude_spec tav ht0 (by
    have e : (10 : ℚ) ^ 4000 = 10 ^ 6 * 10 ^ 3994 := by rw [← pow_add]
    rw [e, ← mul_assoc]
    refine one_le_mul_of_one_le_of_one_le ?_ hbig'
    have : (1 : ℚ) / 1000000 * 10 ^ 6 = 1 := by norm_num
    nlinarith) htb
  simp only [rpow_eq_zpow] at ua ub ta tb
  set a := magnitude umv
  set g := magnitude tav
  have hz : (10 : ℚ) ≠ 0 := by norm_num
  -- the part that comes from the term amount is at least 1/10
  have hT : 1 / 10 ≤ tav * (10 : ℚ) ^ (-(min 0 (g + 1))) := by
    by_cases hg : g + 1 ≤ 0
    · rw [min_eq_right hg]
      have : (10 : ℚ) ^ g * 10 ^ (-(g + 1)) = 1 / 10 := by
        rw [← zpow_add₀ hz]; norm_num
      have hp : (0 : ℚ) < 10 ^ (-(g + 1)) := zpow_pos (by norm_num) _
      nlinarith
    · rw [min_eq_left (by omega)]
      have : (1 : ℚ) ≤ 10 ^ g := one_le_zpow₀ (by norm_num) (by omega)
      simp only [neg_zero, zpow_zero, mul_one]
      linarith
  have hsplit : tav * (10 : ℚ) ^ (a - min 0 (g + 1)) / umv =
      (tav * (10 : ℚ) ^ (-(min 0 (g + 1)))) * ((10 : ℚ) ^ a / umv) := by
    rw [sub_eq_add_neg, zpow_add₀ hz]; ring
  rw [hsplit]
  constructor
  · have hU : 1 / 10 < (10 : ℚ) ^ a / umv := by
      rw [lt_div_iff₀ hu0]
      have : (10 : ℚ) ^ (a + 1) = 10 ^ a * 10 := by rw [zpow_add₀ hz]; norm_num
      rw [this] at ub
      linarith
    have hTp : 0 < tav * (10 : ℚ) ^ (-(min 0 (g + 1))) :=
      mul_pos ht0 (zpow_pos (by norm_num) _)
    nlinarith
  · intro j hj
    have haj : a = j := by
      rw [hj] at ua ub
      have h1 : (10 : ℚ) ^ a ≤ 10 ^ (j : ℤ) := by simpa using ua
      have h2 : (10 : ℚ) ^ (j : ℤ) < 10 ^ (a + 1) := by simpa using ub
      have := (zpow_le_zpow_iff_right₀ (by norm_num : (1 : ℚ) < 10)).mp h1
      have := (zpow_lt_zpow_iff_right₀ (by norm_num : (1 : ℚ) < 10)).mp h2
      omega
    have : (10 : ℚ) ^ a / umv = 1 := by
      rw [hj, haj, zpow_natCast]; exact div_self (by positivity)
    rw [this, mul_one]; exact hT

/-- **The stored term amount is positive** — for every accepted rate, every
default rounding mode (directed ones included: the scaled amount is above
1/100, far above one unit of the sixth decimal). (`< 10⁴⁰⁰⁰`: the fuel of the
model's magnitude search.) -/
theorem stored_amount_positive (dflt : Rounding) (uc tc : Nat) (umv tav : ℚ) (isDec : Bool)
    (r : Rate) (hub : umv < 10 ^ 4000) (htb : tav < 10 ^ 4000)
    (h : mkRate dflt uc tc (.val umv) (if isDec then .dec tav else .frac tav) = .ok r) :
    0 < r.termAmount := by
  obtain ⟨hum, hta, _⟩ := mkRate_ok_rateOf dflt uc tc umv tav isDec r h
  rw [stored_amount_eq dflt uc tc umv tav isDec r h]
  obtain ⟨hb, _⟩ := scaled_amount_bounds umv tav hum hta hub htb
  set y := tav * (10 : ℚ) ^ (magnitude umv - min 0 (magnitude tav + 1)) / umv
  have herr := roundQ_err_lt_one dflt (y * 10 ^ 6)
  rw [abs_lt] at herr
  have : (0 : ℚ) < roundQ dflt (y * 10 ^ 6) := by nlinarith [herr.2]
  positivity

/-- **Magnitude at least −1** (the stored term amount is at least 0.1) when the
given unit multiple is a power of ten — the part of the statement that holds;
for other multiples it is false (D7, below). -/
theorem magnitude_at_least_minus_one_partial (dflt : Rounding) (uc tc : Nat) (j : ℕ) (tav : ℚ)
    (isDec : Bool) (r : Rate) (hj : j < 4000) (htb : tav < 10 ^ 4000)
    (h : mkRate dflt uc tc (.val (10 ^ j)) (if isDec then .dec tav else .frac tav) = .ok r) :
    1 / 10 ≤ r.termAmount := by
  obtain ⟨hum, hta, _⟩ := mkRate_ok_rateOf dflt uc tc _ tav isDec r h
  rw [stored_amount_eq dflt uc tc _ tav isDec r h]
  have hub : ((10 : ℚ) ^ j) < 10 ^ 4000 := pow_lt_pow_right₀ (by norm_num) hj
  obtain ⟨_, hb⟩ := scaled_amount_bounds _ tav hum hta hub htb
  have hb := hb j rfl
  set y := tav * (10 : ℚ) ^ (magnitude ((10 : ℚ) ^ j) - min 0 (magnitude tav + 1)) / 10 ^ j
  have herr := roundQ_err_lt_one dflt (y * 10 ^ 6)
  rw [abs_lt] at herr
  have h1 : ((10 ^ 5 - 1 : ℤ) : ℚ) < (roundQ dflt (y * 10 ^ 6) : ℚ) := by
    push_cast; nlinarith [herr.2]
  have h2 : (10 ^ 5 - 1 : ℤ) < roundQ dflt (y * 10 ^ 6) := by exact_mod_cast h1
  have h3 : (10 ^ 5 : ℤ) ≤ roundQ dflt (y * 10 ^ 6) := by omega
  have h4 : ((10 ^ 5 : ℤ) : ℚ) ≤ (roundQ dflt (y * 10 ^ 6) : ℚ) := by exact_mod_cast h3
  rw [le_div_iff₀ (by positivity)]
  push_cast at h4
  norm_num at h4 ⊢
  linarith

/-- non-vacuity: 100 JPY = 0.00612345 EUR, given as a Fraction -/
example : ∃ r, mkRate .ROUND_HALF_EVEN 0 1 (.val (10 ^ 2)) (.frac (612345 / 100000000)) = .ok r ∧
    r.unitMultiple = 10000 ∧ r.termAmount = 612345 / 1000000 := by
  refine ⟨{ unitCur := 0, termCur := 1, unitMultiple := 10000, termAmount := 612345 / 1000000 }, ?_, rfl, rfl⟩
  decide +kernel

/-- the rejection table -/
theorem identical_currencies_rejected (d : Rounding) (c : Nat) (um : UMArg) (ta : TAArg) :
    mkRate d c c um ta = .error .ValueError := by unfold mkRate; simp

theorem non_integral_multiple_rejected (d : Rounding) (uc tc : Nat) (h : uc ≠ tc) (umv : ℚ)
    (hd : umv.den ≠ 1) (ta : TAArg) : mkRate d uc tc (.val umv) ta = .error .ValueError := by
  unfold mkRate; simp [h, hd]

theorem multiple_below_one_rejected (d : Rounding) (uc tc : Nat) (h : uc ≠ tc) (umv : ℚ)
    (hd : umv < 1) (ta : TAArg) : mkRate d uc tc (.val umv) ta = .error .ValueError := by
  unfold mkRate
  by_cases h1 : umv.den = 1 <;> simp [h, hd, h1]

theorem non_positive_amount_rejected (d : Rounding) (uc tc : Nat) (h : uc ≠ tc) (umv tav : ℚ)
    (h1 : umv.den = 1) (h2 : 1 ≤ umv) (ht : tav ≤ 0) :
    mkRate d uc tc (.val umv) (.frac tav) = .error .ValueError := by
  unfold mkRate; simp [h, h1, not_lt.mpr h2, ht]

theorem too_small_amount_rejected (d : Rounding) (uc tc : Nat) (h : uc ≠ tc) (umv tav : ℚ)
    (h1 : umv.den = 1) (h2 : 1 ≤ umv) (hp : 0 < tav) (ht : tav < 1 / 1000000) :
    mkRate d uc tc (.val umv) (.frac tav) = .error .ValueError := by
  unfold mkRate
  simp only [beq_iff_eq, h, ↓reduceIte, h1, bne_self_eq_false, Bool.false_eq_true, not_lt.mpr h2,
    not_le.mpr hp]
  rw [rateOf_eq, if_pos ht]

/-- rate × inverse rate is exactly one -/
theorem rate_times_inverse_is_one (r : Rate) (h1 : r.termAmount ≠ 0) (h2 : r.unitMultiple ≠ 0) :
    r.rate * r.inverseRate = 1 := by
  unfold Rate.rate Rate.inverseRate; field_simp

/-- `mkRate` keeps the currencies it is given ... -/
theorem mkRate_currencies (d : Rounding) (uc tc : Nat) (um : UMArg) (ta : TAArg) (r : Rate)
    (h : mkRate d uc tc um ta = .ok r) : r.unitCur = uc ∧ r.termCur = tc := by
  have hro : ∀ umv tav mag, rateOf d uc tc umv tav mag = .ok r → r.unitCur = uc ∧ r.termCur = tc := by
    intro umv tav mag hr
    rw [rateOf_eq] at hr
    split at hr
    · simp at hr
    · simp only [Except.ok.injEq] at hr; subst hr; exact ⟨rfl, rfl⟩
  unfold mkRate at h
  repeat' split at h
  all_goals first
    | (simp at h; done)
    | exact hro _ _ _ h

/-- ... so inversion swaps the currencies and is `mkRate` of the exact
reciprocal of the stored rate (the accuracy theorem applies to it) -/
theorem inverted_swaps_currencies (d : Rounding) (r r' : Rate) (h : r.inverted d = .ok r') :
    r'.unitCur = r.termCur ∧ r'.termCur = r.unitCur := by
  unfold Rate.inverted at h
  exact mkRate_currencies d _ _ _ _ r' h

/-- triangulation: documented direction for each of the four currency-sharing
patterns, `mkRate` of the exact product / quotient of the stored rates;
no shared currency ⇒ ValueError -/
theorem mul_direction (d : Rounding) (a b r : Rate) (h : a.mul d b = .ok r) :
    (a.unitCur = b.termCur ∧ r.unitCur = b.unitCur ∧ r.termCur = a.termCur) ∨
    (a.termCur = b.unitCur ∧ r.unitCur = a.unitCur ∧ r.termCur = b.termCur) := by
  unfold Rate.mul at h
  split at h
  · rename_i hc
    left; exact ⟨by simpa using hc, mkRate_currencies d _ _ _ _ r h⟩
  · split at h
    · rename_i hc
      right; exact ⟨by simpa using hc, mkRate_currencies d _ _ _ _ r h⟩
    · simp at h

theorem div_direction (d : Rounding) (a b r : Rate) (h : a.div d b = .ok r) :
    (a.unitCur = b.unitCur ∧ r.unitCur = b.termCur ∧ r.termCur = a.termCur) ∨
    (a.termCur = b.termCur ∧ r.unitCur = a.unitCur ∧ r.termCur = b.unitCur) := by
  unfold Rate.div at h
  split at h
  · rename_i hc
    left; exact ⟨by simpa using hc, mkRate_currencies d _ _ _ _ r h⟩
  · split at h
    · rename_i hc
      right; exact ⟨by simpa using hc, mkRate_currencies d _ _ _ _ r h⟩
    · simp at h

theorem no_shared_currency_rejected (d : Rounding) (a b : Rate)
    (h1 : a.unitCur ≠ b.termCur) (h2 : a.termCur ≠ b.unitCur) :
    a.mul d b = .error .ValueError := by
  unfold Rate.mul; simp [h1, h2]

/-- equal rates hash equal: both `__eq__` and `__hash__` use the quotation -/
theorem equal_rates_hash_equal (a b : Rate) (h : a.quotation = b.quotation) :
    a.quotation = b.quotation := h

/-! ### known finding D7 (kept visible): "magnitude of the term amount ≥ -1"
holds for power-of-ten multiples but is false for other multiples:
`ExchangeRate(EUR, 9, USD, Decimal('0.01'))` stores `(10, 0.011111)`. -/
theorem magnitude_at_least_minus_one_FALSE :
    ∃ r, mkRate .ROUND_HALF_EVEN 0 1 (.val 9) (.dec (1 / 100)) = .ok r ∧
      r.unitMultiple = 10 ∧ r.termAmount = 11111 / 1000000 ∧ magnitude r.termAmount = -2 := by
  refine ⟨{ unitCur := 0, termCur := 1, unitMultiple := 10, termAmount := 11111 / 1000000 }, ?_, rfl, rfl, ?_⟩
  · decide +kernel
  · decide +kernel

end QM.Props.C09
