/-
C01 — linear conversion is exact and coherent.
`Linear s u v a b`: `u`, `v` are units of one class with a reference unit,
with (non-zero) scales `a`, `b`.  Scales are what the chain of definitions
denotes (C15 / C20).  Amounts are rationals by construction of the model; the
implementation side asserts `type(amount) in (Decimal, Fraction)` on every
result.
-/
import QuantityModel.Proofs.Quantity
import QuantityModel.Proofs.Scale
import Mathlib.Tactic.FieldSimp
import Mathlib.Tactic.Ring
namespace QM.Props.C01
open QM QM.QState

variable {s : QState} {d : Rounding}

/-- converting multiplies the amount by exactly the ratio of the scales; class
and target unit are those asked for; nothing is rounded when the type has no
quantum -/
theorem convert_is_exact_ratio {q : Qty} {v a b} (h : Linear s.reg q.unit v a b) (hb : b ≠ 0)
    (hq : s.reg.unitQuantum v = none) :
    s.convert d q v = .ok ⟨a / b * q.amount, v⟩ := by
  unfold QState.convert
  rw [equivAmount_linear h hb]
  exact mkQty_no_quantum rfl hq

/-- the converted quantity equals the original -/
theorem converted_equals_original {q : Qty} {v a b} (h : Linear s.reg q.unit v a b)
    (ha : a ≠ 0) (hb : b ≠ 0) :
    s.qtyEq q ⟨a / b * q.amount, v⟩ = .ok true := by
  unfold QState.qtyEq
  have hc : (s.reg.unitCls q.unit != s.reg.unitCls v) = false := by simp [h.sameCls]
  simp only [hc, Bool.false_eq_true, ↓reduceIte]
  by_cases huv : q.unit = v
  · have hab : a = b := by
      have := h.eu; rw [huv, h.ev] at this; exact (Option.some.inj this).symm
    subst hab; simp [huv, div_self hb]
  · have : (q.unit == v) = false := by simpa using huv
    simp only [this, Bool.false_eq_true, ↓reduceIte]
    have h' : Linear s.reg (⟨a / b * q.amount, v⟩ : Qty).unit q.unit b a := h.symm
    rw [equivAmount_linear h' ha]
    simp only [beq_iff_eq, Except.ok.injEq, decide_eq_true_eq]
    field_simp

/-- converting back returns the identical amount -/
theorem convert_round_trip {q : Qty} {v a b} (h : Linear s.reg q.unit v a b)
    (ha : a ≠ 0) (hb : b ≠ 0)
    (hqv : s.reg.unitQuantum v = none) (hqu : s.reg.unitQuantum q.unit = none) :
    (s.convert d q v).bind (fun q' => s.convert d q' q.unit) = .ok q := by
  rw [convert_is_exact_ratio h hb hqv]
  simp only [Except.bind]
  have h' : Linear s.reg (⟨a / b * q.amount, v⟩ : Qty).unit q.unit b a := h.symm
  rw [convert_is_exact_ratio h' ha hqu]
  congr 1
  obtain ⟨qa, qu⟩ := q
  simp only [Qty.mk.injEq, and_true]
  field_simp

/-- converting through any intermediate unit equals converting directly -/
theorem convert_via_intermediate {q : Qty} {v w a b c} (huv : Linear s.reg q.unit v a b)
    (hvw : Linear s.reg v w b c) (huw : Linear s.reg q.unit w a c) (hb : b ≠ 0) (hc : c ≠ 0)
    (hqv : s.reg.unitQuantum v = none) (hqw : s.reg.unitQuantum w = none) :
    (s.convert d q v).bind (fun q' => s.convert d q' w) = s.convert d q w := by
  rw [convert_is_exact_ratio huv hb hqv, convert_is_exact_ratio huw hc hqw]
  simp only [Except.bind]
  have h' : Linear s.reg (⟨a / b * q.amount, v⟩ : Qty).unit w b c := hvw
  rw [convert_is_exact_ratio h' hc hqw]
  congr 2
  field_simp

/-- converting to a unit of another quantity type raises IncompatibleUnitsError -/
theorem convert_other_type_rejected {q : Qty} {v}
    (h : s.reg.unitCls q.unit ≠ s.reg.unitCls v) :
    s.convert d q v = .error .IncompatibleUnitsError := by
  unfold QState.convert
  rw [equivAmount_other_class h]

/-- with a quantum the exact value is rounded exactly once, by the constructor -/
theorem convert_quantised_rounds_once {q : Qty} {v a b qu} (h : Linear s.reg q.unit v a b)
    (hb : b ≠ 0) (hq : s.reg.unitQuantum v = some qu) (hne : qu ≠ 0) :
    s.convert d q v = .ok ⟨(roundQ d (a / b * q.amount / qu) : ℚ) * qu, v⟩ := by
  unfold QState.convert
  rw [equivAmount_linear h hb]
  exact mkQty_quantum rfl hq hne

/-- the scale of a unit declared as `k * u` is `k * scale u` when `u` is a
base reference unit, i.e. the numeric factor of its normalised definition
(`_make_unit`); the general chain is C15 / C07. -/
theorem numeric_part_of_scaled_definition (k : ℚ) (hk : k ≠ 1) (b : Nat) :
    numElem (filterItems [(.num k, 1), (.atom b, 1)]) = some k := by
  have : (Elem.num k != Elem.num 1) = true := by simpa using hk
  simp [filterItems, numElem, this, rpow]

/-! ### in every reachable registry the side conditions hold by themselves -/

/-- no stored scale is zero in a state reached by well-formed declarations -/
theorem reachable_scales_nonzero (hr : ReachableWF s.reg) {u v a b}
    (h : Linear s.reg u v a b) : a ≠ 0 ∧ b ≠ 0 := by
  have hS := reachableWF_scaleInv hr
  constructor
  · intro h0; subst h0; exact hS.nz u h.eu
  · intro h0; subst h0; exact hS.nz v h.ev

/-- there-and-back is the identity for ANY two units of a linear,
unquantised type in ANY reachable registry -/
theorem reachable_convert_round_trip (hr : ReachableWF s.reg) {q : Qty} {v a b}
    (h : Linear s.reg q.unit v a b)
    (hqv : s.reg.unitQuantum v = none) (hqu : s.reg.unitQuantum q.unit = none) :
    (s.convert d q v).bind (fun q' => s.convert d q' q.unit) = .ok q :=
  convert_round_trip h (reachable_scales_nonzero hr h).1 (reachable_scales_nonzero hr h).2 hqv hqu

/-- converted == original, same generality -/
theorem reachable_converted_equals_original (hr : ReachableWF s.reg) {q : Qty} {v a b}
    (h : Linear s.reg q.unit v a b) :
    s.qtyEq q ⟨a / b * q.amount, v⟩ = .ok true :=
  converted_equals_original h (reachable_scales_nonzero hr h).1 (reachable_scales_nonzero hr h).2

/-! ### units without scale -/

/-- a unit declared WITHOUT a definition has no scale: within its own type it
converts to nothing (no converter registered) — UnitConversionError, whether
or not the type has a reference unit (since fix c2c5a04 not an AssertionError) -/
theorem convert_scale_less_unit_rejected {q : Qty} {v : Nat}
    (hc : s.reg.unitCls q.unit = s.reg.unitCls v) (hne : q.unit ≠ v)
    (hnone : (s.reg.unit q.unit).equiv = none)
    (hmoney : (s.reg.cls (s.reg.unitCls q.unit)).isMoney = false)
    (hconv : s.clsConverters (s.reg.unitCls q.unit) = []) :
    s.convert d q v = .error .UnitConversionError := by
  have he : s.equivAmount q v = .ok none := by
    unfold QState.equivAmount RegState.unitEq RegState.unitFactor
    have h1 : (s.reg.unitCls q.unit != s.reg.unitCls v) = false := by simp [hc]
    have h2 : (q.unit == v) = false := by simpa using hne
    cases hr : (s.reg.cls (s.reg.unitCls q.unit)).refUnit.isNone <;>
      simp only [h1, hnone, hr, Bool.false_eq_true, ↓reduceIte, h2, hmoney, hconv,
        List.reverse_nil] <;> rfl
  unfold QState.convert
  rw [he]

/-- ... and to a unit of ANOTHER type it is IncompatibleUnitsError all the same -/
theorem convert_scale_less_unit_other_type {q : Qty} {v : Nat}
    (hc : s.reg.unitCls q.unit ≠ s.reg.unitCls v) :
    s.convert d q v = .error .IncompatibleUnitsError :=
  convert_other_type_rejected hc

end QM.Props.C01
