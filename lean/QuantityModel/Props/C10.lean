/-
C10 — applying an exchange rate converts money and prices correctly.
-/
import QuantityModel.Model.Money
import QuantityModel.Proofs.UnitOps
import QuantityModel.Proofs.Quantity
namespace QM.Props.C10
open QM QM.QState

variable {s : QState} {d : Rounding}

/-- money × rate (either order): the unit currency must be the money's
currency; the result is money in the term currency, the exact product rounded
once to that currency's smallest fraction -/
theorem money_times_rate (m : Qty) (r : Rate) (h : m.unit = r.unitCur) (f : ℚ)
    (hcls : s.reg.unitCls m.unit = s.reg.unitCls r.termCur)
    (hq : s.reg.unitQuantum r.termCur = some f) (hf : f ≠ 0) :
    s.moneyTimesRate d m r = .ok ⟨(roundQ d (m.amount * r.rate / f) : ℚ) * f, r.termCur⟩ := by
  unfold QState.moneyTimesRate
  simp only [h, beq_self_eq_true, ↓reduceIte]
  rw [← h]
  exact mkQty_quantum hcls hq hf

/-- money / rate: the term currency must match; result in the unit currency
via the exact inverse rate, rounded once -/
theorem money_div_rate (m : Qty) (r : Rate) (h : m.unit = r.termCur) (f : ℚ)
    (hcls : s.reg.unitCls m.unit = s.reg.unitCls r.unitCur)
    (hq : s.reg.unitQuantum r.unitCur = some f) (hf : f ≠ 0) :
    s.moneyDivRate d m r = .ok ⟨(roundQ d (m.amount * r.inverseRate / f) : ℚ) * f, r.unitCur⟩ := by
  unfold QState.moneyDivRate
  simp only [h, beq_self_eq_true, ↓reduceIte]
  rw [← h]
  exact mkQty_quantum hcls hq hf

/-- a non-matching currency is rejected with ValueError -/
theorem wrong_currency_rejected (m : Qty) (r : Rate) :
    (m.unit ≠ r.unitCur → s.moneyTimesRate d m r = .error .ValueError) ∧
    (m.unit ≠ r.termCur → s.moneyDivRate d m r = .error .ValueError) := by
  constructor <;> intro h
  · unfold QState.moneyTimesRate; simp [h]
  · unfold QState.moneyDivRate; simp [h]

/-- prices (a quantity whose unit is defined with a currency): the resolved
target unit `w` and factor `f` are worth exactly the price's unit with the
currency replaced — `f · w = unit(p) · term / unit` under every admissible
valuation — so the amount `f · rate · a` scales the value by exactly the rate -/
theorem price_unit_value {ν : Nat → ℚ} (hA : Admissible s.reg ν) (hT : TermMapSound s.reg)
    (p : Qty) (r : Rate) (f : ℚ) (w : Option Nat)
    (h : s.reg.amntAndUnit (s.priceTerm p r false) = some (f, w)) :
    f * optVal ν w = den ν (s.unitDefn p.unit) * (ν r.termCur / ν r.unitCur) := by
  have := amntAndUnit_sound s.reg ν hA hT _ f w h
  rw [this]
  unfold QState.priceTerm mulTerm
  simp only [Bool.false_eq_true, ↓reduceIte]
  rw [den_reduceItems _ ν hA.nz hA.resp, den_append, den_mkTerm _ ν hA.nz hA.resp]
  simp [evalElem, div_eq_mul_inv]

theorem price_unit_value_inverse {ν : Nat → ℚ} (hA : Admissible s.reg ν) (hT : TermMapSound s.reg)
    (p : Qty) (r : Rate) (f : ℚ) (w : Option Nat)
    (h : s.reg.amntAndUnit (s.priceTerm p r true) = some (f, w)) :
    f * optVal ν w = den ν (s.unitDefn p.unit) * (ν r.unitCur / ν r.termCur) := by
  have := amntAndUnit_sound s.reg ν hA hT _ f w h
  rw [this]
  unfold QState.priceTerm mulTerm
  simp only [↓reduceIte]
  rw [den_reduceItems _ ν hA.nz hA.resp, den_append, den_mkTerm _ ν hA.nz hA.resp]
  simp [evalElem, div_eq_mul_inv]

/-- the amount of the result is `f · rate · a`, constructed once in the
resolved unit of the price's own class -/
theorem price_amount (p : Qty) (r : Rate) (f : ℚ) (w : Nat)
    (h : s.reg.amntAndUnit (s.priceTerm p r false) = some (f, some w)) :
    s.priceTimesRate d p r false =
      s.reg.mkQty d (some (s.reg.unitCls p.unit)) (f * r.rate * p.amount) w := by
  unfold QState.priceTimesRate; simp [h]

/-- the target compound unit has not been declared (or the price's currency
does not match the rate, or no money is involved): QuantityError -/
theorem undeclared_target_rejected (p : Qty) (r : Rate) (inv : Bool)
    (h : s.reg.amntAndUnit (s.priceTerm p r inv) = none) :
    s.priceTimesRate d p r inv = .error .QuantityError := by
  unfold QState.priceTimesRate; simp [h]

/-- the resolved unit belongs to another class than the price: QuantityError
(raised by the constructor) -/
theorem target_of_other_class_rejected (p : Qty) (r : Rate) (inv : Bool) (f : ℚ) (w : Nat)
    (h : s.reg.amntAndUnit (s.priceTerm p r inv) = some (f, some w))
    (hc : s.reg.unitCls p.unit ≠ s.reg.unitCls w) :
    s.priceTimesRate d p r inv = .error .QuantityError := by
  unfold QState.priceTimesRate
  simp only [h]
  exact Props_aux s d _ _ w hc
where
  Props_aux (s : QState) (d : Rounding) (c : Nat) (a : ℚ) (w : Nat) (hc : c ≠ s.reg.unitCls w) :
      s.reg.mkQty d (some c) a w = .error .QuantityError := by
    unfold RegState.mkQty; simp [hc]

end QM.Props.C10
