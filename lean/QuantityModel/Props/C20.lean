/-
C20 — the predefined catalogue matches SI / international definitions and its
documentation.

`Gen.catalogueSteps`, `Gen.siPrefixes`, `Gen.docRows` are regenerated from
/repo's `predefined.py` / `si_prefixes.py` on every run; `Ref.*` is the
hand-written reference (DESIGN.md Appendix A).  The finite tables are decided
over the *whole* table by kernel evaluation (`decide +kernel`, no axioms) of the
registry model replaying the declaration script; C01 lifts them to all amounts.
-/
import QuantityModel.Ref.SIRef
import QuantityModel.Model.Catalogue
import QuantityModel.Gen.Catalogue
import QuantityModel.Gen.Prefixes
import QuantityModel.Gen.DocTables
import QuantityModel.Proofs.RegistryTerm
import QuantityModel.Proofs.Resolve
namespace QM.Props.C20
open QM

/-- the registry state reached by replaying predefined.py on the model -/
def catState : RegState := (runCatalogue Gen.catalogueSteps).1

/-- directory view: (class name, symbol, scale) of every unit, creation order -/
def dirView (s : RegState) : List (String × String × Option Rat) :=
  s.units.map fun u => ((s.cls u.cls).name, u.symbol, u.equiv)

def inDir (v : List (String × String × Option Rat)) (c sy : String) (k : Option Rat) : Bool :=
  v.any fun e => e.1 == c && e.2.1 == sy && e.2.2 == k

/-- every declaration of the script is accepted by the model -/
theorem catalogue_replays_without_rejection : (runCatalogue Gen.catalogueSteps).2 = 0 := by
  decide +kernel

/-- every unit of the reference table exists, belongs to the type of its
dimension and has exactly the reference scale -/
theorem every_reference_unit_has_its_SI_scale :
    Ref.linearUnits.all (fun e => inDir (dirView catState) e.1 e.2.1 (some e.2.2)) = true := by
  decide +kernel

/-- the three temperature units exist, in a type without reference unit -/
theorem temperature_units_present :
    Ref.temperatureUnits.all (fun e => inDir (dirView catState) e.1 e.2 none) = true := by
  decide +kernel

/-- and the catalogue declares no unit outside the reference tables -/
theorem no_unit_outside_the_reference :
    (dirView catState).all (fun e =>
      Ref.linearUnits.any (fun r => r.1 == e.1 && r.2.1 == e.2.1 && some r.2.2 == e.2.2) ||
      Ref.temperatureUnits.any (fun r => r.1 == e.1 && r.2 == e.2.1 && e.2.2 == none)) = true := by
  decide +kernel

theorem unit_counts : (dirView catState).length = 113 ∧ Ref.linearUnits.length = 110 := by
  decide +kernel

/-- dimension vector of a class over the base classes, read off its
normalised definition -/
def classDim (s : RegState) (c : Nat) : List (String × Int) :=
  (s.cls c).normDef.filterMap fun it => match it.1 with
    | .atom b => some ((s.cls b).name, it.2)
    | .num _ => none

def refDim (d : Int × Int × Int × Int) : List (String × Int) :=
  [("Mass", d.1), ("Length", d.2.1), ("Duration", d.2.2.1), ("DataVolume", d.2.2.2)].filter
    fun p => p.2 != 0

def sameDim (a b : List (String × Int)) : Bool :=
  a.all (fun p => b.contains p) && b.all (fun p => a.contains p)

/-- every quantity type has exactly the dimension the SI gives it -/
theorem every_type_has_its_dimension :
    Ref.dimensions.all (fun e =>
      (List.range catState.classes.length).any fun c =>
        (catState.cls c).name == e.1 && sameDim (classDim catState c) (refDim e.2)) = true := by
  decide +kernel

/-- the reference unit of a derived type is the product of the base types'
reference units: its scale is 1 and its normalised definition consists of base
reference units only (kg, m, s, B) -/
theorem derived_reference_units_are_products_of_base_reference_units :
    (List.range catState.classes.length).all (fun c =>
      match (catState.cls c).refUnit with
      | none => true
      | some r =>
        (catState.unit r).equiv == some 1 &&
        (catState.unit r).normDef.all fun it => match it.1 with
          | .atom b => (catState.unit b).defn.isNone &&
              (catState.cls (catState.unit b).cls).refUnit == some b
          | .num _ => false) = true := by
  decide +kernel

/-- every SI prefix equals its power of ten -/
theorem si_prefixes_are_powers_of_ten :
    (Gen.siPrefixes.map fun p => (p.2.1, p.2.2.2)) = Ref.siPrefixExp := by
  decide +kernel

/-- the quantum of data volumes is one bit -/
theorem data_volume_quantum_is_one_bit :
    (List.range catState.classes.length).any (fun c =>
      (catState.cls c).name == "DataVolume" &&
      (catState.cls c).quantum == some Ref.dataVolumeQuantum) = true := by
  decide +kernel

/-- every row of the documentation tables (symbol, equivalent in the
reference unit) equals the computed scale, and names the right reference unit -/
theorem documentation_rows_equal_computed_scales :
    Gen.docRows.all (fun row =>
      inDir (dirView catState) row.1 row.2.1 (some row.2.2.2) &&
      (List.range catState.classes.length).any fun c =>
        (catState.cls c).name == row.1 &&
        ((catState.cls c).refUnit.map fun r => (catState.unit r).symbol) == some row.2.2.1)
      = true := by
  decide +kernel

/-- every linear unit except the reference units is documented -/
theorem documentation_is_complete :
    Ref.linearUnits.all (fun e =>
      e.2.2 == 1 && (List.range catState.classes.length).any (fun c =>
        (catState.cls c).name == e.1 &&
        ((catState.cls c).refUnit.map fun r => (catState.unit r).symbol) == some e.2.1) ||
      Gen.docRows.any fun row => row.1 == e.1 && row.2.1 == e.2.1) = true := by
  decide +kernel

/-- the documented temperature fixed points (the `=` rows; the `≅` row is an
approximation and is not a claim of equality) -/
theorem documentation_temperature_rows :
    Gen.docTempRows.lookup "°C" = some "0 °C = 32 °F = 273.15 K" ∧
    Gen.docTempRows.lookup "K" = some "0 K = -273.15 °C = -459.67 °F" := by
  decide +kernel

/-! ### the term theorems of C07 apply to the catalogue

The two environment hypotheses of C07's equivalence (stored normalised
definitions mention base units only; distinct base units are not convertible
into each other) are decided for the catalogue state by kernel evaluation. -/

theorem catalogue_meets_term_hypotheses :
    baseNoConvUpTo catState.unitEnv catState.unitEnv.atoms.length = true ∧
    defsBaseOnlyUpTo catState.unitEnv catState.unitEnv.atoms.length = true := by
  decide +kernel

/-- **In the predefined catalogue two unit terms are equal exactly when they
denote the same rational factor and the same exponent for every base unit**
(kg, m, s, B, and the temperature units), provided they do not mention two
different temperature units (`KeysSeparate`: the three temperature units are
base units of one type without reference unit — known finding D5). -/
theorem catalogue_terms_equal_iff (t₁ t₂ : Items)
    (hsep : KeysSeparate catState.unitEnv t₁ t₂) (h₁ : Clean t₁) (h₂ : Clean t₂) :
    termEq catState.unitEnv t₁ t₂ = true ↔
      (numVal (expanded catState.unitEnv t₁) = numVal (expanded catState.unitEnv t₂) ∧
       ∀ a, expOf a (expanded catState.unitEnv t₁) = expOf a (expanded catState.unitEnv t₂)) :=
  termEq_iff _ (keysNonneg_unitEnv _)
    (defsBaseOnly_of_check _ catalogue_meets_term_hypotheses.2)
    (baseNoConv_of_check _ catalogue_meets_term_hypotheses.1) t₁ t₂ hsep h₁ h₂

/-- hence the result of `unit × unit`, `unit / unit`, `unit ** n` in the
catalogue depends on the dimension and scale of the term only (C02) -/
theorem catalogue_resolution_depends_on_denotation (t₁ t₂ : Items)
    (hsep : KeysSeparate catState.unitEnv t₁ t₂) (h₁ : Clean t₁) (h₂ : Clean t₂)
    (hn : numVal (expanded catState.unitEnv t₁) = numVal (expanded catState.unitEnv t₂))
    (he : ∀ a, expOf a (expanded catState.unitEnv t₁) = expOf a (expanded catState.unitEnv t₂)) :
    catState.amntAndUnit t₁ = catState.amntAndUnit t₂ := by
  have := (catalogue_terms_equal_iff t₁ t₂ hsep h₁ h₂).mpr ⟨hn, he⟩
  unfold termEq at this
  have hnf : termNormalized catState.unitEnv t₁ = termNormalized catState.unitEnv t₂ := by
    simpa using this
  unfold RegState.amntAndUnit RegState.unitFromTerm
  have heq : ∀ x, termEq catState.unitEnv x t₁ = termEq catState.unitEnv x t₂ := by
    intro x; unfold termEq; rw [hnf]
  simp only [heq, hnf]

/-- non-vacuity of C02's completeness theorem (`amntAndUnit_complete`): km/min
in the catalogue (units 14 and 25) — no unit `km/min` exists; the reference
unit m/s of Velocity (unit 52, registered under `m·s⁻¹`) carries the exponents;
every hypothesis of the theorem is met, and the resolution indeed succeeds
(with factor 50/3) -/
theorem km_per_min_resolves :
    catState.amntAndUnit (mkTerm catState.unitEnv [(.atom 14, 1), (.atom 25, -1)]) ≠ none := by
  have hexp : expanded catState.unitEnv (mkTerm catState.unitEnv [(.atom 14, 1), (.atom 25, -1)])
      = [(.num 1000, 1), (.atom 8, 1), (.num 60, -1), (.atom 21, -1)] := by decide +kernel
  refine amntAndUnit_complete catState
    (defsBaseOnly_of_check _ catalogue_meets_term_hypotheses.2)
    (baseNoConv_of_check _ catalogue_meets_term_hypotheses.1) _
    (by decide +kernel) [(.atom 8, 1), (.atom 21, -1)] 52
    (by decide +kernel) (by decide +kernel) (by simp [numVal])
    (by decide +kernel) ?_
  intro a
  rw [hexp]
  simp [expOf]

end QM.Props.C20
