import QuantityModel.Model.Text
namespace QM.Props.C18
end QM.Props.C18
