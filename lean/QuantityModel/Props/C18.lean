/-
C18 — construction is exact and the text form round-trips.

Exactness of construction: the model's amounts are rationals and the
constructor only rounds to a quantum (C05); for floats the harness feeds the
exact binary value (`float.as_integer_ratio`) and checks that the real
constructor holds exactly that value.  Text: `renderQty` is `str(q)` =
`format(q)`; `parseQtyStr` is the string branch of the constructor.  The
literal grammar beyond the modelled subset is Python's (trusted, not generated).
-/
import QuantityModel.Proofs.Text
import QuantityModel.Model.Quantity
import QuantityModel.Proofs.Quantity
namespace QM.Props.C18
open QM

/-- the digits printed for a natural number read back as that number -/
theorem digits_round_trip (n : Nat) : parseNat (natDigits n) = some n := parseNat_natDigits n

/-- `str` of a Decimal amount with internal value `v` and ANY precision `p`
(trailing zeros included) parses back to exactly `v / 10^p` -/
theorem decimal_text_round_trip (v : ℤ) (p : Nat) :
    parseAmountStr (renderDec v p) = .ok ((v : ℚ) / (10 : ℚ) ^ p) := parse_render_dec v p

/-- `str` of a Fraction amount (`n/d`, or `n` when integral) parses back to
exactly that rational -/
theorem fraction_text_round_trip (q : ℚ) : parseAmountStr (renderFrac q) = .ok q :=
  parse_render_frac q

/-- `str(q)` is the amount, one blank and the unit symbol; parsing it yields
exactly the amount's value and that symbol — symbols with inner blanks
included (the text is split at the first blank) -/
theorem quantity_text_round_trip (a : AmountRepr) (sym : String)
    (hs : stripChars sym.toList = sym.toList) :
    parseQtyStr (renderQty a sym) = .ok (a.val, some sym.toList) :=
  parse_render_qty a sym.toList hs

/-- hence: parsing `str(q)` through the generic factory or through `q`'s own
type re-creates `q` (same type, unit and amount) when the type has no quantum -/
theorem parse_str_recreates_quantity (s : RegState) (d : Rounding) (a : AmountRepr) (u : Nat)
    (hq : s.unitQuantum u = none) :
    s.mkQty d none a.val u = .ok ⟨a.val, u⟩ ∧
    s.mkQty d (some (s.unitCls u)) a.val u = .ok ⟨a.val, u⟩ := by
  constructor
  · unfold RegState.mkQty RegState.mkQty.go; simp [hq]
  · unfold RegState.mkQty RegState.mkQty.go; simp [hq]

/-- malformed amounts are QuantityError -/
theorem malformed_amounts_rejected :
    parseAmountStr "abc".toList = .error .QuantityError ∧
    parseAmountStr "".toList = .error .QuantityError ∧
    parseAmountStr "1.5.2".toList = .error .QuantityError ∧
    parseAmountStr "1/0".toList = .error .QuantityError ∧
    parseAmountStr "--1".toList = .error .QuantityError ∧
    parseAmountStr "1e".toList = .error .QuantityError := by
  refine ⟨?_, ?_, ?_, ?_, ?_, ?_⟩ <;> decide +kernel

/-- a tab is not a separator: the token then contains the symbol and is not a number -/
theorem tab_is_not_a_separator :
    (parseQtyStr "1.5\tm".toList).toOption = none := by decide +kernel

/-- the accepted literal forms denote what they say -/
theorem literal_forms :
    parseAmountStr "-1.50".toList = .ok (-3 / 2) ∧
    parseAmountStr ".5".toList = .ok (1 / 2) ∧
    parseAmountStr "5.".toList = .ok 5 ∧
    parseAmountStr "1.25E-2".toList = .ok (1 / 80) ∧
    parseAmountStr "+7".toList = .ok 7 ∧
    parseAmountStr "10/4".toList = .ok (5 / 2) := by
  refine ⟨?_, ?_, ?_, ?_, ?_, ?_⟩ <;> decide +kernel

/-- leading blanks and several blanks before the symbol are ignored -/
theorem surrounding_blanks_ignored :
    parseQtyStr "   2.5   km/h  ".toList = .ok (5 / 2, some "km/h".toList) := by decide +kernel

/-- non-vacuity of the round trip on a compound, non-ASCII symbol -/
example : String.ofList (renderQty (.dec (-150) 2) "µm/s²") = "-1.50 µm/s²" := by decide +kernel

/-! ### which quantity a text constructs (`parseQuantity`, executed by the driver) -/

section Construct
open QM.QState
variable {s : QState} {d : Rounding}

/-- **parsing with an explicit different unit equals parsing and then
converting**: text naming unit `u`, explicit unit `ua ≠ u`: the quantity `amt u`
(of `u`'s own type) is built and converted to `ua` — whatever that conversion
does (exact ratio of scales, a registered converter, UnitConversionError,
IncompatibleUnitsError) -/
theorem parse_with_other_unit_is_parse_then_convert (cls : Option Nat) (amt : ℚ) (u ua : Nat)
    (h : u ≠ ua) (q0 : Qty) (hq : s.reg.mkQty d (some (s.reg.unitCls u)) amt u = .ok q0) :
    s.parseQuantity d cls amt (some u) (some ua) = s.convert d q0 ua := by
  unfold QState.parseQuantity
  have : (u == ua) = false := by simpa using h
  simp only [this, Bool.false_eq_true, ↓reduceIte, hq]

/-- the same explicit unit as in the text, or no explicit unit: constructed in
the text's unit through the factory that was called (a type other than the
unit's own is rejected by the constructor: QuantityError) -/
theorem parse_with_same_unit (cls : Option Nat) (amt : ℚ) (u : Nat) :
    s.parseQuantity d cls amt (some u) (some u) = s.reg.mkQty d cls amt u ∧
    s.parseQuantity d cls amt (some u) none = s.reg.mkQty d cls amt u := by
  unfold QState.parseQuantity; simp

/-- text without symbol: the explicit unit, else the type's reference unit,
else (generic factory, or a type without reference unit) QuantityError -/
theorem parse_without_symbol (cls : Option Nat) (amt : ℚ) :
    (∀ ua, s.parseQuantity d cls amt none (some ua) = s.reg.mkQty d cls amt ua) ∧
    (cls = none → s.parseQuantity d cls amt none none = .error .QuantityError) ∧
    (∀ c, cls = some c → (s.reg.cls c).refUnit = none →
      s.parseQuantity d cls amt none none = .error .QuantityError) ∧
    (∀ c ru, cls = some c → (s.reg.cls c).refUnit = some ru →
      s.parseQuantity d cls amt none none = s.reg.mkQty d cls amt ru) := by
  refine ⟨fun ua => ?_, fun h => ?_, fun c h hr => ?_, fun c ru h hr => ?_⟩ <;>
    unfold QState.parseQuantity <;> simp_all

/-- through the factory of another type the text is rejected: QuantityError -/
theorem parse_through_other_type_rejected (c : Nat) (amt : ℚ) (u : Nat) (h : c ≠ s.reg.unitCls u) :
    s.parseQuantity d (some c) amt (some u) none = .error .QuantityError := by
  unfold QState.parseQuantity RegState.mkQty
  have : (c != s.reg.unitCls u) = true := by simpa using h
  simp [this]

end Construct

end QM.Props.C18
