/-
C18 — construction is exact and the text form round-trips.

Exactness of construction: the model's amounts are rationals and the
constructor only rounds to a quantum (C05); for floats the harness feeds the
exact binary value (`float.as_integer_ratio`) and checks that the real
constructor holds exactly that value.  Text: `renderQty` is `str(q)` =
`format(q)`; `parseQtyStr` is the string branch of the constructor.  The
literal grammar beyond the modelled subset is Python's (trusted, not generated).
-/
import QuantityModel.Proofs.Text
import QuantityModel.Model.Quantity
namespace QM.Props.C18
open QM

/-- the digits printed for a natural number read back as that number -/
theorem digits_round_trip (n : Nat) : parseNat (natDigits n) = some n := parseNat_natDigits n

/-- `str` of a Decimal amount with internal value `v` and ANY precision `p`
(trailing zeros included) parses back to exactly `v / 10^p` -/
theorem decimal_text_round_trip (v : ℤ) (p : Nat) :
    parseAmountStr (renderDec v p) = .ok ((v : ℚ) / (10 : ℚ) ^ p) := parse_render_dec v p

/-- `str` of a Fraction amount (`n/d`, or `n` when integral) parses back to
exactly that rational -/
theorem fraction_text_round_trip (q : ℚ) : parseAmountStr (renderFrac q) = .ok q :=
  parse_render_frac q

/-- `str(q)` is the amount, one blank and the unit symbol; parsing it yields
exactly the amount's value and that symbol — symbols with inner blanks
included (the text is split at the first blank) -/
theorem quantity_text_round_trip (a : AmountRepr) (sym : String)
    (hs : stripChars sym.toList = sym.toList) :
    parseQtyStr (renderQty a sym) = .ok (a.val, some sym.toList) :=
  parse_render_qty a sym.toList hs

/-- hence: parsing `str(q)` through the generic factory or through `q`'s own
type re-creates `q` (same type, unit and amount) when the type has no quantum -/
theorem parse_str_recreates_quantity (s : RegState) (d : Rounding) (a : AmountRepr) (u : Nat)
    (hq : s.unitQuantum u = none) :
    s.mkQty d none a.val u = .ok ⟨a.val, u⟩ ∧
    s.mkQty d (some (s.unitCls u)) a.val u = .ok ⟨a.val, u⟩ := by
  constructor
  · unfold RegState.mkQty RegState.mkQty.go; simp [hq]
  · unfold RegState.mkQty RegState.mkQty.go; simp [hq]

/-- malformed amounts are QuantityError -/
theorem malformed_amounts_rejected :
    parseAmountStr "abc".toList = .error .QuantityError ∧
    parseAmountStr "".toList = .error .QuantityError ∧
    parseAmountStr "1.5.2".toList = .error .QuantityError ∧
    parseAmountStr "1/0".toList = .error .QuantityError ∧
    parseAmountStr "--1".toList = .error .QuantityError ∧
    parseAmountStr "1e".toList = .error .QuantityError := by
  refine ⟨?_, ?_, ?_, ?_, ?_, ?_⟩ <;> decide +kernel

/-- a tab is not a separator: the token then contains the symbol and is not a number -/
theorem tab_is_not_a_separator :
    (parseQtyStr "1.5\tm".toList).toOption = none := by decide +kernel

/-- the accepted literal forms denote what they say -/
theorem literal_forms :
    parseAmountStr "-1.50".toList = .ok (-3 / 2) ∧
    parseAmountStr ".5".toList = .ok (1 / 2) ∧
    parseAmountStr "5.".toList = .ok 5 ∧
    parseAmountStr "1.25E-2".toList = .ok (1 / 80) ∧
    parseAmountStr "+7".toList = .ok 7 ∧
    parseAmountStr "10/4".toList = .ok (5 / 2) := by
  refine ⟨?_, ?_, ?_, ?_, ?_, ?_⟩ <;> decide +kernel

/-- leading blanks and several blanks before the symbol are ignored -/
theorem surrounding_blanks_ignored :
    parseQtyStr "   2.5   km/h  ".toList = .ok (5 / 2, some "km/h".toList) := by decide +kernel

/-- non-vacuity of the round trip on a compound, non-ASCII symbol -/
example : String.ofList (renderQty (.dec (-150) 2) "µm/s²") = "-1.50 µm/s²" := by decide +kernel

end QM.Props.C18
