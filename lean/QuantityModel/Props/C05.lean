/-
C05 — quantised types hold the nearest multiple of the quantum, rounded once.
Every quantity of the model is built by `mkQty` (the constructor), which is
where — and the only place where — rounding to the quantum happens.
-/
import QuantityModel.Proofs.Quantity
import Mathlib.Tactic.FieldSimp
import Mathlib.Tactic.Ring
import Mathlib.Tactic.Linarith
namespace QM.Props.C05
open QM QM.QState

variable {s : RegState} {d : Rounding}

/-- the constructor stores the integer multiple of the unit's quantum that the
default rounding mode selects for the exact amount -/
theorem constructor_rounds_to_grid {c a u qu} (hc : c = s.unitCls u)
    (hq : s.unitQuantum u = some qu) (hne : qu ≠ 0) :
    s.mkQty d (some c) a u = .ok ⟨(roundQ d (a / qu) : ℚ) * qu, u⟩ :=
  mkQty_quantum hc hq hne

/-- on the grid, less than one quantum from the exact amount, at most half a
quantum under the half modes, never on the wrong side under directed modes -/
theorem stored_amount_bounds (a qu : ℚ) (hne : qu ≠ 0) :
    let r := (roundQ d (a / qu) : ℚ) * qu
    (∃ k : ℤ, r = k * qu) ∧ |a - r| < |qu| ∧ (d.isHalf = true → |a - r| ≤ |qu| / 2) := by
  intro r
  refine ⟨⟨_, rfl⟩, ?_, ?_⟩
  · have e : a - r = (a / qu - roundQ d (a / qu)) * qu := by simp only [r]; field_simp
    rw [e, abs_mul]
    calc _ < 1 * |qu| := mul_lt_mul_of_pos_right (roundQ_err_lt_one d _) (abs_pos.mpr hne)
      _ = |qu| := one_mul _
  · intro hm
    have e : a - r = (a / qu - roundQ d (a / qu)) * qu := by simp only [r]; field_simp
    rw [e, abs_mul]
    calc _ ≤ (1/2) * |qu| := mul_le_mul_of_nonneg_right (roundQ_half d hm _) (abs_nonneg _)
      _ = |qu| / 2 := by ring

theorem floor_never_above (a qu : ℚ) (hq : 0 < qu) :
    (roundQ .ROUND_FLOOR (a / qu) : ℚ) * qu ≤ a := by
  have := roundQ_floor (a / qu)
  calc _ ≤ a / qu * qu := mul_le_mul_of_nonneg_right this hq.le
    _ = a := by field_simp

theorem ceiling_never_below (a qu : ℚ) (hq : 0 < qu) :
    a ≤ (roundQ .ROUND_CEILING (a / qu) : ℚ) * qu := by
  have := roundQ_ceiling (a / qu)
  calc a = a / qu * qu := by field_simp
    _ ≤ _ := mul_le_mul_of_nonneg_right this hq.le

/-- an amount already on the grid is stored unchanged (so re-constructing a
stored value never rounds a second time) -/
theorem on_grid_is_fixed (k : ℤ) (qu : ℚ) (hne : qu ≠ 0) :
    (roundQ d ((k : ℚ) * qu / qu) : ℚ) * qu = k * qu := by
  rw [mul_div_cancel_right₀ _ hne, roundQ_int]

/-- the grid is closed under addition, subtraction and negation: sums of
stored amounts are exact -/
theorem grid_closed_under_add (k₁ k₂ : ℤ) (qu : ℚ) (hne : qu ≠ 0) :
    (roundQ d (((k₁ : ℚ) * qu + (k₂ : ℚ) * qu) / qu) : ℚ) * qu = (k₁ : ℚ) * qu + (k₂ : ℚ) * qu := by
  have : ((k₁ : ℚ) * qu + (k₂ : ℚ) * qu) / qu = ((k₁ + k₂ : ℤ) : ℚ) := by
    push_cast; field_simp
  rw [this, roundQ_int]; push_cast; ring

/-- unit quantum = class quantum / scale (currencies: the smallest fraction) -/
theorem unit_quantum_is_class_quantum_over_scale {u q e}
    (hs : (s.unit u).smallestFraction = none)
    (hq : (s.cls (s.unit u).cls).quantum = some q) (he : (s.unit u).equiv = some e) :
    s.unitQuantum u = some (q / e) := by
  unfold RegState.unitQuantum; simp [hs, hq, he]

theorem currency_quantum_is_smallest_fraction {u f}
    (hs : (s.unit u).smallestFraction = some f) : s.unitQuantum u = some f := by
  unfold RegState.unitQuantum; simp [hs]

/-- arithmetic producing a quantised quantity computes the final amount first
and constructs once: `q * k`, `q / k`, `-q`, sums (see C03), products (C02),
conversion (C01) all end in exactly one `mkQty` of the exact expression. -/
theorem scale_rounds_once {sq : QState} {x : Qty} {k qu : ℚ}
    (hq : sq.reg.unitQuantum x.unit = some qu) (hne : qu ≠ 0) :
    sq.qtyScale d x k = .ok (.qty ⟨(roundQ d (x.amount * k / qu) : ℚ) * qu, x.unit⟩) := by
  unfold QState.qtyScale
  rw [mkQty_quantum rfl hq hne]; rfl

/-- **sums in a quantised type round once**: the sum / difference of two
quantities of one type whose left unit has quantum `qu` is the exact sum, in the
left operand's unit, rounded once to that unit's grid with the default mode —
whatever the two units are (the right amount is converted exactly first) -/
theorem sum_rounds_once {sq : QState} (sign : ℚ) {x y : Qty} {a b qu : ℚ}
    (h : Linear sq.reg y.unit x.unit b a) (ha : a ≠ 0)
    (hq : sq.reg.unitQuantum x.unit = some qu) (hne : qu ≠ 0) :
    sq.qtyAddSub d sign x y =
      .ok ⟨(roundQ d ((x.amount + sign * (b / a * y.amount)) / qu) : ℚ) * qu, x.unit⟩ := by
  unfold QState.qtyAddSub
  have hc : (sq.reg.unitCls x.unit != sq.reg.unitCls y.unit) = false := by simp [h.sameCls]
  simp only [hc, Bool.false_eq_true, ↓reduceIte]
  rw [unitEq_linear h.symm]
  by_cases hab : a = b
  · subst hab
    simp only [beq_self_eq_true, div_self ha, one_mul]
    exact mkQty_quantum rfl hq hne
  · have : (a == b) = false := by simpa using hab
    simp only [this]
    rw [equivAmount_linear h ha]
    exact mkQty_quantum rfl hq hne

/-- the stored amount of EVERY quantity the constructor lets through in a unit
with quantum `qu` is an integer multiple of `qu` -/
theorem constructed_amount_on_grid {c : Nat} {a : ℚ} {u : Nat} {qu : ℚ} {r : Qty}
    (hc : c = s.unitCls u) (hq : s.unitQuantum u = some qu) (hne : qu ≠ 0)
    (h : s.mkQty d (some c) a u = .ok r) : ∃ k : ℤ, r.amount = k * qu ∧ r.unit = u := by
  rw [mkQty_quantum hc hq hne] at h
  simp only [Except.ok.injEq] at h
  subst h
  exact ⟨_, rfl, rfl⟩

end QM.Props.C05
