import QuantityModel.Model.Quantity
namespace QM.Props.C16
end QM.Props.C16
