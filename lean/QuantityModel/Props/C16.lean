/-
C16 — rejected declarations leave no trace.

Every declaration step of the model returns the new state together with its
outcome; on every failing path the returned state *is* the old state, so every
later query (symbol lookup, unit lists, parsing, unit arithmetic — all pure
functions of the state) answers as if the attempt had never been made.
The model mirrors the order of validation and registration in the code (after
the `fix:` commit that checks the class registry before creating the
reference unit); that mirror is what the correspondence check validates after
*every* step of random histories with ~25 % invalid declarations.
-/
import QuantityModel.Model.Quantity
namespace QM.Props.C16
open QM

/-- `r` is the outcome of a declaration attempted in state `s`: if it was
rejected, the state that remains is `s` itself. -/
def NoTrace (s : RegState) (r : RegState × Except DeclErr Nat) : Prop :=
  ∀ e, r.2 = .error e → r.1 = s

private theorem noTrace_err (s : RegState) (e : DeclErr) : NoTrace s (s, .error e) := fun _ _ => rfl
private theorem noTrace_ok (s s' : RegState) (x : Nat) : NoTrace s (s', .ok x) :=
  fun _ h => by simp at h
private theorem noTrace_liftMake (s : RegState) (r) : NoTrace s (liftMake s r) := by
  unfold liftMake; rcases r with _ | ⟨s', uid⟩
  · exact noTrace_err _ _
  · exact noTrace_ok _ _ _
private theorem noTrace_finishClass (s : RegState) (cid nd r) :
    NoTrace s (finishClass s cid nd r) := by
  unfold finishClass; rcases r with _ | ⟨s', uid⟩
  · exact noTrace_err _ _
  · exact noTrace_ok _ _ _

private theorem noTrace_classSuccess (s s1 : RegState) (cid nd sym rd) :
    NoTrace s (classSuccess s s1 cid nd sym rd) := by
  unfold classSuccess
  repeat' (first | exact noTrace_ok _ _ _ | exact noTrace_finishClass _ _ _ _ | split)

/-- a rejected unit creation (`new_unit`: symbol not a string / empty /
already registered, definition of another class, of another or of no
dimension, of an unsupported kind) leaves the state untouched -/
theorem newUnit_rejected_no_trace (s : RegState) (c : Nat) (sym : Option String)
    (d : UnitDefArg) : NoTrace s (s.newUnit c sym d) := by
  unfold RegState.newUnit
  repeat' (first | exact noTrace_err _ _ | exact noTrace_ok _ _ _ | exact noTrace_liftMake _ _ | split | dsimp only)

/-- a rejected `derive_unit_from` leaves the state untouched -/
theorem deriveUnit_rejected_no_trace (s : RegState) (c : Nat) (args : List Nat)
    (sym : Option String) : NoTrace s (s.deriveUnit c args sym) := by
  unfold RegState.deriveUnit
  repeat' (first | exact noTrace_err _ _ | exact noTrace_ok _ _ _ | exact noTrace_liftMake _ _ | split | dsimp only)

/-- a rejected class statement (duplicate dimension, duplicate or empty
reference symbol, name/quantum without symbol, empty definition) leaves the
state untouched — in particular no reference unit stays registered. -/
theorem declClass_rejected_no_trace (s : RegState) (d : ClassDecl) :
    NoTrace s (s.declClass d) := by
  unfold RegState.declClass
  repeat' (first | exact noTrace_err _ _ | exact noTrace_ok _ _ _ | exact noTrace_classSuccess _ _ _ _ _ _ | split | dsimp only)

/-- Failing unit arithmetic does not touch the operation cache (only
successes are cached). -/
def NoTraceQ {α : Type} (s : QState) (r : QState × Except Err α) : Prop :=
  ∀ e, r.2 = .error e → r.1 = s

private theorem noTraceQ_err {α} (s : QState) (e : Err) :
    NoTraceQ s (s, (.error e : Except Err α)) := fun _ _ => rfl
private theorem noTraceQ_ok {α} (s s' : QState) (x : α) : NoTraceQ s (s', .ok x) :=
  fun _ h => by simp at h

theorem mulUnits_error_no_trace (s : QState) (u v : Nat) : NoTraceQ s (s.mulUnits u v) := by
  unfold QState.mulUnits
  repeat' (first | exact noTraceQ_err _ _ | exact noTraceQ_ok _ _ _ | split | dsimp only)

theorem divUnits_error_no_trace (s : QState) (u v : Nat) : NoTraceQ s (s.divUnits u v) := by
  unfold QState.divUnits
  repeat' (first | exact noTraceQ_err _ _ | exact noTraceQ_ok _ _ _ | split | dsimp only)

/-- Consequently a rejected symbol stays available: the same declaration
with a fresh state-independent argument succeeds or fails exactly as it would
have without the rejected attempt (stated for the unit case). -/
theorem rejected_then_same_as_never (s : RegState) (c : Nat) (sym : Option String)
    (d : UnitDefArg) (e : DeclErr) (h : (s.newUnit c sym d).2 = .error e)
    (c' : Nat) (sym' : Option String) (d' : UnitDefArg) :
    (s.newUnit c sym d).1.newUnit c' sym' d' = s.newUnit c' sym' d' := by
  rw [newUnit_rejected_no_trace s c sym d e h]

/-! Non-vacuity: a concrete history with a rejected duplicate-dimension class
and a rejected duplicate symbol. -/
def exState : RegState :=
  let s0 := RegState.init
  let s1 := (s0.declClass
    { name := "Length", defineAs := none, refUnitSymbol := some "m", quantum := none }).1
  (s1.declClass
    { name := "Area", defineAs := some [(.atom 1, 2)], refUnitSymbol := none, quantum := none }).1

def isErr {ε α} : Except ε α → Bool
  | .error _ => true
  | .ok _ => false

def dupArea : ClassDecl :=
  { name := "Area2", defineAs := some [(.atom 1, 2)], refUnitSymbol := some "sqm", quantum := none }
example : isErr (exState.declClass dupArea).2 = true := by decide +kernel
example : isErr (exState.newUnit 1 (some "m") (.qty 1000 0)).2 = true := by decide +kernel
example : isErr (exState.newUnit 1 (some "km") (.qty 1000 0)).2 = false := by decide +kernel
example : exState.symMap.map Prod.fst = ["m", "m²"] := by decide +kernel

end QM.Props.C16
