/-
C19 — objects that compare equal hash equal.
`…HashKey` is the value the code feeds to Python's `hash`; that `hash` maps
equal numbers (int / Decimal / Fraction), equal strings and equal tuples to
equal values is CPython's / decimalfp's contract and is trusted.
-/
import QuantityModel.Proofs.Quantity
import QuantityModel.Props.C07
import QuantityModel.Props.C04
import Mathlib.Tactic.FieldSimp
import Mathlib.Tactic.Linarith
namespace QM.Props.C19
open QM QM.QState

variable {s : QState}

/-- quantities of a type with reference unit: equal ⇒ same hash key, whatever
their units (1 km and 1000 m) -/
theorem equal_quantities_hash_equal {x y : Qty} {a b : ℚ} (h : Linear s.reg y.unit x.unit b a)
    (ha : a ≠ 0) (heq : s.qtyEq x y = .ok true) : s.qtyHashKey x = s.qtyHashKey y := by
  have hval : a * x.amount = b * y.amount := by
    have := QM.Props.C04.eq_iff_reference_values_equal (s := s) h ha
    rw [this] at heq
    simpa using heq
  unfold QState.qtyHashKey
  have hr := h.hasRef
  have hc := h.sameCls
  cases hy : (s.reg.cls (s.reg.unitCls y.unit)).refUnit with
  | none => rw [hy] at hr; simp at hr
  | some r =>
    have hx : (s.reg.cls (s.reg.unitCls x.unit)).refUnit = some r := by rw [← hc, hy]
    simp only [hx, hy, h.eu, h.ev]
    rw [hc]
    have : x.amount * a = y.amount * b := by linarith
    rw [this]

/-- the amount's representation (Decimal vs Fraction) does not enter the key:
the key is a function of the *value* -/
theorem hash_key_depends_on_value_only (x y : Qty) (h : x = y) :
    s.qtyHashKey x = s.qtyHashKey y := by rw [h]

/-- terms: equal ⇒ same hash key (C07) -/
theorem equal_terms_hash_equal (env : Env) (t₁ t₂ : Items) (h : termEq env t₁ t₂ = true) :
    termHashKey env t₁ = termHashKey env t₂ :=
  Props.C07.eq_implies_same_hash_key env t₁ t₂ h

/-! ### Known findings kept visible.
(D13u) Units: `==` compares class and scale, the hash is built from the
symbol; two units of one type with the same scale (litre, cubic decimetre)
are equal and hash differently.  Negation witness: -/
def twoSameScaleUnits : QState :=
  let s0 := RegState.init
  let s1 := (s0.declClass { name := "V", defineAs := none, refUnitSymbol := some "m3", quantum := none }).1
  let s2 := (s1.newUnit 1 (some "dm3") (.qty (1/1000) 0)).1
  let s3 := (s2.newUnit 1 (some "l") (.qty (1/1000) 0)).1
  { reg := s3 }

theorem equal_units_hash_equal_FALSE :
    twoSameScaleUnits.reg.unitEq 1 2 = some true ∧
    twoSameScaleUnits.unitHashKey 1 ≠ twoSameScaleUnits.unitHashKey 2 := by
  decide +kernel

/-- (D13c) quantities of a type WITHOUT reference unit that are equal through a
registered converter (0 °C and 273.15 K) keep distinct keys `(amount, unit)`;
no key can be both converter-independent and consistent. -/
theorem raw_keys_differ_across_units (a b : ℚ) (u v : Nat) (h : u ≠ v) :
    QHashKey.raw a u ≠ QHashKey.raw b v := by
  intro hh; injection hh with _ h2; exact h h2

end QM.Props.C19
