/-
Model of `quantity/term.py` (after the `fix:` commit that keeps numeric items
exact): item filtering, `_reduce_items` with its `n_items ∈ {1, 2, other}`
shortcuts and both `keep_item_order` modes, `_iter_normalized`, `normalized`,
`num_elem`, `split`, `reciprocal`, `*`, `/`, `**`, `==`, hash key.

Elements are numbers (`Rat`) or atoms (`Nat` ids); an environment gives each
atom what the code asks of a `NonNumTermElem`: its `norm_sort_key`, whether it
is a base element, its normalised definition, and what `_get_factor` needs
(`group` = the class, `scale` = `_equiv`).  Import-free and structurally
recursive (so that `decide +kernel` can evaluate it).
-/
import QuantityModel.Model.Basic
namespace QM

inductive Elem where
  | num (q : Rat)
  | atom (a : Nat)
  deriving DecidableEq, Repr, Inhabited

abbrev Item := Elem × Int
abbrev Items := List Item

structure AtomInfo where
  /-- `norm_sort_key()`; the code reserves -1 (numbers) and 0 -/
  key : Int
  /-- identity of the class the element belongs to (`qty_cls`) -/
  group : Nat
  /-- `_equiv`: scale relative to the reference unit, if the class has one -/
  scale : Option Rat
  /-- `is_base_elem()` -/
  isBase : Bool
  /-- `normalized_definition` (items), meaningful when `isBase = false` -/
  normDef : Items
  deriving Repr, Inhabited

structure Env where
  atoms : List AtomInfo
  deriving Repr, Inhabited

def Env.info (env : Env) (a : Nat) : AtomInfo :=
  env.atoms.getD a { key := 1, group := 0, scale := none, isBase := true, normDef := [] }

/-- Python `Rational ** int` for exact rationals (0 ** negative raises). -/
def rpow (q : Rat) (e : Int) : Rat :=
  if 0 ≤ e then q ^ e.toNat else (q ^ (-e).toNat)⁻¹

/-- `elem2._get_factor(elem1)`: `some f` with `f * elem1 == elem2`, or `none`
(covers both "returns None" and "raises TypeError", which the callers treat
alike). -/
def getFactor (env : Env) (a₂ a₁ : Nat) : Option Rat :=
  let i₂ := env.info a₂
  let i₁ := env.info a₁
  if i₂.group = i₁.group then
    match i₂.scale, i₁.scale with
    | some s₂, some s₁ => some (s₂ / s₁)
    | _, _ => none
  else none

/-- `Term.norm_sort_key(elem)` -/
def sortKey (env : Env) : Elem → Int
  | .num _ => -1
  | .atom a => (env.info a).key

/-- `_filter_items`: drop items equivalent to 1 -/
def filterItems (items : Items) : Items :=
  items.filter fun (el, e) => e != 0 && el != Elem.num 1

/-- `_reciprocal` -/
def reciprocalItems (items : Items) : Items := items.map fun (el, e) => (el, -e)

/-! ### general path of `_reduce_items` -/

/-- keys for `keep_item_order=True`: a sort key is replaced by (1 +) the index
of the first item carrying it; `-1 ↦ -1`, `0 ↦ 0` are pre-seeded. -/
def firstIdxKeys (env : Env) : Items → Nat → List (Int × Int) → List (Int × Item)
  | [], _, _ => []
  | it :: rest, idx, seen =>
    let k := sortKey env it.1
    match seen.lookup k with
    | some m => (m, it) :: firstIdxKeys env rest (idx + 1) seen
    | none => ((idx : Int) + 1, it) :: firstIdxKeys env rest (idx + 1) ((k, (idx : Int) + 1) :: seen)

def attachKeys (env : Env) (items : Items) (keep : Bool) : List (Int × Item) :=
  if keep then firstIdxKeys env items 0 [(-1, -1), (0, 0)]
  else items.map fun it => (sortKey env it.1, it)

/-- stable sort by key (`sorted(..., key=...)`) -/
def sortKeyed : List (Int × Item) → List (Int × Item)
  | [] => []
  | x :: xs => insertKeyed' x (sortKeyed xs)
where
  /-- insert *before* the first element with a strictly greater key is what a
  stable sort needs when elements are inserted right-to-left: `x` precedes all
  `y` with `x.key ≤ y.key`. -/
  insertKeyed' (x : Int × Item) : List (Int × Item) → List (Int × Item)
    | [] => [x]
    | y :: ys => if x.1 ≤ y.1 then x :: y :: ys else y :: insertKeyed' x ys

/-- merge one non-numeric item into the accumulated items of its group:
same element → add exponents; convertible → add exponents and collect
`conv ** exp`; otherwise append. Returns the new list and the factor. -/
def mergeInto (env : Env) (a₂ : Nat) (e₂ : Int) : List (Nat × Int) → List (Nat × Int) × Rat
  | [] => ([(a₂, e₂)], 1)
  | (a₁, e₁) :: rest =>
    if a₁ = a₂ then ((a₁, e₁ + e₂) :: rest, 1)
    else match getFactor env a₂ a₁ with
      | some conv => ((a₁, e₁ + e₂) :: rest, rpow conv e₂)
      | none =>
        let (r, f) := mergeInto env a₂ e₂ rest
        ((a₁, e₁) :: r, f)

/-- state of the sequential pass over the sorted items -/
structure RState where
  num : Rat                      -- num_elem
  done : List (Nat × Int)       -- res_items (finished groups, in order)
  curKey : Int                   -- key of the open group
  cur : List (Nat × Int)        -- accum_items of the open group
  deriving Repr

def closeGroup (s : RState) : List (Nat × Int) :=
  s.done ++ s.cur.filter fun p => p.2 != 0

def reduceStep (env : Env) (s : RState) (x : Int × Item) : RState :=
  match x.2.1 with
  | .num q => { s with num := s.num * rpow q x.2.2 }
  | .atom a =>
    if x.1 = s.curKey then
      let (c, f) := mergeInto env a x.2.2 s.cur
      { s with cur := c, num := s.num * f }
    else
      { num := s.num, done := closeGroup s, curKey := x.1, cur := [(a, x.2.2)] }

def atomItems (l : List (Nat × Int)) : Items := l.map fun p => (Elem.atom p.1, p.2)

def reduceGeneral (env : Env) (items : Items) (keep : Bool) : Items :=
  let sorted := sortKeyed (attachKeys env items keep)
  let s := sorted.foldl (reduceStep env) { num := 1, done := [], curKey := 0, cur := [] }
  let res := atomItems (closeGroup s)
  if s.num != 1 then (Elem.num s.num, 1) :: res else res

/-- `Term._reduce_items(items, n_items, keep_item_order)` -/
def reduceItems (env : Env) (items : Items) (nItems : Option Nat) (keep : Bool) : Items :=
  match nItems, items with
  | some 1, _ => filterItems items
  | some 2, [(.num q₁, e₁), (.atom a₂, e₂)] => filterItems [(.num q₁, e₁), (.atom a₂, e₂)]
  | some 2, [(.atom a₁, e₁), (.atom a₂, e₂)] =>
    if a₁ = a₂ then
      (if e₁ + e₂ = 0 then [] else [(.atom a₁, e₁ + e₂)])
    else match getFactor env a₂ a₁ with
      | some conv => filterItems [(.num (rpow conv e₂), 1), (.atom a₁, e₁ + e₂)]
      | none =>
        if keep then filterItems [(.atom a₁, e₁), (.atom a₂, e₂)]
        else if sortKey env (.atom a₂) < sortKey env (.atom a₁)
          then filterItems [(.atom a₂, e₂), (.atom a₁, e₁)]
          else filterItems [(.atom a₁, e₁), (.atom a₂, e₂)]
  | some 2, [(.atom a₁, e₁), (.num q₂, e₂)] => filterItems [(.num q₂, e₂), (.atom a₁, e₁)]
  | some 2, [(.num q₁, e₁), (.num q₂, e₂)] =>
    let n := rpow q₁ e₁ * rpow q₂ e₂
    if n != 1 then [(.num n, 1)] else []
  | _, _ => reduceGeneral env items keep

/-! ### normalisation -/

/-- `_iter_normalized`: numbers and base elements are kept, other elements are
replaced by their normalised definition with exponents multiplied.  (The
normalised definition of an element consists of numbers and base elements
only, so one level of expansion is what the recursion amounts to; `fuel`
bounds the nesting for structural recursion.) -/
def iterNormalized (env : Env) : Nat → Items → Items
  | 0, items => items
  | fuel + 1, items => items.flatMap fun (el, e) =>
    match el with
    | .num q => [(.num q, e)]
    | .atom a =>
      let i := env.info a
      if i.isBase then [(.atom a, e)]
      else iterNormalized env fuel (i.normDef.map fun (b, be) => (b, be * e))

def normFuel : Nat := 8

/-- items of `Term.normalized()` -/
def normalizedItems (env : Env) (items : Items) : Items :=
  reduceGeneral env (iterNormalized env normFuel items) false

/-- `Term.__init__(items, reduce_items=True)` for a sized `items` -/
def mkTerm (env : Env) (items : Items) : Items :=
  if items.isEmpty then [] else reduceItems env items (some items.length) true

/-- the `__init__` shortcut: is `_normalized = self` set at construction? -/
def markedNormal (env : Env) (items : Items) : Bool :=
  match items with
  | [(.num _, e)] => e == 1
  | [(.atom a, _)] => (env.info a).isBase
  | _ => false

/-- `Term.normalized().items` including the construction shortcut -/
def termNormalized (env : Env) (items : Items) : Items :=
  if markedNormal env items then items else normalizedItems env items

/-- `Term.num_elem` -/
def numElem (items : Items) : Option Rat :=
  match items with
  | (.num q, e) :: _ => some (rpow q e)
  | _ => none

/-- `Term.split()` (default `dflt_num = ONE`): numeric element and the rest,
the rest being passed through `Term(self[1:])`. -/
def splitTerm (env : Env) (items : Items) : Rat × Items :=
  match numElem items with
  | none => (1, items)
  | some n => (n, mkTerm env items.tail)

/-- `Term.__mul__(Term)` -/
def mulTerm (env : Env) (t₁ t₂ : Items) : Items :=
  reduceItems env (t₁ ++ t₂) (some (t₁.length + t₂.length)) true
/-- `Term.__truediv__(Term)` -/
def divTerm (env : Env) (t₁ t₂ : Items) : Items :=
  reduceItems env (t₁ ++ reciprocalItems t₂) (some (t₁.length + t₂.length)) true
/-- `Term.__mul__(Rational)` / `__rmul__` -/
def scaleTerm (env : Env) (q : Rat) (t : Items) : Items :=
  reduceItems env ((.num q, 1) :: t) (some (t.length + 1)) true
/-- `Term.__truediv__(Rational)` -/
def divScalar (env : Env) (t : Items) (q : Rat) : Items :=
  reduceItems env ((.num q, -1) :: t) (some (t.length + 1)) true
/-- `Term.__rtruediv__(Rational)` -/
def rdivScalar (env : Env) (q : Rat) (t : Items) : Items :=
  reduceItems env ((.num q, 1) :: reciprocalItems t) (some (t.length + 1)) true
/-- `Term.__pow__(int)`: items come from a generator (no length) -/
def powTerm (env : Env) (t : Items) (n : Int) : Items :=
  let items := t.map fun (el, e) => (el, n * e)
  if items.isEmpty then [] else reduceItems env items none true

/-- `Term.__eq__` -/
def termEq (env : Env) (t₁ t₂ : Items) : Bool :=
  termNormalized env t₁ == termNormalized env t₂

/-- what `Term.__hash__` feeds to `hash` -/
def termHashKey (env : Env) (t : Items) : Items := termNormalized env t

/-- Inputs on which the code raises ZeroDivisionError when it evaluates
numeric powers: a zero number with a negative exponent. -/
def zeroPowFree (items : Items) : Bool :=
  items.all fun (el, e) => match el with
    | .num q => !(q == 0 && e < 0)
    | .atom _ => true

end QM
