/-
`quantity/converter.py`: tables of affine conversions between units of a type
without reference unit, and their consistency.  Units are arbitrary keys here
(symbols for the translated temperature table, ids inside the registry model).
-/
import QuantityModel.Model.Basic
namespace QM

/-- one row: `to = from * factor + offset` -/
structure Row (κ : Type) where
  src : κ
  dst : κ
  factor : Rat
  offset : Rat
  deriving Repr, Inhabited

/-- the mapping built from a list of rows (`TableConverter.__init__`, list
form): later rows overwrite earlier ones -/
def rowLookup {κ} [BEq κ] (rows : List (Row κ)) (u v : κ) : Option (Rat × Rat) :=
  (rows.reverse.find? fun r => r.src == u && r.dst == v).map fun r => (r.factor, r.offset)

/-- `TableConverter._get_factor` -/
def tableConvert {κ} [BEq κ] (rows : List (Row κ)) (u v : κ) (a : Rat) : Option Rat :=
  match rowLookup rows u v with
  | some (f, o) => some (f * a + o)
  | none =>
    match rowLookup rows v u with
    | some (f, o) => some ((a - o) / f)
    | none => none

/-- rows tabulated in both directions are inverse to each other -/
def inverseConsistent {κ} [BEq κ] (rows : List (Row κ)) : Bool :=
  rows.all fun r =>
    match rowLookup rows r.src r.dst, rowLookup rows r.dst r.src with
    | some (f, o), some (f', o') => f != 0 && f * f' == 1 && o' == -(o * f')
    | some (f, _), none => f != 0
    | none, _ => false

/-- composing two tabulated rows equals the tabulated direct row -/
def triangleConsistent {κ} [BEq κ] (rows : List (Row κ)) : Bool :=
  rows.all fun r₁ => rows.all fun r₂ =>
    if r₁.dst == r₂.src && !(r₁.src == r₂.dst) then
      match rowLookup rows r₁.src r₁.dst, rowLookup rows r₂.src r₂.dst, rowLookup rows r₁.src r₂.dst with
      | some (f₁, o₁), some (f₂, o₂), some (f₃, o₃) => f₃ == f₂ * f₁ && o₃ == f₂ * o₁ + o₂
      | _, _, none => true      -- no direct row claimed
      | _, _, _ => true
    else true

end QM
