/-
`ExchangeRate` (normal form, inversion, triangulation), `MoneyConverter`
(update / lookup for every kind of validity) and the LIFO discipline of the
converter stack of `Money` — the parts of `quantity/money/__init__.py` that do
not need the unit registry.  Currencies are unit ids.
-/
import QuantityModel.Model.Rounding
import QuantityModel.Model.Term
namespace QM

/-! ### exchange rates -/

structure Rate where
  unitCur : Nat
  termCur : Nat
  unitMultiple : Rat
  termAmount : Rat
  deriving DecidableEq, Repr, Inhabited

def Rate.rate (r : Rate) : Rat := r.termAmount / r.unitMultiple
def Rate.inverseRate (r : Rate) : Rat := r.unitMultiple / r.termAmount
/-- `quotation`: what `__eq__` compares and `__hash__` hashes -/
def Rate.quotation (r : Rate) : Nat × Nat × Rat := (r.unitCur, r.termCur, r.rate)

/-- ⌊log10 x⌋ for `x > 0` (exact) -/
def ilog10Nat : Nat → Nat → Nat
  | 0, _ => 0
  | fuel + 1, n => if n < 10 then 0 else ilog10Nat fuel (n / 10) + 1

def magnitude (x : Rat) : Int :=
  if x ≥ 1 then (ilog10Nat 4000 (x.num.toNat / x.den) : Int)
  else
    -- smallest k ≥ 1 with x * 10^k ≥ 1
    let rec go : Nat → Nat → Rat → Int
      | 0, k, _ => -(k : Int)
      | fuel + 1, k, y => if y * 10 ≥ 1 then -((k : Int) + 1) else go fuel (k + 1) (y * 10)
    go 4000 0 x

/-- `unit_multiple` after `Decimal(...)`: a value, or not convertible -/
inductive UMArg where
  | val (v : Rat) | invalid
  deriving Repr, Inhabited

/-- `term_amount`: a `Decimal`, anything `Fraction(...)` accepts, or rejected
by `Fraction(...)` with ValueError / TypeError -/
inductive TAArg where
  | dec (v : Rat) | frac (v : Rat) | valueError | typeError
  deriving Repr, Inhabited

def isFiniteDecimal (q : Rat) : Bool :=
  let rec strip : Nat → Nat → Bool
    | 0, _ => false
    | fuel + 1, d => if d == 1 then true else if d % 2 == 0 then strip fuel (d / 2)
                     else if d % 5 == 0 then strip fuel (d / 5) else false
  strip (q.den.log2 + 2) q.den

/-- the tail of `ExchangeRate.__init__` once unit multiple `umv`, term amount
`tav` and the magnitude `mag` of the term amount are known -/
def rateOf (dflt : Rounding) (uc tc : Nat) (umv tav : Rat) (mag : Int) : Except Err Rate :=
  if tav < 1 / 1000000 then .error .ValueError
  else
    let mult : Rat := rpow 10 (magnitude umv - min 0 (mag + 1))
    match decimalOfPrec dflt (tav * mult / umv) 6 with
    | .ok t => .ok { unitCur := uc, termCur := tc, unitMultiple := mult, termAmount := t }
    | .error err => .error err

/-- `ExchangeRate(unit_currency, unit_multiple, term_currency, term_amount)` -/
def mkRate (dflt : Rounding) (uc tc : Nat) (um : UMArg) (ta : TAArg) : Except Err Rate :=
  if uc == tc then .error .ValueError else
  match um with
  | .invalid => .error .ValueError
  | .val umv =>
  if umv.den != 1 then .error .ValueError            -- not an Integral
  else if umv < 1 then .error .ValueError
  else
    match ta with
    | .typeError => .error .TypeError
    | .valueError => .error .ValueError
    | .dec v => if v = 0 then .error .OverflowError
                else rateOf dflt uc tc umv v (magnitude (if v < 0 then -v else v))
    | .frac v => if v ≤ 0 then .error .ValueError else rateOf dflt uc tc umv v (magnitude v)

/-- `rate.inverted()` -/
def Rate.inverted (dflt : Rounding) (r : Rate) : Except Err Rate :=
  let ir := r.inverseRate
  mkRate dflt r.termCur r.unitCur (.val 1) (if isFiniteDecimal ir then .dec ir else .frac ir)

def taOf (v : Rat) : TAArg := if isFiniteDecimal v then .dec v else .frac v

/-- `rate * rate` -/
def Rate.mul (dflt : Rounding) (a b : Rate) : Except Err Rate :=
  if a.unitCur == b.termCur then mkRate dflt b.unitCur a.termCur (.val 1) (taOf (a.rate * b.rate))
  else if a.termCur == b.unitCur then mkRate dflt a.unitCur b.termCur (.val 1) (taOf (a.rate * b.rate))
  else .error .ValueError

/-- `rate / rate` -/
def Rate.div (dflt : Rounding) (a b : Rate) : Except Err Rate :=
  if a.unitCur == b.unitCur then mkRate dflt b.termCur a.termCur (.val 1) (taOf (a.rate / b.rate))
  else if a.termCur == b.termCur then mkRate dflt a.unitCur b.unitCur (.val 1) (taOf (a.rate / b.rate))
  else .error .ValueError

/-! ### money converter -/

/-- validity period (after normalisation) -/
inductive Validity where
  | none | year (y : Int) | month (y m : Int) | day (y m d : Int)
  deriving DecidableEq, Repr, Inhabited

inductive VKind where | none | year | month | day
  deriving DecidableEq, Repr, Inhabited

def Validity.kind : Validity → VKind
  | .none => .none | .year _ => .year | .month .. => .month | .day .. => .day

def isLeap (y : Int) : Bool := (y % 4 == 0 && y % 100 != 0) || y % 400 == 0

def daysIn (y m : Int) : Int :=
  if m == 2 then (if isLeap y then 29 else 28)
  else if m == 4 || m == 6 || m == 9 || m == 11 then 30 else 31

def validDate (y m d : Int) : Bool :=
  1 ≤ y && y ≤ 9999 && 1 ≤ m && m ≤ 12 && 1 ≤ d && d ≤ daysIn y m

/-- the spellings `update` accepts for its `validity` argument -/
inductive VSpell where
  | none                                  -- None
  | int (y : Int)                          -- 2020
  | tuple (y m : Int)                      -- (2020, 3)
  | date (y m d : Int)                     -- datetime.date (always valid)
  | strParts (parts : List String)         -- a string split at '-'
  | other                                  -- anything else
  deriving Repr, Inhabited

/-- 4-digit year / 2-digit month and day fields as `date.fromisoformat`
requires them for `YYYY-MM-DD` -/
def fixedDigits (s : String) (n : Nat) : Option Int :=
  let cs := s.toList
  if cs.length == n && cs.all (fun c => '0' ≤ c && c ≤ '9') then
    some (Int.ofNat (cs.foldl (fun acc c => acc * 10 + (c.toNat - 48)) 0))
  else none

def parseValidity : VSpell → Except Err Validity
  | .none => .ok .none
  | .int y => if validDate y 1 1 then .ok (.year y) else .error .ValueError
  | .tuple y m => if validDate y m 1 then .ok (.month y m) else .error .ValueError
  | .date y m d => .ok (.day y m d)
  | .other => .error .ValueError
  | .strParts [y] =>
    match fixedDigits y 4 with
    | some y => if validDate y 1 1 then .ok (.year y) else .error .ValueError
    | none => .error .ValueError
  | .strParts [y, m] =>
    match fixedDigits y 4, fixedDigits m 2 with
    | some y, some m => if validDate y m 1 then .ok (.month y m) else .error .ValueError
    | _, _ => .error .ValueError
  | .strParts [y, m, d] =>
    match fixedDigits y 4, fixedDigits m 2, fixedDigits d 2 with
    | some y, some m, some d => if validDate y m d then .ok (.day y m d) else .error .ValueError
    | _, _, _ => .error .ValueError
  | .strParts _ => .error .ValueError

structure MConv where
  base : Nat
  kind : Option VKind := none               -- `_type_of_validity`
  rates : List ((Validity × Nat) × Rate) := []   -- `_rate_dict` (insertion order, last wins)
  deriving Repr, Inhabited

/-- one `(term_currency, term_amount, unit_multiple)` spec -/
structure RateSpec where
  termCur : Nat
  termAmount : TAArg
  unitMultiple : UMArg
  deriving Repr, Inhabited

/-- `MoneyConverter.update(validity, rate_specs)` (after the `fix:` commit:
all rates are built before anything is changed) -/
def MConv.update (dflt : Rounding) (c : MConv) (v : VSpell) (specs : List RateSpec) :
    MConv × Except Err Unit :=
  match parseValidity v with
  | .error e => (c, .error e)
  | .ok val =>
    if c.kind.isSome && c.kind != some val.kind then (c, .error .ValueError)
    else
      match specs.mapM fun sp =>
          (mkRate dflt c.base sp.termCur sp.unitMultiple sp.termAmount).map
            fun r => ((val, sp.termCur), r) with
      | .error e => (c, .error e)
      | .ok rs => ({ c with kind := some val.kind, rates := c.rates ++ rs }, .ok ())

def dateToValidity (k : VKind) (y m d : Int) : Validity :=
  match k with
  | .none => .none | .year => .year y | .month => .month y m | .day => .day y m d

/-- `_get_rate`: most recent entry for the period of the effective date -/
def MConv.storedRate (c : MConv) (cur : Nat) (y m d : Int) : Option Rate :=
  match c.kind with
  | none => none
  | some k => c.rates.reverse.lookup (dateToValidity k y m d, cur)

/-- `get_rate(unit_currency, term_currency, effective_date)`; the effective
date is explicit (the default date comes from the configured callable).
Outer `Except`: errors raised by `ExchangeRate(...)` -/
def MConv.getRate (dflt : Rounding) (c : MConv) (u t : Nat) (y m d : Int) :
    Except Err (Option Rate) :=
  if u == t then (mkRate dflt u t (.val 1) (.dec 1)).map some       -- raises: identical currencies
  else if c.base == u then .ok (c.storedRate t y m d)
  else if c.base == t then
    match c.storedRate u y m d with
    | none => .ok none
    | some r => (r.inverted dflt).map some
  else
    match c.storedRate u y m d, c.storedRate t y m d with
    | some ur, some tr => (mkRate dflt u t (.val 1) (taOf (tr.rate / ur.rate))).map some
    | _, _ => .ok none

/-- `converter(money, to_currency, date)` -/
def MConv.call (dflt : Rounding) (c : MConv) (amount : Rat) (u t : Nat) (y m d : Int) :
    Except Err Rat :=
  match c.getRate dflt u t y m d with
  | .error e => .error e
  | .ok none => .error .UnitConversionError
  | .ok (some r) => .ok (r.rate * amount)

/-! ### the converter stack of `Money` -/

/-- `Money.register_converter` / `__enter__`: on top of the stack (top = last) -/
def stackPush (stack : List Nat) (c : Nat) : List Nat := stack ++ [c]

/-- `QuantityMeta.register_converter` (generic types): no effect when the
converter is registered already, else appended (most recent = last) -/
def registerGeneric (l : List Nat) (c : Nat) : List Nat := if l.contains c then l else l ++ [c]

/-- `QuantityMeta.remove_converter`: `list.remove`; `none` = ValueError -/
def removeGeneric (l : List Nat) (c : Nat) : Option (List Nat) :=
  if l.contains c then some (l.erase c) else none

/-- `Money.remove_converter` / leaving a `with` block on a stack of
converter ids (top = last) -/
def stackRemove (stack : List Nat) (c : Nat) : List Nat × Except Err Unit :=
  match stack.reverse with
  | [] => (stack, .error .IndexError)
  | top :: rest =>
    if top == c then (rest.reverse, .ok ())
    else (stack, .error .ValueError)

end QM
