/-
Model of `quantity/money/__init__.py`: currencies (`MoneyMeta.new_unit`,
`register_currency`), `ExchangeRate` (normal form, inversion, triangulation,
application to money and prices), `MoneyConverter` (update / lookup for every
kind of validity) and the converter stack of `Money`.
-/
import QuantityModel.Model.Quantity
namespace QM

/-! ### currencies -/

/-- `minor_unit` argument -/
inductive MinorArg where
  | none | int (n : Int) | nonInt
  deriving Repr, Inhabited

/-- `smallest_fraction` argument after `Decimal(...)`: value and precision, or
not convertible -/
inductive SfArg where
  | none | dec (value : Rat) (precision : Nat) | invalid
  deriving Repr, Inhabited

/-- last step of `MoneyMeta.new_unit`: `s` is the state before the
declaration, `r` the outcome of `super().new_unit(symbol, name)` -/
def finishCurrency (s : RegState) (r : RegState × Except DeclErr Nat) (frac : Rat) :
    RegState × Except DeclErr Nat :=
  match r with
  | (_, .error e) => (s, .error e)
  | (s', .ok uid) =>
    ({ s' with units := s'.units.modify uid fun u => { u with smallestFraction := some frac } },
     .ok uid)

/-- `MoneyMeta.new_unit(symbol, name, minor_unit, smallest_fraction)` on the
money class `mc` -/
def RegState.newCurrency (s : RegState) (mc : Nat) (symbol : Option String) (minor : MinorArg)
    (sf : SfArg) : RegState × Except DeclErr Nat :=
  match (match minor with
         | .nonInt => some DeclErr.typeError
         | .int n => if n < 0 then some DeclErr.valueError else none
         | .none => none) with
  | some e => (s, .error e)
  | none =>
  let fracRes : Except DeclErr Rat :=
    match sf with
    | .none => (match minor with
        | .int n => .ok (1 / (10 : Rat) ^ n.toNat)
        | _ => .ok (1 / 100))
    | .invalid => .error .valueError
    | .dec v p =>
      match minor with
      | .int n => if n != (p : Int) then .error .valueError else .ok v
      | _ =>
        if v ≤ 0 then .error .valueError
        else
          let m := 1 / v
          if m.den == 1 && m.num > 1 then .ok v else .error .valueError
  match fracRes with
  | .error e => (s, .error e)
  | .ok frac => finishCurrency s (s.newUnit mc symbol .none) frac

/-- `Money.register_currency(iso_code)` against a table (code, name, minor units) -/
def RegState.registerCurrency (s : RegState) (mc : Nat) (table : List (String × String × Nat))
    (code : String) : RegState × Except DeclErr Nat :=
  match (s.cls mc).units.find? fun u => (s.unit u).symbol == code with
  | some u => (s, .ok u)                      -- already registered: the same object
  | none =>
    match table.find? fun e => e.1 == code with
    | none => (s, .error .valueError)
    | some e => s.newCurrency mc (some code) (.int e.2.2) .none

namespace QState

/-- `money * rate` / `rate * money` -/
def moneyTimesRate (s : QState) (dflt : Rounding) (m : Qty) (r : Rate) : Except Err Qty :=
  if m.unit == r.unitCur then s.reg.mkQty dflt (some (s.reg.unitCls m.unit)) (m.amount * r.rate) r.termCur
  else .error .ValueError

/-- `money / rate` -/
def moneyDivRate (s : QState) (dflt : Rounding) (m : Qty) (r : Rate) : Except Err Qty :=
  if m.unit == r.termCur then
    s.reg.mkQty dflt (some (s.reg.unitCls m.unit)) (m.amount * r.inverseRate) r.unitCur
  else .error .ValueError

/-- `unit.definition` (a base unit defines itself) -/
def unitDefn (s : QState) (u : Nat) : Items :=
  match (s.reg.unit u).defn with
  | some d => d
  | none => [(.atom u, 1)]

/-- the unit term the code resolves for `price * rate` / `price / rate`:
the price unit's definition times term/unit currency (resp. unit/term) -/
def priceTerm (s : QState) (p : Qty) (r : Rate) (inverse : Bool) : Items :=
  let env := s.reg.unitEnv
  let swap : Items := if inverse then [(.atom r.unitCur, 1), (.atom r.termCur, -1)]
                      else [(.atom r.termCur, 1), (.atom r.unitCur, -1)]
  mulTerm env (s.unitDefn p.unit) (mkTerm env swap)

/-- `price * rate` (`inverse = false`) and `price / rate` (`inverse = true`)
for a quantity whose unit's definition contains a currency -/
def priceTimesRate (s : QState) (dflt : Rounding) (p : Qty) (r : Rate) (inverse : Bool) :
    Except Err Qty :=
  let k := if inverse then r.inverseRate else r.rate
  match s.reg.amntAndUnit (s.priceTerm p r inverse) with
  | none => .error .QuantityError
  | some (f, none) =>
    -- `cls(amount, None)`: falls back to the reference unit of the class
    (match (s.reg.cls (s.reg.unitCls p.unit)).refUnit with
     | none => .error .QuantityError
     | some ru => s.reg.mkQty dflt (some (s.reg.unitCls p.unit)) (f * k * p.amount) ru)
  | some (f, some w) => s.reg.mkQty dflt (some (s.reg.unitCls p.unit)) (f * k * p.amount) w

end QState

end QM
