/-
Basic vocabulary shared by every model file.  Import-free (core only) so that
the line-protocol driver can be built as a native executable.
-/
namespace QM

/-- The eight rounding modes of `decimalfp.ROUNDING` (names as in Python). -/
inductive Rounding where
  | ROUND_05UP | ROUND_CEILING | ROUND_DOWN | ROUND_FLOOR
  | ROUND_HALF_DOWN | ROUND_HALF_EVEN | ROUND_HALF_UP | ROUND_UP
  deriving DecidableEq, Repr, Inhabited

def Rounding.all : List Rounding :=
  [.ROUND_05UP, .ROUND_CEILING, .ROUND_DOWN, .ROUND_FLOOR,
   .ROUND_HALF_DOWN, .ROUND_HALF_EVEN, .ROUND_HALF_UP, .ROUND_UP]

def Rounding.name : Rounding → String
  | .ROUND_05UP => "ROUND_05UP" | .ROUND_CEILING => "ROUND_CEILING"
  | .ROUND_DOWN => "ROUND_DOWN" | .ROUND_FLOOR => "ROUND_FLOOR"
  | .ROUND_HALF_DOWN => "ROUND_HALF_DOWN" | .ROUND_HALF_EVEN => "ROUND_HALF_EVEN"
  | .ROUND_HALF_UP => "ROUND_HALF_UP" | .ROUND_UP => "ROUND_UP"

def Rounding.ofName? (s : String) : Option Rounding :=
  Rounding.all.find? (fun r => r.name == s)

/-- The small enum exceptions are canonicalised to (DESIGN.md §2.2). -/
inductive Err where
  | TypeError | ValueError | QuantityError | IncompatibleUnitsError
  | UndefinedResultError | UnitConversionError | ZeroDivisionError
  | AssertionError | IndexError | OverflowError | KeyError | AttributeError
  | Other
  deriving DecidableEq, Repr, Inhabited

def Err.name : Err → String
  | .TypeError => "TypeError" | .ValueError => "ValueError"
  | .QuantityError => "QuantityError"
  | .IncompatibleUnitsError => "IncompatibleUnitsError"
  | .UndefinedResultError => "UndefinedResultError"
  | .UnitConversionError => "UnitConversionError"
  | .ZeroDivisionError => "ZeroDivisionError"
  | .AssertionError => "AssertionError" | .IndexError => "IndexError"
  | .OverflowError => "OverflowError" | .KeyError => "KeyError"
  | .AttributeError => "AttributeError" | .Other => "Other"

/-- Python `abs` on `int`. -/
def iabs (a : Int) : Int := if a < 0 then -a else a

/-- Canonical text of a rational: reduced `n/d` (DESIGN.md §2.2). -/
def ratStr (q : Rat) : String := s!"{q.num}/{q.den}"

/-- Parse `n/d` or `n`; rejects anything else (never defaults). -/
def parseRat? (s : String) : Option Rat :=
  match s.splitOn "/" with
  | [n] => n.toInt?.map fun i => (i : Rat)
  | [n, d] =>
    match n.toInt?, d.toNat? with
    | some i, some k => if k = 0 then none else some ((i : Rat) / (k : Rat))
    | _, _ => none
  | _ => none

end QM
