/-
Model of `Quantity.allocate(ratios, disperse_rounding_error)`.
Everything happens in the receiver's unit: `A` is the receiver's amount,
`quantum` its unit's quantum (if the type has one), `fractions` are
`ratio / total` (ratios are numbers, or quantities of one type reduced to their
plain ratio by `qty / qty`).
-/
import QuantityModel.Model.Rounding
namespace QM

/-- `cls(amount * fraction, unit)`: the constructor's rounding to the grid -/
def toGrid (dflt : Rounding) (quantum : Option Rat) (x : Rat) : Rat :=
  match quantum with
  | none => x
  | some q => (roundQ dflt (x / q) : Rat) * q

/-- lexicographic `(error, idx) ≤ (error', idx')` as Python compares tuples -/
def errLe (a b : Rat × Nat) : Bool := a.1 < b.1 || (a.1 == b.1 && a.2 ≤ b.2)

def insertErr (desc : Bool) (x : Rat × Nat) : List (Rat × Nat) → List (Rat × Nat)
  | [] => [x]
  | y :: ys =>
    if (if desc then errLe y x else errLe x y) then x :: y :: ys else y :: insertErr desc x ys

/-- `sorted(errors, reverse=desc)` -/
def sortErrs (desc : Bool) : List (Rat × Nat) → List (Rat × Nat)
  | [] => []
  | x :: xs => insertErr desc x (sortErrs desc xs)

/-- the dispersal loop: walk the sorted errors, move one (signed) quantum per
step until the remainder is zero -/
def disperse (q : Rat) : List (Rat × Nat) → List Rat → Rat → List Rat × Rat
  | [], ps, rem => (ps, rem)
  | (_, idx) :: rest, ps, rem =>
    let ps' := ps.modify idx (· + q)
    let rem' := rem - q
    if rem' = 0 then (ps', rem') else disperse q rest ps' rem'

/-- the portions before dispersal: each exact share rounded by the constructor -/
def allocPortions (dflt : Rounding) (A : Rat) (quantum : Option Rat) (ratios : List Rat) : List Rat :=
  (ratios.map (· / ratios.sum)).map fun f => toGrid dflt quantum (A * f)

/-- `(portion.amount - self.amount * fraction, idx)` for every portion -/
def allocErrs (A : Rat) (ratios portions : List Rat) : List (Rat × Nat) :=
  (List.range portions.length).map fun i =>
    (portions.getD i 0 - A * (ratios.map (· / ratios.sum)).getD i 0, i)

/-- remainder and (optional) dispersal of the rounding error -/
def finishAlloc (A : Rat) (quantum : Option Rat) (ratios portions : List Rat) (disperseErr : Bool) :
    Except Err (List Rat × Rat) :=
  let rem := A - portions.sum
  if rem = 0 then .ok (portions, 0)
  else
    match quantum with
    | none => .error .AssertionError        -- "Remainder != 0 for quantity w/o quantum."
    | some q =>
      if disperseErr then
        .ok (disperse (if rem < 0 then -q else q)
              (sortErrs (decide (rem < 0)) (allocErrs A ratios portions)) portions rem)
      else .ok (portions, rem)

/-- portions and remainder (amounts in the receiver's unit) -/
def allocate (dflt : Rounding) (A : Rat) (quantum : Option Rat) (ratios : List Rat)
    (disperseErr : Bool) : Except Err (List Rat × Rat) :=
  if ratios.isEmpty then .error .TypeError
  else if ratios.sum = 0 then .error .ZeroDivisionError
  else finishAlloc A quantum ratios (allocPortions dflt A quantum ratios) disperseErr

end QM
