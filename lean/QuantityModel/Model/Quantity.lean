/-
Model of `Unit` and `Quantity` behaviour over a registry state: unit
arithmetic with the operation cache, construction (quantisation at the single
choke point), conversion, comparison, `+ - * / **`, `quantize`, `round`,
`sum`, hash keys.  Amounts are exact rationals; where the code branches on the
representation (Decimal vs Fraction) the representation is an explicit input.
-/
import QuantityModel.Model.Rounding
import QuantityModel.Model.Registry
import QuantityModel.Model.Rate
import QuantityModel.Model.Allocate
namespace QM

structure Qty where
  amount : Rat
  unit : Nat
  deriving DecidableEq, Repr, Inhabited

/-- result values of operators -/
inductive Val where
  | qty (q : Qty)
  | num (r : Rat)
  | pair (f : Rat) (u : Option Nat)      -- unit ∘ unit ↦ (amount, unit | None)
  deriving DecidableEq, Repr, Inhabited

/-- a converter registered with a class (`TableConverter` table or an opaque
function given by its graph); see `Model/Converters.lean` for tables -/
structure ConvTable where
  rows : List ((Nat × Nat) × (Rat × Rat))      -- (from, to) ↦ (factor, offset); later rows win
  deriving Repr, Inhabited

structure QState where
  reg : RegState
  /-- `cls._converters` per class id, in registration order (ids into `tables`) -/
  converters : List (Nat × List Nat) := []
  tables : List ConvTable := []
  /-- money converters created so far (by id) -/
  mconvs : List MConv := []
  /-- `Money._converters`: ids into `mconvs`, most recent last -/
  mstack : List Nat := []
  /-- what the configured `get_dflt_effective_date` callable returns -/
  today : Int × Int × Int := (2000, 1, 1)
  /-- the configured default rounding mode (`decimalfp.get_dflt_rounding_mode()`)
  as seen by code that is not handed a mode (rates built inside a converter) -/
  dfltMode : Rounding := .ROUND_HALF_EVEN
  deriving Repr, Inhabited

namespace RegState

def unitCls (s : RegState) (u : Nat) : Nat := (s.unit u).cls

/-- `Unit.quantum` (`Currency.quantum` for currencies) -/
def unitQuantum (s : RegState) (u : Nat) : Option Rat :=
  let ui := s.unit u
  match ui.smallestFraction with
  | some f => some f
  | none =>
    match (s.cls ui.cls).quantum, ui.equiv with
    | some q, some e => some (q / e)
    | _, _ => none

/-- `Unit.__eq__`: units of one type are equal when their scales are; a unit
without scale, or of a type without reference unit, equals itself only (since
fixes c2c5a04 / 4f15493; `Option` is kept for the callers: the result is never `none`) -/
def unitEq (s : RegState) (u v : Nat) : Option Bool :=
  if s.unitCls u != s.unitCls v then some false
  -- a type without reference unit: its units are not convertible, the factors
  -- of their definitions refer to different base units (fix 4f15493)
  else if (s.cls (s.unitCls u)).refUnit.isNone then some (u == v)
  else match (s.unit u).equiv, (s.unit v).equiv with
    | some a, some b => some (a == b)
    | _, _ => some (u == v)

/-- `Unit._get_factor(other)`; outer `none` = TypeError (different class) -/
def unitFactor (s : RegState) (u v : Nat) : Option (Option Rat) :=
  if s.unitCls u != s.unitCls v then none
  else if (s.cls (s.unitCls u)).refUnit.isNone then some none
  else match (s.unit u).equiv, (s.unit v).equiv with
    | some a, some b => some (some (a / b))
    | _, _ => some none     -- a unit declared without definition: not convertible

/-- `cls(amount, unit)` / `Quantity(amount, unit)`: the single choke point
that rounds `amount / quantum` to an integer. `cls = none` is the generic
factory. -/
def mkQty (s : RegState) (dflt : Rounding) (cls : Option Nat) (a : Rat) (u : Nat) :
    Except Err Qty :=
  match cls with
  | some c => if c != s.unitCls u then .error .QuantityError else go
  | none => go
where go : Except Err Qty :=
  match s.unitQuantum u with
  | none => .ok ⟨a, u⟩
  | some q =>
    match roundToGrid dflt a q with
    | .ok a' => .ok ⟨a', u⟩
    | .error e => .error e

end RegState

namespace QState

def clsConverters (s : QState) (c : Nat) : List Nat := (s.converters.lookup c).getD []

/-- `TableConverter._get_factor` on the mapping built from the rows -/
def tableLookup (t : ConvTable) (fromU toU : Nat) (a : Rat) : Option Rat :=
  let find := fun (k : Nat × Nat) => (t.rows.reverse.lookup k)
  match find (fromU, toU) with
  | some (f, o) => some (f * a + o)
  | none =>
    match find (toU, fromU) with
    | some (f, o) => some ((a - o) / f)
    | none => none

/-- `Converter.__call__` for a table converter -/
def applyTable (s : QState) (t : ConvTable) (q : Qty) (toU : Nat) : Except Err (Option Rat) :=
  if q.unit == toU then .ok (some q.amount)
  else if s.reg.unitCls q.unit == s.reg.unitCls toU then .ok (tableLookup t q.unit toU q.amount)
  else .error .IncompatibleUnitsError

/-- `Quantity.equiv_amount(unit)` -/
def equivAmount (s : QState) (q : Qty) (u : Nat) : Except Err (Option Rat) :=
  match s.reg.unitEq q.unit u with
  | none => .error .AssertionError
  | some true => .ok (some q.amount)
  | some false =>
    match s.reg.unitFactor q.unit u with
    | none => .error .IncompatibleUnitsError
    | some (some f) => .ok (some (f * q.amount))
    | some none =>
      if (s.reg.cls (s.reg.unitCls q.unit)).isMoney then
        -- money: the most recently registered converter still active is
        -- called first; it either answers or raises (never returns None)
        match s.mstack.reverse with
        | [] => .ok none
        | top :: _ =>
          let c := s.mconvs.getD top default
          (c.call s.dfltMode q.amount q.unit u s.today.1 s.today.2.1 s.today.2.2).map some
      else
      -- registered converters, most recent first, first non-None wins
      let rec tryConv : List Nat → Except Err (Option Rat)
        | [] => .ok none
        | t :: rest =>
          match s.applyTable (s.tables.getD t default) q u with
          | .error e => .error e
          | .ok (some a) => .ok (some a)
          | .ok none => tryConv rest
      tryConv (s.clsConverters (s.reg.unitCls q.unit)).reverse

/-- `Quantity.convert(to_unit)` -/
def convert (s : QState) (dflt : Rounding) (q : Qty) (u : Nat) : Except Err Qty :=
  match s.equivAmount q u with
  | .error e => .error e
  | .ok none => .error .UnitConversionError
  | .ok (some a) => s.reg.mkQty dflt (some (s.reg.unitCls u)) a u

inductive Cmp where | lt | le | gt | ge
  deriving DecidableEq, Repr, Inhabited

def Cmp.eval (c : Cmp) (a b : Rat) : Bool :=
  match c with
  | .lt => a < b | .le => a ≤ b | .gt => a > b | .ge => a ≥ b

/-- `Unit._compare` between two units (`<`, `<=`, `>`, `>=`):
`op(self._get_factor(other), 1)` -/
def unitCmp (s : QState) (c : Cmp) (u v : Nat) : Except Err Bool :=
  match s.reg.unitFactor u v with
  | none => .error .IncompatibleUnitsError
  | some none => .error .UnitConversionError
  | some (some f) => .ok (c.eval f 1)

/-- `Quantity.__eq__` between two quantities -/
def qtyEq (s : QState) (a b : Qty) : Except Err Bool :=
  if s.reg.unitCls a.unit != s.reg.unitCls b.unit then .ok false
  else if a.unit == b.unit then .ok (a.amount == b.amount)
  else match s.equivAmount b a.unit with
    | .error e => .error e
    | .ok (some e) => .ok (a.amount == e)
    | .ok none => .ok false

/-- `Quantity._compare` between two quantities -/
def qtyCmp (s : QState) (c : Cmp) (a b : Qty) : Except Err Bool :=
  if s.reg.unitCls a.unit != s.reg.unitCls b.unit then .error .IncompatibleUnitsError
  else if a.unit == b.unit then .ok (c.eval a.amount b.amount)
  else match s.equivAmount b a.unit with
    | .error e => .error e
    | .ok none => .error .UnitConversionError
    | .ok (some e) => .ok (c.eval a.amount e)

/-- `Quantity.__add__` / `__sub__` (`sign = 1 / -1`) between two quantities -/
def qtyAddSub (s : QState) (dflt : Rounding) (sign : Rat) (a b : Qty) : Except Err Qty :=
  let c := s.reg.unitCls a.unit
  if c != s.reg.unitCls b.unit then .error .IncompatibleUnitsError
  else match s.reg.unitEq a.unit b.unit with
    | none => .error .AssertionError
    | some true => s.reg.mkQty dflt (some c) (a.amount + sign * b.amount) a.unit
    | some false =>
      match s.equivAmount b a.unit with
      | .error e => .error e
      | .ok none => .error .UnitConversionError
      | .ok (some e) => s.reg.mkQty dflt (some c) (a.amount + sign * e) a.unit

def qtyNeg (s : QState) (dflt : Rounding) (a : Qty) : Except Err Qty :=
  s.reg.mkQty dflt (some (s.reg.unitCls a.unit)) (-a.amount) a.unit
def qtyAbs (s : QState) (dflt : Rounding) (a : Qty) : Except Err Qty :=
  s.reg.mkQty dflt (some (s.reg.unitCls a.unit)) (if a.amount < 0 then -a.amount else a.amount) a.unit

/-! ### unit arithmetic with the operation cache -/

/-- `Unit.__mul__(Unit)`; returns the new state (cache) and the result -/
def mulUnits (s : QState) (u v : Nat) : QState × Except Err (Rat × Option Nat) :=
  match s.reg.opCache.lookup (UOp.mul, u, v) with
  | some r => (s, .ok r)
  | none =>
    let t := mkTerm s.reg.unitEnv [(.atom u, 1), (.atom v, 1)]
    match s.reg.amntAndUnit t with
    | none => (s, .error .UndefinedResultError)
    | some r =>
      ({ s with reg := { s.reg with opCache := s.reg.opCache ++ [((UOp.mul, u, v), r)] } }, .ok r)

/-- `Unit.__truediv__(Unit)` -/
def divUnits (s : QState) (u v : Nat) : QState × Except Err (Rat × Option Nat) :=
  match s.reg.opCache.lookup (UOp.div, u, v) with
  | some r => (s, .ok r)
  | none =>
    let res : Except Err (Rat × Option Nat) :=
      if s.reg.unitCls u == s.reg.unitCls v then
        if u == v then .ok (1, none)
        else match (s.reg.unit u).equiv, (s.reg.unit v).equiv with
          | some a, some b => .ok (a / b, none)
          | _, _ => .error .UnitConversionError
      else
        let t := mkTerm s.reg.unitEnv [(.atom u, 1), (.atom v, -1)]
        match s.reg.amntAndUnit t with
        | none => .error .UndefinedResultError
        | some r => .ok r
    match res with
    | .error e => (s, .error e)
    | .ok r =>
      ({ s with reg := { s.reg with opCache := s.reg.opCache ++ [((UOp.div, u, v), r)] } }, .ok r)

/-- `Unit.__pow__(int)` (not cached) -/
def powUnit (s : QState) (dflt : Rounding) (u : Nat) (n : Int) : Except Err Val :=
  if n = 0 then .ok (.num 1)
  else if n = 1 then (s.reg.mkQty dflt (some (s.reg.unitCls u)) 1 u).map Val.qty
  else
    let t := mkTerm s.reg.unitEnv [(.atom u, n)]
    match s.reg.amntAndUnit t with
    | none => .error .UndefinedResultError
    | some (_, none) => .error .AssertionError
    | some (a, some w) => (s.reg.mkQty dflt (some (s.reg.unitCls w)) a w).map Val.qty

/-- `(amount) * unit` when `unit` may be `None` (dimensions cancel) -/
def numTimesUnit (s : QState) (dflt : Rounding) (a : Rat) (u : Option Nat) : Except Err Val :=
  match u with
  | none => .ok (.num a)
  | some w => (s.reg.mkQty dflt (some (s.reg.unitCls w)) a w).map Val.qty

/-- `Quantity * Quantity` -/
def qtyMul (s : QState) (dflt : Rounding) (a b : Qty) : QState × Except Err Val :=
  match s.mulUnits a.unit b.unit with
  | (s', .error e) => (s', .error e)
  | (s', .ok (f, w)) => (s', s'.numTimesUnit dflt (a.amount * b.amount * f) w)

/-- `Quantity * Unit` and `Unit * Quantity` (`unitFirst`) -/
def qtyMulUnit (s : QState) (dflt : Rounding) (a : Qty) (u : Nat) (unitFirst : Bool) :
    QState × Except Err Val :=
  match (if unitFirst then s.mulUnits u a.unit else s.mulUnits a.unit u) with
  | (s', .error e) => (s', .error e)
  | (s', .ok (f, w)) => (s', s'.numTimesUnit dflt (a.amount * f) w)

/-- `Quantity * number` / `number * Quantity` -/
def qtyScale (s : QState) (dflt : Rounding) (a : Qty) (k : Rat) : Except Err Val :=
  (s.reg.mkQty dflt (some (s.reg.unitCls a.unit)) (a.amount * k) a.unit).map Val.qty

/-- `Quantity / Quantity` -/
def qtyDiv (s : QState) (dflt : Rounding) (a b : Qty) : QState × Except Err Val :=
  if s.reg.unitCls a.unit == s.reg.unitCls b.unit then
    match s.equivAmount b a.unit with
    | .error e => (s, .error e)
    | .ok none => (s, .error .UnitConversionError)
    | .ok (some e) => if e = 0 then (s, .error .ZeroDivisionError) else (s, .ok (.num (a.amount / e)))
  else
    match s.divUnits a.unit b.unit with
    | (s', .error e) => (s', .error e)
    | (s', .ok (f, w)) =>
      if b.amount = 0 then (s', .error .ZeroDivisionError)
      else match w with
        | none => (s', .error .TypeError)       -- `amount * None`
        | some w' => (s', s'.numTimesUnit dflt (a.amount / b.amount * f) (some w'))

/-- `Quantity / Unit` -/
def qtyDivUnit (s : QState) (dflt : Rounding) (a : Qty) (u : Nat) : QState × Except Err Val :=
  if s.reg.unitCls a.unit == s.reg.unitCls u then
    match s.equivAmount a u with
    | .error e => (s, .error e)
    | .ok none => (s, .error .UnitConversionError)
    | .ok (some e) => (s, .ok (.num e))
  else
    match s.divUnits a.unit u with
    | (s', .error e) => (s', .error e)
    | (s', .ok (f, w)) =>
      match w with
      | none => (s', .error .TypeError)
      | some w' => (s', s'.numTimesUnit dflt (a.amount * f) (some w'))

/-- `Unit / Quantity` (after the `fix:` commit) -/
def unitDivQty (s : QState) (dflt : Rounding) (u : Nat) (b : Qty) : QState × Except Err Val :=
  match s.divUnits u b.unit with
  | (s', .error e) => (s', .error e)
  | (s', .ok (f, w)) =>
    if b.amount = 0 then (s', .error .ZeroDivisionError)
    else (s', s'.numTimesUnit dflt (f / b.amount) w)

/-- `Quantity / number` -/
def qtyDivNum (s : QState) (dflt : Rounding) (a : Qty) (k : Rat) : Except Err Val :=
  if k = 0 then .error .ZeroDivisionError
  else (s.reg.mkQty dflt (some (s.reg.unitCls a.unit)) (a.amount / k) a.unit).map Val.qty

/-- `number / Quantity`: `(number / amount) * unit ** -1` -/
def numDivQty (s : QState) (dflt : Rounding) (k : Rat) (a : Qty) : Except Err Val :=
  if a.amount = 0 then .error .ZeroDivisionError
  else match s.powUnit dflt a.unit (-1) with
    | .error e => .error e
    | .ok (.qty q) => s.qtyScale dflt q (k / a.amount)
    | .ok (.num r) => .ok (.num (k / a.amount * r))
    | .ok v => .ok v

/-- `Quantity ** int`: `amount ** exp * unit ** exp` -/
def qtyPow (s : QState) (dflt : Rounding) (a : Qty) (n : Int) : Except Err Val :=
  if a.amount = 0 ∧ n < 0 then .error .ZeroDivisionError
  else match s.powUnit dflt a.unit n with
    | .error e => .error e
    | .ok (.qty q) => s.qtyScale dflt q (rpow a.amount n)
    | .ok (.num r) => .ok (.num (rpow a.amount n * r))
    | .ok v => .ok v

/-- `Quantity.quantize(quant, rounding)`; `isDec` = amount held as Decimal,
`(v, p)` its internal pair in that case. -/
def qtyQuantize (s : QState) (dflt : Rounding) (a : Qty) (aDec : Option (Int × Nat)) (quant : Qty)
    (mode : Option Rounding) : Except Err Qty :=
  let c := s.reg.unitCls a.unit
  if s.reg.unitCls quant.unit != c then .error .TypeError
  else if (s.reg.cls c).refUnit.isNone then .error .TypeError
  else match s.equivAmount quant a.unit with
    | .error e => .error e
    | .ok none => .error .UnitConversionError
    | .ok (some nq) =>
      if a.amount = 0 then .ok a
      else
        let r := match aDec with
          | some (v, p) => decQuantize v p nq mode dflt
          | none => Gen.quantizeFraction a.amount nq mode dflt
        match r with
        | .error e => .error e
        | .ok r => s.reg.mkQty dflt (some c) r a.unit

/-- `round(q, n)`: Decimal amounts use `Decimal.adjusted(n)` (default mode),
Fraction amounts Python's `Fraction.__round__` (half-even). -/
def roundAmount (dflt : Rounding) (a : Rat) (isDec : Bool) (n : Int) : Rat :=
  let m := if isDec then dflt else Rounding.ROUND_HALF_EVEN
  if 0 ≤ n then (roundQ m (a * (10 : Rat) ^ n.toNat) : Rat) / (10 : Rat) ^ n.toNat
  else (roundQ m (a / (10 : Rat) ^ (-n).toNat) : Rat) * (10 : Rat) ^ (-n).toNat

def qtyRound (s : QState) (dflt : Rounding) (a : Qty) (isDec : Bool) (n : Int) : Except Err Qty :=
  s.reg.mkQty dflt (some (s.reg.unitCls a.unit)) (roundAmount dflt a.amount isDec n) a.unit

/-- `unit * k` / `k * unit` (`Unit.__mul__` / `__rmul__` with a plain number of
any kind, an SI prefix counting as its factor): the quantity `k unit` -/
def unitTimesNum (s : QState) (dflt : Rounding) (u : Nat) (k : Rat) : Except Err Val :=
  (s.reg.mkQty dflt none k u).map Val.qty

/-- `unit / k`: the quantity `1/k unit` -/
def unitDivNum (s : QState) (dflt : Rounding) (u : Nat) (k : Rat) : Except Err Val :=
  if k = 0 then .error .ZeroDivisionError else (s.reg.mkQty dflt none (1 / k) u).map Val.qty

/-- `k / unit` (`Unit.__rtruediv__`): `k * unit ** -1` -/
def numDivUnit (s : QState) (dflt : Rounding) (k : Rat) (u : Nat) : Except Err Val :=
  match s.powUnit dflt u (-1) with
  | .error e => .error e
  | .ok (.qty x) => s.qtyScale dflt x k
  | .ok (.num x) => .ok (.num (k * x))
  | .ok v => .ok v

/-- `Cls(text[, unit])` / `Quantity(text[, unit])` once the text is split into
amount and (optional, already looked-up) symbol unit `su`; `cls = none` is the
generic factory, `uarg` the explicit unit argument -/
def parseQuantity (s : QState) (dflt : Rounding) (cls : Option Nat) (amt : Rat)
    (su uarg : Option Nat) : Except Err Qty :=
  match su, uarg with
  | some u, some ua =>
    if u == ua then s.reg.mkQty dflt cls amt u
    else
      -- the quantity in the symbol's unit (of that unit's own type), converted
      match s.reg.mkQty dflt (some (s.reg.unitCls u)) amt u with
      | .error e => .error e
      | .ok q0 => s.convert dflt q0 ua
  | some u, none => s.reg.mkQty dflt cls amt u
  | none, some ua => s.reg.mkQty dflt cls amt ua
  | none, none =>
    match cls with
    | none => .error .QuantityError
    | some cc => match (s.reg.cls cc).refUnit with
      | some ru => s.reg.mkQty dflt cls amt ru
      | none => .error .QuantityError

/-- operators between a quantity and a plain number (either order): `+`, `-`
and the order comparisons find no implementation on either side (both return
`NotImplemented`) → TypeError; `==` is False, `!=` True. -/
inductive MixOp where | add | radd | sub | rsub | lt | le | gt | ge | eq | ne
  deriving DecidableEq, Repr, Inhabited

def qtyVsNumber (op : MixOp) : Except Err Bool :=
  match op with
  | .eq => .ok false
  | .ne => .ok true
  | _ => .error .TypeError

/-- `utils.sum(items)` without start value: left fold of `+` (0 when empty) -/
def qtySum (s : QState) (dflt : Rounding) : List Qty → Except Err (Option Qty)
  | [] => .ok none
  | x :: rest => rest.foldl (fun acc y => acc.bind fun a =>
      match a with
      | some q => (s.qtyAddSub dflt 1 q y).map some
      | none => .ok none) (.ok (some x))

/-- what `Quantity.__hash__` feeds to `hash` (after the `fix:` commit): the
amount in the reference unit and the type when the type has a reference unit,
otherwise amount and unit -/
inductive QHashKey where
  | ref (value : Rat) (cls : Nat)
  | raw (amount : Rat) (unit : Nat)
  deriving DecidableEq, Repr, Inhabited

def qtyHashKey (s : QState) (a : Qty) : QHashKey :=
  let c := s.reg.unitCls a.unit
  match (s.reg.cls c).refUnit, (s.reg.unit a.unit).equiv with
  | some _, some e => .ref (a.amount * e) c
  | _, _ => .raw a.amount a.unit

/-- what `Unit.__hash__` feeds to `hash`: the symbol -/
def unitHashKey (s : QState) (u : Nat) : String := (s.reg.unit u).symbol

/-- reference value (amount in the reference unit), when the class has one -/
def refValue (s : QState) (a : Qty) : Option Rat :=
  if (s.reg.cls (s.reg.unitCls a.unit)).refUnit.isSome then
    (s.reg.unit a.unit).equiv.map (· * a.amount)
  else none

/-- a ratio of `Quantity.allocate`: a plain number, or a quantity — which
counts with its reference value (the code divides quantity by quantity, which
converts), or with its amount where there is no scale (then all ratios share
one unit or the division raises) -/
inductive Ratio where
  | num (r : Rat)
  | qty (x : Qty)
  deriving Repr, Inhabited

def ratioValue (s : QState) : Ratio → Rat
  | .num r => r
  | .qty x => (s.refValue x).getD x.amount

/-- `Quantity.allocate(ratios, disperse_rounding_error)` -/
def allocateQty (s : QState) (dflt : Rounding) (a : Qty) (ratios : List Ratio) (disperse : Bool) :
    Except Err (List Rat × Rat) :=
  allocate dflt a.amount (s.reg.unitQuantum a.unit) (ratios.map s.ratioValue) disperse

end QState
end QM
