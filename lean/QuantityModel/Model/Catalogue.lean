/-
Replay of a declaration script (the translated `predefined.py`) on the
registry model.  Steps refer to classes and units by creation-order ids.
-/
import QuantityModel.Model.Quantity
namespace QM

inductive CatStep where
  | cls (name : String) (defn : Option Items) (refSym : Option String) (refName : Bool)
      (quantum : Option Rat)
  | unitQty (cls : Nat) (sym : String) (amount : Rat) (unit : Nat)
  | unitTerm (cls : Nat) (sym : String) (items : Items)
  | unitNone (cls : Nat) (sym : String)
  | derive (cls : Nat) (args : List Nat) (sym : Option String)
  deriving Repr, Inhabited

/-- apply one step; a failing step leaves the state unchanged and is counted -/
def applyCatStep (acc : RegState × Nat) (st : CatStep) : RegState × Nat :=
  let s := acc.1
  let r : RegState × Except DeclErr Nat :=
    match st with
    | .cls name defn refSym refName quantum =>
      s.declClass { name, defineAs := defn.map (mkTerm s.clsEnv), refUnitSymbol := refSym,
                    refUnitName := refName, quantum }
    | .unitQty c sym a u =>
      -- `a * unit` is a quantity: it is quantised like every other instance
      match s.mkQty .ROUND_HALF_EVEN none a u with
      | .ok q => s.newUnit c (some sym) (.qty q.amount q.unit)
      | .error _ => (s, .error .valueError)
    | .unitTerm c sym items => s.newUnit c (some sym) (.term (mkTerm s.unitEnv items))
    | .unitNone c sym => s.newUnit c (some sym) .none
    | .derive c args sym => s.deriveUnit c args sym
  match r.2 with
  | .ok _ => (r.1, acc.2)
  | .error _ => (r.1, acc.2 + 1)

/-- final state and number of failed steps -/
def runCatalogue (steps : List CatStep) : RegState × Nat :=
  steps.foldl applyCatStep (RegState.init, 0)

end QM
