/-
Model of the global directories of `quantity/__init__.py` and of every way a
declaration can change them: `QuantityMeta.__new__/__init__`, `_make_unit`,
`_make_ref_unit`, `new_unit`, `derive_unit_from`, `DefinedItemRegistry`
(class registry and `_TERM_UNIT_MAP`), `_SYMBOL_UNIT_MAP`, per-class unit
maps, `_amnt_and_unit_from_term`, `Term.__str__` (default symbols).

Classes and units are numbered in creation order.  Class 0 is the base class
`Quantity` itself (registration id 0).  Every failure path returns the state
the *code* leaves behind.
-/
import QuantityModel.Model.Term
namespace QM

structure ClassInfo where
  name : String
  /-- raw `define_as` items over class ids; `none` for a base class -/
  defn : Option Items
  /-- `normalized_definition` items -/
  normDef : Items
  refUnit : Option Nat
  quantum : Option Rat
  /-- `_unit_map` values in insertion order -/
  units : List Nat
  /-- `MoneyMeta` class (currencies as units) -/
  isMoney : Bool := false
  deriving Repr, Inhabited

structure UnitInfo where
  symbol : String
  cls : Nat
  /-- raw `_definition` items over unit ids; `none` for a base unit -/
  defn : Option Items
  /-- `_equiv` -/
  equiv : Option Rat
  /-- `normalized_definition` items -/
  normDef : Items
  /-- `Currency._smallest_fraction` -/
  smallestFraction : Option Rat := none
  deriving Repr, Inhabited

inductive UOp where | mul | div
  deriving DecidableEq, Repr, Inhabited

structure RegState where
  classes : List ClassInfo
  units : List UnitInfo
  /-- `_SYMBOL_UNIT_MAP` -/
  symMap : List (String × Nat)
  /-- `_TERM_UNIT_MAP`: normalised definition ↦ first unit registered with it -/
  termMap : List (Items × Nat)
  /-- `QuantityMeta._registry`: normalised definition ↦ class -/
  clsMap : List (Items × Nat)
  /-- `_UNIT_OP_CACHE` -/
  opCache : List ((UOp × Nat × Nat) × (Rat × Option Nat))
  deriving Repr, Inhabited

/-- state after `import quantity`: only the base class `Quantity` -/
def RegState.init : RegState :=
  { classes := [{ name := "Quantity", defn := none, normDef := [(.atom 0, 1)],
                  refUnit := none, quantum := none, units := [] }],
    units := [], symMap := [], termMap := [],
    clsMap := [([(.atom 0, 1)], 0)], opCache := [] }

def RegState.cls (s : RegState) (c : Nat) : ClassInfo := s.classes.getD c default
def RegState.unit (s : RegState) (u : Nat) : UnitInfo := s.units.getD u default

/-- element environment of *units* (what `Term[Unit]` sees) -/
def RegState.unitEnv (s : RegState) : Env :=
  { atoms := s.units.map fun u =>
      { key := (u.cls : Int), group := u.cls, scale :=
          (if (s.cls u.cls).refUnit.isSome then u.equiv else none),
        isBase := u.defn.isNone, normDef := u.normDef } }

/-- element environment of *classes* (what `Term[QuantityMeta]` sees);
classes are never convertible (`_get_factor` raises TypeError) -/
def RegState.clsEnv (s : RegState) : Env :=
  { atoms := (List.range s.classes.length).map fun c =>
      let ci := s.cls c
      { key := (c : Int), group := c, scale := none,
        isBase := (match ci.defn with | none => true | some d => d.isEmpty),
        normDef := ci.normDef } }

/-! ### `Term.__str__` -/

def powerChar (n : Nat) : Option String :=
  match n with
  | 0 => some "" | 1 => some "" | 2 => some "²" | 3 => some "³" | 4 => some "⁴"
  | 5 => some "⁵" | 6 => some "⁶" | 7 => some "⁷" | 8 => some "⁸" | 9 => some "⁹"
  | _ => none

/-- `str.split('/')`, structurally recursive (reduces in the kernel) -/
def splitChars (c : Char) : List Char → List Char → List (List Char)
  | [], cur => [cur.reverse]
  | x :: xs, cur => if x == c then cur.reverse :: splitChars c xs [] else splitChars c xs (x :: cur)

def splitSlash (s : String) : List String := (splitChars '/' s.toList []).map String.ofList

/-- `str(term)` for a unit term; `none` where the code raises IndexError
(|exponent| > 9, or an element string with more than one '/'). -/
def termStr (elemStr : Elem → String) (items : Items) : Option String :=
  let step := fun (acc : Option (List String × List String)) (it : Item) =>
    match acc with
    | none => none
    | some (pos, neg) =>
      match powerChar it.2.natAbs with
      | none => none
      | some pc =>
        match splitSlash (elemStr it.1) with
        | [a] =>
          if it.2 > 0 then some (pos ++ [a ++ pc], neg) else some (pos, neg ++ [a ++ pc])
        | [a, b] =>
          let (pos, neg) := if it.2 > 0 then (pos ++ [a ++ pc], neg) else (pos, neg ++ [a ++ pc])
          if -it.2 > 0 then some (pos ++ [b ++ pc], neg) else some (pos, neg ++ [b ++ pc])
        | _ => none
  match items.foldl step (some ([], [])) with
  | none => none
  | some (pos, neg) =>
    let p := if pos.isEmpty then "1" else "·".intercalate pos
    some (if neg.isEmpty then p else p ++ "/" ++ "·".intercalate neg)

def RegState.unitElemStr (s : RegState) : Elem → String
  | .atom u => (s.unit u).symbol
  | .num q => ratStr q

/-! ### lookups -/

/-- `_TERM_UNIT_MAP[term]`: by normalised definition -/
def RegState.unitFromTerm (s : RegState) (t : Items) : Option Nat :=
  s.termMap.lookup (termNormalized s.unitEnv t)

/-- `_amnt_and_unit_from_term`; `none` = KeyError -/
def RegState.amntAndUnit (s : RegState) (t : Items) : Option (Rat × Option Nat) :=
  match s.unitFromTerm t with
  | some u => some (1, some u)
  | none =>
    let env := s.unitEnv
    let (num, resDef) := splitTerm env (termNormalized env t)
    if resDef.isEmpty then some (num, none)
    else if !(termEq env resDef t) then
      match s.unitFromTerm resDef with
      | some u => some (num, some u)
      | none => none
    else none

/-! ### unit creation -/

inductive DeclErr where
  | assertion | typeError | valueError | indexError
  deriving DecidableEq, Repr, Inhabited

def DeclErr.toErr : DeclErr → Err
  | .assertion => .AssertionError | .typeError => .TypeError
  | .valueError => .ValueError | .indexError => .IndexError

/-- `_make_unit(symbol, name, define_as)` (+ optional `_equiv = ONE` of
`_make_ref_unit`).  Fails, leaving the state unchanged, on an empty or already
registered symbol. -/
def RegState.makeUnit (s : RegState) (c : Nat) (symbol : String) (defn : Option Items)
    (isRef : Bool) : Except DeclErr (RegState × Nat) :=
  let env := s.unitEnv
  let uid := s.units.length
  let normDef : Items := match defn with
    | some d => termNormalized env d
    | none => [(.atom uid, 1)]
  let equiv : Option Rat := match defn with
    | some _ => some (match numElem normDef with
        | some n => if n = 0 then 1 else n      -- `num_elem or ONE`
        | none => 1)
    | none => none
  if symbol.isEmpty then .error .assertion
  else if (s.symMap.lookup symbol).isSome then .error .valueError
  else
    let info : UnitInfo :=
      { symbol, cls := c, defn, equiv := if isRef then some 1 else equiv, normDef }
    let termMap := match s.termMap.lookup normDef with
      | some _ => s.termMap              -- bucket exists: first registered stays first
      | none => s.termMap ++ [(normDef, uid)]
    let classes := s.classes.modify c fun ci => { ci with units := ci.units ++ [uid] }
    .ok ({ s with units := s.units ++ [info], symMap := s.symMap ++ [(symbol, uid)],
                   termMap, classes }, uid)

/-- outcome of a declaration that ends in `_make_unit`: on failure the state
*before the declaration* is what remains -/
def liftMake (s : RegState) (r : Except DeclErr (RegState × Nat)) : RegState × Except DeclErr Nat :=
  match r with
  | .error e => (s, .error e)
  | .ok (s', uid) => (s', .ok uid)

/-- end of a class statement with a reference unit: `s` is the state before
the statement, `r` the outcome of creating the reference unit -/
def finishClass (s : RegState) (cid : Nat) (normDef : Items)
    (r : Except DeclErr (RegState × Nat)) : RegState × Except DeclErr Nat :=
  match r with
  | .error e => (s, .error e)
  | .ok (s2, uid) =>
    let classes := s2.classes.modify cid fun ci => { ci with refUnit := some uid }
    ({ s2 with classes, clsMap := s2.clsMap ++ [(normDef, cid)] }, .ok cid)

/-- the class object exists (`s1`); create its reference unit (if it has a
symbol) and enter the class into the registry; a failure of the reference unit
leaves the state before the statement (`s`) -/
def classSuccess (s s1 : RegState) (cid : Nat) (normDef : Items) (sym : Option String)
    (refUnitDef : Option Items) : RegState × Except DeclErr Nat :=
  match sym with
  | some sy =>
    if sy.isEmpty then ({ s1 with clsMap := s1.clsMap ++ [(normDef, cid)] }, .ok cid)
    else finishClass s cid normDef (s1.makeUnit cid sy refUnitDef true)
  | none => ({ s1 with clsMap := s1.clsMap ++ [(normDef, cid)] }, .ok cid)

/-- arguments of a class statement -/
structure ClassDecl where
  name : String
  defineAs : Option Items          -- over class ids
  refUnitSymbol : Option String
  refUnitName : Bool := false      -- whether a name was given
  quantum : Option Rat
  isMoney : Bool := false
  deriving Repr, Inhabited

/-- `class X(Quantity, define_as=…, ref_unit_symbol=…, quantum=…)` -/
def RegState.declClass (s : RegState) (d : ClassDecl) : RegState × Except DeclErr Nat :=
  let cenv := s.clsEnv
  -- `define_as` is a Term built by the caller
  let defineAs := d.defineAs
  match (match defineAs with
         | some t => if t.isEmpty then some DeclErr.assertion else none
         | none => none) with
  | some e => (s, .error e)
  | none =>
  -- duplicate definition is rejected first (fix: commit "reject a second quantity type ...")
  let normCls : Option Items := defineAs.map fun t => termNormalized cenv t
  match (match normCls with
         | some n => if (s.clsMap.lookup n).isSome then some DeclErr.valueError else none
         | none => none) with
  | some e => (s, .error e)
  | none =>
  -- reference unit definition: product of the base classes' reference units
  let refUnitDef : Option Items := match defineAs with
    | none => none
    | some t =>
      let refs := t.map fun it => match it.1 with
        | .atom c => ((s.cls c).refUnit.map fun u => (Elem.atom u, it.2))
        | .num _ => none
      if refs.all Option.isSome then
        some (reduceItems s.unitEnv (refs.filterMap id) none true)
      else none
  let symRes : Except DeclErr (Option String) :=
    match d.refUnitSymbol with
    | some sym => if sym.isEmpty then
        (match refUnitDef with
         | some rd => (match termStr s.unitElemStr rd with
                       | some str => .ok (some str) | none => .error .indexError)
         | none => .ok none)
        else .ok (some sym)
    | none =>
      match refUnitDef with
      | some rd => (match termStr s.unitElemStr rd with
                    | some str => .ok (some str) | none => .error .indexError)
      | none => .ok none
  match symRes with
  | .error e => (s, .error e)
  | .ok sym =>
  let symGiven : Bool := match sym with | some x => !x.isEmpty | none => false
  if d.refUnitName && !symGiven then (s, .error .assertion)
  else if d.quantum.isSome && !symGiven then (s, .error .assertion)
  -- `ClassWithDefinitionMeta.__new__`: every element of the definition must be
  -- a quantity type (a numeric factor is rejected, before any unit is created)
  else if (match defineAs with
           | some t => t.any fun it => match it.1 with | .num _ => true | .atom _ => false
           | none => false) then (s, .error .assertion)
  else
    let cid := s.classes.length
    let normDef : Items := match normCls with
      | some n => n
      | none => [(.atom cid, 1)]
    let ci : ClassInfo :=
      { name := d.name, defn := defineAs, normDef, refUnit := none,
        quantum := d.quantum, units := [], isMoney := d.isMoney }
    classSuccess s { s with classes := s.classes ++ [ci] } cid normDef sym refUnitDef

/-- what `define_as` of `new_unit` can be -/
inductive UnitDefArg where
  | none
  | qty (amount : Rat) (unit : Nat)     -- a Quantity instance
  | term (t : Items)                      -- a Term
  | other                                 -- anything else
  deriving Repr, Inhabited

/-- `cls.new_unit(symbol, name, define_as)` for an ordinary (non-money) class -/
def RegState.newUnit (s : RegState) (c : Nat) (symbol : Option String) (d : UnitDefArg) :
    RegState × Except DeclErr Nat :=
  match symbol with
  | none => (s, .error .typeError)                -- not a string
  | some sym =>
  if sym.isEmpty then (s, .error .valueError) else
  let defRes : Except DeclErr (Option Items) :=
    match d with
    | .none => .ok none
    | .qty a u =>
      if (s.unit u).cls != c then .error .typeError
      else .ok (some (mkTerm s.unitEnv [(.num a, 1), (.atom u, 1)]))
    | .term t =>
      match s.amntAndUnit t with
      | none => .error .valueError
      | some (_, none) => .error .valueError
      | some (_, some u) => if (s.unit u).cls != c then .error .valueError else .ok (some t)
    | .other => .error .typeError
  match defRes with
  | .error e => (s, .error e)
  | .ok defn => liftMake s (s.makeUnit c sym defn false)

/-- `cls.derive_unit_from(*units, symbol=…)` -/
def RegState.deriveUnit (s : RegState) (c : Nat) (args : List Nat) (symbol : Option String) :
    RegState × Except DeclErr Nat :=
  let ci := s.cls c
  match ci.defn with
  | none => (s, .error .typeError)
  | some cdef =>
  if cdef.isEmpty then (s, .error .typeError)
  else if args.length != cdef.length then (s, .error .valueError)
  else
    let pairs := cdef.zip args
    if !(pairs.all fun (it, u) => it.1 == Elem.atom (s.unit u).cls) then (s, .error .valueError)
    else
      let t := mkTerm s.unitEnv (pairs.map fun (it, u) => (Elem.atom u, it.2))
      let symRes : Except DeclErr String := match symbol with
        | some sy => if sy.isEmpty then .error .valueError else .ok sy
        | none => match termStr s.unitElemStr t with
          | some str => .ok str | none => .error .indexError
      match symRes with
      | .error e => (s, .error e)
      | .ok sy => liftMake s (s.makeUnit c sy (some t) false)

end QM
