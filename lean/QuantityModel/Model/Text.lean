/-
Text forms: `str(quantity)` (= default `format`) and the string branch of
`Quantity.__new__`.  Strings are lists of characters; all functions are
structurally recursive.

Rendering follows `decimalfp.Decimal.__str__` (internal value and precision),
`Fraction.__str__` and `f"{amount} {unit}"`.  Parsing covers the literal
grammar of `decimalfp`'s `Decimal(str)` ( [sign] digits [. digits] | . digits,
optional exponent ) and `[sign] digits / digits` of `Fraction(str)`; Python's
wider grammar (underscores, non-ASCII digits, inner whitespace) is outside the
modelled subset.
-/
import QuantityModel.Model.Basic
namespace QM

def digitChar (d : Nat) : Char := Char.ofNat (48 + d)

/-- decimal digits of `n`, most significant first (`fuel` ≥ number of digits) -/
def natDigitsAux : Nat → Nat → List Char → List Char
  | 0, n, acc => digitChar (n % 10) :: acc
  | fuel + 1, n, acc =>
    if n < 10 then digitChar n :: acc
    else natDigitsAux fuel (n / 10) (digitChar (n % 10) :: acc)

def natDigits (n : Nat) : List Char := natDigitsAux n n []

def isDigit (c : Char) : Bool := '0' ≤ c && c ≤ '9'

/-- value of a non-empty all-digit list -/
def digitsVal (cs : List Char) : Nat := cs.foldl (fun acc c => acc * 10 + (c.toNat - 48)) 0

def parseNat (cs : List Char) : Option Nat :=
  if cs.isEmpty || !cs.all isDigit then none else some (digitsVal cs)

/-- amount as the code holds it -/
inductive AmountRepr where
  | dec (v : Int) (p : Nat)        -- decimalfp.Decimal: value v / 10^p, precision p
  | frac (q : Rat)                 -- fractions.Fraction (reduced)
  deriving Repr, Inhabited

def AmountRepr.val : AmountRepr → Rat
  | .dec v p => (v : Rat) / ((10 : Rat) ^ p)
  | .frac q => q

/-- `Decimal.__str__` -/
def renderDec (v : Int) (p : Nat) : List Char :=
  let sign : List Char := if v < 0 then ['-'] else []
  let lit := natDigits v.natAbs
  if p = 0 then sign ++ lit
  else if lit.length > p then
    sign ++ lit.take (lit.length - p) ++ '.' :: lit.drop (lit.length - p)
  else sign ++ '0' :: '.' :: (List.replicate (p - lit.length) '0' ++ lit)

/-- `Fraction.__str__` -/
def renderFrac (q : Rat) : List Char :=
  let sign : List Char := if q.num < 0 then ['-'] else []
  if q.den = 1 then sign ++ natDigits q.num.natAbs
  else sign ++ natDigits q.num.natAbs ++ '/' :: natDigits q.den

def renderAmount : AmountRepr → List Char
  | .dec v p => renderDec v p
  | .frac q => renderFrac q

/-- `str(q)` = `format(q)` = `f"{amount} {unit}"` -/
def renderQty (a : AmountRepr) (symbol : String) : List Char :=
  renderAmount a ++ ' ' :: symbol.toList

/-! ### parsing -/

/-- optional sign -/
def splitSign (cs : List Char) : Bool × List Char :=
  match cs with
  | '-' :: rest => (true, rest)
  | '+' :: rest => (false, rest)
  | _ => (false, cs)

def applySign (neg : Bool) (q : Rat) : Rat := if neg then -q else q

/-- `[eE][sign]digits` suffix → exponent -/
def parseExp (cs : List Char) : Option Int :=
  match cs with
  | [] => some 0
  | c :: rest =>
    if c == 'e' || c == 'E' then
      let (neg, ds) := splitSign rest
      (parseNat ds).map fun n => if neg then -(n : Int) else (n : Int)
    else none

def pow10 (e : Int) : Rat := if 0 ≤ e then (10 : Rat) ^ e.toNat else 1 / (10 : Rat) ^ (-e).toNat

/-- unsigned part of the grammar of `Decimal(str)`:
`digits [. digits*] | . digits`, optional exponent -/
def parseDecimalBody (body : List Char) : Option Rat :=
  let mant := body.takeWhile fun c => c != 'e' && c != 'E'
  let expPart := body.dropWhile fun c => c != 'e' && c != 'E'
  match parseExp expPart with
  | none => none
  | some e =>
    let ip := mant.takeWhile (· != '.')
    let res : Option Rat :=
      match mant.dropWhile (· != '.') with
      | [] => (parseNat ip).map fun n => (n : Rat)                 -- digits
      | _ :: fp =>
        if ip.isEmpty then                                         -- .digits
          (parseNat fp).map fun f => (f : Rat) / (10 : Rat) ^ fp.length
        else if fp.isEmpty then (parseNat ip).map fun n => (n : Rat)        -- digits.
        else match parseNat ip, parseNat fp with
          | some n, some f => some ((n : Rat) + (f : Rat) / (10 : Rat) ^ fp.length)
          | _, _ => none
    res.map fun x => x * pow10 e

/-- the grammar of `Decimal(str)` (no surrounding whitespace) -/
def parseDecimalLit (cs : List Char) : Option Rat :=
  (parseDecimalBody (splitSign cs).2).map (applySign (splitSign cs).1)

/-- unsigned `digits / digits` -/
def parseFractionBody (body : List Char) : Option (Except Err Rat) :=
  let np := body.takeWhile (· != '/')
  match body.dropWhile (· != '/') with
  | [] => none
  | _ :: dp =>
    match parseNat np, parseNat dp with
    | some n, some d =>
      if d = 0 then some (.error .QuantityError)
      else some (.ok ((n : Rat) / (d : Rat)))
    | _, _ => none

/-- `[sign] digits / digits` of `Fraction(str)`; a zero denominator raises
ZeroDivisionError, which the constructor reports as QuantityError (after the
`fix:` commit) -/
def parseFractionLit (cs : List Char) : Option (Except Err Rat) :=
  (parseFractionBody (splitSign cs).2).map fun r => r.map (applySign (splitSign cs).1)

/-- `Decimal(s)` first, then `Fraction(s)`, else QuantityError -/
def parseAmountStr (cs : List Char) : Except Err Rat :=
  match parseDecimalLit cs with
  | some q => .ok q
  | none =>
    match parseFractionLit cs with
    | some r => r
    | none => .error .QuantityError

def isSpace (c : Char) : Bool :=
  c == ' ' || c == '\t' || c == '\n' || c == '\r' || c == '\x0b' || c == '\x0c'

def stripChars (cs : List Char) : List Char :=
  ((cs.dropWhile isSpace).reverse.dropWhile isSpace).reverse

/-- `q_repr.lstrip().split(' ', 1)`, then the amount and the stripped symbol -/
def parseQtyStr (cs : List Char) : Except Err (Rat × Option (List Char)) :=
  let s := cs.dropWhile isSpace
  let tok := s.takeWhile (· != ' ')
  match parseAmountStr tok with
  | .error e => .error e
  | .ok a =>
    match s.dropWhile (· != ' ') with
    | [] => .ok (a, none)
    | _ :: rest => .ok (a, some (stripChars rest))

end QM
