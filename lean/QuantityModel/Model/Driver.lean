/-
Line-protocol driver (DESIGN.md §2.2): one tab-separated operation per input
line, one canonical observation per output line.  Imports `Model/` and `Gen/`
only, so it builds as a native executable.
-/
import QuantityModel.Model.Rounding
namespace QM.Driver
open QM

structure DState where
  dummy : Unit := ()

def DState.init : DState := {}

def showRes (r : Except Err String) : String :=
  match r with
  | .ok s => "ok " ++ s
  | .error e => "err " ++ e.name

def parseMode? (s : String) : Option (Option Rounding) :=
  if s == "-" then some none else (Rounding.ofName? s).map some

def bad : String := "bad-op"

def stepRounding (args : List String) : Option String :=
  match args with
  | ["floordiv", x, y, m, d] =>
    match x.toInt?, y.toInt?, parseMode? m, Rounding.ofName? d with
    | some x, some y, some m, some d =>
      some <| showRes <| (Gen.floordivRounded x y m d).map toString
    | _, _, _, _ => some bad
  | ["quantfrac", a, q, m, d] =>
    match parseRat? a, parseRat? q, parseMode? m, Rounding.ofName? d with
    | some a, some q, some m, some d =>
      some <| showRes <| (Gen.quantizeFraction a q m d).map ratStr
    | _, _, _, _ => some bad
  | ["decquant", v, p, q, m, d] =>
    match v.toInt?, p.toNat?, parseRat? q, parseMode? m, Rounding.ofName? d with
    | some v, some p, some q, some m, some d =>
      some <| showRes <| (decQuantize v p q m d).map ratStr
    | _, _, _, _, _ => some bad
  | ["decprec", x, p, d] =>
    match parseRat? x, p.toNat?, Rounding.ofName? d with
    | some x, some p, some d => some <| showRes <| (decimalOfPrec d x p).map ratStr
    | _, _, _ => some bad
  | ["togrid", a, q, d] =>
    match parseRat? a, parseRat? q, Rounding.ofName? d with
    | some a, some q, some d => some <| showRes <| (roundToGrid d a q).map ratStr
    | _, _, _ => some bad
  | _ => none

def step (s : DState) (line : String) : DState × String :=
  let args := line.splitOn "\t"
  match args with
  | ["reset"] => (DState.init, "ok reset")
  | _ =>
    match stepRounding args with
    | some out => (s, out)
    | none => (s, bad)

end QM.Driver
