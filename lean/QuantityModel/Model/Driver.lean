/-
Line-protocol driver (DESIGN.md §2.2): one tab-separated operation per input
line, one canonical observation per output line.  Imports `Model/` and `Gen/`
only, so it builds as a native executable.
-/
import QuantityModel.Model.Rounding
import QuantityModel.Model.Term
import QuantityModel.Model.Registry
import QuantityModel.Model.Quantity
import QuantityModel.Model.Catalogue
import QuantityModel.Model.Money
import QuantityModel.Model.Allocate
import QuantityModel.Model.Text
import QuantityModel.Gen.Iso4217
import QuantityModel.Gen.Catalogue
import QuantityModel.Gen.TempTable
import QuantityModel.Gen.Prefixes
import QuantityModel.Gen.DocTables
import QuantityModel.Ref.SIRef
namespace QM.Driver
open QM

structure DState where
  env : Env := { atoms := [] }
  q : QState := { reg := RegState.init }
  rates : List (String × Rate) := []
  mcNames : List String := []          -- converter names, id = position
  convNames : List (String × Nat) := []   -- named generic converters -> table id

def DState.init : DState := {}

def showRes (r : Except Err String) : String :=
  match r with
  | .ok s => "ok " ++ s
  | .error e => "err " ++ e.name

def parseMode? (s : String) : Option (Option Rounding) :=
  if s == "-" then some none else (Rounding.ofName? s).map some

def bad : String := "bad-op"

def stepRounding (args : List String) : Option String :=
  match args with
  | ["floordiv", x, y, m, d] =>
    match x.toInt?, y.toInt?, parseMode? m, Rounding.ofName? d with
    | some x, some y, some m, some d =>
      some <| showRes <| (Gen.floordivRounded x y m d).map toString
    | _, _, _, _ => some bad
  | ["quantfrac", a, q, m, d] =>
    match parseRat? a, parseRat? q, parseMode? m, Rounding.ofName? d with
    | some a, some q, some m, some d =>
      some <| showRes <| (Gen.quantizeFraction a q m d).map ratStr
    | _, _, _, _ => some bad
  | ["decquant", v, p, q, m, d] =>
    match v.toInt?, p.toNat?, parseRat? q, parseMode? m, Rounding.ofName? d with
    | some v, some p, some q, some m, some d =>
      some <| showRes <| (decQuantize v p q m d).map ratStr
    | _, _, _, _, _ => some bad
  | ["decprec", x, p, d] =>
    match parseRat? x, p.toNat?, Rounding.ofName? d with
    | some x, some p, some d => some <| showRes <| (decimalOfPrec d x p).map ratStr
    | _, _, _ => some bad
  | ["togrid", a, q, d] =>
    match parseRat? a, parseRat? q, Rounding.ofName? d with
    | some a, some q, some d => some <| showRes <| (roundToGrid d a q).map ratStr
    | _, _, _ => some bad
  | _ => none

/-! ### terms -/

def parseItem? (s : String) : Option Item :=
  match s.splitOn "^" with
  | [el, e] =>
    match e.toInt? with
    | none => none
    | some e =>
      if el.startsWith "n:" then (parseRat? (el.drop 2).toString).map fun q => (Elem.num q, e)
      else if el.startsWith "a:" then ((el.drop 2).toString.toNat?).map fun a => (Elem.atom a, e)
      else none
  | _ => none

def parseItems? (s : String) : Option Items :=
  if s == "-" then some [] else (s.splitOn ";").mapM parseItem?

def showItem (it : Item) : String :=
  match it.1 with
  | .num q => s!"n:{ratStr q}^{it.2}"
  | .atom a => s!"a:{a}^{it.2}"

def showItems (l : Items) : String :=
  if l.isEmpty then "-" else ";".intercalate (l.map showItem)

def parseScale? (s : String) : Option (Option Rat) :=
  if s == "-" then some none else (parseRat? s).map some

def stepTerm (st : DState) (args : List String) : Option (DState × String) :=
  let env := st.env
  match args with
  | ["atom", id, key, group, scale, base, nd] =>
    match id.toNat?, key.toInt?, group.toNat?, parseScale? scale, parseItems? nd with
    | some id, some key, some group, some scale, some nd =>
      if id != env.atoms.length then some (st, bad) else
      let info : AtomInfo := { key, group, scale, isBase := base == "1", normDef := nd }
      some ({ st with env := { atoms := env.atoms ++ [info] } }, "ok")
    | _, _, _, _, _ => some (st, bad)
  | ["t_mk", a] => (parseItems? a).map fun a => (st, "ok " ++ showItems (mkTerm env a))
  | ["t_norm", a] => (parseItems? a).map fun a =>
      (st, "ok " ++ showItems (termNormalized env (mkTerm env a)))
  | ["t_mul", a, b] =>
    match parseItems? a, parseItems? b with
    | some a, some b => some (st, "ok " ++ showItems (mulTerm env (mkTerm env a) (mkTerm env b)))
    | _, _ => some (st, bad)
  | ["t_div", a, b] =>
    match parseItems? a, parseItems? b with
    | some a, some b => some (st, "ok " ++ showItems (divTerm env (mkTerm env a) (mkTerm env b)))
    | _, _ => some (st, bad)
  | ["t_scale", q, a] =>
    match parseRat? q, parseItems? a with
    | some q, some a => some (st, "ok " ++ showItems (scaleTerm env q (mkTerm env a)))
    | _, _ => some (st, bad)
  | ["t_divs", a, q] =>
    match parseItems? a, parseRat? q with
    | some a, some q => some (st, "ok " ++ showItems (divScalar env (mkTerm env a) q))
    | _, _ => some (st, bad)
  | ["t_rdivs", q, a] =>
    match parseRat? q, parseItems? a with
    | some q, some a => some (st, "ok " ++ showItems (rdivScalar env q (mkTerm env a)))
    | _, _ => some (st, bad)
  | ["t_pow", a, n] =>
    match parseItems? a, n.toInt? with
    | some a, some n => some (st, "ok " ++ showItems (powTerm env (mkTerm env a) n))
    | _, _ => some (st, bad)
  | ["t_recip", a] => (parseItems? a).map fun a =>
      (st, "ok " ++ showItems (reciprocalItems (mkTerm env a)))
  | ["t_eq", a, b] =>
    match parseItems? a, parseItems? b with
    | some a, some b =>
      let ta := mkTerm env a
      let tb := mkTerm env b
      some (st, s!"ok eq={termEq env ta tb} hasheq={termHashKey env ta == termHashKey env tb}")
    | _, _ => some (st, bad)
  | ["t_numelem", a] => (parseItems? a).map fun a =>
      (st, match numElem (mkTerm env a) with | some q => "ok " ++ ratStr q | none => "ok none")
  | ["t_split", a] => (parseItems? a).map fun a =>
      let (n, r) := splitTerm env (mkTerm env a)
      (st, s!"ok {ratStr n} {showItems r}")
  | _ => none

/-! ### registry and quantities -/

def clsId? (r : RegState) (name : String) : Option Nat :=
  (List.range r.classes.length).find? fun c => (r.cls c).name == name

def unitId? (r : RegState) (sym : String) : Option Nat := r.symMap.lookup sym

/-- items over classes (`c:Name^e`) or units (`u:sym^e`, `n:q^e`) -/
def parseRegItem? (r : RegState) (s : String) : Option Item :=
  match s.splitOn "^" with
  | [el, e] =>
    match e.toInt? with
    | none => none
    | some e =>
      -- `n:` Decimal when finite, `i:` a Python int, `f:` a Fraction: one exact value
      if el.startsWith "n:" || el.startsWith "i:" || el.startsWith "f:" then
        (parseRat? (el.drop 2).toString).map fun q => (Elem.num q, e)
      else if el.startsWith "c:" then (clsId? r (el.drop 2).toString).map fun c => (Elem.atom c, e)
      else if el.startsWith "u:" then (unitId? r (el.drop 2).toString).map fun u => (Elem.atom u, e)
      else none
  | _ => none

def parseRegItems? (r : RegState) (s : String) : Option Items :=
  if s == "-" then some [] else (s.splitOn ";").mapM (parseRegItem? r)

def showRegItems (r : RegState) (l : Items) : String :=
  if l.isEmpty then "-" else
  ";".intercalate (l.map fun it => match it.1 with
    | .num q => s!"n:{ratStr q}^{it.2}"
    | .atom u => s!"u:{(r.unit u).symbol}^{it.2}")

def optStr (s : String) : Option String :=
  if s == "-" then none else if s == "<empty>" then some "" else some s

def showDecl (r : RegState) (res : Except DeclErr Nat) (isCls : Bool) : String :=
  match res with
  | .ok i => "ok " ++ (if isCls then (r.cls i).name else (r.unit i).symbol)
  | .error e => "err " ++ e.toErr.name

def showOptRat : Option Rat → String
  | some q => ratStr q
  | none => "none"

def usym (r : RegState) (u : Nat) : String := (r.unit u).symbol

/-- full directory dump (the `observe` of C15/C16) -/
def observe (r : RegState) : String :=
  let syms := r.symMap.map fun (sym, u) =>
    s!"{sym}={(r.cls (r.unit u).cls).name}:{showOptRat (r.unit u).equiv}"
  let classes := (List.range r.classes.length).map fun c =>
    let ci := r.cls c
    let us := ",".intercalate (ci.units.map (usym r))
    s!"{ci.name}[{us}]ref={(ci.refUnit.map (usym r)).getD "none"} q={showOptRat ci.quantum}"
  " ".intercalate (syms.toArray.qsort (· < ·)).toList ++ " | " ++ " ".intercalate classes

/-- `I:` a Python int, `L:` a float (its exact binary value), `P:` a standard
library Decimal, `K:` the SI prefix with that factor (unit operands only): the constructor turns each into the Decimal of that value -/
def stripKind (s : String) : String :=
  if s.startsWith "I:" || s.startsWith "L:" || s.startsWith "P:" || s.startsWith "K:" then
    (s.drop 2).toString else s

def parseAmount? (s0 : String) : Option Rat :=
  let s := stripKind s0
  if s.startsWith "F:" then parseRat? (s.drop 2).toString
  else if s.startsWith "D:" then
    match (s.drop 2).toString.splitOn ":" with
    | [v, p] => match v.toInt?, p.toNat? with
      | some v, some p => some ((v : Rat) / ((10 : Rat) ^ p))
      | _, _ => none
    | _ => none
  else parseRat? s

/-- decimal internal pair of an amount token (`none`: held as Fraction) -/
def strip10 : Nat → Nat → Nat → Nat → Option Nat
  | 0, _, _, _ => none
  | fuel + 1, d, a, b =>
    if d == 1 then some (max a b)
    else if d % 2 == 0 then strip10 fuel (d / 2) (a + 1) b
    else if d % 5 == 0 then strip10 fuel (d / 5) a (b + 1)
    else none

def decPair? (s0 : String) : Option (Int × Nat) :=
  let s := stripKind s0
  if s.startsWith "F:" then none
  else if s.startsWith "D:" then
    match (s.drop 2).toString.splitOn ":" with
    | [v, p] => match v.toInt?, p.toNat? with
      | some v, some p => some (v, p)
      | _, _ => none
    | _ => none
  else match parseRat? s with
    | none => none
    | some q =>
      match strip10 (q.den.log2 + 2) q.den 0 0 with
      | some p => some ((q * (10 : Rat) ^ p).num, p)
      | none => none

/-- `amount@symbol` -/
def parseQty? (r : RegState) (dflt : Rounding) (s : String) : Option (Except Err Qty) :=
  match s.splitOn "@" with
  | [a, u] =>
    match parseAmount? a, unitId? r u with
    | some a, some u => some (r.mkQty dflt none a u)
    | _, _ => none
  | _ => none

def showQty (r : RegState) (q : Qty) : String :=
  s!"{ratStr q.amount}@{usym r q.unit}:{(r.cls (r.unitCls q.unit)).name}"

def showVal (r : RegState) : Val → String
  | .qty q => "qty " ++ showQty r q
  | .num x => "num " ++ ratStr x
  | .pair f u => s!"pair {ratStr f} {(u.map (usym r)).getD "none"}"

def showVRes (r : RegState) (x : Except Err Val) : String :=
  match x with
  | .ok v => "ok " ++ showVal r v
  | .error e => "err " ++ e.name

def showQRes (r : RegState) (x : Except Err Qty) : String := showVRes r (x.map Val.qty)

def showBRes (x : Except Err Bool) : String :=
  match x with
  | .ok b => s!"ok {b}"
  | .error e => "err " ++ e.name

def stepReg (st : DState) (args : List String) : Option (DState × String) :=
  let q := st.q
  let r := q.reg
  let setReg := fun (r' : RegState) => { st with q := { q with reg := r' } }
  match args with
  | ["decl_class", name, cdef, rsym, rname, quantum] =>
    let cd : Option (Option Items) :=
      if cdef == "-" then some none else (parseRegItems? r cdef).map fun its =>
        some (mkTerm r.clsEnv its)
    match cd, parseScale? quantum with
    | some cd, some qu =>
      let (r', res) := r.declClass
        -- `rname` = "0" | "1" (reference unit name given), optionally prefixed by
        -- `sub:<Parent>:` when the class statement names another concrete type as its
        -- base class: the new type is a quantity type of its own all the same
        { name, defineAs := cd, refUnitSymbol := optStr rsym,
          refUnitName := rname == "1" || rname.endsWith ":1",
          quantum := qu }
      some (setReg r', showDecl r' res true)
    | _, _ => some (st, bad)
  | ["new_unit", cls, sym, "none"] =>
    (clsId? r cls).map fun c =>
      let (r', res) := r.newUnit c (optStr sym) .none
      (setReg r', showDecl r' res false)
  | ["new_unit", cls, sym, "other"] =>
    (clsId? r cls).map fun c =>
      let (r', res) := r.newUnit c (optStr sym) .other
      (setReg r', showDecl r' res false)
  | ["new_unit", cls, sym, "qty", a, u, dflt] =>
    match clsId? r cls, parseAmount? a, unitId? r u, Rounding.ofName? dflt with
    | some c, some a, some u, some dflt =>
      match r.mkQty dflt none a u with
      | .error e => some (st, "err " ++ e.name)
      | .ok qq =>
        let (r', res) := r.newUnit c (optStr sym) (.qty qq.amount qq.unit)
        some (setReg r', showDecl r' res false)
    | _, _, _, _ => some (st, bad)
  | ["new_unit", cls, sym, "term", items] =>
    match clsId? r cls, parseRegItems? r items with
    | some c, some its =>
      let (r', res) := r.newUnit c (optStr sym) (.term (mkTerm r.unitEnv its))
      some (setReg r', showDecl r' res false)
    | _, _ => some (st, bad)
  | ["derive_unit", cls, us, sym] =>
    match clsId? r cls, (if us == "-" then some [] else (us.splitOn ",").mapM (unitId? r)) with
    | some c, some us =>
      let (r', res) := r.deriveUnit c us (optStr sym)
      some (setReg r', showDecl r' res false)
    | _, _ => some (st, bad)
  | ["load_predefined"] =>
    let (r', failed) := Gen.catalogueSteps.foldl applyCatStep (r, 0)
    let rows := Gen.tempTable.filterMap fun (f, t, k, o) =>
      match unitId? r' f, unitId? r' t with
      | some f, some t => some ((f, t), (k, o))
      | _, _ => none
    let q' : QState := match clsId? r' "Temperature" with
      | some c => { q with reg := r', tables := q.tables ++ [{ rows }],
                           converters := q.converters ++ [(c, [q.tables.length])] }
      | none => { q with reg := r' }
    some ({ st with q := q' }, s!"ok failed={failed}")
  | ["conv_table", cls, rows] =>
    match clsId? r cls with
    | none => some (st, bad)
    | some c =>
      let parsed := (rows.splitOn ";").mapM fun row =>
        match row.splitOn ":" with
        | [ft, k, o] =>
          match ft.splitOn ">", parseRat? k, parseRat? o with
          | [f, t], some k, some o =>
            match unitId? r f, unitId? r t with
            | some f, some t => some ((f, t), (k, o))
            | _, _ => none
          | _, _, _ => none
        | _ => none
      match parsed with
      | none => some (st, bad)
      | some rws =>
        let tid := q.tables.length
        -- a new converter object: `register_converter` (it is not registered yet)
        let convs := (q.converters.filter fun p => p.1 != c) ++
          [(c, registerGeneric (q.clsConverters c) tid)]
        some ({ st with q := { q with tables := q.tables ++ [{ rows := rws }], converters := convs } }, "ok")
  | ["rt_mk", a] =>
    -- terms over registry units (`Term(items)`, `.normalized()`, `==`, `hash`)
    (parseRegItems? r a).map fun a => (st, "ok " ++ showRegItems r (mkTerm r.unitEnv a))
  | ["rt_norm", a] =>
    (parseRegItems? r a).map fun a =>
      (st, "ok " ++ showRegItems r (termNormalized r.unitEnv (mkTerm r.unitEnv a)))
  | ["rt_eq", a, b] =>
    match parseRegItems? r a, parseRegItems? r b with
    | some a, some b =>
      let ta := mkTerm r.unitEnv a
      let tb := mkTerm r.unitEnv b
      some (st, s!"ok eq={termEq r.unitEnv ta tb} hasheq={termHashKey r.unitEnv ta == termHashKey r.unitEnv tb}")
    | _, _ => none
  | ["conv_obj", name, _cls, rows] =>
    -- a table converter object, not yet registered anywhere
    let parsed := (rows.splitOn ";").mapM fun row =>
      match row.splitOn ":" with
      | [ft, k, o] =>
        match ft.splitOn ">", parseRat? k, parseRat? o with
        | [f, t], some k, some o =>
          match unitId? r f, unitId? r t with
          | some f, some t => some ((f, t), (k, o))
          | _, _ => none
        | _, _, _ => none
      | _ => none
    match parsed with
    | none => some (st, bad)
    | some rws =>
      let tid := q.tables.length
      some ({ st with q := { q with tables := q.tables ++ [{ rows := rws }] },
                      convNames := st.convNames ++ [(name, tid)] }, "ok")
  | ["conv_call", name, a, u, dflt] =>
    -- the converter object called directly: `conv(qty, to_unit)` — the amount,
    -- None where it has no row, IncompatibleUnitsError for a unit of another type
    match Rounding.ofName? dflt with
    | none => some (st, bad)
    | some d =>
      match st.convNames.lookup name, parseQty? r d a, unitId? r u with
      | some tid, some (.ok qa), some v =>
        some (st, match q.applyTable (q.tables.getD tid default) qa v with
          | .error e => "err " ++ e.name
          | .ok none => "ok none"
          | .ok (some x) => "ok " ++ ratStr x)
      | _, some (.error e), _ => some (st, "err " ++ e.name)
      | _, _, _ => some (st, bad)
  | ["conv_reg", cls, name] =>
    -- `register_converter`: does nothing if the converter is already registered
    match clsId? r cls, st.convNames.lookup name with
    | some c, some tid =>
      let convs := (q.converters.filter fun p => p.1 != c) ++
        [(c, registerGeneric (q.clsConverters c) tid)]
      some ({ st with q := { q with converters := convs } }, "ok")
    | _, _ => some (st, bad)
  | ["conv_unreg", cls, name] =>
    -- `remove_converter`: `list.remove`, ValueError if not present
    match clsId? r cls, st.convNames.lookup name with
    | some c, some tid =>
      match removeGeneric (q.clsConverters c) tid with
      | some l =>
        let convs := (q.converters.filter fun p => p.1 != c) ++ [(c, l)]
        some ({ st with q := { q with converters := convs } }, "ok")
      | none => some (st, "err ValueError")
    | _, _ => some (st, bad)
  | ["conv_list", cls] =>
    -- `registered_converters()`: most recently registered first
    match clsId? r cls with
    | some c =>
      let names := (q.clsConverters c).reverse.map fun tid =>
        ((st.convNames.find? fun p => p.2 == tid).map Prod.fst).getD "?"
      some (st, "ok " ++ ",".intercalate names)
    | none => some (st, bad)
  | ["prefix", const] =>
    -- the SI prefix bound to the module-level constant `const` of
    -- si_prefixes.py (translated table): name, abbreviation, factor
    match Gen.siPrefixes.find? fun p => p.1 == const with
    | some (_, name, abbr, e) => some (st, s!"ok {name} {abbr} {ratStr (rpow 10 e)}")
    | none => some (st, "err AttributeError")
  | ["siref"] =>
    -- dump of the hand-written reference table (for the independent oracle)
    let lin := Ref.linearUnits.map fun (c, sy, k) => s!"{c}|{sy}|{ratStr k}"
    let tmp := Ref.temperatureUnits.map fun (c, sy) => s!"{c}|{sy}|none"
    let dims := Ref.dimensions.map fun (c, d) => s!"#{c}|{d.1}|{d.2.1}|{d.2.2.1}|{d.2.2.2}"
    some (st, "ok " ++ " ".intercalate (lin ++ tmp ++ dims))
  | ["observe"] => some (st, "ok " ++ observe r)
  | ["unit_info", sym] =>
    match unitId? r sym with
    | none => some (st, "err ValueError")
    | some u =>
      let ui := r.unit u
      some (st, s!"ok cls={(r.cls ui.cls).name} equiv={showOptRat ui.equiv} base={ui.defn.isNone} ref={(r.cls ui.cls).refUnit == some u} quantum={showOptRat (r.unitQuantum u)}")
  | ["uop", op, u, v] =>
    match unitId? r u, unitId? r v with
    | some u, some v =>
      let (q', res) := if op == "mul" then q.mulUnits u v else q.divUnits u v
      some ({ st with q := q' }, showVRes q'.reg (res.map fun (f, w) => Val.pair f w))
    | _, _ => some (st, bad)
  | ["upow", u, n, dflt] =>
    match unitId? r u, n.toInt?, Rounding.ofName? dflt with
    | some u, some n, some d => some (st, showVRes r (q.powUnit d u n))
    | _, _, _ => some (st, bad)
  | ["ueq", u, v] =>
    match unitId? r u, unitId? r v with
    | some u, some v => some (st, match r.unitEq u v with
        | some b => s!"ok {b}" | none => "err AssertionError")
    | _, _ => some (st, bad)
  | ["ucmp", op, u, v] =>
    let c : Option QState.Cmp := match op with
      | "lt" => some .lt | "le" => some .le | "gt" => some .gt | "ge" => some .ge | _ => none
    match c, unitId? r u, unitId? r v with
    | some c, some u, some v => some (st, showBRes (q.unitCmp c u v))
    | _, _, _ => some (st, bad)
  | ["q_mk", cls, a, u, dflt] =>
    match (if cls == "-" then some none else (clsId? r cls).map some), parseAmount? a,
      unitId? r u, Rounding.ofName? dflt with
    | some c, some a, some u, some d => some (st, showQRes r (r.mkQty d c a u))
    | _, _, _, _ => some (st, bad)
  | ["q_conv", a, u, dflt] =>
    match Rounding.ofName? dflt with
    | none => some (st, bad)
    | some d =>
      match parseQty? r d a, unitId? r u with
      | some (.ok a), some u => some (st, showQRes r (q.convert d a u))
      | some (.error e), some _ => some (st, "err " ++ e.name)
      | _, _ => some (st, bad)
  | ["q_conv3", a, v, w, dflt] =>
    match Rounding.ofName? dflt with
    | none => some (st, bad)
    | some d =>
      match parseQty? r d a, unitId? r v, unitId? r w with
      | some (.ok a), some v, some w =>
        some (st, showQRes r ((q.convert d a v).bind fun m => q.convert d m w))
      | some (.error e), _, _ => some (st, "err " ++ e.name)
      | _, _, _ => some (st, bad)
  | ["q_convback", a, v, dflt] =>
    match Rounding.ofName? dflt with
    | none => some (st, bad)
    | some d =>
      match parseQty? r d a, unitId? r v with
      | some (.ok a), some v =>
        match q.convert d a v with
        | .error e => some (st, "err " ++ e.name)
        | .ok m =>
          match q.convert d m a.unit, q.qtyEq a m with
          | .ok b, .ok e => some (st, s!"ok {showVal r (.qty b)} eq={e}")
          | .error e, _ => some (st, "err " ++ e.name)
          | _, .error e => some (st, "err " ++ e.name)
      | some (.error e), _ => some (st, "err " ++ e.name)
      | _, _ => some (st, bad)
  | ["q_equiv", a, u, dflt] =>
    match Rounding.ofName? dflt with
    | none => some (st, bad)
    | some d =>
      match parseQty? r d a, unitId? r u with
      | some (.ok a), some u => some (st, match q.equivAmount a u with
          | .ok x => "ok " ++ showOptRat x | .error e => "err " ++ e.name)
      | some (.error e), some _ => some (st, "err " ++ e.name)
      | _, _ => some (st, bad)
  | ["q_bin", op, a, b, dflt] =>
    match Rounding.ofName? dflt with
    | none => some (st, bad)
    | some d =>
      match parseQty? r d a, parseQty? r d b with
      | some (.ok a), some (.ok b) =>
        let pure1 := fun (x : String) => some (st, x)
        match op with
        | "eq" => pure1 (showBRes (q.qtyEq a b))
        | "ne" => pure1 (showBRes ((q.qtyEq a b).map (!·)))
        | "lt" => pure1 (showBRes (q.qtyCmp .lt a b))
        | "le" => pure1 (showBRes (q.qtyCmp .le a b))
        | "gt" => pure1 (showBRes (q.qtyCmp .gt a b))
        | "ge" => pure1 (showBRes (q.qtyCmp .ge a b))
        | "add" => pure1 (showQRes r (q.qtyAddSub d 1 a b))
        | "sub" => pure1 (showQRes r (q.qtyAddSub d (-1) a b))
        -- `s = a; s += b`: the sum, and `a` is left as it was (quantities are values)
        | "iadd" => pure1 (showQRes r (q.qtyAddSub d 1 a b))
        | "isub" => pure1 (showQRes r (q.qtyAddSub d (-1) a b))
        | "mul" => let (q', v) := q.qtyMul d a b; some ({ st with q := q' }, showVRes q'.reg v)
        | "div" => let (q', v) := q.qtyDiv d a b; some ({ st with q := q' }, showVRes q'.reg v)
        | _ => some (st, bad)
      | some (.error e), _ => some (st, "err " ++ e.name)
      | _, some (.error e) => some (st, "err " ++ e.name)
      | _, _ => some (st, bad)
  | ["q_unit", op, a, u, dflt] =>
    match Rounding.ofName? dflt with
    | none => some (st, bad)
    | some d =>
      match parseQty? r d a, unitId? r u with
      | some (.ok a), some u =>
        let (q', v) := match op with
          | "mul" => q.qtyMulUnit d a u false
          | "rmul" => q.qtyMulUnit d a u true
          | "div" => q.qtyDivUnit d a u
          | _ => q.unitDivQty d u a          -- "rdiv": unit / qty
        some ({ st with q := q' }, showVRes q'.reg v)
      | some (.error e), some _ => some (st, "err " ++ e.name)
      | _, _ => some (st, bad)
  | ["q_num", op, a, k, dflt] =>
    match Rounding.ofName? dflt with
    | none => some (st, bad)
    | some d =>
      match parseQty? r d a, parseAmount? k with
      | some (.ok a), some k =>
        let v := match op with
          | "mul" => q.qtyScale d a k
          | "div" => q.qtyDivNum d a k
          | "rdiv" => q.numDivQty d k a
          | "neg" => (q.qtyNeg d a).map Val.qty
          | "abs" => (q.qtyAbs d a).map Val.qty
          | _ => q.qtyPow d a k.num       -- "pow"
        some (st, showVRes r v)
      | some (.error e), some _ => some (st, "err " ++ e.name)
      | _, _ => some (st, bad)
  | ["u_num", op, u, k, dflt] =>
    -- a unit and a plain number (any kind; an SI prefix counts as its factor):
    -- `unit * k` / `k * unit` is the quantity `k unit`, `unit / k` is `1/k unit`,
    -- `k / unit` is `k * unit ** -1`
    match Rounding.ofName? dflt, unitId? r u, parseAmount? k with
    | some d, some u, some k =>
      let v : Except Err Val := match op with
        | "mul" | "rmul" => q.unitTimesNum d u k
        | "div" => q.unitDivNum d u k
        | _ => q.numDivUnit d k u                       -- "rdiv"
      some (st, showVRes r v)
    | _, _, _ => some (st, bad)
  | ["q_hash", a, b] =>
    match parseQty? r .ROUND_HALF_EVEN a, parseQty? r .ROUND_HALF_EVEN b with
    | some (.ok a), some (.ok b) =>
      some (st, match q.qtyEq a b with
        | .ok e => s!"ok eq={e} hasheq={q.qtyHashKey a == q.qtyHashKey b}"
        | .error e => "err " ++ e.name)
    | _, _ => some (st, bad)
  | ["u_hash", u, v] =>
    match unitId? r u, unitId? r v with
    | some u, some v =>
      some (st, match r.unitEq u v with
        | some e => s!"ok eq={e} hasheq={q.unitHashKey u == q.unitHashKey v}"
        | none => "err AssertionError")
    | _, _ => some (st, bad)
  | ["q_alloc", a, ratios, disp, dflt] =>
    match Rounding.ofName? dflt with
    | none => some (st, bad)
    | some d =>
      match parseQty? r d a with
      | some (.ok qa) =>
        -- ratios: `n:<rat>` numbers or `q:<amount>@<unit>` quantities (reduced to
        -- their reference values, or amounts when all share one unit)
        let toks := if ratios == "-" then [] else ratios.splitOn ","
        let parsed : Option (List QState.Ratio) := toks.mapM fun t =>
          if t.startsWith "n:" then (parseRat? (t.drop 2).toString).map .num
          else if t.startsWith "q:" then
            match parseQty? r d (t.drop 2).toString with
            | some (.ok x) => some (.qty x)
            | _ => none
          else none
        match parsed with
        | none => some (st, bad)
        | some rs =>
          match q.allocateQty d qa rs (disp == "1") with
          | .error e => some (st, "err " ++ e.name)
          | .ok (ps, rem) =>
            some (st, s!"ok {",".intercalate (ps.map ratStr)}@{usym r qa.unit}:{(r.cls (r.unitCls qa.unit)).name} rem={ratStr rem}")
      | some (.error e) => some (st, "err " ++ e.name)
      | none => some (st, bad)
  | ["q_str", a] =>
    -- `str(q)`, `format(q)`: amount token carries the representation
    match a.splitOn "@" with
    | [atok, u] =>
      match unitId? r u with
      | none => some (st, bad)
      | some _ =>
        let rep : Option AmountRepr :=
          if atok.startsWith "F:" then (parseRat? (atok.drop 2).toString).map .frac
          else match decPair? atok with
            | some (v, p) => some (.dec v p)
            | none => (parseRat? atok).map .frac
        rep.map fun rp => (st, "ok " ++ String.ofList (renderQty rp u))
    | _ => some (st, bad)
  | ["q_parse", cls, text, unitArg, dflt] =>
    -- `Cls(text[, unit])` / `Quantity(text[, unit])`; `text` has blanks encoded as given
    match Rounding.ofName? dflt, (if cls == "-" then some none else (clsId? r cls).map some),
      (if unitArg == "-" then some none else (unitId? r unitArg).map some) with
    | some d, some c, some uarg =>
      match parseQtyStr ((text.replace "\\t" "\t").replace "\\n" "\n").toList with
      | .error e => some (st, "err " ++ e.name)
      | .ok (amt, sym) =>
        let symUnit : Except Err (Option Nat) := match sym with
          | none => .ok none
          | some sy => match unitId? r (String.ofList sy) with
            | some u => .ok (some u)
            | none => .error .QuantityError
        match symUnit with
        | .error e => some (st, "err " ++ e.name)
        | .ok su =>
          let res : Except Err Qty := q.parseQuantity d c amt su uarg
          some (st, showQRes r res)
    | _, _, _ => some (st, bad)
  | ["q_mixnum", op, _a, _kind] =>
    let mop : Option QState.MixOp := match op with
      | "add" => some .add | "radd" => some .radd | "sub" => some .sub | "rsub" => some .rsub
      | "lt" => some .lt | "le" => some .le | "gt" => some .gt | "ge" => some .ge
      | "eq" => some .eq | "ne" => some .ne | _ => none
    mop.map fun m => (st, showBRes (QState.qtyVsNumber m))
  | ["q_sum", items, dflt] =>
    match Rounding.ofName? dflt with
    | none => some (st, bad)
    | some d =>
      let toks := if items == "-" then [] else items.splitOn ","
      match toks.mapM (parseQty? r d) with
      | none => some (st, bad)
      | some qs =>
        match qs.mapM id with
        | .error e => some (st, "err " ++ e.name)
        | .ok qs =>
          match q.qtySum d qs with
          | .error e => some (st, "err " ++ e.name)
          | .ok none => some (st, "ok num 0/1")
          | .ok (some x) => some (st, "ok " ++ showVal r (.qty x))
  | ["q_quantize", a, quant, mode, dflt] =>
    match Rounding.ofName? dflt, parseMode? mode with
    | some d, some m =>
      let atok := (a.splitOn "@").headD ""
      match parseQty? r d a, parseQty? r d quant with
      | some (.ok qa), some (.ok qq) =>
        -- the representation of a quantised operand is not modelled: use the value path
        let rep := if (r.unitQuantum qa.unit).isSome then none else decPair? atok
        some (st, showQRes r (q.qtyQuantize d qa rep qq m))
      | some (.error e), _ => some (st, "err " ++ e.name)
      | _, some (.error e) => some (st, "err " ++ e.name)
      | _, _ => some (st, bad)
    | _, _ => some (st, bad)
  | ["q_round", a, n, dflt] =>
    match Rounding.ofName? dflt, n.toInt? with
    | some d, some n =>
      let atok := (a.splitOn "@").headD ""
      match parseQty? r d a with
      | some (.ok qa) =>
        -- a quantised amount is `Decimal(n) * quantum`: a Decimal whenever the
        -- unit's quantum is one (the generator keeps to such units); otherwise
        -- the representation is the token's
        let isDec := if (r.unitQuantum qa.unit).isSome then (decPair? (ratStr qa.amount)).isSome
                     else (decPair? atok).isSome
        some (st, showQRes r (q.qtyRound d qa isDec n))
      | some (.error e) => some (st, "err " ++ e.name)
      | none => some (st, bad)
    | _, _ => some (st, bad)
  | _ => none

/-! ### money -/

def moneyCls? (r : RegState) : Option Nat := clsId? r "Money"

def parseMinor? (s : String) : Option MinorArg :=
  if s == "-" then some .none else if s == "x" then some .nonInt else s.toInt?.map .int

def parseSf? (s : String) : Option SfArg :=
  if s == "-" then some .none else if s == "bad" then some .invalid else
  match s.splitOn ":" with
  | [v, p] => match parseRat? v, p.toNat? with
    | some v, some p => some (.dec v p)
    | _, _ => none
  | _ => none

/-- `kind:value` tokens for unit multiples -/
def parseUM? (s : String) : Option UMArg :=
  match s.splitOn ":" with
  | ["bad"] => some .invalid
  | [_, v] => match parseRat? v with
    | some q => some (if isFiniteDecimal q then .val q else .invalid)
    | none => none
  | _ => none

def parseTA? (s : String) : Option TAArg :=
  match s.splitOn ":" with
  | ["none"] => some .typeError
  | ["bad"] => some .valueError
  | ["dec", v] => (parseRat? v).map .dec
  | [_, v] => (parseRat? v).map .frac
  | _ => none

def showRate (r : RegState) (x : Rate) : String :=
  s!"{usym r x.unitCur} {ratStr x.unitMultiple} {usym r x.termCur} {ratStr x.termAmount}"

def showRateRes (r : RegState) (x : Except Err Rate) : String :=
  match x with
  | .ok v => "ok " ++ showRate r v
  | .error e => "err " ++ e.name

def parseDate? (s : String) : Option (Int × Int × Int) :=
  match s.splitOn "-" with
  | [y, m, d] => match y.toNat?, m.toNat?, d.toNat? with
    | some y, some m, some d => some (y, m, d)
    | _, _, _ => none
  | _ => none

def parseVSpell? (s : String) : Option VSpell :=
  if s == "none" then some .none
  else if s == "other" then some .other
  else if s.startsWith "int:" then ((s.drop 4).toString.toInt?).map .int
  else if s.startsWith "tuple:" then
    match (s.drop 6).toString.splitOn "," with
    | [y, m] => match y.toInt?, m.toInt? with
      | some y, some m => some (.tuple y m)
      | _, _ => none
    | _ => none
  else if s.startsWith "date:" then (parseDate? (s.drop 5).toString).map fun (y, m, d) => .date y m d
  else if s.startsWith "str:" then some (.strParts ((s.drop 4).toString.splitOn "-"))
  else none

def parseSpecs? (r : RegState) (s : String) : Option (List RateSpec) :=
  if s == "-" then some [] else
  (s.splitOn ";").mapM fun sp =>
    match sp.splitOn "," with
    | [c, ta, um] => match unitId? r c, parseTA? ta, parseUM? um with
      | some c, some ta, some um => some { termCur := c, termAmount := ta, unitMultiple := um }
      | _, _, _ => none
    | _ => none

def mcId? (st : DState) (name : String) : Option Nat :=
  (List.range st.mcNames.length).find? fun i => st.mcNames.getD i "" == name

def stepMoney (st : DState) (args : List String) : Option (DState × String) :=
  let q := st.q
  let r := q.reg
  let setReg := fun (r' : RegState) => { st with q := { q with reg := r' } }
  match args with
  | ["load_money"] =>
    let (r', res) := r.declClass
      { name := "Money", defineAs := none, refUnitSymbol := none, quantum := none, isMoney := true }
    some (setReg r', showDecl r' res true)
  | ["cur_new", sym, minor, sf] =>
    match moneyCls? r, parseMinor? minor, parseSf? sf with
    | some mc, some mi, some sfa =>
      let (r', res) := r.newCurrency mc (optStr sym) mi sfa
      some (setReg r', match res with
        | .ok u => s!"ok {usym r' u} frac={showOptRat (r'.unit u).smallestFraction}"
        | .error e => "err " ++ e.toErr.name)
    | _, _, _ => some (st, bad)
  | ["cur_reg", code] =>
    match moneyCls? r with
    | none => some (st, bad)
    | some mc =>
      let before := (r.cls mc).units.find? fun u => (r.unit u).symbol == code
      let (r', res) := r.registerCurrency mc Gen.isoTable code
      some (setReg r', match res with
        | .ok u =>
          let name := ((Gen.isoTable.find? fun e => e.1 == code).map fun e => e.2.1).getD "?"
          s!"ok {usym r' u} name={name} frac={showOptRat (r'.unit u).smallestFraction} same={before == some u}"
        | .error e => "err " ++ e.toErr.name)
  | ["rate_new", name, uc, um, tc, ta, dflt] =>
    match unitId? r uc, parseUM? um, unitId? r tc, parseTA? ta, Rounding.ofName? dflt with
    | some uc, some um, some tc, some ta, some d =>
      match mkRate d uc tc um ta with
      | .ok x => some ({ st with rates := (name, x) :: st.rates },
          s!"ok {showRate r x} rate={ratStr x.rate} inv={ratStr x.inverseRate}")
      | .error e => some (st, "err " ++ e.name)
    | _, _, _, _, _ => some (st, bad)
  | ["rate_inv", a, name, dflt] =>
    match st.rates.lookup a, Rounding.ofName? dflt with
    | some x, some d =>
      match x.inverted d with
      | .ok y => some ({ st with rates := (name, y) :: st.rates }, "ok " ++ showRate r y)
      | .error e => some (st, "err " ++ e.name)
    | _, _ => some (st, bad)
  | ["rate_op", op, a, b, name, dflt] =>
    match st.rates.lookup a, st.rates.lookup b, Rounding.ofName? dflt with
    | some x, some y, some d =>
      match (if op == "mul" then x.mul d y else x.div d y) with
      | .ok z => some ({ st with rates := (name, z) :: st.rates }, "ok " ++ showRate r z)
      | .error e => some (st, "err " ++ e.name)
    | _, _, _ => some (st, bad)
  | ["rate_eq", a, b] =>
    match st.rates.lookup a, st.rates.lookup b with
    | some x, some y =>
      some (st, s!"ok eq={x.quotation == y.quotation} hasheq={x.quotation == y.quotation}")
    | _, _ => some (st, bad)
  | ["money_rate", op, m, rn, dflt] =>
    match st.rates.lookup rn, Rounding.ofName? dflt with
    | some x, some d =>
      match parseQty? r d m with
      | some (.ok mq) =>
        let isMoney := (r.cls (r.unitCls mq.unit)).isMoney
        let res : Except Err Qty := match op with
          | "mul" | "rmul" => if isMoney then q.moneyTimesRate d mq x else q.priceTimesRate d mq x false
          | "div" => if isMoney then q.moneyDivRate d mq x else q.priceTimesRate d mq x true
          | _ => .error .TypeError          -- rate / money
        some (st, showQRes r res)
      | some (.error e) => some (st, "err " ++ e.name)
      | none => some (st, bad)
    | _, _ => some (st, bad)
  | ["mc_new", name, base] =>
    match unitId? r base with
    | some b =>
      some ({ st with mcNames := st.mcNames ++ [name],
                      q := { q with mconvs := q.mconvs ++ [{ base := b }] } }, "ok")
    | none => some (st, bad)
  | ["mc_today", dt] =>
    (parseDate? dt).map fun t => ({ st with q := { q with today := t } }, "ok")
  | ["mc_update", name, vs, specs, dflt] =>
    -- a term currency `?CODE` is the symbol of a currency that is NOT
    -- registered: the update is rejected (ValueError) when that spec is
    -- reached - unless the validity or an earlier spec is rejected first -,
    -- and nothing changes
    let toks := specs.splitOn ";"
    let known := toks.takeWhile fun t => !t.startsWith "?"
    if known.length < toks.length then
      match mcId? st name, parseVSpell? vs,
          parseSpecs? r (if known.isEmpty then "-" else ";".intercalate known),
          Rounding.ofName? dflt with
      | some i, some v, some sp, some d =>
        let (_, res) := (q.mconvs.getD i default).update d v sp
        some (st, match res with | .ok _ => "err ValueError" | .error e => "err " ++ e.name)
      | _, _, _, _ => some (st, bad)
    else
    match mcId? st name, parseVSpell? vs, parseSpecs? r specs, Rounding.ofName? dflt with
    | some i, some v, some sp, some d =>
      let (c', res) := (q.mconvs.getD i default).update d v sp
      some ({ st with q := { q with mconvs := q.mconvs.set i c' } },
        match res with | .ok _ => "ok" | .error e => "err " ++ e.name)
    | _, _, _, _ => some (st, bad)
  | ["mc_rate", name, u, t, dt, dflt] =>
    match mcId? st name, unitId? r u, unitId? r t, Rounding.ofName? dflt,
      (if dt == "-" then some q.today else parseDate? dt) with
    | some i, some u, some t, some d, some (y, m, dd) =>
      some (st, match (q.mconvs.getD i default).getRate d u t y m dd with
        | .ok none => "ok none"
        | .ok (some x) => "ok " ++ showRate r x
        | .error e => "err " ++ e.name)
    | _, _, _, _, _ => some (st, bad)
  | ["mc_call", name, a, u, t, dt, dflt] =>
    match mcId? st name, parseAmount? a, unitId? r u, unitId? r t, Rounding.ofName? dflt,
      (if dt == "-" then some q.today else parseDate? dt) with
    | some i, some a, some u, some t, some d, some (y, m, dd) =>
      match r.mkQty d none a u with
      | .error e => some (st, "err " ++ e.name)
      | .ok mq =>
        some (st, match (q.mconvs.getD i default).call d mq.amount u t y m dd with
          | .ok x => "ok " ++ ratStr x
          | .error e => "err " ++ e.name)
    | _, _, _, _, _, _ => some (st, bad)
  | ["mc_dump", name] =>
    (mcId? st name).map fun i =>
      let c := q.mconvs.getD i default
      let kind := match c.kind with
        | none => "unset" | some .none => "none" | some .year => "year"
        | some .month => "month" | some .day => "day"
      -- effective table: last write wins per key
      let keys := c.rates.map (·.1)
      let eff := c.rates.reverse.filter fun e =>
        (c.rates.reverse.find? fun e' => e'.1 == e.1).map (·.2) == some e.2
      let lines := (eff.map fun e =>
        let v := match e.1.1 with
          | .none => "none" | .year y => s!"{y}" | .month y m => s!"{y}-{m}"
          | .day y m d => s!"{y}-{m}-{d}"
        s!"{v}/{usym r e.1.2}={showRate r e.2}").eraseDups
      let _ := keys
      (st, s!"ok kind={kind} " ++ " ; ".intercalate (lines.toArray.qsort (· < ·)).toList)
  | ["mc_stack", op, name] =>
    match mcId? st name with
    | none => some (st, bad)
    | some i =>
      match op with
      | "reg" | "enter" =>
        some ({ st with q := { q with mstack := stackPush q.mstack i } }, "ok")
      | _ =>   -- "unreg" | "exit" | "exit_exc"
        let (stack', res) := stackRemove q.mstack i
        some ({ st with q := { q with mstack := stack' } },
          match res with | .ok _ => "ok" | .error e => "err " ++ e.name)
  | ["mc_stack_show"] =>
    some (st, "ok " ++ ",".intercalate (q.mstack.map fun i => st.mcNames.getD i "?"))
  | _ => none

def step (s : DState) (line : String) : DState × String :=
  let args := line.splitOn "\t"
  -- the last argument of most operations is the configured default rounding
  -- mode; code that is not handed a mode (rates built inside a money
  -- converter during an implicit conversion) reads it from the state
  let s := match args.getLast? >>= Rounding.ofName? with
    | some d => { s with q := { s.q with dfltMode := d } }
    | none => s
  match args with
  | ["reset"] => (DState.init, "ok reset")
  | ["numkind", _] => (s, "ok")   -- representation of numbers on the Python side only
  | ["doc_rows"] =>
    -- the documentation rows equal the computed scales (theorem of C20 over the
    -- translated tables); the implementation side re-reads the docstring
    (s, s!"ok rows={Gen.docRows.length} bad=-")
  | ["q_hash_stable", _a, _name] =>
    -- the hash of an object never changes (whatever converter is active)
    (s, "ok stable=true fresh=true")
  | ["q_alloc_cmp", a, ratios, _other, dflt] =>
    -- every portion of an allocation compares with an equal quantity in another
    -- unit as its amount says (C04): the model answers `true` whenever the
    -- allocation itself succeeds
    match stepReg s ["q_alloc", a, ratios, "1", dflt] with
    | some (s', out) => (s', if out.startsWith "ok " then "ok true" else out)
    | none => (s, bad)
  | _ =>
    match stepRounding args with
    | some out => (s, out)
    | none =>
    match stepTerm s args with
    | some r => r
    | none =>
    match stepReg s args with
    | some r => r
    | none =>
    match stepMoney s args with
    | some r => r
    | none => (s, bad)

end QM.Driver
