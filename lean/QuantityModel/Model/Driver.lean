/-
Line-protocol driver (DESIGN.md §2.2): one tab-separated operation per input
line, one canonical observation per output line.  Imports `Model/` and `Gen/`
only, so it builds as a native executable.
-/
import QuantityModel.Model.Rounding
import QuantityModel.Model.Term
namespace QM.Driver
open QM

structure DState where
  env : Env := { atoms := [] }

def DState.init : DState := {}

def showRes (r : Except Err String) : String :=
  match r with
  | .ok s => "ok " ++ s
  | .error e => "err " ++ e.name

def parseMode? (s : String) : Option (Option Rounding) :=
  if s == "-" then some none else (Rounding.ofName? s).map some

def bad : String := "bad-op"

def stepRounding (args : List String) : Option String :=
  match args with
  | ["floordiv", x, y, m, d] =>
    match x.toInt?, y.toInt?, parseMode? m, Rounding.ofName? d with
    | some x, some y, some m, some d =>
      some <| showRes <| (Gen.floordivRounded x y m d).map toString
    | _, _, _, _ => some bad
  | ["quantfrac", a, q, m, d] =>
    match parseRat? a, parseRat? q, parseMode? m, Rounding.ofName? d with
    | some a, some q, some m, some d =>
      some <| showRes <| (Gen.quantizeFraction a q m d).map ratStr
    | _, _, _, _ => some bad
  | ["decquant", v, p, q, m, d] =>
    match v.toInt?, p.toNat?, parseRat? q, parseMode? m, Rounding.ofName? d with
    | some v, some p, some q, some m, some d =>
      some <| showRes <| (decQuantize v p q m d).map ratStr
    | _, _, _, _, _ => some bad
  | ["decprec", x, p, d] =>
    match parseRat? x, p.toNat?, Rounding.ofName? d with
    | some x, some p, some d => some <| showRes <| (decimalOfPrec d x p).map ratStr
    | _, _, _ => some bad
  | ["togrid", a, q, d] =>
    match parseRat? a, parseRat? q, Rounding.ofName? d with
    | some a, some q, some d => some <| showRes <| (roundToGrid d a q).map ratStr
    | _, _, _ => some bad
  | _ => none

/-! ### terms -/

def parseItem? (s : String) : Option Item :=
  match s.splitOn "^" with
  | [el, e] =>
    match e.toInt? with
    | none => none
    | some e =>
      if el.startsWith "n:" then (parseRat? (el.drop 2).toString).map fun q => (Elem.num q, e)
      else if el.startsWith "a:" then ((el.drop 2).toString.toNat?).map fun a => (Elem.atom a, e)
      else none
  | _ => none

def parseItems? (s : String) : Option Items :=
  if s == "-" then some [] else (s.splitOn ";").mapM parseItem?

def showItem (it : Item) : String :=
  match it.1 with
  | .num q => s!"n:{ratStr q}^{it.2}"
  | .atom a => s!"a:{a}^{it.2}"

def showItems (l : Items) : String :=
  if l.isEmpty then "-" else ";".intercalate (l.map showItem)

def parseScale? (s : String) : Option (Option Rat) :=
  if s == "-" then some none else (parseRat? s).map some

def stepTerm (st : DState) (args : List String) : Option (DState × String) :=
  let env := st.env
  match args with
  | ["atom", id, key, group, scale, base, nd] =>
    match id.toNat?, key.toInt?, group.toNat?, parseScale? scale, parseItems? nd with
    | some id, some key, some group, some scale, some nd =>
      if id != env.atoms.length then some (st, bad) else
      let info : AtomInfo := { key, group, scale, isBase := base == "1", normDef := nd }
      some ({ st with env := { atoms := env.atoms ++ [info] } }, "ok")
    | _, _, _, _, _ => some (st, bad)
  | ["t_mk", a] => (parseItems? a).map fun a => (st, "ok " ++ showItems (mkTerm env a))
  | ["t_norm", a] => (parseItems? a).map fun a =>
      (st, "ok " ++ showItems (termNormalized env (mkTerm env a)))
  | ["t_mul", a, b] =>
    match parseItems? a, parseItems? b with
    | some a, some b => some (st, "ok " ++ showItems (mulTerm env (mkTerm env a) (mkTerm env b)))
    | _, _ => some (st, bad)
  | ["t_div", a, b] =>
    match parseItems? a, parseItems? b with
    | some a, some b => some (st, "ok " ++ showItems (divTerm env (mkTerm env a) (mkTerm env b)))
    | _, _ => some (st, bad)
  | ["t_scale", q, a] =>
    match parseRat? q, parseItems? a with
    | some q, some a => some (st, "ok " ++ showItems (scaleTerm env q (mkTerm env a)))
    | _, _ => some (st, bad)
  | ["t_divs", a, q] =>
    match parseItems? a, parseRat? q with
    | some a, some q => some (st, "ok " ++ showItems (divScalar env (mkTerm env a) q))
    | _, _ => some (st, bad)
  | ["t_rdivs", q, a] =>
    match parseRat? q, parseItems? a with
    | some q, some a => some (st, "ok " ++ showItems (rdivScalar env q (mkTerm env a)))
    | _, _ => some (st, bad)
  | ["t_pow", a, n] =>
    match parseItems? a, n.toInt? with
    | some a, some n => some (st, "ok " ++ showItems (powTerm env (mkTerm env a) n))
    | _, _ => some (st, bad)
  | ["t_recip", a] => (parseItems? a).map fun a =>
      (st, "ok " ++ showItems (reciprocalItems (mkTerm env a)))
  | ["t_eq", a, b] =>
    match parseItems? a, parseItems? b with
    | some a, some b =>
      let ta := mkTerm env a
      let tb := mkTerm env b
      some (st, s!"ok eq={termEq env ta tb} hasheq={termHashKey env ta == termHashKey env tb}")
    | _, _ => some (st, bad)
  | ["t_numelem", a] => (parseItems? a).map fun a =>
      (st, match numElem (mkTerm env a) with | some q => "ok " ++ ratStr q | none => "ok none")
  | ["t_split", a] => (parseItems? a).map fun a =>
      let (n, r) := splitTerm env (mkTerm env a)
      (st, s!"ok {ratStr n} {showItems r}")
  | _ => none

def step (s : DState) (line : String) : DState × String :=
  let args := line.splitOn "\t"
  match args with
  | ["reset"] => (DState.init, "ok reset")
  | ["numkind", _] => (s, "ok")   -- representation of numbers on the Python side only
  | _ =>
    match stepRounding args with
    | some out => (s, out)
    | none =>
    match stepTerm s args with
    | some r => r
    | none => (s, bad)

end QM.Driver
