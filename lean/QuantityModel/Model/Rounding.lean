/-
Rounding layer of the model.  Everything is defined on top of the *generated*
`Gen.floordivRounded` / `Gen.quantizeFraction`, so the theorems about these
functions are theorems about what /repo's source says now.
-/
import QuantityModel.Gen.FloorDiv
namespace QM

/-- Round a rational to an integer under mode `m`
(`_floordiv_rounded(v.numerator, v.denominator, m)`).  The error branch is
unreachable because `v.den > 0` (`roundQ_ok` in `Proofs/RoundingQ`). -/
def roundQ (m : Rounding) (v : Rat) : Int :=
  match Gen.floordivRounded v.num v.den (some m) m with
  | .ok r => r
  | .error _ => 0

/-- decimalfp `Decimal(x, p)`: `_floordiv_rounded(num * 10**p, den)` with the default mode. -/
def decimalOfPrec (dflt : Rounding) (x : Rat) (p : Nat) : Except Err Rat :=
  match Gen.floordivRounded (x.num * 10 ^ p) x.den none dflt with
  | .ok v => .ok ((v : Rat) / (10 ^ p : Nat))
  | .error e => .error e

/-- `Quantity.__new__`: `Decimal(amnt / quantum, 0) * quantum`. -/
def roundToGrid (dflt : Rounding) (amnt quantum : Rat) : Except Err Rat :=
  if quantum = 0 then .error .ZeroDivisionError else
  match decimalOfPrec dflt (amnt / quantum) 0 with
  | .ok k => .ok (k * quantum)
  | .error e => .error e

/-- decimalfp `Decimal.quantize(quant, rounding)` on the internal pair `(v, p)`
(value `v / 10^p`): `_floordiv_rounded(v * den, 10**p * num, rounding)`, then
`Decimal(mult) * quant`. -/
def decQuantize (v : Int) (p : Nat) (quant : Rat) (rounding : Option Rounding)
    (dflt : Rounding) : Except Err Rat :=
  match Gen.floordivRounded (v * quant.den) (10 ^ p * quant.num) rounding dflt with
  | .ok mult => .ok ((mult : Rat) * quant)
  | .error e => .error e

end QM
