import QuantityModel.Model.Allocate
import QuantityModel.Proofs.RoundingQ
import Mathlib.Algebra.BigOperators.Group.List.Basic
import Mathlib.Algebra.Order.Field.Rat
import Mathlib.Tactic.FieldSimp
import Mathlib.Tactic.Ring
import Mathlib.Tactic.Linarith
namespace QM

theorem sum_map_mul_left (l : List ℚ) (c : ℚ) : (l.map (c * ·)).sum = c * l.sum := by
  induction l with
  | nil => simp
  | cons x xs ih => simp [ih, mul_add]

theorem sum_map_div (l : List ℚ) (c : ℚ) : (l.map (· / c)).sum = l.sum / c := by
  induction l with
  | nil => simp
  | cons x xs ih => simp [ih, add_div]

theorem sum_modify_add (l : List ℚ) (i : ℕ) (q : ℚ) (h : i < l.length) :
    (l.modify i (· + q)).sum = l.sum + q := by
  induction l generalizing i with
  | nil => simp at h
  | cons x xs ih =>
    cases i with
    | zero => simp [List.modify]; ring
    | succ j =>
      simp only [List.modify_succ_cons, List.sum_cons]
      rw [ih j (by simpa using h)]; ring

theorem length_modify' (l : List ℚ) (i : ℕ) (f : ℚ → ℚ) : (l.modify i f).length = l.length := by
  simp

/-- the dispersal loop conserves `portions + remainder` as long as the indexes
it is given are valid -/
theorem disperse_conserves (q : ℚ) (errs : List (ℚ × ℕ)) (ps : List ℚ) (rem : ℚ)
    (h : ∀ e ∈ errs, e.2 < ps.length) :
    (disperse q errs ps rem).1.sum + (disperse q errs ps rem).2 = ps.sum + rem ∧
    (disperse q errs ps rem).1.length = ps.length := by
  induction errs generalizing ps rem with
  | nil => simp [disperse]
  | cons e rest ih =>
    obtain ⟨err, idx⟩ := e
    have hidx : idx < ps.length := h (err, idx) (by simp)
    unfold disperse
    simp only
    split
    · constructor
      · rw [sum_modify_add _ _ _ hidx]; ring
      · simp
    · have h' : ∀ e ∈ rest, e.2 < (ps.modify idx (· + q)).length := by
        intro e he; rw [length_modify']; exact h e (List.mem_cons_of_mem _ he)
      obtain ⟨h1, h2⟩ := ih (ps.modify idx (· + q)) (rem - q) h'
      constructor
      · rw [h1, sum_modify_add _ _ _ hidx]; ring
      · rw [h2]; simp

theorem insertErr_mem (desc : Bool) (x : ℚ × ℕ) (l : List (ℚ × ℕ)) (e : ℚ × ℕ) :
    e ∈ insertErr desc x l ↔ e = x ∨ e ∈ l := by
  induction l with
  | nil => simp [insertErr]
  | cons y ys ih =>
    unfold insertErr
    by_cases hc : (if desc then errLe y x else errLe x y) = true
    · simp [hc]
    · simp only [hc, Bool.false_eq_true, ↓reduceIte, List.mem_cons, ih]; tauto

theorem sortErrs_mem (desc : Bool) (l : List (ℚ × ℕ)) (e : ℚ × ℕ) :
    e ∈ sortErrs desc l ↔ e ∈ l := by
  induction l with
  | nil => simp [sortErrs]
  | cons x xs ih => simp [sortErrs, insertErr_mem, ih]

/-- rounding to the grid moves an amount by less than one quantum (at most
half under the half modes) -/
theorem toGrid_bound (d : Rounding) (q x : ℚ) (hq : q ≠ 0) :
    |toGrid d (some q) x - x| < |q| ∧ (d.isHalf = true → |toGrid d (some q) x - x| ≤ |q| / 2) := by
  unfold toGrid
  have e : (roundQ d (x / q) : ℚ) * q - x = -((x / q - roundQ d (x / q)) * q) := by field_simp; ring
  rw [e, abs_neg, abs_mul]
  constructor
  · calc _ < 1 * |q| := mul_lt_mul_of_pos_right (roundQ_err_lt_one d _) (abs_pos.mpr hq)
      _ = |q| := one_mul _
  · intro hm
    calc _ ≤ (1/2) * |q| := mul_le_mul_of_nonneg_right (roundQ_half d hm _) (abs_nonneg _)
      _ = |q| / 2 := by ring

end QM

namespace QM

/-! ### the dispersal lemma -/

/-- errors sorted so that `σ * error` ascends (σ = 1: ascending, σ = -1: descending) -/
def SortedBy (σ : ℚ) (R : List (ℚ × ℕ)) : Prop := R.Pairwise fun a b => σ * a.1 ≤ σ * b.1

theorem sum_nonneg_of_forall (l : List ℚ) (h : ∀ x ∈ l, 0 ≤ x) : 0 ≤ l.sum := by
  induction l with
  | nil => simp
  | cons x xs ih =>
    simp only [List.sum_cons]
    have := h x (by simp)
    have := ih (fun y hy => h y (List.mem_cons_of_mem _ hy))
    linarith

theorem getD_modify_ne (l : List ℚ) (i j : ℕ) (f : ℚ → ℚ) (h : i ≠ j) :
    (l.modify i f).getD j 0 = l.getD j 0 := by
  simp [List.getD_eq_getElem?_getD, List.getElem?_modify, h]

theorem getD_modify_eq (l : List ℚ) (i : ℕ) (f : ℚ → ℚ) (h : i < l.length) :
    (l.modify i f).getD i 0 = f (l.getD i 0) := by
  simp [List.getD_eq_getElem?_getD, List.getElem?_modify, h]

/-- KEY: walking the sorted errors and moving one (signed) quantum per step
terminates with remainder 0 and leaves every portion less than one quantum
away from its share -/
theorem disperse_spec (q σ : ℚ) (hq : 0 < q) (hσ : σ = 1 ∨ σ = -1) (shares : List ℚ)
    (R : List (ℚ × ℕ)) (ps : List ℚ) (m : ℕ) (hm : 1 ≤ m)
    (hsorted : SortedBy σ R)
    (hnodup : (R.map Prod.snd).Nodup)
    (hR : ∀ x ∈ R, x.2 < ps.length ∧ x.1 = ps.getD x.2 0 - shares.getD x.2 0)
    (hsum : (R.map fun x => σ * x.1).sum ≤ -((m : ℚ) * q))
    (hbound : ∀ i, i < ps.length → |ps.getD i 0 - shares.getD i 0| < q) :
    (disperse (σ * q) R ps (σ * (m * q))).2 = 0 ∧
    (disperse (σ * q) R ps (σ * (m * q))).1.length = ps.length ∧
    ∀ i, i < ps.length →
      |(disperse (σ * q) R ps (σ * (m * q))).1.getD i 0 - shares.getD i 0| < q := by
  have hσ2 : σ * σ = 1 := by rcases hσ with h | h <;> rw [h] <;> norm_num
  have hσ0 : σ ≠ 0 := by rcases hσ with h | h <;> rw [h] <;> norm_num
  induction R generalizing ps m with
  | nil =>
    exfalso
    simp only [List.map_nil, List.sum_nil] at hsum
    have : (0:ℚ) < (m : ℚ) * q := by positivity
    linarith
  | cons x rest ih =>
    obtain ⟨e, idx⟩ := x
    have hx := hR (e, idx) (by simp)
    simp only at hx
    obtain ⟨hidx, he⟩ := hx
    have hb := hbound idx hidx
    rw [← he] at hb
    have hb' := abs_lt.mp hb
    -- the head has the smallest σ·error; were it ≥ 0, the sum would be ≥ 0
    have hneg : σ * e < 0 := by
      by_contra hc
      push_neg at hc
      have hall : ∀ y ∈ ((e, idx) :: rest).map (fun x => σ * x.1), 0 ≤ y := by
        intro y hy
        simp only [List.map_cons, List.mem_cons, List.mem_map] at hy
        rcases hy with rfl | ⟨z, hz, rfl⟩
        · exact hc
        · have := (List.pairwise_cons.mp hsorted).1 z hz
          simp only at this; linarith
      have := sum_nonneg_of_forall _ hall
      have : (0:ℚ) < (m : ℚ) * q := by positivity
      linarith
    have hlow : -q < σ * e := by
      rcases hσ with h | h <;> rw [h] <;> linarith
    -- the adjusted portion
    have hnew : |((ps.modify idx (· + σ * q)).getD idx 0) - shares.getD idx 0| < q := by
      rw [getD_modify_eq _ _ _ hidx]
      have : ps.getD idx 0 + σ * q - shares.getD idx 0 = e + σ * q := by rw [he]; ring
      rw [this, abs_lt]
      rcases hσ with h | h <;> rw [h] at hneg hlow ⊢ <;> constructor <;> linarith
    have hbound' : ∀ i, i < (ps.modify idx (· + σ * q)).length →
        |(ps.modify idx (· + σ * q)).getD i 0 - shares.getD i 0| < q := by
      intro i hi
      rw [length_modify'] at hi
      by_cases hii : idx = i
      · subst hii; exact hnew
      · rw [getD_modify_ne _ _ _ _ hii]; exact hbound i hi
    unfold disperse
    simp only
    have hrem : σ * (↑m * q) - σ * q = σ * (((m - 1 : ℕ) : ℚ) * q) := by
      have : ((m - 1 : ℕ) : ℚ) = (m : ℚ) - 1 := by
        rw [Nat.cast_sub hm]; simp
      rw [this]; ring
    by_cases hm1 : m = 1
    · subst hm1
      have : σ * ((1 : ℕ) * q) - σ * q = 0 := by simp
      simp only [this, ↓reduceIte]
      refine ⟨trivial, by simp, ?_⟩
      intro i hi
      exact hbound' i (by simpa using hi)
    · have hm2 : 1 ≤ m - 1 := by omega
      have hne0 : σ * (↑m * q) - σ * q ≠ 0 := by
        rw [hrem]
        have : (0:ℚ) < ((m - 1 : ℕ) : ℚ) * q := by
          have : (0:ℚ) < ((m - 1 : ℕ) : ℚ) := by exact_mod_cast hm2
          positivity
        exact mul_ne_zero hσ0 (ne_of_gt this)
      simp only [hne0, ↓reduceIte]
      rw [hrem]
      have hnd := List.nodup_cons.mp (by simpa using hnodup : ((idx :: rest.map Prod.snd)).Nodup)
      have hR' : ∀ y ∈ rest, y.2 < (ps.modify idx (· + σ * q)).length ∧
          y.1 = (ps.modify idx (· + σ * q)).getD y.2 0 - shares.getD y.2 0 := by
        intro y hy
        obtain ⟨h1, h2⟩ := hR y (List.mem_cons_of_mem _ hy)
        have hne : idx ≠ y.2 := by
          intro hh; apply hnd.1; rw [hh]; exact List.mem_map_of_mem hy
        exact ⟨by rw [length_modify']; exact h1, by rw [getD_modify_ne _ _ _ _ hne]; exact h2⟩
      have hsum' : (rest.map fun x => σ * x.1).sum ≤ -(((m - 1 : ℕ) : ℚ) * q) := by
        have : ((m - 1 : ℕ) : ℚ) = (m : ℚ) - 1 := by rw [Nat.cast_sub hm]; simp
        rw [this]
        simp only [List.map_cons, List.sum_cons] at hsum
        linarith
      obtain ⟨r1, r2, r3⟩ := ih (ps.modify idx (· + σ * q)) (m - 1) hm2
        (List.pairwise_cons.mp hsorted).2 hnd.2 hR' hsum' hbound'
      refine ⟨r1, by rw [r2]; simp, ?_⟩
      intro i hi
      exact r3 i (by rw [length_modify']; exact hi)

end QM

namespace QM

theorem insertErr_perm (desc : Bool) (x : ℚ × ℕ) (l : List (ℚ × ℕ)) :
    (insertErr desc x l).Perm (x :: l) := by
  induction l with
  | nil => simp [insertErr]
  | cons y ys ih =>
    unfold insertErr
    by_cases hc : (if desc then errLe y x else errLe x y) = true
    · simp only [hc, ↓reduceIte]; exact List.Perm.refl _
    · simp only [hc, Bool.false_eq_true, ↓reduceIte]
      exact (List.Perm.cons y ih).trans (List.Perm.swap x y ys)

theorem sortErrs_perm (desc : Bool) (l : List (ℚ × ℕ)) : (sortErrs desc l).Perm l := by
  induction l with
  | nil => simp [sortErrs]
  | cons x xs ih => exact (insertErr_perm desc x _).trans (List.Perm.cons x ih)

def sgn (desc : Bool) : ℚ := if desc then -1 else 1

theorem errLe_fst {a b : ℚ × ℕ} (h : errLe a b = true) : a.1 ≤ b.1 := by
  unfold errLe at h
  simp only [Bool.or_eq_true, decide_eq_true_eq, Bool.and_eq_true, beq_iff_eq] at h
  rcases h with h | ⟨h, _⟩
  · exact le_of_lt h
  · exact le_of_eq h

theorem not_errLe_fst {a b : ℚ × ℕ} (h : ¬ errLe a b = true) : b.1 ≤ a.1 := by
  unfold errLe at h
  simp only [Bool.or_eq_true, decide_eq_true_eq, Bool.and_eq_true, beq_iff_eq, not_or, not_lt] at h
  exact h.1

theorem insertErr_sorted (desc : Bool) (x : ℚ × ℕ) (l : List (ℚ × ℕ))
    (h : SortedBy (sgn desc) l) : SortedBy (sgn desc) (insertErr desc x l) := by
  induction l with
  | nil => simp [insertErr, SortedBy]
  | cons y ys ih =>
    unfold insertErr
    have hy := List.pairwise_cons.mp h
    by_cases hc : (if desc then errLe y x else errLe x y) = true
    · simp only [hc, ↓reduceIte]
      have hxy : sgn desc * x.1 ≤ sgn desc * y.1 := by
        cases desc
        · simp only [Bool.false_eq_true, ↓reduceIte] at hc
          simp only [sgn, Bool.false_eq_true, ↓reduceIte, one_mul]; exact errLe_fst hc
        · simp only [↓reduceIte] at hc
          simp only [sgn, ↓reduceIte]; have := errLe_fst hc; linarith
      refine List.pairwise_cons.mpr ⟨?_, h⟩
      intro z hz
      rcases List.mem_cons.mp hz with rfl | hz
      · exact hxy
      · exact le_trans hxy (hy.1 z hz)
    · simp only [hc, Bool.false_eq_true, ↓reduceIte]
      have hyx : sgn desc * y.1 ≤ sgn desc * x.1 := by
        cases desc
        · simp only [Bool.false_eq_true, ↓reduceIte] at hc
          simp only [sgn, Bool.false_eq_true, ↓reduceIte, one_mul]; exact not_errLe_fst hc
        · simp only [↓reduceIte] at hc
          simp only [sgn, ↓reduceIte]; have := not_errLe_fst hc; linarith
      refine List.pairwise_cons.mpr ⟨?_, ih hy.2⟩
      intro z hz
      rcases (insertErr_mem desc x ys z).mp hz with rfl | hz
      · exact hyx
      · exact hy.1 z hz

theorem sortErrs_sorted (desc : Bool) (l : List (ℚ × ℕ)) : SortedBy (sgn desc) (sortErrs desc l) := by
  induction l with
  | nil => simp [sortErrs, SortedBy]
  | cons x xs ih => exact insertErr_sorted desc x _ ih

theorem sum_fractions (ratios : List ℚ) (ht : ratios.sum ≠ 0) :
    (ratios.map (· / ratios.sum)).sum = 1 := by
  rw [sum_map_div, div_self ht]

/-- the errors listed by the code sum to `Σ portions − A` -/
theorem sum_allocErrs (A : ℚ) (ratios portions : List ℚ) (ht : ratios.sum ≠ 0)
    (hlen : portions.length = ratios.length) :
    ((allocErrs A ratios portions).map Prod.fst).sum = portions.sum - A := by
  unfold allocErrs
  set fr := ratios.map (· / ratios.sum) with hfr
  have hl : portions.length = fr.length := by rw [hlen, hfr]; simp
  have key : ∀ (ps fs : List ℚ), ps.length = fs.length →
      ((List.range ps.length).map fun i => ps.getD i 0 - A * fs.getD i 0).sum
        = ps.sum - A * fs.sum := by
    intro ps
    induction ps with
    | nil => intro fs h; cases fs <;> simp at h ⊢
    | cons p ps ih =>
      intro fs h
      cases fs with
      | nil => simp at h
      | cons f fs =>
        simp only [List.length_cons, Nat.add_right_cancel_iff] at h
        rw [List.length_cons, List.range_succ_eq_map]
        simp only [List.map_cons, List.getD_cons_zero, List.map_map, List.sum_cons, Function.comp_def,
          List.getD_cons_succ]
        rw [ih fs h]; ring
  simp only [List.map_map, Function.comp_def]
  rw [key portions fr hl, sum_fractions ratios ht, mul_one]

end QM
