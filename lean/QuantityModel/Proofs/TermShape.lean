/-
Shape of reduced / normalised terms: no operation invents an element — every
non-numeric element of the result occurs in the input; normalisation yields
base elements only (given that stored normalised definitions do).
-/
import QuantityModel.Proofs.Term
namespace QM

/-- the atoms occurring in an item list -/
def atomsOf (items : Items) : List Nat :=
  items.filterMap fun it => match it.1 with | .atom a => some a | .num _ => none

theorem mem_atomsOf {items : Items} {a : Nat} :
    a ∈ atomsOf items ↔ ∃ e, (Elem.atom a, e) ∈ items := by
  unfold atomsOf
  simp only [List.mem_filterMap]
  constructor
  · rintro ⟨⟨el, e⟩, hm, h⟩
    cases el with
    | num q => simp at h
    | atom b => simp only [Option.some.injEq] at h; subst h; exact ⟨e, hm⟩
  · rintro ⟨e, hm⟩; exact ⟨(Elem.atom a, e), hm, rfl⟩

theorem mergeInto_atoms (env : Env) (a₂ : Nat) (e₂ : Int) (acc : List (Nat × Int)) (x : Nat × Int)
    (h : x ∈ (mergeInto env a₂ e₂ acc).1) : x.1 = a₂ ∨ x.1 ∈ acc.map Prod.fst := by
  induction acc with
  | nil => simp only [mergeInto, List.mem_singleton] at h; left; rw [h]
  | cons p rest ih =>
    obtain ⟨a₁, e₁⟩ := p
    unfold mergeInto at h
    split at h
    · rename_i heq
      simp only [List.mem_cons] at h
      rcases h with rfl | h
      · right; simp
      · right; simp only [List.map_cons, List.mem_cons]; right; exact List.mem_map_of_mem h
    · split at h
      · simp only [List.mem_cons] at h
        rcases h with rfl | h
        · right; simp
        · right; simp only [List.map_cons, List.mem_cons]; right; exact List.mem_map_of_mem h
      · simp only [List.mem_cons] at h
        rcases h with rfl | h
        · right; simp
        · rcases ih h with h' | h'
          · left; exact h'
          · right; simp only [List.map_cons, List.mem_cons]; right; exact h'

/-- atoms held by the state of the sequential pass -/
def RState.atoms (s : RState) : List Nat := s.done.map Prod.fst ++ s.cur.map Prod.fst

theorem closeGroup_atoms (s : RState) (x : Nat × Int) (h : x ∈ closeGroup s) : x.1 ∈ s.atoms := by
  unfold closeGroup at h
  unfold RState.atoms
  rcases List.mem_append.mp h with h | h
  · exact List.mem_append_left _ (List.mem_map_of_mem h)
  · exact List.mem_append_right _ (List.mem_map_of_mem (List.mem_filter.mp h).1)

theorem reduceStep_atoms (env : Env) (s : RState) (x : Int × Item) (a : Nat)
    (h : a ∈ (reduceStep env s x).atoms) : a ∈ s.atoms ∨ x.2.1 = Elem.atom a := by
  obtain ⟨k, el, e⟩ := x
  unfold reduceStep at h
  cases el with
  | num q => left; exact h
  | atom b =>
    simp only at h
    split at h
    · unfold RState.atoms at h ⊢
      simp only at h
      rcases List.mem_append.mp h with h | h
      · left; exact List.mem_append_left _ h
      · obtain ⟨y, hy, rfl⟩ := List.mem_map.mp h
        rcases mergeInto_atoms env b e s.cur y hy with h' | h'
        · right; rw [h']
        · left; exact List.mem_append_right _ h'
    · unfold RState.atoms at h
      simp only [List.map_cons, List.map_nil, List.mem_append, List.mem_singleton] at h
      rcases h with h | h
      · obtain ⟨y, hy, rfl⟩ := List.mem_map.mp h
        left; exact closeGroup_atoms s y hy
      · right; rw [h]

theorem foldl_reduceStep_atoms (env : Env) (l : List (Int × Item)) (s : RState) (a : Nat)
    (h : a ∈ (l.foldl (reduceStep env) s).atoms) :
    a ∈ s.atoms ∨ ∃ x ∈ l, x.2.1 = Elem.atom a := by
  induction l generalizing s with
  | nil => left; exact h
  | cons x xs ih =>
    rw [List.foldl_cons] at h
    rcases ih _ h with h' | ⟨y, hy, hya⟩
    · rcases reduceStep_atoms env s x a h' with h'' | h''
      · left; exact h''
      · right; exact ⟨x, by simp, h''⟩
    · right; exact ⟨y, List.mem_cons_of_mem _ hy, hya⟩

/-- reduction invents no element: every atom of the result occurs in the input -/
theorem reduceGeneral_atoms (env : Env) (items : Items) (keep : Bool) (a : Nat)
    (h : a ∈ atomsOf (reduceGeneral env items keep)) : a ∈ atomsOf items := by
  rw [mem_atomsOf] at h ⊢
  obtain ⟨e, he⟩ := h
  unfold reduceGeneral at he
  simp only at he
  have key : ∀ (l : Items), (Elem.atom a, e) ∈ l →
      l = atomItems (closeGroup ((sortKeyed (attachKeys env items keep)).foldl (reduceStep env)
        { num := 1, done := [], curKey := 0, cur := [] })) → ∃ e', (Elem.atom a, e') ∈ items := by
    intro l hl hleq
    subst hleq
    simp only [atomItems, List.mem_map] at hl
    obtain ⟨y, hy, hya⟩ := hl
    simp only [Prod.mk.injEq, Elem.atom.injEq] at hya
    have hat := closeGroup_atoms _ y hy
    rw [hya.1] at hat
    rcases foldl_reduceStep_atoms env _ _ a hat with h0 | ⟨x, hx, hxa⟩
    · simp [RState.atoms] at h0
    · have hperm := sortKeyed_perm (attachKeys env items keep)
      have hx' := hperm.mem_iff.mp hx
      have hsnd := attachKeys_snd env items keep
      have : x.2 ∈ items := by rw [← hsnd]; exact List.mem_map_of_mem hx'
      exact ⟨x.2.2, by rw [← hxa]; exact this⟩
  split at he
  · simp only [List.mem_cons, Prod.mk.injEq, reduceCtorEq, false_and, false_or] at he
    exact key _ he rfl
  · exact key _ he rfl

end QM

namespace QM

/-- every atom of the list is a base element of the environment -/
def BaseOnly (env : Env) (items : Items) : Prop := ∀ a ∈ atomsOf items, (env.info a).isBase = true

/-- stored normalised definitions of derived elements mention base elements only -/
def DefsBaseOnly (env : Env) : Prop :=
  ∀ a, (env.info a).isBase = false → BaseOnly env (env.info a).normDef

theorem atomsOf_cons_num (q : Rat) (e : Int) (l : Items) : atomsOf ((Elem.num q, e) :: l) = atomsOf l := by
  simp [atomsOf]

theorem atomsOf_cons_atom (a : Nat) (e : Int) (l : Items) :
    atomsOf ((Elem.atom a, e) :: l) = a :: atomsOf l := by
  simp [atomsOf]

theorem atomsOf_append (l₁ l₂ : Items) : atomsOf (l₁ ++ l₂) = atomsOf l₁ ++ atomsOf l₂ := by
  simp [atomsOf, List.filterMap_append]

theorem atomsOf_map_exp (l : Items) (f : Int → Int) :
    atomsOf (l.map fun (b, be) => (b, f be)) = atomsOf l := by
  induction l with
  | nil => rfl
  | cons it rest ih =>
    obtain ⟨el, e⟩ := it
    cases el with
    | num q => simp only [List.map_cons, atomsOf_cons_num, ih]
    | atom a => simp only [List.map_cons, atomsOf_cons_atom, ih]

theorem atomsOf_flatMap (l : Items) (f : Item → Items) (a : Nat)
    (h : a ∈ atomsOf (l.flatMap f)) : ∃ it ∈ l, a ∈ atomsOf (f it) := by
  induction l with
  | nil => simp [atomsOf] at h
  | cons it rest ih =>
    rw [List.flatMap_cons, atomsOf_append, List.mem_append] at h
    rcases h with h | h
    · exact ⟨it, by simp, h⟩
    · obtain ⟨it', hm, ha⟩ := ih h
      exact ⟨it', List.mem_cons_of_mem _ hm, ha⟩

/-- expanding base-only items changes no atom -/
theorem iterNormalized_baseOnly_atoms (env : Env) (fuel : Nat) (items : Items)
    (h : BaseOnly env items) (a : Nat) (ha : a ∈ atomsOf (iterNormalized env fuel items)) :
    a ∈ atomsOf items := by
  induction fuel generalizing items with
  | zero => simpa [iterNormalized] using ha
  | succ n ih =>
    unfold iterNormalized at ha
    obtain ⟨⟨el, e⟩, hm, hin⟩ := atomsOf_flatMap _ _ a ha
    cases el with
    | num q => simp [atomsOf] at hin
    | atom b =>
      have hb : (env.info b).isBase = true := h b (mem_atomsOf.mpr ⟨e, hm⟩)
      simp only [hb, ↓reduceIte] at hin
      rw [atomsOf_cons_atom] at hin
      simp only [atomsOf, List.filterMap_nil, List.mem_cons, List.not_mem_nil, or_false] at hin
      subst hin
      exact mem_atomsOf.mpr ⟨e, hm⟩

/-- with at least one level of expansion, and stored definitions that are
base-only, the expanded items are base-only -/
theorem iterNormalized_baseOnly (env : Env) (n : Nat) (items : Items) (hd : DefsBaseOnly env) :
    BaseOnly env (iterNormalized env (n + 1) items) := by
  intro a ha
  unfold iterNormalized at ha
  obtain ⟨⟨el, e⟩, hm, hin⟩ := atomsOf_flatMap _ _ a ha
  cases el with
  | num q => simp [atomsOf] at hin
  | atom b =>
    by_cases hb : (env.info b).isBase = true
    · simp only [hb, ↓reduceIte] at hin
      rw [atomsOf_cons_atom] at hin
      simp only [atomsOf, List.filterMap_nil, List.mem_cons, List.not_mem_nil, or_false] at hin
      subst hin; exact hb
    · simp only [hb, Bool.false_eq_true, ↓reduceIte] at hin
      have hb' : (env.info b).isBase = false := by simpa using hb
      have hbase := hd b hb'
      have hscaled : BaseOnly env ((env.info b).normDef.map fun (x, be) => (x, be * e)) := by
        intro c hc
        have := atomsOf_map_exp (env.info b).normDef (fun be => be * e)
        rw [this] at hc; exact hbase c hc
      have := iterNormalized_baseOnly_atoms env n _ hscaled a hin
      exact hscaled a this

/-- normalisation yields base elements only -/
theorem termNormalized_baseOnly (env : Env) (t : Items) (hd : DefsBaseOnly env) :
    BaseOnly env (termNormalized env t) := by
  unfold termNormalized
  split
  · rename_i hm
    unfold markedNormal at hm
    split at hm
    · intro a ha; simp [atomsOf] at ha
    · rename_i b e
      intro a ha
      simp only [atomsOf, List.filterMap_cons, List.filterMap_nil, List.mem_singleton] at ha
      subst ha; exact hm
    · simp at hm
  · intro a ha
    unfold normalizedItems at ha
    have := reduceGeneral_atoms env _ false a ha
    exact iterNormalized_baseOnly env 7 t hd a this

/-- numeric part of an item list: the leading numeric item, else 1 -/
def numPart (items : Items) : Rat :=
  match items with
  | (.num q, e) :: _ => rpow q e
  | _ => 1

theorem numPart_eq_numElem (items : Items) : numPart items = (numElem items).getD 1 := by
  unfold numPart numElem
  split <;> simp

/-- the numeric item, if any, is the head: everything after it is non-numeric -/
def TailAtoms (items : Items) : Prop := ∀ it ∈ items.tail, ∃ a, it.1 = Elem.atom a

theorem den_atoms_one (ν : Nat → ℚ) (l : Items) (hall : ∀ it ∈ l, ∃ a, it.1 = Elem.atom a)
    (h1 : ∀ a ∈ atomsOf l, ν a = 1) : den ν l = 1 := by
  induction l with
  | nil => rfl
  | cons it rest ih =>
    obtain ⟨el, e⟩ := it
    obtain ⟨a, ha⟩ := hall (el, e) (by simp)
    simp only at ha; subst ha
    rw [den_cons]
    simp only [evalElem]
    rw [h1 a (by rw [atomsOf_cons_atom]; simp), one_zpow, one_mul]
    exact ih (fun x hx => hall x (List.mem_cons_of_mem _ hx))
      (fun b hb => h1 b (by rw [atomsOf_cons_atom]; exact List.mem_cons_of_mem _ hb))

/-- under a valuation that gives every atom of the list the value 1, a list
whose tail is non-numeric denotes its numeric part -/
theorem den_eq_numPart (ν : Nat → ℚ) (items : Items) (ht : TailAtoms items)
    (h1 : ∀ a ∈ atomsOf items, ν a = 1) : den ν items = numPart items := by
  cases items with
  | nil => rfl
  | cons it rest =>
    obtain ⟨el, e⟩ := it
    cases el with
    | num q =>
      rw [den_cons]
      simp only [evalElem, numPart, rpow_eq_zpow]
      rw [den_atoms_one ν rest ht (fun a ha => h1 a (by rw [atomsOf_cons_num]; exact ha)), mul_one]
    | atom a =>
      simp only [numPart]
      apply den_atoms_one ν _ _ h1
      intro x hx
      rcases List.mem_cons.mp hx with rfl | hx
      · exact ⟨a, rfl⟩
      · exact ht x hx

/-- normalised terms have a non-numeric tail -/
theorem termNormalized_tailAtoms (env : Env) (t : Items) : TailAtoms (termNormalized env t) := by
  unfold termNormalized
  split
  · rename_i hm
    unfold markedNormal at hm
    split at hm
    · intro it hit; simp at hit
    · intro it hit; simp at hit
    · simp at hm
  · unfold normalizedItems
    intro it hit
    -- shape of the result of the general reduction
    unfold reduceGeneral at hit
    simp only at hit
    split at hit
    · simp only [List.tail_cons, atomItems, List.mem_map] at hit
      obtain ⟨p, _, rfl⟩ := hit; exact ⟨p.1, rfl⟩
    · have := List.mem_of_mem_tail hit
      simp only [atomItems, List.mem_map] at this
      obtain ⟨p, _, rfl⟩ := this; exact ⟨p.1, rfl⟩

end QM

namespace QM

theorem filterItems_atoms (items : Items) (a : Nat) (h : a ∈ atomsOf (filterItems items)) :
    a ∈ atomsOf items := by
  rw [mem_atomsOf] at h ⊢
  obtain ⟨e, he⟩ := h
  exact ⟨e, (List.mem_filter.mp he).1⟩

/-- no path of `_reduce_items` invents an element -/
theorem reduceItems_atoms (env : Env) (items : Items) (n : Option Nat) (keep : Bool) (a : Nat)
    (h : a ∈ atomsOf (reduceItems env items n keep)) : a ∈ atomsOf items := by
  unfold reduceItems at h
  split at h
  · exact filterItems_atoms _ a h
  · exact filterItems_atoms _ a h
  · rename_i a₁ e₁ a₂ e₂
    split at h
    · rename_i heq; subst heq
      split at h
      · simp [atomsOf] at h
      · simp only [atomsOf, List.filterMap_cons, List.filterMap_nil, List.mem_singleton] at h
        subst h; simp [atomsOf]
    · split at h
      · have := filterItems_atoms _ a h
        simp only [atomsOf, List.filterMap_cons, List.filterMap_nil, List.mem_singleton] at this
        subst this; simp [atomsOf]
      · split at h
        · exact filterItems_atoms _ a h
        · split at h
          · have := filterItems_atoms _ a h
            simp only [atomsOf, List.filterMap_cons, List.filterMap_nil, List.mem_cons,
              List.not_mem_nil, or_false] at this ⊢
            tauto
          · exact filterItems_atoms _ a h
  · have := filterItems_atoms _ a h
    simp only [atomsOf, List.filterMap_cons, List.filterMap_nil, List.mem_singleton] at this ⊢
    exact this
  · simp only at h
    split at h <;> simp [atomsOf] at h
  · exact reduceGeneral_atoms env items keep a h

theorem mkTerm_atoms (env : Env) (items : Items) (a : Nat) (h : a ∈ atomsOf (mkTerm env items)) :
    a ∈ atomsOf items := by
  unfold mkTerm at h
  split at h
  · simp [atomsOf] at h
  · exact reduceItems_atoms env items _ true a h

/-- atoms of a normalised term come from the term itself or from the stored
normalised definition of one of its derived elements -/
theorem termNormalized_atoms (env : Env) (t : Items) (hd : DefsBaseOnly env) (a : Nat)
    (h : a ∈ atomsOf (termNormalized env t)) :
    a ∈ atomsOf t ∨ ∃ b ∈ atomsOf t, (env.info b).isBase = false ∧ a ∈ atomsOf (env.info b).normDef := by
  unfold termNormalized at h
  split at h
  · left; exact h
  · unfold normalizedItems at h
    have h1 := reduceGeneral_atoms env _ false a h
    unfold normFuel at h1
    unfold iterNormalized at h1
    obtain ⟨⟨el, e⟩, hm, hin⟩ := atomsOf_flatMap _ _ a h1
    cases el with
    | num q => simp [atomsOf] at hin
    | atom b =>
      by_cases hb : (env.info b).isBase = true
      · simp only [hb, ↓reduceIte] at hin
        rw [atomsOf_cons_atom] at hin
        simp only [atomsOf, List.filterMap_nil, List.mem_cons, List.not_mem_nil, or_false] at hin
        subst hin; left; exact mem_atomsOf.mpr ⟨e, hm⟩
      · simp only [hb, Bool.false_eq_true, ↓reduceIte] at hin
        have hb' : (env.info b).isBase = false := by simpa using hb
        have hscaled : BaseOnly env ((env.info b).normDef.map fun (x, be) => (x, be * e)) := by
          intro c hc
          have := atomsOf_map_exp (env.info b).normDef (fun be => be * e)
          rw [this] at hc; exact hd b hb' c hc
        have h2 := iterNormalized_baseOnly_atoms env 7 _ hscaled a hin
        have := atomsOf_map_exp (env.info b).normDef (fun be => be * e)
        rw [this] at h2
        right; exact ⟨b, mem_atomsOf.mpr ⟨e, hm⟩, hb', h2⟩

end QM
