/-
`keep_item_order=True`: a reduced list is also a fixed point of the reduction
that `Term.__init__` performs (`mkTerm`), so building a term from the items of
a normal form gives the same items again.
-/
import QuantityModel.Proofs.TermSem
namespace QM

/-! ### the sequential pass on an explicitly keyed list -/

/-- keyed atoms: (key, (element, exponent)) -/
abbrev KAtom := Int × (Nat × Int)

def RK (env : Env) (x y : KAtom) : Prop :=
  x.1 ≤ y.1 ∧ (x.1 = y.1 → x.2.1 ≠ y.2.1 ∧ getFactor env y.2.1 x.2.1 = none)

def toKeyed (L : List KAtom) : List (Int × Item) :=
  L.map fun x => (x.1, (Elem.atom x.2.1, x.2.2))

theorem foldl_reproduces_keyed (env : Env) (rest : List KAtom) (s : RState)
    (hno : ∀ x ∈ rest, x.1 = s.curKey → ∀ p ∈ s.cur, p.1 ≠ x.2.1 ∧ getFactor env x.2.1 p.1 = none)
    (hcur0 : ∀ p ∈ s.cur, p.2 ≠ 0)
    (hpw : rest.Pairwise (RK env))
    (hrest0 : ∀ x ∈ rest, x.2.2 ≠ 0) :
    ((toKeyed rest).foldl (reduceStep env) s).num = s.num ∧
    closeGroup ((toKeyed rest).foldl (reduceStep env) s) = s.done ++ s.cur ++ rest.map Prod.snd := by
  induction rest generalizing s with
  | nil =>
    simp only [toKeyed, List.map_nil, List.foldl_nil, List.append_nil, true_and]
    unfold closeGroup
    congr 1
    apply List.filter_eq_self.mpr
    intro p hp; simpa using hcur0 p hp
  | cons x r ih =>
    obtain ⟨k, a, e⟩ := x
    simp only [toKeyed, List.map_cons, List.foldl_cons]
    have hx0 : e ≠ 0 := hrest0 (k, a, e) (by simp)
    have hr0 : ∀ y ∈ r, y.2.2 ≠ 0 := fun y hy => hrest0 y (by simp [hy])
    have hpw' := List.pairwise_cons.mp hpw
    by_cases hk : k = s.curKey
    · have hnox := hno (k, a, e) (by simp) hk
      have hm := mergeInto_append env a e s.cur hnox
      have hstep : reduceStep env s (k, (Elem.atom a, e)) =
          { s with cur := s.cur ++ [(a, e)], num := s.num * 1 } := by
        simp only [reduceStep, hk, if_true, hm]
      rw [hstep]
      have := ih { s with cur := s.cur ++ [(a, e)], num := s.num * 1 }
        (by intro y hy hyk p hp
            simp only [List.mem_append, List.mem_singleton] at hp
            rcases hp with hp | rfl
            · exact hno y (by simp [hy]) hyk p hp
            · have := hpw'.1 y hy
              exact this.2 (by show k = y.1; rw [hk]; exact hyk.symm))
        (by intro p hp
            simp only [List.mem_append, List.mem_singleton] at hp
            rcases hp with hp | rfl
            · exact hcur0 p hp
            · exact hx0)
        hpw'.2 hr0
      simp only [toKeyed] at this
      refine ⟨by rw [this.1]; simp, ?_⟩
      rw [this.2]; simp [List.append_assoc]
    · have hstep : reduceStep env s (k, (Elem.atom a, e)) =
          { num := s.num, done := closeGroup s, curKey := k, cur := [(a, e)] } := by
        simp only [reduceStep, hk, if_false]
      rw [hstep]
      have hcg : closeGroup s = s.done ++ s.cur := by
        unfold closeGroup; congr 1
        apply List.filter_eq_self.mpr
        intro p hp; simpa using hcur0 p hp
      have := ih { num := s.num, done := closeGroup s, curKey := k, cur := [(a, e)] }
        (by intro y hy hyk p hp
            simp only [List.mem_singleton] at hp; subst hp
            have := hpw'.1 y hy
            exact this.2 hyk.symm)
        (by intro p hp; simp only [List.mem_singleton] at hp; subst hp; exact hx0)
        hpw'.2 hr0
      simp only [toKeyed] at this
      refine ⟨this.1, ?_⟩
      rw [this.2, hcg]; simp [List.append_assoc]

/-! ### the keys of `keep_item_order=True` on a list sorted by sort key -/

theorem lookupInt_some_mem (l : List (Int × Int)) (k m : Int) (h : l.lookup k = some m) :
    (k, m) ∈ l := by
  induction l with
  | nil => simp at h
  | cons p rest ih =>
    obtain ⟨k', m'⟩ := p
    simp only [List.lookup_cons] at h
    by_cases hk : k = k'
    · subst hk
      simp only [BEq.rfl, Option.some.injEq] at h
      subst h; simp
    · have : (k == k') = false := by simpa using hk
      rw [this] at h
      exact List.mem_cons_of_mem _ (ih h)

theorem lookupInt_none_not_mem (l : List (Int × Int)) (k : Int) (h : l.lookup k = none) :
    ∀ m, (k, m) ∉ l := by
  induction l with
  | nil => simp
  | cons p rest ih =>
    obtain ⟨k', m'⟩ := p
    simp only [List.lookup_cons] at h
    by_cases hk : k = k'
    · subst hk; simp at h
    · have : (k == k') = false := by simpa using hk
      rw [this] at h
      intro m hm
      simp only [List.mem_cons, Prod.mk.injEq] at hm
      rcases hm with ⟨h1, _⟩ | hm
      · exact hk h1
      · exact ih h m hm

theorem mem_unique_of_nodup (l : List (Int × Int)) (hnd : (l.map Prod.fst).Nodup)
    (k m m' : Int) (h : (k, m) ∈ l) (h' : (k, m') ∈ l) : m = m' := by
  induction l with
  | nil => simp at h
  | cons p rest ih =>
    simp only [List.map_cons, List.nodup_cons] at hnd
    simp only [List.mem_cons] at h h'
    rcases h with rfl | h <;> rcases h' with h' | h'
    · exact (by simpa using congrArg Prod.snd h' : m' = m).symm
    · exact absurd (List.mem_map.mpr ⟨(k, m'), h', rfl⟩) hnd.1
    · subst h'; exact absurd (List.mem_map.mpr ⟨(k, m), h, rfl⟩) hnd.1
    · exact ih hnd.2 h h'

structure SeenInv (seen : List (Int × Int)) (idx : Nat) : Prop where
  nodup : (seen.map Prod.fst).Nodup
  le : ∀ p ∈ seen, p.2 ≤ (idx : Int)
  mono : ∀ p ∈ seen, ∀ q ∈ seen, p.1 < q.1 → p.2 < q.2

/-- keys ascend, and equal keys mean equal sort keys -/
def KOut (env : Env) (x y : Int × Item) : Prop :=
  x.1 ≤ y.1 ∧ (x.1 = y.1 → sortKey env x.2.1 = sortKey env y.2.1)

theorem firstIdxKeys_spec (env : Env) (l : List (Nat × Int)) (idx : Nat) (seen : List (Int × Int))
    (hs : SeenInv seen idx)
    (hsorted : l.Pairwise (fun a b => keyOf env a.1 ≤ keyOf env b.1))
    (hle : ∀ p ∈ seen, ∀ q ∈ l, p.1 ≤ keyOf env q.1) :
    (firstIdxKeys env (atomItems l) idx seen).Pairwise (KOut env) ∧
    ∀ x ∈ firstIdxKeys env (atomItems l) idx seen,
      ((sortKey env x.2.1, x.1) ∈ seen) ∨ ((idx : Int) < x.1) := by
  induction l generalizing idx seen with
  | nil => simp [atomItems, firstIdxKeys]
  | cons p l' ih =>
    obtain ⟨a, e⟩ := p
    have hsorted' := List.pairwise_cons.mp hsorted
    have hitems : atomItems ((a, e) :: l') = (Elem.atom a, e) :: atomItems l' := rfl
    rw [hitems]
    unfold firstIdxKeys
    simp only
    have hk0 : sortKey env (Elem.atom a) = keyOf env a := rfl
    cases hlk : seen.lookup (sortKey env (Elem.atom a)) with
    | some m =>
      simp only
      have hmem := lookupInt_some_mem seen _ m hlk
      have hs' : SeenInv seen (idx + 1) :=
        ⟨hs.nodup, fun p hp => by have := hs.le p hp; push_cast; omega, hs.mono⟩
      obtain ⟨ihp, ihc⟩ := ih (idx + 1) seen hs' hsorted'.2
        (fun p hp q hq => hle p hp q (List.mem_cons_of_mem _ hq))
      refine ⟨List.pairwise_cons.mpr ⟨?_, ihp⟩, ?_⟩
      · intro y hy
        have hyit : y.2 ∈ atomItems l' := by
          have := firstIdxKeys_snd env (atomItems l') (idx + 1) seen
          rw [← this]; exact List.mem_map_of_mem hy
        obtain ⟨q, hq, hqe⟩ := List.mem_map.mp hyit
        have hky : keyOf env a ≤ sortKey env y.2.1 := by
          rw [← hqe]; exact hsorted'.1 q hq
        rcases ihc y hy with hin | hgt
        · by_cases hkeq : sortKey env (Elem.atom a) = sortKey env y.2.1
          · have := mem_unique_of_nodup seen hs.nodup _ m y.1 hmem (by rw [hkeq]; exact hin)
            exact ⟨by show m ≤ y.1; omega, fun _ => hkeq⟩
          · have hlt : sortKey env (Elem.atom a) < sortKey env y.2.1 := by
              rw [hk0] at hkeq ⊢; omega
            have := hs.mono _ hmem _ hin hlt
            exact ⟨by show m ≤ y.1; simp only at this; omega,
                   fun h => by exfalso; simp only at this h; omega⟩
        · have := hs.le _ hmem
          simp only at this
          push_cast at hgt
          exact ⟨by show m ≤ y.1; omega, fun h => by exfalso; simp only at h; omega⟩
      · intro x hx
        simp only [List.mem_cons] at hx
        rcases hx with rfl | hx
        · left; exact hmem
        · rcases ihc x hx with hin | hgt
          · left; exact hin
          · right; push_cast at hgt; omega
    | none =>
      simp only
      have hnot := lookupInt_none_not_mem seen _ hlk
      have hs' : SeenInv ((sortKey env (Elem.atom a), (idx : Int) + 1) :: seen) (idx + 1) := by
        refine ⟨?_, ?_, ?_⟩
        · simp only [List.map_cons, List.nodup_cons]
          refine ⟨?_, hs.nodup⟩
          intro hin
          obtain ⟨p, hp, hpe⟩ := List.mem_map.mp hin
          exact hnot p.2 (by rw [← hpe]; exact hp)
        · intro p hp
          simp only [List.mem_cons] at hp
          rcases hp with rfl | hp
          · push_cast; omega
          · have := hs.le p hp; push_cast; omega
        · intro p hp q hq hlt
          simp only [List.mem_cons] at hp hq
          rcases hp with rfl | hp <;> rcases hq with rfl | hq
          · simp at hlt
          · -- new key below an old one: impossible, old keys are ≤ the new one
            have := hle q hq (a, e) (by simp)
            simp only at hlt this
            rw [hk0] at hlt; omega
          · have := hs.le p hp
            simp only; omega
          · exact hs.mono p hp q hq hlt
      obtain ⟨ihp, ihc⟩ := ih (idx + 1) _ hs' hsorted'.2 (by
        intro p hp q hq
        simp only [List.mem_cons] at hp
        rcases hp with rfl | hp
        · exact hsorted'.1 q hq
        · exact hle p hp q (List.mem_cons_of_mem _ hq))
      refine ⟨List.pairwise_cons.mpr ⟨?_, ihp⟩, ?_⟩
      · intro y hy
        have hyit : y.2 ∈ atomItems l' := by
          have := firstIdxKeys_snd env (atomItems l') (idx + 1)
            ((sortKey env (Elem.atom a), (idx : Int) + 1) :: seen)
          rw [← this]; exact List.mem_map_of_mem hy
        obtain ⟨q, hq, hqe⟩ := List.mem_map.mp hyit
        have hky : keyOf env a ≤ sortKey env y.2.1 := by
          rw [← hqe]; exact hsorted'.1 q hq
        rcases ihc y hy with hin | hgt
        · simp only [List.mem_cons, Prod.mk.injEq] at hin
          rcases hin with ⟨h1, h2⟩ | hin
          · exact ⟨by show (idx : Int) + 1 ≤ y.1; omega, fun _ => h1.symm⟩
          · -- an old entry with a sort key ≥ the new one: it would be the new one
            exfalso
            have h1 := hle _ hin (a, e) (by simp)
            simp only at h1
            have : sortKey env y.2.1 = keyOf env a := by omega
            exact hnot y.1 (by rw [hk0, ← this]; exact hin)
        · push_cast at hgt
          exact ⟨by show (idx : Int) + 1 ≤ y.1; omega, fun h => by exfalso; simp only at h; omega⟩
      · intro x hx
        simp only [List.mem_cons] at hx
        rcases hx with rfl | hx
        · right; simp
        · rcases ihc x hx with hin | hgt
          · simp only [List.mem_cons, Prod.mk.injEq] at hin
            rcases hin with ⟨_, h2⟩ | hin
            · right; omega
            · left; exact hin
          · right; push_cast at hgt; omega

theorem firstIdxKeys_toKeyed (env : Env) (l : List (Nat × Int)) (idx : Nat)
    (seen : List (Int × Int)) :
    ∃ L : List KAtom, firstIdxKeys env (atomItems l) idx seen = toKeyed L ∧ L.map Prod.snd = l := by
  induction l generalizing idx seen with
  | nil => exact ⟨[], rfl, rfl⟩
  | cons p l' ih =>
    obtain ⟨a, e⟩ := p
    have hitems : atomItems ((a, e) :: l') = (Elem.atom a, e) :: atomItems l' := rfl
    rw [hitems]
    unfold firstIdxKeys
    simp only
    cases seen.lookup (sortKey env (Elem.atom a)) with
    | some m =>
      obtain ⟨L, hL, hs⟩ := ih (idx + 1) seen
      exact ⟨(m, (a, e)) :: L, by simp only [hL]; rfl, by simp [hs]⟩
    | none =>
      obtain ⟨L, hL, hs⟩ := ih (idx + 1) ((sortKey env (Elem.atom a), (idx : Int) + 1) :: seen)
      exact ⟨((idx : Int) + 1, (a, e)) :: L, by simp only [hL]; rfl, by simp [hs]⟩

/-- A reduced list of atoms is a fixed point of the reduction with
`keep_item_order=True` as well. -/
theorem reduceGeneral_keep_fixed (env : Env) (hk : KeysNonneg env) (l : List (Nat × Int))
    (hl : AtomsNF env l) : reduceGeneral env (atomItems l) true = atomItems l := by
  have hseen : SeenInv [((-1 : Int), (-1 : Int)), (0, 0)] 0 := by
    refine ⟨by decide, ?_, ?_⟩
    · intro p hp
      simp only [List.mem_cons, List.not_mem_nil, or_false] at hp
      rcases hp with rfl | rfl <;> simp
    · intro p hp q hq hlt
      simp only [List.mem_cons, List.not_mem_nil, or_false] at hp hq
      rcases hp with rfl | rfl <;> rcases hq with rfl | rfl <;> simp at hlt ⊢
  have hsorted : l.Pairwise (fun a b => keyOf env a.1 ≤ keyOf env b.1) := hl.1.imp fun h => h.1
  have hle : ∀ p ∈ [((-1 : Int), (-1 : Int)), (0, 0)], ∀ q ∈ l, p.1 ≤ keyOf env q.1 := by
    intro p hp q _
    have := hk q.1
    simp only [List.mem_cons, List.not_mem_nil, or_false] at hp
    rcases hp with rfl | rfl <;> simp only <;> omega
  obtain ⟨hpo, _⟩ := firstIdxKeys_spec env l 0 _ hseen hsorted hle
  obtain ⟨L, hL, hLs⟩ := firstIdxKeys_toKeyed env l 0 [((-1 : Int), (-1 : Int)), (0, 0)]
  have hattach : attachKeys env (atomItems l) true = toKeyed L := by
    simp only [attachKeys, if_true]; exact hL
  rw [hL] at hpo
  -- the keyed list is sorted and satisfies RK
  have hk1 : L.Pairwise (fun x y => KOut env (x.1, (Elem.atom x.2.1, x.2.2)) (y.1, (Elem.atom y.2.1, y.2.2))) := by
    unfold toKeyed at hpo; exact List.pairwise_map.mp hpo
  have hk2 : L.Pairwise (fun x y => RNF env x.2 y.2) := by
    have := hl.1; rw [← hLs] at this; exact List.pairwise_map.mp this
  have hRK : L.Pairwise (RK env) := by
    refine (hk1.and hk2).imp ?_
    intro x y ⟨h1, h2⟩
    refine ⟨h1.1, fun heq => ?_⟩
    have hsk : keyOf env x.2.1 = keyOf env y.2.1 := h1.2 heq
    exact h2.2 hsk
  have hsortedK : (toKeyed L).Pairwise (fun a b => a.1 ≤ b.1) := hpo.imp fun h => h.1
  have h0 : ∀ x ∈ L, x.2.2 ≠ 0 := by
    intro x hx
    apply hl.2 x.2
    rw [← hLs]; exact List.mem_map_of_mem hx
  have hf := foldl_reproduces_keyed env L { num := 1, done := [], curKey := 0, cur := [] }
    (by simp) (by simp) hRK h0
  simp only [List.nil_append] at hf
  unfold reduceGeneral
  simp only [hattach, sortKeyed_of_sorted _ hsortedK]
  rw [hf.1, hf.2, hLs]; simp

/-- **Building a term from the items of a normal form gives that normal form**:
`Term(t.normalized().items)` has the same items.  (`hnc`: distinct elements of
the list are not convertible into each other — base elements.) -/
theorem mkTerm_fixed (env : Env) (hk : KeysNonneg env) (l : List (Nat × Int))
    (hl : AtomsNF env l)
    (hnc : ∀ p ∈ l, ∀ q ∈ l, p.1 ≠ q.1 → getFactor env q.1 p.1 = none) :
    mkTerm env (atomItems l) = atomItems l := by
  unfold mkTerm
  match l, hl, hnc with
  | [], _, _ => rfl
  | [(a, e)], hl, _ =>
    have he : e ≠ 0 := hl.2 (a, e) (by simp)
    simp only [atomItems, List.map_cons, List.map_nil, List.isEmpty_cons, Bool.false_eq_true,
      ↓reduceIte, List.length_cons, List.length_nil, Nat.zero_add, reduceItems, filterItems]
    simp [he]
  | [(a₁, e₁), (a₂, e₂)], hl, hnc =>
    have he₁ : e₁ ≠ 0 := hl.2 (a₁, e₁) (by simp)
    have he₂ : e₂ ≠ 0 := hl.2 (a₂, e₂) (by simp)
    have hne : a₁ ≠ a₂ := by
      have := nodup_fst_of_RNF env _ hl.1
      simp only [List.map_cons, List.map_nil, List.nodup_cons, List.mem_singleton,
        List.not_mem_nil, not_false_eq_true, List.nodup_nil, and_true] at this
      exact this
    have hf : getFactor env a₂ a₁ = none := hnc (a₁, e₁) (by simp) (a₂, e₂) (by simp) hne
    simp only [atomItems, List.map_cons, List.map_nil, List.isEmpty_cons, Bool.false_eq_true,
      ↓reduceIte, List.length_cons, List.length_nil, Nat.zero_add, Nat.reduceAdd, reduceItems,
      if_neg hne, hf, filterItems]
    simp [he₁, he₂]
  | p₁ :: p₂ :: p₃ :: rest, hl, _ =>
    have hlen : (atomItems (p₁ :: p₂ :: p₃ :: rest)).length = rest.length + 3 := by
      simp [atomItems]
    have hne : (atomItems (p₁ :: p₂ :: p₃ :: rest)).isEmpty = false := by simp [atomItems]
    rw [hne]
    simp only [Bool.false_eq_true, ↓reduceIte, hlen]
    have : reduceItems env (atomItems (p₁ :: p₂ :: p₃ :: rest)) (some (rest.length + 3)) true =
        reduceGeneral env (atomItems (p₁ :: p₂ :: p₃ :: rest)) true := by
      unfold reduceItems
      split
      · rename_i h; simp at h
      all_goals first
        | rfl
        | (rename_i h; simp [atomItems] at h)
    rw [this]
    exact reduceGeneral_keep_fixed env hk _ hl

end QM
