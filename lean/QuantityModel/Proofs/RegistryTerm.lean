/-
Facts that let the term theorems (canonical form, idempotence, equality ⇔
same denotation) be applied to the unit environment of a registry.
-/
import QuantityModel.Proofs.Scale
import QuantityModel.Proofs.TermSem
namespace QM

/-- sort keys of units are registration ids of their types: never negative -/
theorem keysNonneg_unitEnv (s : RegState) : KeysNonneg s.unitEnv := by
  intro a
  unfold keyOf
  by_cases h : a < s.units.length
  · rw [unitEnv_info s a h]; exact Int.natCast_nonneg _
  · unfold Env.info RegState.unitEnv
    simp only [List.getD_eq_getElem?_getD, List.getElem?_map,
      List.getElem?_eq_none (not_lt.mp h), Option.map_none, Option.getD_none]
    decide

end QM

namespace QM

/-- decidable, bounded forms of the two environment hypotheses of the term
theorems; beyond `env.atoms.length` every element is a base element without
scale, so the bounded check decides the unbounded statement -/
def baseNoConvUpTo (env : Env) (n : Nat) : Bool :=
  (List.range n).all fun x => (List.range n).all fun y =>
    !((env.info x).isBase && (env.info y).isBase && x != y) || (getFactor env y x).isNone

def defsBaseOnlyUpTo (env : Env) (n : Nat) : Bool :=
  (List.range n).all fun a =>
    (env.info a).isBase || (atomsOf (env.info a).normDef).all fun b => (env.info b).isBase

theorem info_default (env : Env) (a : Nat) (h : env.atoms.length ≤ a) :
    env.info a = { key := 1, group := 0, scale := none, isBase := true, normDef := [] } := by
  unfold Env.info
  rw [List.getD_eq_getElem?_getD, List.getElem?_eq_none h]; rfl

theorem baseNoConv_of_check (env : Env) (h : baseNoConvUpTo env env.atoms.length = true) :
    BaseNoConv env := by
  intro x y hx hy hne
  by_cases hxl : x < env.atoms.length
  · by_cases hyl : y < env.atoms.length
    · unfold baseNoConvUpTo at h
      rw [List.all_eq_true] at h
      have h1 := h x (List.mem_range.mpr hxl)
      rw [List.all_eq_true] at h1
      have h2 := h1 y (List.mem_range.mpr hyl)
      simp only [hx, hy, Bool.true_and, Bool.or_eq_true, Bool.not_eq_true', bne_eq_false_iff_eq,
        Option.isNone_iff_eq_none] at h2
      rcases h2 with h2 | h2
      · exact absurd h2 hne
      · exact h2
    · unfold getFactor
      rw [info_default env y (not_lt.mp hyl)]
      simp only
      split <;> rfl
  · unfold getFactor
    rw [info_default env x (not_lt.mp hxl)]
    simp only
    split
    · split <;> first | rfl | (rename_i h1 h2; simp at h2)
    · rfl

theorem defsBaseOnly_of_check (env : Env) (h : defsBaseOnlyUpTo env env.atoms.length = true) :
    DefsBaseOnly env := by
  intro a hb c hc
  by_cases hal : a < env.atoms.length
  · unfold defsBaseOnlyUpTo at h
    rw [List.all_eq_true] at h
    have h1 := h a (List.mem_range.mpr hal)
    simp only [hb, Bool.false_or, List.all_eq_true] at h1
    exact h1 c hc
  · rw [info_default env a (not_lt.mp hal)] at hb; simp at hb

end QM
