/-
Facts that let the term theorems (canonical form, idempotence, equality ⇔
same denotation) be applied to the unit environment of a registry.
-/
import QuantityModel.Proofs.Scale
import QuantityModel.Proofs.TermSem
namespace QM

/-- sort keys of units are registration ids of their types: never negative -/
theorem keysNonneg_unitEnv (s : RegState) : KeysNonneg s.unitEnv := by
  intro a
  unfold keyOf
  by_cases h : a < s.units.length
  · rw [unitEnv_info s a h]; exact Int.natCast_nonneg _
  · unfold Env.info RegState.unitEnv
    simp only [List.getD_eq_getElem?_getD, List.getElem?_map,
      List.getElem?_eq_none (not_lt.mp h), Option.map_none, Option.getD_none]
    decide

end QM
