/-
The free-abelian-group reading of a term: its rational factor (`numVal`) and,
for every element, the sum of the exponents it carries (`expOf`).

* reduction preserves both, provided distinct elements of the list are not
  convertible into each other (`sem_reduceGeneral`; true of lists of base
  elements: distinct base elements are reference units of different types or
  units of a type without reference unit);
* a reduced list is determined by them when distinct elements have distinct
  sort keys (`atomsNF_unique`).

Together: two terms have the same normal form **exactly when** they denote the
same rational factor and the same exponent for every base element.
-/
import QuantityModel.Proofs.TermNormal
import Mathlib.Data.List.Nodup
namespace QM

def expOf (a : Nat) (items : Items) : Int :=
  (items.map fun it => match it.1 with
    | .atom b => if b = a then it.2 else 0
    | .num _ => 0).sum

def numVal (items : Items) : ℚ :=
  (items.map fun it => match it.1 with
    | .num q => q ^ it.2
    | .atom _ => 1).prod

def expOfA (a : Nat) (l : List (Nat × Int)) : Int :=
  (l.map fun p => if p.1 = a then p.2 else 0).sum

@[simp] theorem expOf_nil (a : Nat) : expOf a [] = 0 := rfl
@[simp] theorem numVal_nil : numVal [] = 1 := rfl
@[simp] theorem expOfA_nil (a : Nat) : expOfA a [] = 0 := rfl

@[simp] theorem expOf_cons_atom (a b : Nat) (e : Int) (r : Items) :
    expOf a ((Elem.atom b, e) :: r) = (if b = a then e else 0) + expOf a r := by
  simp [expOf]
@[simp] theorem expOf_cons_num (a : Nat) (q : Rat) (e : Int) (r : Items) :
    expOf a ((Elem.num q, e) :: r) = expOf a r := by
  simp [expOf]
@[simp] theorem numVal_cons_atom (b : Nat) (e : Int) (r : Items) :
    numVal ((Elem.atom b, e) :: r) = numVal r := by
  simp [numVal]
@[simp] theorem numVal_cons_num (q : Rat) (e : Int) (r : Items) :
    numVal ((Elem.num q, e) :: r) = q ^ e * numVal r := by
  simp [numVal]
@[simp] theorem expOfA_cons (a : Nat) (p : Nat × Int) (r : List (Nat × Int)) :
    expOfA a (p :: r) = (if p.1 = a then p.2 else 0) + expOfA a r := by
  simp [expOfA]

theorem expOf_append (a : Nat) (l₁ l₂ : Items) : expOf a (l₁ ++ l₂) = expOf a l₁ + expOf a l₂ := by
  simp [expOf]
theorem numVal_append (l₁ l₂ : Items) : numVal (l₁ ++ l₂) = numVal l₁ * numVal l₂ := by
  simp [numVal]
theorem expOfA_append (a : Nat) (l₁ l₂ : List (Nat × Int)) :
    expOfA a (l₁ ++ l₂) = expOfA a l₁ + expOfA a l₂ := by
  simp [expOfA]

theorem expOf_perm (a : Nat) {l₁ l₂ : Items} (h : l₁.Perm l₂) : expOf a l₁ = expOf a l₂ := by
  unfold expOf; exact (h.map _).sum_eq
theorem numVal_perm {l₁ l₂ : Items} (h : l₁.Perm l₂) : numVal l₁ = numVal l₂ := by
  unfold numVal; exact (h.map _).prod_eq

theorem expOf_atomItems (a : Nat) (l : List (Nat × Int)) : expOf a (atomItems l) = expOfA a l := by
  induction l with
  | nil => rfl
  | cons p r ih =>
    have : atomItems (p :: r) = (Elem.atom p.1, p.2) :: atomItems r := rfl
    rw [this, expOf_cons_atom, expOfA_cons, ih]

theorem numVal_atomItems (l : List (Nat × Int)) : numVal (atomItems l) = 1 := by
  induction l with
  | nil => rfl
  | cons p r ih =>
    have : atomItems (p :: r) = (Elem.atom p.1, p.2) :: atomItems r := rfl
    rw [this, numVal_cons_atom, ih]

theorem expOfA_filter (a : Nat) (l : List (Nat × Int)) :
    expOfA a (l.filter fun p => p.2 != 0) = expOfA a l := by
  induction l with
  | nil => rfl
  | cons p r ih =>
    simp only [List.filter_cons]
    by_cases h : p.2 = 0
    · simp only [h, bne_self_eq_false, Bool.false_eq_true, ↓reduceIte, expOfA_cons, ih]
      simp
    · have : (p.2 != 0) = true := by simp [h]
      simp only [this, ↓reduceIte, expOfA_cons, ih]

/-! ### the sequential pass preserves factor and exponents -/

/-- merging into a group whose elements are not convertible into the new one:
the factor is 1 and the new exponent is added to the element's total -/
theorem mergeInto_sem (env : Env) (b : Nat) (e : Int) (acc : List (Nat × Int))
    (hnc : ∀ p ∈ acc, p.1 ≠ b → getFactor env b p.1 = none) :
    (mergeInto env b e acc).2 = 1 ∧
    ∀ a, expOfA a (mergeInto env b e acc).1 = expOfA a acc + (if b = a then e else 0) := by
  induction acc with
  | nil => simp [mergeInto]
  | cons p rest ih =>
    obtain ⟨a₁, e₁⟩ := p
    have ih' := ih (fun p hp => hnc p (by simp [hp]))
    unfold mergeInto
    by_cases h : a₁ = b
    · subst h
      simp only [if_true, true_and]
      intro a
      simp only [expOfA_cons]
      split <;> omega
    · have hf := hnc (a₁, e₁) (by simp) h
      simp only [if_neg h, hf]
      refine ⟨ih'.1, ?_⟩
      intro a
      simp only [expOfA_cons]
      rw [ih'.2 a]; omega

/-- exponent total of an element over the state -/
def RState.exp (s : RState) (a : Nat) : Int := expOfA a s.done + expOfA a s.cur

theorem closeGroup_exp (s : RState) (a : Nat) : expOfA a (closeGroup s) = s.exp a := by
  unfold closeGroup RState.exp
  rw [expOfA_append, expOfA_filter]

theorem reduceStep_sem (env : Env) (s : RState) (x : Int × Item)
    (hnc : ∀ b e, x.2 = (Elem.atom b, e) → ∀ p ∈ s.cur, p.1 ≠ b → getFactor env b p.1 = none) :
    (reduceStep env s x).num = s.num * numVal [x.2] ∧
    ∀ a, (reduceStep env s x).exp a = s.exp a + expOf a [x.2] := by
  obtain ⟨k, el, e⟩ := x
  cases el with
  | num q =>
    simp only [reduceStep, numVal_cons_num, numVal_nil, mul_one, expOf_cons_num, expOf_nil,
      add_zero, rpow_eq_zpow, true_and]
    intro a; rfl
  | atom b =>
    simp only [numVal_cons_atom, numVal_nil, mul_one, expOf_cons_atom, expOf_nil, add_zero]
    unfold reduceStep
    simp only
    split
    · have hm := mergeInto_sem env b e s.cur (hnc b e rfl)
      refine ⟨by simp [hm.1], ?_⟩
      intro a
      simp only [RState.exp]
      rw [hm.2 a]; omega
    · refine ⟨rfl, ?_⟩
      intro a
      simp only [RState.exp, expOfA_cons, expOfA_nil, add_zero]
      rw [closeGroup_exp]; simp only [RState.exp]

/-- elements of the open group after a step come from the group or the item -/
theorem reduceStep_cur (env : Env) (s : RState) (x : Int × Item) (p : Nat × Int)
    (hp : p ∈ (reduceStep env s x).cur) :
    p ∈ s.cur ∨ (∃ q ∈ s.cur, q.1 = p.1) ∨ ∃ e, x.2 = (Elem.atom p.1, e) := by
  obtain ⟨k, el, e⟩ := x
  cases el with
  | num q => left; exact hp
  | atom b =>
    unfold reduceStep at hp
    simp only at hp
    split at hp
    · rcases mergeInto_atoms env b e s.cur p hp with h | h
      · right; right; exact ⟨e, by rw [h]⟩
      · obtain ⟨q, hq, hqe⟩ := List.mem_map.mp h
        right; left; exact ⟨q, hq, hqe⟩
    · simp only [List.mem_singleton] at hp
      right; right; exact ⟨e, by rw [hp]⟩

theorem foldl_sem (env : Env) (P : Nat → Prop)
    (hP : ∀ x y, P x → P y → x ≠ y → getFactor env y x = none)
    (L : List (Int × Item)) (s : RState)
    (hL : ∀ x ∈ L, ∀ b e, x.2 = (Elem.atom b, e) → P b)
    (hs : ∀ p ∈ s.cur, P p.1) :
    (L.foldl (reduceStep env) s).num = s.num * numVal (L.map Prod.snd) ∧
    ∀ a, (L.foldl (reduceStep env) s).exp a = s.exp a + expOf a (L.map Prod.snd) := by
  induction L generalizing s with
  | nil => simp
  | cons x r ih =>
    simp only [List.foldl_cons, List.map_cons]
    have hstep := reduceStep_sem env s x (by
      intro b e hx p hp hne
      exact hP p.1 b (hs p hp) (hL x (by simp) b e hx) hne)
    have hcur : ∀ p ∈ (reduceStep env s x).cur, P p.1 := by
      intro p hp
      rcases reduceStep_cur env s x p hp with h | ⟨q, hq, hqe⟩ | ⟨e, hx⟩
      · exact hs p h
      · rw [← hqe]; exact hs q hq
      · exact hL x (by simp) p.1 e hx
    have := ih (reduceStep env s x) (fun y hy => hL y (by simp [hy])) hcur
    refine ⟨?_, ?_⟩
    · rw [this.1, hstep.1]
      have : numVal (x.2 :: r.map Prod.snd) = numVal [x.2] * numVal (r.map Prod.snd) := by
        rw [← numVal_append]; rfl
      rw [this]; ring
    · intro a
      rw [this.2 a, hstep.2 a]
      have : expOf a (x.2 :: r.map Prod.snd) = expOf a [x.2] + expOf a (r.map Prod.snd) := by
        rw [← expOf_append]; rfl
      rw [this]; ring

/-- **Reduction preserves the rational factor and every exponent**, for item
lists whose distinct elements are not convertible into each other. -/
theorem sem_reduceGeneral (env : Env) (P : Nat → Prop)
    (hP : ∀ x y, P x → P y → x ≠ y → getFactor env y x = none)
    (items : Items) (hit : ∀ a ∈ atomsOf items, P a) (keep : Bool) :
    numVal (reduceGeneral env items keep) = numVal items ∧
    ∀ a, expOf a (reduceGeneral env items keep) = expOf a items := by
  have hperm : ((sortKeyed (attachKeys env items keep)).map Prod.snd).Perm items := by
    have := (sortKeyed_perm (attachKeys env items keep)).map Prod.snd
    rw [attachKeys_snd] at this; exact this
  have hL : ∀ x ∈ sortKeyed (attachKeys env items keep), ∀ b e, x.2 = (Elem.atom b, e) → P b := by
    intro x hx b e hxe
    apply hit b
    rw [mem_atomsOf]
    refine ⟨e, ?_⟩
    have : x.2 ∈ (sortKeyed (attachKeys env items keep)).map Prod.snd := List.mem_map_of_mem hx
    rw [← hxe]; exact hperm.mem_iff.mp this
  have hf := foldl_sem env P hP (sortKeyed (attachKeys env items keep))
    { num := 1, done := [], curKey := 0, cur := [] } hL (by simp)
  simp only [one_mul, RState.exp, expOfA_nil, zero_add] at hf
  rw [numVal_perm hperm] at hf
  unfold reduceGeneral
  simp only
  split
  · refine ⟨?_, ?_⟩
    · rw [numVal_cons_num, numVal_atomItems, hf.1]; simp
    · intro a
      rw [expOf_cons_num, expOf_atomItems, closeGroup_exp, RState.exp]
      have := hf.2 a
      rw [expOf_perm a hperm] at this
      exact this
  · rename_i hne
    refine ⟨?_, ?_⟩
    · rw [numVal_atomItems, ← hf.1]
      symm; simpa using hne
    · intro a
      rw [expOf_atomItems, closeGroup_exp, RState.exp]
      have := hf.2 a
      rw [expOf_perm a hperm] at this
      exact this

/-! ### a reduced list is determined by its exponents -/

theorem expOfA_of_not_mem (a : Nat) (l : List (Nat × Int)) (h : a ∉ l.map Prod.fst) :
    expOfA a l = 0 := by
  induction l with
  | nil => rfl
  | cons p r ih =>
    simp only [List.map_cons, List.mem_cons, not_or] at h
    rw [expOfA_cons, ih h.2, if_neg (fun hp => h.1 hp.symm)]; rfl

theorem expOfA_of_mem (a : Nat) (e : Int) (l : List (Nat × Int))
    (hnd : (l.map Prod.fst).Nodup) (h : (a, e) ∈ l) : expOfA a l = e := by
  induction l with
  | nil => simp at h
  | cons p r ih =>
    simp only [List.map_cons, List.nodup_cons] at hnd
    simp only [List.mem_cons] at h
    rw [expOfA_cons]
    rcases h with rfl | h
    · simp only [if_true]
      rw [expOfA_of_not_mem _ _ hnd.1]; simp
    · have hne : p.1 ≠ a := by
        intro hpa
        apply hnd.1
        rw [hpa]
        exact List.mem_map.mpr ⟨(a, e), h, rfl⟩
      rw [if_neg hne, ih hnd.2 h]; simp

theorem nodup_fst_of_RNF (env : Env) (l : List (Nat × Int)) (h : l.Pairwise (RNF env)) :
    (l.map Prod.fst).Nodup := by
  refine ((pairwise_RNF_iff env l).mp h).imp ?_
  intro a b hab heq
  subst heq
  exact (hab.2 rfl).1 rfl

theorem mem_of_expOfA_ne_zero (a : Nat) (l : List (Nat × Int)) (h : expOfA a l ≠ 0) :
    a ∈ l.map Prod.fst := by
  by_contra hn
  exact h (expOfA_of_not_mem a l hn)

/-- Two reduced lists with the same exponent for every element are equal,
provided elements with equal sort keys are equal. -/
theorem atomsNF_unique (env : Env) (l₁ l₂ : List (Nat × Int))
    (h₁ : AtomsNF env l₁) (h₂ : AtomsNF env l₂)
    (hinj : ∀ p ∈ l₁, ∀ q ∈ l₂, keyOf env p.1 = keyOf env q.1 → p.1 = q.1)
    (hexp : ∀ a, expOfA a l₁ = expOfA a l₂) : l₁ = l₂ := by
  have nd₁ := nodup_fst_of_RNF env l₁ h₁.1
  have nd₂ := nodup_fst_of_RNF env l₂ h₂.1
  have sub : ∀ (la lb : List (Nat × Int)), (la.map Prod.fst).Nodup → (lb.map Prod.fst).Nodup →
      (∀ p ∈ la, p.2 ≠ 0) → (∀ a, expOfA a la = expOfA a lb) → ∀ p ∈ la, p ∈ lb := by
    intro la lb nda ndb h0 hex p hp
    obtain ⟨a, e⟩ := p
    have he : expOfA a la = e := expOfA_of_mem a e la nda hp
    have hne : expOfA a lb ≠ 0 := by rw [← hex a, he]; exact h0 (a, e) hp
    have hmem := mem_of_expOfA_ne_zero a lb hne
    obtain ⟨q, hq, hqa⟩ := List.mem_map.mp hmem
    obtain ⟨a', e'⟩ := q
    simp only at hqa; subst hqa
    have : expOfA a' lb = e' := expOfA_of_mem a' e' lb ndb hq
    have : e' = e := by rw [← this, ← hex a', he]
    subst this; exact hq
  have hperm : l₁.Perm l₂ := by
    apply (List.perm_ext_iff_of_nodup (List.Nodup.of_map _ nd₁) (List.Nodup.of_map _ nd₂)).mpr
    intro p
    exact ⟨sub l₁ l₂ nd₁ nd₂ h₁.2 hexp p, sub l₂ l₁ nd₂ nd₁ h₂.2 (fun a => (hexp a).symm) p⟩
  refine List.Perm.eq_of_pairwise (le := RNF env) ?_ h₁.1 h₂.1 hperm
  intro p q hp hq hpq hqp
  have hk : keyOf env p.1 = keyOf env q.1 := le_antisymm hpq.1 hqp.1
  exact absurd (hinj p hp q hq hk) (hpq.2 hk).1

/-! ### equality of normal forms = equality of factor and exponents -/

/-- distinct base elements are not convertible into each other (reference
units of different types; units of a type without reference unit) -/
def BaseNoConv (env : Env) : Prop :=
  ∀ x y, (env.info x).isBase = true → (env.info y).isBase = true → x ≠ y →
    getFactor env y x = none

/-- no two distinct base elements occurring in the (expanded) terms share a
sort key (fails exactly when two units of a type without reference unit
occur: known finding D5) -/
def KeysSeparate (env : Env) (t₁ t₂ : Items) : Prop :=
  ∀ x ∈ atomsOf (iterNormalized env normFuel t₁) ++ atomsOf (iterNormalized env normFuel t₂),
  ∀ y ∈ atomsOf (iterNormalized env normFuel t₁) ++ atomsOf (iterNormalized env normFuel t₂),
    keyOf env x = keyOf env y → x = y

theorem numVal_numPrefix_append (q : Rat) (l : List (Nat × Int)) :
    numVal (numPrefix q ++ atomItems l) = q := by
  unfold numPrefix
  split
  · simp [numVal_atomItems]
  · rename_i h
    simp only [List.nil_append, numVal_atomItems]
    symm; simpa using h

theorem expOf_numPrefix_append (a : Nat) (q : Rat) (l : List (Nat × Int)) :
    expOf a (numPrefix q ++ atomItems l) = expOfA a l := by
  unfold numPrefix
  split <;> simp [expOf_atomItems]

/-- the expanded form of a term: numbers and base elements only -/
def expanded (env : Env) (t : Items) : Items := iterNormalized env normFuel t

/-- **Two terms have the same normal form exactly when they denote the same
rational factor and the same exponent for every base element.** -/
theorem normalizedItems_eq_iff (env : Env) (hk : KeysNonneg env) (hd : DefsBaseOnly env)
    (hnc : BaseNoConv env) (t₁ t₂ : Items) (hinj : KeysSeparate env t₁ t₂) :
    normalizedItems env t₁ = normalizedItems env t₂ ↔
      (numVal (expanded env t₁) = numVal (expanded env t₂) ∧
       ∀ a, expOf a (expanded env t₁) = expOf a (expanded env t₂)) := by
  have hsem : ∀ t, numVal (normalizedItems env t) = numVal (expanded env t) ∧
      ∀ a, expOf a (normalizedItems env t) = expOf a (expanded env t) := by
    intro t
    exact sem_reduceGeneral env (fun a => (env.info a).isBase = true) hnc
      (iterNormalized env normFuel t) (iterNormalized_baseOnly env 7 t hd) false
  constructor
  · intro h
    refine ⟨?_, fun a => ?_⟩
    · rw [← (hsem t₁).1, ← (hsem t₂).1, h]
    · rw [← (hsem t₁).2 a, ← (hsem t₂).2 a, h]
  · rintro ⟨hn, he⟩
    obtain ⟨q₁, l₁, e₁, _, _, hz₁, hb₁⟩ := normalizedItems_shape env hk hd t₁
    obtain ⟨q₂, l₂, e₂, _, _, hz₂, hb₂⟩ := normalizedItems_shape env hk hd t₂
    obtain ⟨q₁', l₁', e₁', nf₁⟩ := reduceGeneral_shape env hk (iterNormalized env normFuel t₁)
    obtain ⟨q₂', l₂', e₂', nf₂⟩ := reduceGeneral_shape env hk (iterNormalized env normFuel t₂)
    -- use the shapes that come with `AtomsNF`
    have hb₁' : ∀ p ∈ l₁', (env.info p.1).isBase = true := by
      intro p hp
      have hb := normalizedItems_baseOnly env t₁ hd
      unfold normalizedItems at hb
      rw [e₁'] at hb
      apply hb p.1
      rw [atomsOf_append, List.mem_append]; right
      rw [mem_atomsOf]; exact ⟨p.2, by unfold atomItems; exact List.mem_map_of_mem hp⟩
    have hb₂' : ∀ p ∈ l₂', (env.info p.1).isBase = true := by
      intro p hp
      have hb := normalizedItems_baseOnly env t₂ hd
      unfold normalizedItems at hb
      rw [e₂'] at hb
      apply hb p.1
      rw [atomsOf_append, List.mem_append]; right
      rw [mem_atomsOf]; exact ⟨p.2, by unfold atomItems; exact List.mem_map_of_mem hp⟩
    have hq : q₁' = q₂' := by
      have h1 := (hsem t₁).1
      have h2 := (hsem t₂).1
      unfold normalizedItems at h1 h2
      rw [e₁', numVal_numPrefix_append] at h1
      rw [e₂', numVal_numPrefix_append] at h2
      rw [h1, h2, hn]
    have hl : l₁' = l₂' := by
      apply atomsNF_unique env l₁' l₂' nf₁ nf₂
      · intro p hp q hq' hkq
        have ha : ∀ (t : Items) (q' : Rat) (l : List (Nat × Int)) (r : Nat × Int),
            reduceGeneral env (iterNormalized env normFuel t) false = numPrefix q' ++ atomItems l →
            r ∈ l → r.1 ∈ atomsOf (iterNormalized env normFuel t) := by
          intro t q' l r hr hrl
          apply reduceGeneral_atoms env _ false
          rw [hr, atomsOf_append, List.mem_append]; right
          rw [mem_atomsOf]; exact ⟨r.2, by unfold atomItems; exact List.mem_map_of_mem hrl⟩
        exact hinj p.1 (List.mem_append_left _ (ha t₁ q₁' l₁' p e₁' hp))
          q.1 (List.mem_append_right _ (ha t₂ q₂' l₂' q e₂' hq')) hkq
      · intro a
        have h1 := (hsem t₁).2 a
        have h2 := (hsem t₂).2 a
        unfold normalizedItems at h1 h2
        rw [e₁', expOf_numPrefix_append] at h1
        rw [e₂', expOf_numPrefix_append] at h2
        rw [h1, h2, he a]
    unfold normalizedItems
    rw [e₁', e₂', hq, hl]

/-- what every constructed term satisfies: no zero exponent, no numeric 1 -/
def Clean (t : Items) : Prop := ∀ it ∈ t, it.2 ≠ 0 ∧ it.1 ≠ Elem.num 1

/-- the construction shortcut (`_normalized = self` for a single number with
exponent 1 or a single base element) agrees with full normalisation -/
theorem termNormalized_eq_normalizedItems (env : Env) (hk : KeysNonneg env) (t : Items)
    (hc : Clean t) : termNormalized env t = normalizedItems env t := by
  unfold termNormalized
  by_cases hm : markedNormal env t = true
  · rw [if_pos hm]
    unfold markedNormal at hm
    split at hm
    · rename_i q e
      have he : e = 1 := by simpa using hm
      subst he
      have hq : q ≠ 1 := by
        intro h; exact (hc (Elem.num q, 1) (by simp)).2 (by rw [h])
      have hb : BaseOnly env [(Elem.num q, (1 : Int))] := by
        intro a ha; simp [atomsOf] at ha
      unfold normalizedItems
      rw [iterNormalized_of_baseOnly env normFuel _ hb]
      have := reduceGeneral_fixed env hk q [] ⟨List.Pairwise.nil, by simp⟩
      have hp : numPrefix q = [(Elem.num q, 1)] := by
        unfold numPrefix; rw [if_pos (by simpa using hq)]
      rw [hp] at this
      simpa [atomItems] using this.symm
    · rename_i a e
      have he : e ≠ 0 := (hc (Elem.atom a, e) (by simp)).1
      have hb : BaseOnly env [(Elem.atom a, e)] := by
        intro b hb'
        simp only [atomsOf, List.filterMap_cons, List.filterMap_nil, List.mem_singleton] at hb'
        subst hb'; exact hm
      unfold normalizedItems
      rw [iterNormalized_of_baseOnly env normFuel _ hb]
      have := reduceGeneral_fixed env hk 1 [(a, e)]
        ⟨List.pairwise_singleton _ _, by simpa using he⟩
      have hp : numPrefix 1 = [] := by unfold numPrefix; simp
      rw [hp] at this
      simpa [atomItems] using this.symm
    · simp at hm
  · rw [if_neg hm]

/-- **Equality of terms is equality of what they denote** (for constructed
terms): same rational factor and same exponent for every base element. -/
theorem termEq_iff (env : Env) (hk : KeysNonneg env) (hd : DefsBaseOnly env)
    (hnc : BaseNoConv env) (t₁ t₂ : Items) (hinj : KeysSeparate env t₁ t₂)
    (h₁ : Clean t₁) (h₂ : Clean t₂) :
    termEq env t₁ t₂ = true ↔
      (numVal (expanded env t₁) = numVal (expanded env t₂) ∧
       ∀ a, expOf a (expanded env t₁) = expOf a (expanded env t₂)) := by
  unfold termEq
  rw [termNormalized_eq_normalizedItems env hk t₁ h₁,
    termNormalized_eq_normalizedItems env hk t₂ h₂]
  rw [← normalizedItems_eq_iff env hk hd hnc t₁ t₂ hinj]
  simp

end QM

namespace QM

/-! ### the shortcut paths of `reduceItems` preserve factor and exponents too -/

theorem sem_filterItems (items : Items) :
    numVal (filterItems items) = numVal items ∧ ∀ a, expOf a (filterItems items) = expOf a items := by
  induction items with
  | nil => exact ⟨rfl, fun _ => rfl⟩
  | cons it rest ih =>
    obtain ⟨el, e⟩ := it
    unfold filterItems at *
    simp only [List.filter_cons]
    by_cases he : e = 0
    · subst he
      simp only [bne_self_eq_false, Bool.false_and, Bool.false_eq_true, ↓reduceIte]
      cases el with
      | num q => exact ⟨by rw [ih.1]; simp, fun a => by rw [ih.2 a]; simp⟩
      | atom b => exact ⟨by rw [ih.1]; simp, fun a => by rw [ih.2 a]; simp⟩
    · have hne : (e != 0) = true := by simp [he]
      by_cases h1 : el = Elem.num 1
      · subst h1
        simp only [hne, bne_self_eq_false, Bool.and_false, Bool.false_eq_true, ↓reduceIte]
        exact ⟨by rw [ih.1]; simp, fun a => by rw [ih.2 a]; simp⟩
      · have hne1 : (el != Elem.num 1) = true := by simp [h1]
        simp only [hne, hne1, Bool.and_self, ↓reduceIte]
        cases el with
        | num q => exact ⟨by simp [ih.1], fun a => by simp [ih.2 a]⟩
        | atom b => exact ⟨by simp [ih.1], fun a => by simp [ih.2 a]⟩

/-- every path of `_reduce_items` preserves the rational factor and the
exponent of every element, for lists of pairwise non-convertible elements -/
theorem sem_reduceItems (env : Env) (P : Nat → Prop)
    (hP : ∀ x y, P x → P y → x ≠ y → getFactor env y x = none)
    (items : Items) (hit : ∀ a ∈ atomsOf items, P a) (n : Option Nat) (keep : Bool) :
    numVal (reduceItems env items n keep) = numVal items ∧
    ∀ a, expOf a (reduceItems env items n keep) = expOf a items := by
  have hgen := sem_reduceGeneral env P hP items hit keep
  have hfil := sem_filterItems items
  unfold reduceItems
  split
  · exact hfil
  · exact sem_filterItems _
  · -- two elements
    rename_i a₁ e₁ a₂ e₂
    have hp₁ : P a₁ := hit a₁ (by simp [atomsOf])
    have hp₂ : P a₂ := hit a₂ (by simp [atomsOf])
    by_cases h : a₁ = a₂
    · subst h
      simp only [if_true]
      split
      · rename_i h0
        refine ⟨by simp, fun a => ?_⟩
        simp only [expOf_nil, expOf_cons_atom, add_zero]
        split <;> omega
      · refine ⟨by simp, fun a => ?_⟩
        simp only [expOf_nil, expOf_cons_atom, add_zero]
        split <;> omega
    · simp only [if_neg h]
      rw [hP a₁ a₂ hp₁ hp₂ h]
      simp only
      split
      · exact sem_filterItems _
      · split
        · have := sem_filterItems [(Elem.atom a₂, e₂), (Elem.atom a₁, e₁)]
          refine ⟨by rw [this.1]; simp, fun a => ?_⟩
          rw [this.2 a]; simp only [expOf_cons_atom, expOf_nil]; omega
        · exact sem_filterItems _
  · rename_i a₁ e₁ q₂ e₂
    have := sem_filterItems [(Elem.num q₂, e₂), (Elem.atom a₁, e₁)]
    refine ⟨by rw [this.1]; simp, fun a => ?_⟩
    rw [this.2 a]; simp
  · rename_i q₁ e₁ q₂ e₂
    simp only
    split
    · refine ⟨by simp [rpow_eq_zpow], fun a => by simp⟩
    · rename_i hne
      refine ⟨?_, fun a => by simp⟩
      have : rpow q₁ e₁ * rpow q₂ e₂ = 1 := by simpa using hne
      simp only [numVal_nil, numVal_cons_num, mul_one]
      rw [← rpow_eq_zpow, ← rpow_eq_zpow]; exact this.symm
  · exact hgen

end QM

namespace QM

instance (t : Items) : Decidable (Clean t) := by unfold Clean; infer_instance
instance (env : Env) (t₁ t₂ : Items) : Decidable (KeysSeparate env t₁ t₂) := by
  unfold KeysSeparate; infer_instance

end QM
