/-
The closed scale theorem: in every state reachable by well-formed
declarations, the scale stored for a unit (`_equiv`) is what its definition
denotes when every unit is given its own stored scale — the product of the
numeric factors along its chain of definitions down to the reference unit.
Also: the valuation "unit ↦ its stored scale" is admissible, so the
hypotheses of C02 / C10 / C17 are satisfiable in every such state.
-/
import QuantityModel.Proofs.TermShape
import QuantityModel.Proofs.Invariants
namespace QM

/-- valuation that gives every unit its stored scale (1 when it has none) -/
def RegState.nu (s : RegState) (u : Nat) : ℚ := ((s.unit u).equiv).getD 1

structure ScaleInv (s : RegState) : Prop where
  /-- no stored scale is zero -/
  nz : ∀ u, (s.unit u).equiv ≠ some 0
  /-- a base unit defines itself; it has no scale or (reference unit) scale 1 -/
  base : ∀ u, u < s.units.length → (s.unit u).defn = none →
    (s.unit u).normDef = [(.atom u, 1)] ∧ ((s.unit u).equiv = none ∨ (s.unit u).equiv = some 1)
  /-- a derived unit's normalised definition consists of an optional leading
  number and existing base units, and its scale is that number -/
  derived : ∀ u, u < s.units.length → (s.unit u).defn ≠ none →
    (∀ a ∈ atomsOf (s.unit u).normDef, a < s.units.length ∧ (s.unit a).defn = none) ∧
    TailAtoms (s.unit u).normDef ∧
    (s.unit u).equiv = some (numPart (s.unit u).normDef)
  /-- reference units exist and have scale 1 -/
  refs : ∀ c r, (s.cls c).refUnit = some r → r < s.units.length ∧ (s.unit r).equiv = some 1

theorem unit_default (s : RegState) (u : Nat) (h : s.units.length ≤ u) : s.unit u = default := by
  unfold RegState.unit
  rw [List.getD_eq_getElem?_getD, List.getElem?_eq_none h]; rfl

theorem unitEnv_info (s : RegState) (u : Nat) (h : u < s.units.length) :
    s.unitEnv.info u =
      { key := ((s.unit u).cls : Int), group := (s.unit u).cls,
        scale := (if (s.cls (s.unit u).cls).refUnit.isSome then (s.unit u).equiv else none),
        isBase := (s.unit u).defn.isNone, normDef := (s.unit u).normDef } := by
  unfold Env.info RegState.unitEnv RegState.unit
  simp only [List.getD_eq_getElem?_getD, List.getElem?_map, List.getElem?_eq_getElem h,
    Option.map_some, Option.getD_some]

theorem unitEnv_info_default (s : RegState) (u : Nat) (h : s.units.length ≤ u) :
    (s.unitEnv.info u).isBase = true ∧ (s.unitEnv.info u).scale = none := by
  unfold Env.info RegState.unitEnv
  simp only [List.getD_eq_getElem?_getD, List.getElem?_map, List.getElem?_eq_none h,
    Option.map_none, Option.getD_none, and_self]

theorem nu_base (s : RegState) (hS : ScaleInv s) (u : Nat) (hb : (s.unit u).defn = none) :
    s.nu u = 1 := by
  unfold RegState.nu
  by_cases hu : u < s.units.length
  · rcases (hS.base u hu hb).2 with h | h <;> simp [h]
  · rw [unit_default s u (not_lt.mp hu)]; rfl

theorem nu_derived (s : RegState) (hS : ScaleInv s) (u : Nat) (hu : u < s.units.length)
    (hd : (s.unit u).defn ≠ none) : s.nu u = den s.nu (s.unit u).normDef := by
  obtain ⟨hat, htail, heq⟩ := hS.derived u hu hd
  rw [den_eq_numPart s.nu _ htail (fun a ha => nu_base s hS a (hat a ha).2)]
  unfold RegState.nu; rw [heq]; rfl

/-- the valuation by stored scales is admissible in every state satisfying the
scale invariant -/
theorem admissible_nu (s : RegState) (hS : ScaleInv s) : Admissible s s.nu := by
  refine ⟨?_, ?_, ?_, ?_⟩
  · intro u
    unfold RegState.nu
    have := hS.nz u
    cases h : (s.unit u).equiv with
    | none => simp
    | some x => simp only [Option.getD_some]; intro hx; apply this; rw [h, hx]
  · intro a b f hf
    unfold getFactor at hf
    simp only at hf
    split at hf
    · split at hf
      · rename_i sa sb ha hb
        simp only [Option.some.injEq] at hf
        subst hf
        by_cases hla : a < s.units.length
        · by_cases hlb : b < s.units.length
          · rw [unitEnv_info s a hla] at ha
            rw [unitEnv_info s b hlb] at hb
            simp only at ha hb
            have ea : (s.unit a).equiv = some sa := by
              split at ha
              · exact ha
              · simp at ha
            have eb : (s.unit b).equiv = some sb := by
              split at hb
              · exact hb
              · simp at hb
            have hsb : sb ≠ 0 := by intro h0; apply hS.nz b; rw [eb, h0]
            unfold RegState.nu; rw [ea, eb]; simp only [Option.getD_some]; field_simp
          · rw [(unitEnv_info_default s b (not_lt.mp hlb)).2] at hb; simp at hb
        · rw [(unitEnv_info_default s a (not_lt.mp hla)).2] at ha; simp at ha
      · simp at hf
    · simp at hf
  · intro a hb
    by_cases hla : a < s.units.length
    · rw [unitEnv_info s a hla] at hb ⊢
      simp only at hb ⊢
      have hd : (s.unit a).defn ≠ none := by
        intro h; rw [h] at hb; simp at hb
      exact nu_derived s hS a hla hd
    · rw [(unitEnv_info_default s a (not_lt.mp hla)).1] at hb; simp at hb
  · intro u
    by_cases hu : u < s.units.length
    · by_cases hd : (s.unit u).defn = none
      · rw [(hS.base u hu hd).1]; simp [evalElem]
      · exact nu_derived s hS u hu hd
    · have hdn : (default : UnitInfo).normDef = [] := rfl
      have hde : (default : UnitInfo).equiv = none := rfl
      unfold RegState.nu
      rw [unit_default s u (not_lt.mp hu), hdn, hde]; rfl

end QM

namespace QM

theorem defsBaseOnly_of_scaleInv (s : RegState) (hS : ScaleInv s) : DefsBaseOnly s.unitEnv := by
  intro a hb c hc
  by_cases hla : a < s.units.length
  · rw [unitEnv_info s a hla] at hb hc
    simp only at hb hc
    have hd : (s.unit a).defn ≠ none := by intro h; rw [h] at hb; simp at hb
    obtain ⟨h1, h2⟩ := (hS.derived a hla hd).1 c hc
    rw [unitEnv_info s c h1]; simp [h2]
  · rw [(unitEnv_info_default s a (not_lt.mp hla)).1] at hb; simp at hb

/-- what `_make_unit` computes for a unit with a definition, in a state that
satisfies the scale invariant, when the definition mentions existing units
only and does not denote zero:
* its normalised definition consists of a leading number and existing base
  units only;
* its stored scale is EXACTLY what the definition denotes when every unit is
  given its own stored scale — `factor · ∏ scale(uᵢ)^eᵢ`. -/
theorem makeUnit_scale (s s' : RegState) (c : Nat) (sym : String) (d : Items) (uid : Nat)
    (h : s.makeUnit c sym (some d) false = .ok (s', uid)) (hS : ScaleInv s)
    (hvalid : ∀ a ∈ atomsOf d, a < s.units.length) (hnz : den s.nu d ≠ 0) :
    (s'.unit uid).equiv = some (den s.nu d) ∧
    (s'.unit uid).normDef = termNormalized s.unitEnv d ∧
    (∀ a ∈ atomsOf (s'.unit uid).normDef, a < s.units.length ∧ (s.unit a).defn = none) ∧
    TailAtoms (s'.unit uid).normDef ∧
    numPart (s'.unit uid).normDef = den s.nu d := by
  have hA := admissible_nu s hS
  have hdb := defsBaseOnly_of_scaleInv s hS
  set nd := termNormalized s.unitEnv d with hnd
  -- atoms of the normalised definition: existing base units
  have hatoms : ∀ a ∈ atomsOf nd, a < s.units.length ∧ (s.unit a).defn = none := by
    intro a ha
    have hbase := termNormalized_baseOnly s.unitEnv d hdb a ha
    have hlt : a < s.units.length := by
      rcases termNormalized_atoms s.unitEnv d hdb a ha with h1 | ⟨b, hb, hbb, hab⟩
      · exact hvalid a h1
      · have hbl := hvalid b hb
        rw [unitEnv_info s b hbl] at hbb hab
        simp only at hbb hab
        have hd : (s.unit b).defn ≠ none := by intro h0; rw [h0] at hbb; simp at hbb
        exact ((hS.derived b hbl hd).1 a hab).1
    rw [unitEnv_info s a hlt] at hbase
    simp only [Option.isNone_iff_eq_none] at hbase
    exact ⟨hlt, hbase⟩
  have htail := termNormalized_tailAtoms s.unitEnv d
  have hden : den s.nu nd = den s.nu d := den_termNormalized s.unitEnv s.nu hA.nz hA.resp hA.defs d
  have hnum : numPart nd = den s.nu d := by
    rw [← hden, den_eq_numPart s.nu nd htail (fun a ha => nu_base s hS a (hatoms a ha).2)]
  obtain ⟨_, _, _, _, _, _, _, _, _, _, _, _, hnorm, hequiv⟩ :=
    makeUnit_effect s c sym (some d) false s' uid h
  simp only at hnorm
  simp only [Bool.false_eq_true, ↓reduceIte] at hequiv
  rw [hnorm, hequiv]
  refine ⟨?_, rfl, hatoms, htail, hnum⟩
  -- `num_elem or ONE`
  rw [numPart_eq_numElem] at hnum
  cases hne : numElem nd with
  | none =>
    rw [hne] at hnum; simp only [Option.getD_none] at hnum
    simp only [← hnd, hne, hnum]
  | some n =>
    rw [hne] at hnum; simp only [Option.getD_some] at hnum
    have hn0 : n ≠ 0 := by rw [hnum]; exact hnz
    simp only [← hnd, hne, hn0, ↓reduceIte, hnum]
    try simp [hnz]

end QM

namespace QM

/-- what the scale invariant reads of a state -/
structure SameScale (s s' : RegState) : Prop where
  len : s'.units.length = s.units.length
  units : ∀ u, (s'.unit u).defn = (s.unit u).defn ∧ (s'.unit u).normDef = (s.unit u).normDef ∧
    (s'.unit u).equiv = (s.unit u).equiv
  refs : ∀ c r, (s'.cls c).refUnit = some r →
    (s.cls c).refUnit = some r ∨ (r < s.units.length ∧ (s.unit r).equiv = some 1)

theorem ScaleInv.transfer {s s' : RegState} (hS : ScaleInv s) (h : SameScale s s') : ScaleInv s' := by
  refine ⟨?_, ?_, ?_, ?_⟩
  · intro u; rw [(h.units u).2.2]; exact hS.nz u
  · intro u hu hd
    rw [h.len] at hu
    rw [(h.units u).1] at hd
    rw [(h.units u).2.1, (h.units u).2.2]
    exact hS.base u hu hd
  · intro u hu hd
    rw [h.len] at hu
    rw [(h.units u).1] at hd
    obtain ⟨h1, h2, h3⟩ := hS.derived u hu hd
    rw [(h.units u).2.1, (h.units u).2.2]
    refine ⟨?_, h2, h3⟩
    intro a ha
    obtain ⟨h4, h5⟩ := h1 a ha
    exact ⟨by rw [h.len]; exact h4, by rw [(h.units a).1]; exact h5⟩
  · intro c r hr
    rcases h.refs c r hr with h1 | ⟨h1, h2⟩
    · obtain ⟨h3, h4⟩ := hS.refs c r h1
      exact ⟨by rw [h.len]; exact h3, by rw [(h.units r).2.2]; exact h4⟩
    · exact ⟨by rw [h.len]; exact h1, by rw [(h.units r).2.2]; exact h2⟩

theorem scaleInv_init : ScaleInv RegState.init := by
  have hu : ∀ u, RegState.init.unit u = default := fun u => unit_default _ u (by simp [RegState.init])
  refine ⟨?_, ?_, ?_, ?_⟩
  · intro u; rw [hu u]; simp [show (default : UnitInfo).equiv = none from rfl]
  · intro u h; simp [RegState.init] at h
  · intro u h; simp [RegState.init] at h
  · intro c r hr
    unfold RegState.cls RegState.init at hr
    rcases c with _ | c
    · simp at hr
    · simp only [List.getD_cons_succ, List.getD_nil] at hr
      exact absurd hr (by simp [show (default : ClassInfo).refUnit = none from rfl])

theorem cls_modify_units_refUnit (cs : List ClassInfo) (c c' uid : Nat) :
    ((cs.modify c fun ci => { ci with units := ci.units ++ [uid] }).getD c' default).refUnit
      = (cs.getD c' default).refUnit := by
  rw [List.getD_eq_getElem?_getD, List.getElem?_modify, List.getD_eq_getElem?_getD]
  by_cases hc : c = c'
  · subst hc
    simp only [↓reduceIte]
    cases cs[c]? <;> rfl
  · simp only [hc, ↓reduceIte]
    cases cs[c']? <;> rfl

/-- `_make_unit` preserves the scale invariant for well-formed definitions:
existing units only, not denoting zero, and (reference units) denoting 1 -/
theorem scaleInv_makeUnit (s s' : RegState) (c : Nat) (sym : String) (defn : Option Items)
    (isRef : Bool) (uid : Nat) (h : s.makeUnit c sym defn isRef = .ok (s', uid)) (hS : ScaleInv s)
    (hwf : ∀ d, defn = some d → (∀ a ∈ atomsOf d, a < s.units.length) ∧ den s.nu d ≠ 0 ∧
      (isRef = true → den s.nu d = 1)) :
    ScaleInv s' ∧ (isRef = true → (s'.unit uid).equiv = some 1) := by
  obtain ⟨huid, hunits, _, _, hdefn, _, _, _, hclasses, _, _, _, hnorm, hequiv⟩ :=
    makeUnit_effect s c sym defn isRef s' uid h
  have hlen : s'.units.length = s.units.length + 1 := by rw [hunits]; simp
  have hold : ∀ w, w < s.units.length → s'.unit w = s.unit w := by
    intro w hw; unfold RegState.unit; rw [hunits]; exact unit_append_old _ _ _ hw
  have hbeyond : ∀ w, s'.units.length ≤ w → s'.unit w = default := fun w hw => unit_default s' w hw
  -- the new unit, by kind of definition
  have hnew : (s'.unit uid).equiv ≠ some 0 ∧
      ((s'.unit uid).defn = none → (s'.unit uid).normDef = [(.atom uid, 1)] ∧
        ((s'.unit uid).equiv = none ∨ (s'.unit uid).equiv = some 1)) ∧
      ((s'.unit uid).defn ≠ none →
        (∀ a ∈ atomsOf (s'.unit uid).normDef, a < s.units.length ∧ (s.unit a).defn = none) ∧
        TailAtoms (s'.unit uid).normDef ∧
        (s'.unit uid).equiv = some (numPart (s'.unit uid).normDef)) ∧
      (isRef = true → (s'.unit uid).equiv = some 1) := by
    cases defn with
    | none =>
      simp only at hnorm hequiv
      refine ⟨?_, ?_, ?_, ?_⟩
      · rw [hequiv]; cases isRef <;> simp
      · intro _; refine ⟨hnorm, ?_⟩; rw [hequiv]; cases isRef <;> simp
      · intro hne; exact absurd hdefn hne
      · intro hr; rw [hequiv, hr]; simp
    | some d =>
      obtain ⟨hvalid, hnz, href⟩ := hwf d rfl
      have hA := admissible_nu s hS
      have hdb := defsBaseOnly_of_scaleInv s hS
      simp only at hnorm hequiv
      have hatoms : ∀ a ∈ atomsOf (termNormalized s.unitEnv d),
          a < s.units.length ∧ (s.unit a).defn = none := by
        intro a ha
        have hbase := termNormalized_baseOnly s.unitEnv d hdb a ha
        have hlt : a < s.units.length := by
          rcases termNormalized_atoms s.unitEnv d hdb a ha with h1 | ⟨b, hb, hbb, hab⟩
          · exact hvalid a h1
          · have hbl := hvalid b hb
            rw [unitEnv_info s b hbl] at hbb hab
            simp only at hbb hab
            have hd : (s.unit b).defn ≠ none := by intro h0; rw [h0] at hbb; simp at hbb
            exact ((hS.derived b hbl hd).1 a hab).1
        rw [unitEnv_info s a hlt] at hbase
        simp only [Option.isNone_iff_eq_none] at hbase
        exact ⟨hlt, hbase⟩
      have htail := termNormalized_tailAtoms s.unitEnv d
      have hnum : numPart (termNormalized s.unitEnv d) = den s.nu d := by
        rw [← den_termNormalized s.unitEnv s.nu hA.nz hA.resp hA.defs d,
          den_eq_numPart s.nu _ htail (fun a ha => nu_base s hS a (hatoms a ha).2)]
      have heq : (s'.unit uid).equiv = some (numPart (termNormalized s.unitEnv d)) := by
        rw [hequiv]
        cases isRef with
        | true => simp only [↓reduceIte]; rw [hnum, href rfl]
        | false =>
          simp only [Bool.false_eq_true, ↓reduceIte]
          rw [numPart_eq_numElem] at hnum ⊢
          cases hne : numElem (termNormalized s.unitEnv d) with
          | none => simp
          | some n =>
            rw [hne] at hnum; simp only [Option.getD_some] at hnum ⊢
            have : n ≠ 0 := by rw [hnum]; exact hnz
            simp [this]
      refine ⟨?_, ?_, ?_, ?_⟩
      · rw [heq, hnum]; intro h0; simp only [Option.some.injEq] at h0; exact hnz h0
      · intro hn; rw [hdefn] at hn; simp at hn
      · intro _; rw [hnorm]; exact ⟨hatoms, htail, heq⟩
      · intro hr; rw [heq, hnum, href hr]
  refine ⟨⟨?_, ?_, ?_, ?_⟩, hnew.2.2.2⟩
  · intro u
    by_cases hu : u < s.units.length
    · rw [hold u hu]; exact hS.nz u
    · by_cases hu2 : u = uid
      · subst hu2; exact hnew.1
      · rw [hbeyond u (by omega)]; simp [show (default : UnitInfo).equiv = none from rfl]
  · intro u hu hd
    by_cases hu1 : u < s.units.length
    · rw [hold u hu1] at hd ⊢; exact hS.base u hu1 hd
    · have : u = uid := by omega
      subst this; exact hnew.2.1 hd
  · intro u hu hd
    by_cases hu1 : u < s.units.length
    · rw [hold u hu1] at hd ⊢
      obtain ⟨h1, h2, h3⟩ := hS.derived u hu1 hd
      refine ⟨?_, h2, h3⟩
      intro a ha
      obtain ⟨h4, h5⟩ := h1 a ha
      exact ⟨by omega, by rw [hold a h4]; exact h5⟩
    · have : u = uid := by omega
      subst this
      obtain ⟨h1, h2, h3⟩ := hnew.2.2.1 hd
      refine ⟨?_, h2, h3⟩
      intro a ha
      obtain ⟨h4, h5⟩ := h1 a ha
      exact ⟨by omega, by rw [hold a h4]; exact h5⟩
  · intro c' r hr
    unfold RegState.cls at hr
    rw [hclasses, cls_modify_units_refUnit] at hr
    obtain ⟨h1, h2⟩ := hS.refs c' r hr
    exact ⟨by omega, by rw [hold r h1]; exact h2⟩

end QM

namespace QM

/-- well-formedness of a declaration's *arguments* in a state: definitions
mention existing units only and do not denote zero (the code accepts a zero
factor and then stores scale 1 — finding D10 — so the scale theorem excludes it) -/
def Decl.WF (s : RegState) : Decl → Prop
  | .cls _ => True
  | .newUnit _ _ (.qty a u) => a ≠ 0 ∧ u < s.units.length
  | .newUnit _ _ (.term t) => (∀ a ∈ atomsOf t, a < s.units.length) ∧ den s.nu t ≠ 0
  | .newUnit _ _ _ => True
  | .derive _ args _ => ∀ u ∈ args, u < s.units.length
  | .currency _ _ _ _ => True

theorem scaleInv_liftMake (s : RegState) (c : Nat) (sym : String) (defn : Option Items)
    (hS : ScaleInv s)
    (hwf : ∀ d, defn = some d → (∀ a ∈ atomsOf d, a < s.units.length) ∧ den s.nu d ≠ 0) :
    ScaleInv (liftMake s (s.makeUnit c sym defn false)).1 := by
  unfold liftMake
  cases h : s.makeUnit c sym defn false with
  | error e => exact hS
  | ok p =>
    obtain ⟨s', uid⟩ := p
    exact (scaleInv_makeUnit s s' c sym defn false uid h hS
      (fun d hd => ⟨(hwf d hd).1, (hwf d hd).2, by intro hh; simp at hh⟩)).1

theorem nu_ne_zero (s : RegState) (hS : ScaleInv s) (u : Nat) : s.nu u ≠ 0 :=
  (admissible_nu s hS).nz u

theorem den_ne_zero_of_atoms (ν : Nat → ℚ) (hν : NonZero ν) (l : Items)
    (hall : ∀ it ∈ l, (∃ a, it.1 = Elem.atom a) ∨ ∃ q, it.1 = Elem.num q ∧ q ≠ 0) : den ν l ≠ 0 := by
  induction l with
  | nil => simp
  | cons it rest ih =>
    obtain ⟨el, e⟩ := it
    rw [den_cons]
    apply mul_ne_zero
    · rcases hall (el, e) (by simp) with ⟨a, ha⟩ | ⟨q, hq, hq0⟩
      · simp only at ha; subst ha; exact zpow_ne_zero _ (hν a)
      · simp only at hq; subst hq; exact zpow_ne_zero _ hq0
    · exact ih (fun x hx => hall x (List.mem_cons_of_mem _ hx))

theorem scaleInv_newUnit (s : RegState) (c : Nat) (sym : Option String) (d : UnitDefArg)
    (hS : ScaleInv s) (hwf : Decl.WF s (.newUnit c sym d)) : ScaleInv (s.newUnit c sym d).1 := by
  have hA := admissible_nu s hS
  have hq : ∀ a u, a ≠ 0 → u < s.units.length → ∀ d',
      some (mkTerm s.unitEnv [(.num a, 1), (.atom u, 1)]) = some d' →
      (∀ x ∈ atomsOf d', x < s.units.length) ∧ den s.nu d' ≠ 0 := by
    intro a u ha hu d' hd
    simp only [Option.some.injEq] at hd
    subst hd
    constructor
    · intro x hx
      have := mkTerm_atoms _ _ x hx
      simp only [atomsOf, List.filterMap_cons, List.filterMap_nil, List.mem_singleton] at this
      subst this; exact hu
    · rw [den_mkTerm _ s.nu hA.nz hA.resp]
      simp only [den_cons, den_nil, evalElem, zpow_one, mul_one]
      exact mul_ne_zero ha (hA.nz u)
  unfold RegState.newUnit
  split
  · exact hS
  · split
    · exact hS
    · cases d with
      | none =>
        simp only
        exact scaleInv_liftMake s c _ none hS (by intro d hd; simp at hd)
      | other => simp only; exact hS
      | qty a u =>
        simp only
        obtain ⟨ha, hu⟩ := hwf
        split
        · exact hS
        · rename_i defn heq
          apply scaleInv_liftMake s c _ _ hS
          intro d hd
          subst hd
          split at heq
          · cases heq
          · simp only [Except.ok.injEq] at heq
            exact hq a u ha hu _ heq
      | term t =>
        simp only
        obtain ⟨hv, hn⟩ := hwf
        split
        · exact hS
        · rename_i defn heq
          apply scaleInv_liftMake s c _ _ hS
          intro d hd
          subst hd
          split at heq
          · cases heq
          · cases heq
          · split at heq
            · cases heq
            · simp only [Except.ok.injEq, Option.some.injEq] at heq
              subst heq; exact ⟨hv, hn⟩

theorem scaleInv_deriveUnit (s : RegState) (c : Nat) (args : List Nat) (sym : Option String)
    (hS : ScaleInv s) (hwf : Decl.WF s (.derive c args sym)) :
    ScaleInv (s.deriveUnit c args sym).1 := by
  have hA := admissible_nu s hS
  have hdefn : ∀ (cdef : Items) (d : Items),
      d = mkTerm s.unitEnv ((cdef.zip args).map fun (it, u) => (Elem.atom u, it.2)) →
      (∀ a ∈ atomsOf d, a < s.units.length) ∧ den s.nu d ≠ 0 := by
    intro cdef d hd
    subst hd
    constructor
    · intro a ha
      have := mkTerm_atoms _ _ a ha
      rw [mem_atomsOf] at this
      obtain ⟨e, he⟩ := this
      simp only [List.mem_map, Prod.mk.injEq, Elem.atom.injEq] at he
      obtain ⟨⟨it, u⟩, hz, rfl, _⟩ := he
      exact hwf u (List.of_mem_zip hz).2
    · rw [den_mkTerm _ s.nu hA.nz hA.resp]
      apply den_ne_zero_of_atoms _ hA.nz
      intro it hit
      simp only [List.mem_map] at hit
      obtain ⟨⟨x, u⟩, _, rfl⟩ := hit
      left; exact ⟨u, rfl⟩
  unfold RegState.deriveUnit
  repeat' (first
    | exact hS
    | exact scaleInv_liftMake s c _ _ hS (by
        intro d hd; simp only [Option.some.injEq] at hd; exact hdefn _ d hd.symm)
    | split | dsimp only)

end QM

namespace QM

theorem cls_modify_refUnit' (cs : List ClassInfo) (cid c uid : Nat) (r : Nat)
    (h : ((cs.modify cid fun ci => { ci with refUnit := some uid }).getD c default).refUnit = some r) :
    (cs.getD c default).refUnit = some r ∨ r = uid := by
  rw [List.getD_eq_getElem?_getD, List.getElem?_modify] at h
  rw [List.getD_eq_getElem?_getD]
  by_cases hc : cid = c
  · subst hc
    simp only [↓reduceIte] at h
    cases hcs : cs[cid]? with
    | none => rw [hcs] at h; simp at h; exact absurd h (by simp [show (default : ClassInfo).refUnit = none from rfl])
    | some ci => rw [hcs] at h; simp at h; right; exact h.symm
  · simp only [hc, ↓reduceIte, id_map'] at h
    left; exact h

theorem sameScale_clsMap (s : RegState) (m : List (Items × Nat)) :
    SameScale s { s with clsMap := m } :=
  ⟨rfl, fun _ => ⟨rfl, rfl, rfl⟩, fun _ _ h => Or.inl h⟩

theorem scaleInv_finishClass (s : RegState) (cid : Nat) (normDef : Items)
    (r : Except DeclErr (RegState × Nat)) (hS : ScaleInv s)
    (hr : ∀ s2 uid, r = .ok (s2, uid) →
      ScaleInv s2 ∧ uid < s2.units.length ∧ (s2.unit uid).equiv = some 1) :
    ScaleInv (finishClass s cid normDef r).1 := by
  unfold finishClass
  cases r with
  | error e => exact hS
  | ok p =>
    obtain ⟨s2, uid⟩ := p
    obtain ⟨h2, hlt, heq⟩ := hr s2 uid rfl
    simp only
    apply h2.transfer
    refine ⟨rfl, fun _ => ⟨rfl, rfl, rfl⟩, ?_⟩
    intro c r hr
    rcases cls_modify_refUnit' _ _ _ _ _ hr with h | h
    · left; exact h
    · right; subst h; exact ⟨hlt, heq⟩

theorem scaleInv_classSuccess (s s1 : RegState) (cid : Nat) (normDef : Items) (sym : Option String)
    (refUnitDef : Option Items) (hS : ScaleInv s) (hS1 : ScaleInv s1)
    (hwf : ∀ d, refUnitDef = some d → (∀ a ∈ atomsOf d, a < s1.units.length) ∧ den s1.nu d = 1) :
    ScaleInv (classSuccess s s1 cid normDef sym refUnitDef).1 := by
  unfold classSuccess
  split
  · split
    · exact hS1.transfer (sameScale_clsMap s1 _)
    · apply scaleInv_finishClass s cid normDef _ hS
      intro s2 uid h
      obtain ⟨h2, h3⟩ := scaleInv_makeUnit s1 s2 cid _ refUnitDef true uid h hS1
        (fun d hd => ⟨(hwf d hd).1, by rw [(hwf d hd).2]; exact one_ne_zero, fun _ => (hwf d hd).2⟩)
      obtain ⟨huid, hunits, _⟩ := makeUnit_effect s1 cid _ refUnitDef true s2 uid h
      exact ⟨h2, by rw [hunits, huid]; simp, h3 rfl⟩
  · exact hS1.transfer (sameScale_clsMap s1 _)

theorem sameScale_addClass (s : RegState) (ci : ClassInfo) (hci : ci.refUnit = none) :
    SameScale s { s with classes := s.classes ++ [ci] } := by
  refine ⟨rfl, fun _ => ⟨rfl, rfl, rfl⟩, ?_⟩
  intro c r hr
  left
  unfold RegState.cls at hr ⊢
  simp only at hr
  rw [List.getD_eq_getElem?_getD] at hr ⊢
  rcases Nat.lt_trichotomy c s.classes.length with hlt | heq | hgt
  · rw [List.getElem?_append_left hlt] at hr; exact hr
  · subst heq
    rw [List.getElem?_append_right (Nat.le_refl _)] at hr
    simp [hci] at hr
  · rw [List.getElem?_eq_none (by simp; omega)] at hr
    exact absurd hr (by simp [show (default : ClassInfo).refUnit = none from rfl])

/-- the reference-unit definition of a derived class: a product of reference
units, hence of existing units of scale 1 -/
theorem refUnitDef_wf (s : RegState) (hS : ScaleInv s) (t : Items) :
    let refs := t.map fun it => match it.1 with
        | .atom c => ((s.cls c).refUnit.map fun u => (Elem.atom u, it.2))
        | .num _ => none
    let d := reduceItems s.unitEnv (refs.filterMap id) none true
    (∀ a ∈ atomsOf d, a < s.units.length) ∧ den s.nu d = 1 := by
  intro refs d
  have hA := admissible_nu s hS
  have hitems : ∀ it ∈ refs.filterMap id, ∃ a, it.1 = Elem.atom a ∧ a < s.units.length ∧ s.nu a = 1 := by
    intro it hit
    simp only [List.mem_filterMap, id] at hit
    obtain ⟨o, ho, rfl⟩ := hit
    simp only [refs, List.mem_map] at ho
    obtain ⟨x, _, hx⟩ := ho
    split at hx
    · rename_i c hc
      cases hru : (s.cls c).refUnit with
      | none => rw [hru] at hx; simp at hx
      | some u =>
        rw [hru] at hx
        simp only [Option.map_some, Option.some.injEq] at hx
        subst hx
        obtain ⟨h1, h2⟩ := hS.refs c u hru
        exact ⟨u, rfl, h1, by unfold RegState.nu; rw [h2]; rfl⟩
    · cases hx
  have hat : ∀ a ∈ atomsOf (refs.filterMap id), a < s.units.length ∧ s.nu a = 1 := by
    intro a ha
    rw [mem_atomsOf] at ha
    obtain ⟨e, he⟩ := ha
    obtain ⟨b, hb, hlt, hnu⟩ := hitems _ he
    simp only [Elem.atom.injEq] at hb
    subst hb; exact ⟨hlt, hnu⟩
  constructor
  · intro a ha
    exact (hat a (reduceItems_atoms _ _ _ _ a ha)).1
  · show den s.nu (reduceItems s.unitEnv (refs.filterMap id) none true) = 1
    rw [den_reduceItems _ _ hA.nz hA.resp]
    exact den_atoms_one _ _ (fun it hit => (hitems it hit).imp fun a h => h.1) (fun a ha => (hat a ha).2)

theorem scaleInv_declClass (s : RegState) (d : ClassDecl) (hS : ScaleInv s) :
    ScaleInv (s.declClass d).1 := by
  unfold RegState.declClass
  repeat' (first
    | exact hS
    | (apply scaleInv_classSuccess _ _ _ _ _ _ hS (hS.transfer (sameScale_addClass s _ rfl))
       intro dd hdd
       split at hdd
       · cases hdd
       · split at hdd
         · simp only [Option.some.injEq] at hdd
           subst hdd
           exact refUnitDef_wf s hS _
         · cases hdd)
    | split | dsimp only)

theorem scaleInv_finishCurrency (s : RegState) (r : RegState × Except DeclErr Nat) (frac : Rat)
    (hS : ScaleInv s) (hr : ScaleInv r.1) : ScaleInv (finishCurrency s r frac).1 := by
  unfold finishCurrency
  obtain ⟨s', res⟩ := r
  cases res with
  | error e => exact hS
  | ok uid =>
    simp only
    apply ScaleInv.transfer hr
    have hunit : ∀ u, (RegState.unit { s' with units := s'.units.modify uid fun u =>
        { u with smallestFraction := some frac } } u).defn = (s'.unit u).defn ∧
        (RegState.unit { s' with units := s'.units.modify uid fun u =>
        { u with smallestFraction := some frac } } u).normDef = (s'.unit u).normDef ∧
        (RegState.unit { s' with units := s'.units.modify uid fun u =>
        { u with smallestFraction := some frac } } u).equiv = (s'.unit u).equiv := by
      intro u
      unfold RegState.unit
      simp only [List.getD_eq_getElem?_getD, List.getElem?_modify]
      by_cases hc : uid = u
      · subst hc
        simp only [↓reduceIte]
        cases s'.units[uid]? <;> exact ⟨rfl, rfl, rfl⟩
      · simp only [hc, ↓reduceIte, id_map', and_self]
    exact ⟨by simp, hunit, fun _ _ h => Or.inl h⟩

theorem scaleInv_newCurrency (s : RegState) (mc : Nat) (sym : Option String) (mi : MinorArg)
    (sf : SfArg) (hS : ScaleInv s) : ScaleInv (s.newCurrency mc sym mi sf).1 := by
  unfold RegState.newCurrency
  repeat' (first
    | exact hS
    | exact scaleInv_finishCurrency s _ _ hS (scaleInv_newUnit s mc sym .none hS trivial)
    | split | dsimp only)

/-- states reachable by declarations whose definitions mention existing units
and do not denote zero -/
inductive ReachableWF : RegState → Prop where
  | init : ReachableWF RegState.init
  | step (s : RegState) (d : Decl) : ReachableWF s → d.WF s → ReachableWF (s.applyDecl d)

theorem ReachableWF.reachable {s : RegState} (h : ReachableWF s) : Reachable s := by
  induction h with
  | init => exact .init
  | step s d _ _ ih => exact .step s d ih

/-- the scale invariant holds in every such state -/
theorem reachableWF_scaleInv {s : RegState} (h : ReachableWF s) : ScaleInv s := by
  induction h with
  | init => exact scaleInv_init
  | step s d _ hwf ih =>
    cases d with
    | cls d => exact scaleInv_declClass s d ih
    | newUnit c sym d => exact scaleInv_newUnit s c sym d ih hwf
    | derive c args sym => exact scaleInv_deriveUnit s c args sym ih hwf
    | currency mc sym mi sf => exact scaleInv_newCurrency s mc sym mi sf ih

end QM
