/-
In every state reachable by declarations (valid or rejected, in any order) a
base unit that carries a scale is the reference unit of its type.  Hence two
distinct base units are never convertible into each other (`BaseNoConv`), which
was a *hypothesis* of the equivalence "terms are equal exactly when they denote
the same factor and exponents" (C07) and of the completeness of unit-term
resolution (C02); for reachable registries it is now a theorem.
-/
import QuantityModel.Proofs.RegistryTerm
namespace QM

/-- a base unit with a scale is its type's reference unit -/
def RefInv (s : RegState) : Prop :=
  ∀ u, u < s.units.length → (s.unit u).defn = none → (s.unit u).equiv ≠ none →
    (s.cls (s.unit u).cls).refUnit = some u

theorem refInv_init : RefInv RegState.init := by
  intro u hu; simp [RegState.init] at hu

/-- what `RefInv` reads of a state -/
structure SameRef (s s' : RegState) : Prop where
  len : s'.units.length = s.units.length
  units : ∀ u, (s'.unit u).defn = (s.unit u).defn ∧ (s'.unit u).equiv = (s.unit u).equiv ∧
    (s'.unit u).cls = (s.unit u).cls
  refs : ∀ c r, (s.cls c).refUnit = some r → (s'.cls c).refUnit = some r

theorem RefInv.transfer {s s' : RegState} (hR : RefInv s) (h : SameRef s s') : RefInv s' := by
  intro u hu hd he
  rw [h.len] at hu
  rw [(h.units u).1] at hd
  rw [(h.units u).2.1] at he
  rw [(h.units u).2.2]
  exact h.refs _ _ (hR u hu hd he)

theorem sameRef_clsMap (s : RegState) (m : List (Items × Nat)) :
    SameRef s { s with clsMap := m } :=
  ⟨rfl, fun _ => ⟨rfl, rfl, rfl⟩, fun _ _ h => h⟩

theorem sameRef_addClass (s : RegState) (ci : ClassInfo) :
    SameRef s { s with classes := s.classes ++ [ci] } := by
  refine ⟨rfl, fun _ => ⟨rfl, rfl, rfl⟩, ?_⟩
  intro c r hr
  unfold RegState.cls at hr ⊢
  simp only
  rw [List.getD_eq_getElem?_getD] at hr ⊢
  by_cases hlt : c < s.classes.length
  · rw [List.getElem?_append_left hlt]; exact hr
  · rw [List.getElem?_eq_none (not_lt.mp hlt)] at hr
    exact absurd hr (by simp [show (default : ClassInfo).refUnit = none from rfl])

/-- `_make_unit` for anything but the reference unit of a base type -/
theorem refInv_makeUnit (s s' : RegState) (c : Nat) (sym : String) (defn : Option Items)
    (isRef : Bool) (uid : Nat) (h : s.makeUnit c sym defn isRef = .ok (s', uid)) (hR : RefInv s)
    (hnr : isRef = true → defn ≠ none) : RefInv s' := by
  obtain ⟨huid, hunits, _, _, hdefn, _, _, _, hclasses, _, _, _, _, hequiv⟩ :=
    makeUnit_effect s c sym defn isRef s' uid h
  have hlen : s'.units.length = s.units.length + 1 := by rw [hunits]; simp
  have hold : ∀ w, w < s.units.length → s'.unit w = s.unit w := by
    intro w hw; unfold RegState.unit; rw [hunits]; exact unit_append_old _ _ _ hw
  intro u hu hd he
  by_cases hu1 : u < s.units.length
  · rw [hold u hu1] at hd he ⊢
    unfold RegState.cls
    rw [hclasses, cls_modify_units_refUnit]
    exact hR u hu1 hd he
  · have : u = uid := by omega
    subst this
    rw [hdefn] at hd
    subst hd
    cases isRef with
    | true => exact absurd rfl (hnr rfl)
    | false => simp at hequiv; exact absurd hequiv he

theorem refInv_liftMake (s : RegState) (c : Nat) (sym : String) (defn : Option Items)
    (hR : RefInv s) : RefInv (liftMake s (s.makeUnit c sym defn false)).1 := by
  unfold liftMake
  cases h : s.makeUnit c sym defn false with
  | error e => exact hR
  | ok p =>
    obtain ⟨s', uid⟩ := p
    exact refInv_makeUnit s s' c sym defn false uid h hR (by intro hh; simp at hh)

theorem refInv_newUnit (s : RegState) (c : Nat) (sym : Option String) (d : UnitDefArg)
    (hR : RefInv s) : RefInv (s.newUnit c sym d).1 := by
  unfold RegState.newUnit
  repeat' (first
    | exact hR
    | exact refInv_liftMake s c _ _ hR
    | split)

theorem refInv_deriveUnit (s : RegState) (c : Nat) (args : List Nat) (sym : Option String)
    (hR : RefInv s) : RefInv (s.deriveUnit c args sym).1 := by
  unfold RegState.deriveUnit
  repeat' (first
    | exact hR
    | exact refInv_liftMake s c _ _ hR
    | split | dsimp only)

theorem cls_modify_refUnit_self (cs : List ClassInfo) (cid uid : Nat) (h : cid < cs.length) :
    ((cs.modify cid fun ci => { ci with refUnit := some uid }).getD cid default).refUnit
      = some uid := by
  rw [List.getD_eq_getElem?_getD, List.getElem?_modify]
  simp [List.getElem?_eq_getElem h]

theorem cls_modify_refUnit_other (cs : List ClassInfo) (cid c uid : Nat) (h : cid ≠ c) :
    ((cs.modify cid fun ci => { ci with refUnit := some uid }).getD c default).refUnit
      = (cs.getD c default).refUnit := by
  rw [List.getD_eq_getElem?_getD, List.getElem?_modify, List.getD_eq_getElem?_getD]
  simp [h]

/-- the class statement: the reference unit is created (for a base type: a
base unit of scale 1, which breaks the invariant for a moment) and then entered
as the type's reference unit -/
theorem refInv_finishClass (s s1 : RegState) (cid : Nat) (normDef : Items) (sy : String)
    (refUnitDef : Option Items) (hR : RefInv s) (hR1 : RefInv s1)
    (hcid : cid < s1.classes.length) (hnone : (s1.cls cid).refUnit = none) :
    RefInv (finishClass s cid normDef (s1.makeUnit cid sy refUnitDef true)).1 := by
  unfold finishClass
  cases h : s1.makeUnit cid sy refUnitDef true with
  | error e => exact hR
  | ok p =>
    obtain ⟨s2, uid⟩ := p
    simp only
    obtain ⟨huid, hunits, _, hcls, hdefn, _, _, _, hclasses, _, _, _, _, hequiv⟩ :=
      makeUnit_effect s1 cid sy refUnitDef true s2 uid h
    have hlen : s2.units.length = s1.units.length + 1 := by rw [hunits]; simp
    have hold : ∀ w, w < s1.units.length → s2.unit w = s1.unit w := by
      intro w hw; unfold RegState.unit; rw [hunits]; exact unit_append_old _ _ _ hw
    have hcl2 : cid < s2.classes.length := by rw [hclasses]; simpa using hcid
    intro u hu hd he
    change u < s2.units.length at hu
    change (s2.unit u).defn = none at hd
    change (s2.unit u).equiv ≠ none at he
    show ((s2.classes.modify cid fun ci => { ci with refUnit := some uid }).getD
      (s2.unit u).cls default).refUnit = some u
    by_cases hu1 : u < s1.units.length
    · rw [hold u hu1] at hd he ⊢
      have hru := hR1 u hu1 hd he
      have hne : cid ≠ (s1.unit u).cls := by
        intro hc; rw [← hc, hnone] at hru; cases hru
      rw [cls_modify_refUnit_other _ _ _ _ hne, hclasses, cls_modify_units_refUnit]
      exact hru
    · have : u = uid := by omega
      subst this
      rw [hcls]
      exact cls_modify_refUnit_self _ _ _ hcl2

theorem refInv_classSuccess (s s1 : RegState) (cid : Nat) (normDef : Items) (sym : Option String)
    (refUnitDef : Option Items) (hR : RefInv s) (hR1 : RefInv s1)
    (hcid : cid < s1.classes.length) (hnone : (s1.cls cid).refUnit = none) :
    RefInv (classSuccess s s1 cid normDef sym refUnitDef).1 := by
  unfold classSuccess
  split
  · split
    · exact hR1.transfer (sameRef_clsMap s1 _)
    · exact refInv_finishClass s s1 cid normDef _ refUnitDef hR hR1 hcid hnone
  · exact hR1.transfer (sameRef_clsMap s1 _)

theorem refInv_declClass (s : RegState) (d : ClassDecl) (hR : RefInv s) :
    RefInv (s.declClass d).1 := by
  unfold RegState.declClass
  repeat' (first
    | exact hR
    | (apply refInv_classSuccess _ _ _ _ _ _ hR (hR.transfer (sameRef_addClass s _))
       · simp
       · unfold RegState.cls
         simp [List.getD_eq_getElem?_getD])
    | split | dsimp only)

theorem refInv_finishCurrency (s : RegState) (r : RegState × Except DeclErr Nat) (frac : Rat)
    (hR : RefInv s) (hr : RefInv r.1) : RefInv (finishCurrency s r frac).1 := by
  unfold finishCurrency
  obtain ⟨s', res⟩ := r
  cases res with
  | error e => exact hR
  | ok uid =>
    simp only
    apply RefInv.transfer hr
    refine ⟨by simp, ?_, fun _ _ h => h⟩
    intro u
    unfold RegState.unit
    simp only [List.getD_eq_getElem?_getD, List.getElem?_modify]
    by_cases hc : uid = u
    · subst hc
      simp only [↓reduceIte]
      cases s'.units[uid]? <;> exact ⟨rfl, rfl, rfl⟩
    · simp only [hc, ↓reduceIte, id_map', and_self]

theorem refInv_newCurrency (s : RegState) (mc : Nat) (sym : Option String) (mi : MinorArg)
    (sf : SfArg) (hR : RefInv s) : RefInv (s.newCurrency mc sym mi sf).1 := by
  unfold RegState.newCurrency
  repeat' (first
    | exact hR
    | exact refInv_finishCurrency s _ _ hR (refInv_newUnit s mc sym .none hR)
    | split | dsimp only)

/-- the invariant holds after any sequence of declarations, valid or rejected -/
theorem reachable_refInv {s : RegState} (h : Reachable s) : RefInv s := by
  induction h with
  | init => exact refInv_init
  | step s d _ ih =>
    cases d with
    | cls d => exact refInv_declClass s d ih
    | newUnit c sym d => exact refInv_newUnit s c sym d ih
    | derive c args sym => exact refInv_deriveUnit s c args sym ih
    | currency mc sym mi sf => exact refInv_newCurrency s mc sym mi sf ih

/-- ... hence two distinct base units are never convertible into each other -/
theorem baseNoConv_of_refInv (s : RegState) (hR : RefInv s) : BaseNoConv s.unitEnv := by
  intro x y hx hy hne
  unfold getFactor
  simp only
  by_cases hxl : x < s.units.length
  · by_cases hyl : y < s.units.length
    · rw [unitEnv_info s x hxl] at hx ⊢
      rw [unitEnv_info s y hyl] at hy ⊢
      simp only [Option.isNone_iff_eq_none] at hx hy ⊢
      split
      · rename_i hg
        split
        · rename_i sy sx hsy hsx
          exfalso
          have ey : (s.unit y).equiv ≠ none := by
            intro h0; rw [h0] at hsy; simp at hsy
          have ex : (s.unit x).equiv ≠ none := by
            intro h0; rw [h0] at hsx; simp at hsx
          have h1 := hR x hxl hx ex
          have h2 := hR y hyl hy ey
          rw [hg, h1] at h2
          exact hne (Option.some.inj h2)
        · rfl
      · rfl
    · rw [(unitEnv_info_default s y (not_lt.mp hyl)).2]
      split <;> rfl
  · rw [(unitEnv_info_default s x (not_lt.mp hxl)).2]
    split
    · split
      · rename_i h1 h2; simp at h2
      · rfl
    · rfl

theorem reachable_baseNoConv {s : RegState} (h : Reachable s) : BaseNoConv s.unitEnv :=
  baseNoConv_of_refInv s (reachable_refInv h)

/-- every base unit the term expands to has a scale, i.e. (by `RefInv`) is the
reference unit of its type: the terms are built from units of types with
reference unit, defined by scaling it -/
def ScaledAtoms (env : Env) (t : Items) : Prop :=
  ∀ x ∈ atomsOf (iterNormalized env normFuel t), (env.info x).scale ≠ none

/-- for such terms the proviso "no two distinct base elements share a sort
key" of the equivalence theorem is a consequence of the registry invariants -/
theorem keysSeparate_of_scaled (s : RegState) (hS : ScaleInv s) (hR : RefInv s) (t₁ t₂ : Items)
    (h₁ : ScaledAtoms s.unitEnv t₁) (h₂ : ScaledAtoms s.unitEnv t₂) :
    KeysSeparate s.unitEnv t₁ t₂ := by
  have hdb := defsBaseOnly_of_scaleInv s hS
  have key : ∀ x, x ∈ atomsOf (iterNormalized s.unitEnv normFuel t₁) ++
      atomsOf (iterNormalized s.unitEnv normFuel t₂) →
      x < s.units.length ∧ (s.cls (s.unit x).cls).refUnit = some x := by
    intro x hx
    have hsc : (s.unitEnv.info x).scale ≠ none := by
      rcases List.mem_append.mp hx with h | h
      · exact h₁ x h
      · exact h₂ x h
    have hb : (s.unitEnv.info x).isBase = true := by
      rcases List.mem_append.mp hx with h | h
      · exact iterNormalized_baseOnly s.unitEnv 7 t₁ hdb x h
      · exact iterNormalized_baseOnly s.unitEnv 7 t₂ hdb x h
    have hxl : x < s.units.length := by
      by_contra hn
      exact hsc (unitEnv_info_default s x (not_lt.mp hn)).2
    rw [unitEnv_info s x hxl] at hsc hb
    simp only [Option.isNone_iff_eq_none] at hsc hb
    refine ⟨hxl, hR x hxl hb ?_⟩
    intro h0; apply hsc; rw [h0]; split <;> rfl
  intro x hx y hy hk
  obtain ⟨hxl, hrx⟩ := key x hx
  obtain ⟨hyl, hry⟩ := key y hy
  unfold keyOf at hk
  rw [unitEnv_info s x hxl, unitEnv_info s y hyl] at hk
  simp only [Nat.cast_inj] at hk
  rw [hk, hry] at hrx
  exact (Option.some.inj hrx).symm

/-- **terms of units with scales, in any registry reachable by well-formed
declarations, are equal exactly when they denote the same rational factor and
the same exponent for every base unit** — no hypothesis on the registry left -/
theorem termEq_iff_reachable {s : RegState} (h : ReachableWF s) (t₁ t₂ : Items)
    (h₁ : ScaledAtoms s.unitEnv t₁) (h₂ : ScaledAtoms s.unitEnv t₂)
    (c₁ : Clean t₁) (c₂ : Clean t₂) :
    termEq s.unitEnv t₁ t₂ = true ↔
      (numVal (expanded s.unitEnv t₁) = numVal (expanded s.unitEnv t₂) ∧
       ∀ a, expOf a (expanded s.unitEnv t₁) = expOf a (expanded s.unitEnv t₂)) :=
  termEq_iff s.unitEnv (keysNonneg_unitEnv s)
    (defsBaseOnly_of_scaleInv s (reachableWF_scaleInv h))
    (reachable_baseNoConv h.reachable) t₁ t₂
    (keysSeparate_of_scaled s (reachableWF_scaleInv h) (reachable_refInv h.reachable) t₁ t₂ h₁ h₂)
    c₁ c₂

end QM
