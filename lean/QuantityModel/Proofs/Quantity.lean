/-
Facts about the quantity-level model used by C01 / C03 / C04 / C05.
A "linear" pair of units: same class, the class has a reference unit, both
scales are known; this is what `Unit._get_factor` requires to return a factor.
-/
import QuantityModel.Model.Quantity
import QuantityModel.Proofs.RoundingQ
namespace QM
open QM.QState

/-- `u` and `v` are units of one class that has a reference unit, with scales `a`, `b` -/
structure Linear (s : RegState) (u v : Nat) (a b : ℚ) : Prop where
  sameCls : s.unitCls u = s.unitCls v
  hasRef : (s.cls (s.unitCls u)).refUnit.isSome = true
  eu : (s.unit u).equiv = some a
  ev : (s.unit v).equiv = some b

theorem Linear.symm {s u v a b} (h : Linear s u v a b) : Linear s v u b a :=
  ⟨h.sameCls.symm, by rw [← h.sameCls]; exact h.hasRef, h.ev, h.eu⟩

theorem unitFactor_linear {s : RegState} {u v a b} (h : Linear s u v a b) :
    s.unitFactor u v = some (some (a / b)) := by
  unfold RegState.unitFactor
  have h1 : (s.unitCls u != s.unitCls v) = false := by simp [h.sameCls]
  have h2 : (s.cls (s.unitCls u)).refUnit.isNone = false := by
    have := h.hasRef; cases hx : (s.cls (s.unitCls u)).refUnit <;> simp_all
  simp [h1, h2, h.eu, h.ev]

theorem unitEq_linear {s : RegState} {u v a b} (h : Linear s u v a b) :
    s.unitEq u v = some (a == b) := by
  unfold RegState.unitEq
  have h1 : (s.unitCls u != s.unitCls v) = false := by simp [h.sameCls]
  have h2 : (s.cls (s.unitCls u)).refUnit.isNone = false := by
    have := h.hasRef; cases hx : (s.cls (s.unitCls u)).refUnit <;> simp_all
  simp [h1, h2, h.eu, h.ev]

/-- `equiv_amount` between linear units is multiplication by the ratio of scales
(when the scales coincide the amount is returned as it is — the same value). -/
theorem equivAmount_linear {s : QState} {q : Qty} {v a b} (h : Linear s.reg q.unit v a b)
    (hb : b ≠ 0) : s.equivAmount q v = .ok (some (a / b * q.amount)) := by
  unfold QState.equivAmount
  rw [unitEq_linear h]
  by_cases hab : a = b
  · subst hab; simp [div_self hb]
  · have : (a == b) = false := by simpa using hab
    simp only [this]
    rw [unitFactor_linear h]

theorem equivAmount_other_class {s : QState} {q : Qty} {v}
    (h : s.reg.unitCls q.unit ≠ s.reg.unitCls v) :
    s.equivAmount q v = .error .IncompatibleUnitsError := by
  unfold QState.equivAmount RegState.unitEq RegState.unitFactor
  have : (s.reg.unitCls q.unit != s.reg.unitCls v) = true := by simpa using h
  simp [this]

/-- construction without quantum stores the amount exactly -/
theorem mkQty_no_quantum {s : RegState} {d c a u} (hc : c = s.unitCls u)
    (hq : s.unitQuantum u = none) : s.mkQty d (some c) a u = .ok ⟨a, u⟩ := by
  unfold RegState.mkQty RegState.mkQty.go
  simp [hc, hq]

/-- construction with quantum `qu ≠ 0`: the multiple of `qu` selected by the
default mode -/
theorem mkQty_quantum {s : RegState} {d c a u qu} (hc : c = s.unitCls u)
    (hq : s.unitQuantum u = some qu) (hne : qu ≠ 0) :
    s.mkQty d (some c) a u = .ok ⟨(roundQ d (a / qu) : ℚ) * qu, u⟩ := by
  unfold RegState.mkQty RegState.mkQty.go
  simp only [hc, bne_self_eq_false, Bool.false_eq_true, ↓reduceIte, hq]
  unfold roundToGrid decimalOfPrec
  simp only [hne, ↓reduceIte, pow_zero, mul_one, Nat.cast_one, div_one]
  rw [Gen.floordivRounded.eq_def] at *
  rw [← Gen.floordivRounded.eq_def]
  rw [floordiv_none, roundQ_ok d d (a / qu)]

end QM
