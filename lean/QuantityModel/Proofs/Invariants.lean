/-
Directory invariants that hold in EVERY state reachable by declarations
(valid or rejected, in any order): they discharge the hypotheses
`TermMapSound` of C02 / C10 / C17 and give C15's coherence statements their
"after any sequence of declarations" quantifier.
-/
import QuantityModel.Proofs.UnitOps
import QuantityModel.Proofs.Registry
import QuantityModel.Model.Money
namespace QM

/-- what the directories guarantee about each other -/
structure DirInv (s : RegState) : Prop where
  /-- term → unit map: entries name existing units and are keyed by the
  unit's own normalised definition -/
  termMap : ∀ key w, (key, w) ∈ s.termMap → w < s.units.length ∧ (s.unit w).normDef = key
  /-- symbol → unit map: entries name existing units carrying that symbol -/
  symMap : ∀ sym u, (sym, u) ∈ s.symMap → u < s.units.length ∧ (s.unit u).symbol = sym
  /-- symbols are unique -/
  symNodup : (s.symMap.map Prod.fst).Nodup
  /-- every unit is found under its symbol -/
  symTotal : ∀ u, u < s.units.length → ((s.unit u).symbol, u) ∈ s.symMap
  /-- a type lists only units created for it -/
  unitLists : ∀ c u, u ∈ (s.cls c).units → u < s.units.length ∧ (s.unit u).cls = c

theorem DirInv.termMapSound {s : RegState} (h : DirInv s) : TermMapSound s :=
  fun key w hm => (h.termMap key w hm).2

theorem init_cls_units (c : Nat) : (RegState.init.cls c).units = [] := by
  unfold RegState.cls RegState.init
  rcases c with _ | c
  · rfl
  · simp only [List.getD_cons_succ, List.getD_nil]; rfl

theorem dirInv_init : DirInv RegState.init := by
  refine ⟨?_, ?_, ?_, ?_, ?_⟩
  · intro k w h; simp [RegState.init] at h
  · intro k w h; simp [RegState.init] at h
  · simp [RegState.init]
  · intro u h; simp [RegState.init] at h
  · intro c u h; rw [init_cls_units] at h; simp at h

theorem unit_append_old (us : List UnitInfo) (x : UnitInfo) (w : Nat) (h : w < us.length) :
    (us ++ [x]).getD w default = us.getD w default := by
  simp [List.getD_eq_getElem?_getD, List.getElem?_append_left h]

theorem unit_append_new (us : List UnitInfo) (x : UnitInfo) :
    (us ++ [x]).getD us.length default = x := by
  simp [List.getD_eq_getElem?_getD]

theorem lookup_none_not_mem' {α β} [BEq α] [LawfulBEq α] (l : List (α × β)) (k : α)
    (h : l.lookup k = none) : ∀ v, (k, v) ∉ l := by
  induction l with
  | nil => simp
  | cons p rest ih =>
    obtain ⟨k', v'⟩ := p
    rw [List.lookup] at h
    by_cases hk : k = k'
    · subst hk; simp at h
    · have hne : (k == k') = false := by simpa using hk
      simp only [hne] at h
      intro v hv
      simp only [List.mem_cons, Prod.mk.injEq] at hv
      rcases hv with ⟨h1, _⟩ | hv
      · exact hk h1
      · exact ih h v hv

theorem cls_modify_units (cs : List ClassInfo) (c c' uid : Nat) (u : Nat)
    (h : u ∈ ((cs.modify c fun ci => { ci with units := ci.units ++ [uid] }).getD c' default).units) :
    u ∈ (cs.getD c' default).units ∨ (c' = c ∧ u = uid) := by
  rw [List.getD_eq_getElem?_getD, List.getElem?_modify] at h
  rw [List.getD_eq_getElem?_getD]
  by_cases hc : c = c'
  · subst hc
    simp only [↓reduceIte] at h
    cases hx : cs[c]? with
    | none => rw [hx] at h; left; simpa using h
    | some ci =>
      rw [hx] at h
      have h' : u ∈ ci.units ++ [uid] := by simpa using h
      rcases List.mem_append.mp h' with h'' | h''
      · left; simpa using h''
      · right; exact ⟨rfl, by simpa using h''⟩
  · left
    simp only [hc, ↓reduceIte] at h
    cases hx : cs[c']? with
    | none => rw [hx] at h; exact h
    | some ci => rw [hx] at h; exact h

/-- `_make_unit` preserves the directory invariants -/
theorem dirInv_makeUnit (s s' : RegState) (c : Nat) (sym : String) (defn : Option Items)
    (isRef : Bool) (uid : Nat) (h : s.makeUnit c sym defn isRef = .ok (s', uid)) (hI : DirInv s) :
    DirInv s' ∧ uid = s.units.length ∧ s'.units.length = s.units.length + 1 ∧
    (∀ w, w < s.units.length → s'.unit w = s.unit w) ∧ s'.clsMap = s.clsMap := by
  obtain ⟨huid, hunits, hsym, hcls, _, hsymMap, hnot, _, hclasses, hclsMap, _, htm, _, _⟩ :=
    makeUnit_effect s c sym defn isRef s' uid h
  have hlen : s'.units.length = s.units.length + 1 := by rw [hunits]; simp
  have hold : ∀ w, w < s.units.length → s'.unit w = s.unit w := by
    intro w hw
    unfold RegState.unit
    rw [hunits]; exact unit_append_old _ _ _ hw
  refine ⟨⟨?_, ?_, ?_, ?_, ?_⟩, huid, hlen, hold, hclsMap⟩
  · intro key w hm
    have old : (key, w) ∈ s.termMap → w < s'.units.length ∧ (s'.unit w).normDef = key := by
      intro hm'
      obtain ⟨h1, h2⟩ := hI.termMap key w hm'
      exact ⟨by omega, by rw [hold w h1]; exact h2⟩
    rcases htm with htm | htm
    · rw [htm] at hm; exact old hm
    · rw [htm, List.mem_append] at hm
      rcases hm with hm | hm
      · exact old hm
      · simp only [List.mem_singleton, Prod.mk.injEq] at hm
        obtain ⟨rfl, rfl⟩ := hm
        exact ⟨by omega, rfl⟩
  · intro sy u hm
    rw [hsymMap, List.mem_append] at hm
    rcases hm with hm | hm
    · obtain ⟨h1, h2⟩ := hI.symMap sy u hm
      exact ⟨by omega, by rw [hold u h1]; exact h2⟩
    · simp only [List.mem_singleton, Prod.mk.injEq] at hm
      obtain ⟨rfl, rfl⟩ := hm
      exact ⟨by omega, hsym⟩
  · rw [hsymMap, List.map_append, List.nodup_append]
    refine ⟨hI.symNodup, by simp, ?_⟩
    intro a ha b hb
    simp only [List.map_cons, List.map_nil, List.mem_singleton] at hb
    subst hb; intro hab; subst hab; exact hnot ha
  · intro u hu
    rw [hsymMap, List.mem_append]
    by_cases hlt : u < s.units.length
    · left; rw [hold u hlt]; exact hI.symTotal u hlt
    · right
      have : u = uid := by omega
      subst this; simp [hsym]
  · intro c' u hu
    unfold RegState.cls at hu
    rw [hclasses] at hu
    rcases cls_modify_units s.classes c c' uid u hu with h1 | ⟨rfl, rfl⟩
    · obtain ⟨h2, h3⟩ := hI.unitLists c' u h1
      exact ⟨by omega, by rw [hold u h2]; exact h3⟩
    · exact ⟨by omega, hcls⟩

end QM

namespace QM

/-- `s'` differs from `s` only in fields the invariants do not read -/
structure SameDir (s s' : RegState) : Prop where
  len : s'.units.length = s.units.length
  units : ∀ u, (s'.unit u).symbol = (s.unit u).symbol ∧ (s'.unit u).cls = (s.unit u).cls ∧
    (s'.unit u).normDef = (s.unit u).normDef
  symMap : s'.symMap = s.symMap
  termMap : s'.termMap = s.termMap
  lists : ∀ c, (s'.cls c).units = (s.cls c).units

theorem DirInv.transfer {s s' : RegState} (hI : DirInv s) (h : SameDir s s') : DirInv s' := by
  refine ⟨?_, ?_, ?_, ?_, ?_⟩
  · intro key w hm
    rw [h.termMap] at hm
    obtain ⟨h1, h2⟩ := hI.termMap key w hm
    exact ⟨by rw [h.len]; exact h1, by rw [(h.units w).2.2]; exact h2⟩
  · intro sy u hm
    rw [h.symMap] at hm
    obtain ⟨h1, h2⟩ := hI.symMap sy u hm
    exact ⟨by rw [h.len]; exact h1, by rw [(h.units u).1]; exact h2⟩
  · rw [h.symMap]; exact hI.symNodup
  · intro u hu
    rw [h.len] at hu
    rw [h.symMap, (h.units u).1]; exact hI.symTotal u hu
  · intro c u hu
    rw [h.lists c] at hu
    obtain ⟨h1, h2⟩ := hI.unitLists c u hu
    exact ⟨by rw [h.len]; exact h1, by rw [(h.units u).2.1]; exact h2⟩

/-- appending a class without units keeps the invariants -/
theorem dirInv_addClass (s : RegState) (ci : ClassInfo) (hci : ci.units = []) (hI : DirInv s) :
    DirInv { s with classes := s.classes ++ [ci] } := by
  refine ⟨hI.termMap, hI.symMap, hI.symNodup, hI.symTotal, ?_⟩
  intro c u hu
  unfold RegState.cls at hu
  simp only at hu
  by_cases hlt : c < s.classes.length
  · rw [List.getD_eq_getElem?_getD, List.getElem?_append_left hlt] at hu
    have : u ∈ (s.cls c).units := by unfold RegState.cls; rw [List.getD_eq_getElem?_getD]; exact hu
    exact hI.unitLists c u this
  · by_cases heq : c = s.classes.length
    · subst heq
      rw [List.getD_eq_getElem?_getD] at hu
      simp only [List.getElem?_append_right (le_refl _), Nat.sub_self, List.getElem?_cons_zero,
        Option.getD_some] at hu
      rw [hci] at hu; simp at hu
    · rw [List.getD_eq_getElem?_getD, List.getElem?_eq_none (by simp; omega)] at hu
      simp only [Option.getD_none] at hu
      have : (default : ClassInfo).units = [] := rfl
      rw [this] at hu; simp at hu

theorem dirInv_liftMake (s : RegState) (c : Nat) (sym : String) (defn : Option Items) (hI : DirInv s) :
    DirInv (liftMake s (s.makeUnit c sym defn false)).1 := by
  unfold liftMake
  cases h : s.makeUnit c sym defn false with
  | error e => exact hI
  | ok p => obtain ⟨s', uid⟩ := p; exact (dirInv_makeUnit s s' c sym defn false uid h hI).1

theorem dirInv_newUnit (s : RegState) (c : Nat) (sym : Option String) (d : UnitDefArg)
    (hI : DirInv s) : DirInv (s.newUnit c sym d).1 := by
  unfold RegState.newUnit
  repeat' (first | exact hI | exact dirInv_liftMake _ _ _ _ hI | split | dsimp only)

theorem dirInv_deriveUnit (s : RegState) (c : Nat) (args : List Nat) (sym : Option String)
    (hI : DirInv s) : DirInv (s.deriveUnit c args sym).1 := by
  unfold RegState.deriveUnit
  repeat' (first | exact hI | exact dirInv_liftMake _ _ _ _ hI | split | dsimp only)

theorem cls_modify_refUnit (cs : List ClassInfo) (c c' uid : Nat) :
    ((cs.modify c fun ci => { ci with refUnit := some uid }).getD c' default).units
      = (cs.getD c' default).units := by
  rw [List.getD_eq_getElem?_getD, List.getElem?_modify, List.getD_eq_getElem?_getD]
  by_cases hc : c = c'
  · subst hc
    simp only [↓reduceIte]
    cases cs[c]? <;> rfl
  · simp only [hc, ↓reduceIte]
    cases cs[c']? <;> rfl

theorem dirInv_finishClass (s s1 : RegState) (cid : Nat) (nd : Items) (sy : String)
    (defn : Option Items) (hI : DirInv s) (hI1 : DirInv s1) :
    DirInv (finishClass s cid nd (s1.makeUnit cid sy defn true)).1 := by
  unfold finishClass
  cases h : s1.makeUnit cid sy defn true with
  | error e => exact hI
  | ok p =>
    obtain ⟨s2, uid⟩ := p
    have h2 := (dirInv_makeUnit s1 s2 cid sy defn true uid h hI1).1
    apply h2.transfer
    refine ⟨rfl, fun u => ⟨rfl, rfl, rfl⟩, rfl, rfl, ?_⟩
    intro c
    unfold RegState.cls
    exact cls_modify_refUnit _ _ _ _

theorem dirInv_classSuccess (s s1 : RegState) (cid : Nat) (nd : Items) (sym : Option String)
    (rd : Option Items) (hI : DirInv s) (hI1 : DirInv s1) :
    DirInv (classSuccess s s1 cid nd sym rd).1 := by
  unfold classSuccess
  split
  · split
    · exact hI1.transfer ⟨rfl, fun u => ⟨rfl, rfl, rfl⟩, rfl, rfl, fun c => rfl⟩
    · exact dirInv_finishClass s s1 cid nd _ rd hI hI1
  · exact hI1.transfer ⟨rfl, fun u => ⟨rfl, rfl, rfl⟩, rfl, rfl, fun c => rfl⟩

theorem dirInv_declClass (s : RegState) (d : ClassDecl) (hI : DirInv s) :
    DirInv (s.declClass d).1 := by
  unfold RegState.declClass
  repeat' (first
    | exact hI
    | exact dirInv_classSuccess _ _ _ _ _ _ hI (dirInv_addClass _ _ rfl hI)
    | split | dsimp only)

theorem dirInv_finishCurrency (s : RegState) (r : RegState × Except DeclErr Nat) (frac : Rat)
    (hI : DirInv s) (hr : DirInv r.1) : DirInv (finishCurrency s r frac).1 := by
  unfold finishCurrency
  obtain ⟨s', x⟩ := r
  cases x with
  | error e => exact hI
  | ok uid =>
    apply DirInv.transfer hr
    refine ⟨by simp, ?_, rfl, rfl, fun c => rfl⟩
    intro u
    unfold RegState.unit
    simp only [List.getD_eq_getElem?_getD, List.getElem?_modify]
    by_cases hu : uid = u
    · subst hu
      simp only [↓reduceIte]
      cases s'.units[uid]? <;> exact ⟨rfl, rfl, rfl⟩
    · simp only [hu, ↓reduceIte]
      cases s'.units[u]? <;> exact ⟨rfl, rfl, rfl⟩

theorem dirInv_newCurrency (s : RegState) (mc : Nat) (sym : Option String) (mi : MinorArg)
    (sf : SfArg) (hI : DirInv s) : DirInv (s.newCurrency mc sym mi sf).1 := by
  unfold RegState.newCurrency
  repeat' (first
    | exact hI
    | exact dirInv_finishCurrency _ _ _ hI (dirInv_newUnit _ _ _ _ hI)
    | split | dsimp only)

/-- every way a declaration can change the registry -/
inductive Decl where
  | cls (d : ClassDecl)
  | newUnit (c : Nat) (sym : Option String) (d : UnitDefArg)
  | derive (c : Nat) (args : List Nat) (sym : Option String)
  | currency (mc : Nat) (sym : Option String) (mi : MinorArg) (sf : SfArg)

def RegState.applyDecl (s : RegState) : Decl → RegState
  | .cls d => (s.declClass d).1
  | .newUnit c sym d => (s.newUnit c sym d).1
  | .derive c args sym => (s.deriveUnit c args sym).1
  | .currency mc sym mi sf => (s.newCurrency mc sym mi sf).1

/-- states reachable from `import quantity` by any sequence of declarations,
valid or rejected -/
inductive Reachable : RegState → Prop where
  | init : Reachable RegState.init
  | step (s : RegState) (d : Decl) : Reachable s → Reachable (s.applyDecl d)

/-- the invariants hold in every reachable state -/
theorem reachable_dirInv {s : RegState} (h : Reachable s) : DirInv s := by
  induction h with
  | init => exact dirInv_init
  | step s d _ ih =>
    cases d with
    | cls d => exact dirInv_declClass s d ih
    | newUnit c sym d => exact dirInv_newUnit s c sym d ih
    | derive c args sym => exact dirInv_deriveUnit s c args sym ih
    | currency mc sym mi sf => exact dirInv_newCurrency s mc sym mi sf ih

end QM
