/-
Every history: states reached by ANY interleaving of declarations (valid or
rejected) and unit operations.  The operation cache only ever holds entries
that name existing units and have the value of the operation they stand for
under the stored scales — an invariant of declarations (which add units and
leave the cache and the old scales alone) and of operations (which add sound
entries).  With it the cache hypothesis of the C17 theorems disappears.
-/
import QuantityModel.Proofs.Scale
import QuantityModel.Proofs.UnitOps
namespace QM
open QM.QState

/-- cached entries name existing units -/
def CacheBounded (s : RegState) : Prop :=
  ∀ op u v f w, ((op, u, v), (f, w)) ∈ s.opCache →
    u < s.units.length ∧ v < s.units.length ∧ ∀ w', w = some w' → w' < s.units.length

/-- `s'` extends `s`: same cache, old units keep their scales -/
structure Extends (s s' : RegState) : Prop where
  cache : s'.opCache = s.opCache
  len : s.units.length ≤ s'.units.length
  nu : ∀ w, w < s.units.length → s'.nu w = s.nu w

theorem Extends.refl (s : RegState) : Extends s s := ⟨rfl, le_refl _, fun _ _ => rfl⟩

theorem Extends.trans {a b c : RegState} (h1 : Extends a b) (h2 : Extends b c) : Extends a c :=
  ⟨h2.cache.trans h1.cache, le_trans h1.len h2.len,
   fun w hw => (h2.nu w (lt_of_lt_of_le hw h1.len)).trans (h1.nu w hw)⟩

/-- a state that differs in neither units nor cache -/
theorem Extends.of_same {s s' : RegState} (hu : s'.units = s.units) (hc : s'.opCache = s.opCache) :
    Extends s s' :=
  ⟨hc, by rw [hu], fun w _ => by unfold RegState.nu RegState.unit; rw [hu]⟩

theorem extends_makeUnit (s s' : RegState) (c : Nat) (sym : String) (defn : Option Items)
    (isRef : Bool) (uid : Nat) (h : s.makeUnit c sym defn isRef = .ok (s', uid)) : Extends s s' := by
  obtain ⟨_, hunits, _, _, _, _, _, _, _, _, hcache, _⟩ := makeUnit_effect s c sym defn isRef s' uid h
  refine ⟨hcache, by rw [hunits]; simp, ?_⟩
  intro w hw
  have : s'.unit w = s.unit w := by
    unfold RegState.unit; rw [hunits]; exact unit_append_old _ _ _ hw
  unfold RegState.nu; rw [this]

theorem extends_liftMake (s : RegState) (r : Except DeclErr (RegState × Nat))
    (hr : ∀ s' uid, r = .ok (s', uid) → Extends s s') : Extends s (liftMake s r).1 := by
  unfold liftMake
  cases r with
  | error e => exact Extends.refl s
  | ok p => obtain ⟨s', uid⟩ := p; exact hr s' uid rfl

theorem extends_newUnit (s : RegState) (c : Nat) (sym : Option String) (d : UnitDefArg) :
    Extends s (s.newUnit c sym d).1 := by
  unfold RegState.newUnit
  repeat' (first
    | exact Extends.refl s
    | exact extends_liftMake s _ (fun s' uid h => extends_makeUnit s s' _ _ _ _ uid h)
    | split)

theorem extends_deriveUnit (s : RegState) (c : Nat) (args : List Nat) (sym : Option String) :
    Extends s (s.deriveUnit c args sym).1 := by
  unfold RegState.deriveUnit
  repeat' (first
    | exact Extends.refl s
    | exact extends_liftMake s _ (fun s' uid h => extends_makeUnit s s' _ _ _ _ uid h)
    | split | dsimp only)

theorem extends_classSuccess (s s1 : RegState) (cid : Nat) (normDef : Items) (sym : Option String)
    (refUnitDef : Option Items) (h1 : Extends s s1) :
    Extends s (classSuccess s s1 cid normDef sym refUnitDef).1 := by
  unfold classSuccess
  split
  · split
    · exact h1.trans (Extends.of_same rfl rfl)
    · unfold finishClass
      cases h : s1.makeUnit cid _ refUnitDef true with
      | error e => exact Extends.refl s
      | ok p =>
        obtain ⟨s2, uid⟩ := p
        exact (h1.trans (extends_makeUnit s1 s2 _ _ _ _ uid h)).trans (Extends.of_same rfl rfl)
  · exact h1.trans (Extends.of_same rfl rfl)

theorem extends_declClass (s : RegState) (d : ClassDecl) : Extends s (s.declClass d).1 := by
  unfold RegState.declClass
  repeat' (first
    | exact Extends.refl s
    | exact extends_classSuccess s _ _ _ _ _ (Extends.of_same rfl rfl)
    | split | dsimp only)

theorem extends_finishCurrency (s : RegState) (r : RegState × Except DeclErr Nat) (frac : Rat)
    (hr : Extends s r.1) : Extends s (finishCurrency s r frac).1 := by
  unfold finishCurrency
  obtain ⟨s', res⟩ := r
  cases res with
  | error e => exact Extends.refl s
  | ok uid =>
    simp only
    refine hr.trans ⟨rfl, by simp, ?_⟩
    intro w _
    unfold RegState.nu RegState.unit
    simp only [List.getD_eq_getElem?_getD, List.getElem?_modify]
    by_cases hc : uid = w
    · subst hc
      simp only [↓reduceIte]
      cases s'.units[uid]? <;> rfl
    · simp only [hc, ↓reduceIte, id_map']

theorem extends_newCurrency (s : RegState) (mc : Nat) (sym : Option String) (mi : MinorArg)
    (sf : SfArg) : Extends s (s.newCurrency mc sym mi sf).1 := by
  unfold RegState.newCurrency
  repeat' (first
    | exact Extends.refl s
    | exact extends_finishCurrency s _ _ (extends_newUnit s mc sym .none)
    | split | dsimp only)

theorem extends_applyDecl (s : RegState) (d : Decl) : Extends s (s.applyDecl d) := by
  cases d with
  | cls d => exact extends_declClass s d
  | newUnit c sym d => exact extends_newUnit s c sym d
  | derive c args sym => exact extends_deriveUnit s c args sym
  | currency mc sym mi sf => exact extends_newCurrency s mc sym mi sf

/-- declarations keep the cache bounded and sound for the stored scales -/
theorem cache_after_decl {s s' : RegState} (h : Extends s s') (hB : CacheBounded s)
    (hC : CacheSound s s.nu) : CacheBounded s' ∧ CacheSound s' s'.nu := by
  constructor
  · intro op u v f w hm
    rw [h.cache] at hm
    obtain ⟨a, b, c⟩ := hB op u v f w hm
    exact ⟨lt_of_lt_of_le a h.len, lt_of_lt_of_le b h.len, fun w' hw => lt_of_lt_of_le (c w' hw) h.len⟩
  · intro op u v f w hm
    rw [h.cache] at hm
    obtain ⟨a, b, c⟩ := hB op u v f w hm
    have hv := hC op u v f w hm
    have ew : optVal s'.nu w = optVal s.nu w := by
      cases w with
      | none => rfl
      | some w' => exact h.nu w' (c w' rfl)
    rw [ew, h.nu u a, h.nu v b]
    exact hv

/-- a resolved unit is an existing unit -/
theorem amntAndUnit_unit_lt (s : RegState) (hD : DirInv s) (t : Items) (f : ℚ) (w : Nat)
    (h : s.amntAndUnit t = some (f, some w)) : w < s.units.length := by
  have key : ∀ t' u, s.unitFromTerm t' = some u → u < s.units.length := by
    intro t' u hu
    unfold RegState.unitFromTerm at hu
    exact (hD.termMap _ _ (lookup_mem _ _ _ hu)).1
  unfold RegState.amntAndUnit at h
  split at h
  · rename_i u hu
    simp only [Option.some.injEq, Prod.mk.injEq] at h
    rw [← h.2]; exact key _ _ hu
  · simp only at h
    split at h
    · simp at h
    · split at h
      · split at h
        · rename_i u hu
          simp only [Option.some.injEq, Prod.mk.injEq] at h
          rw [← h.2]; exact key _ _ hu
        · simp at h
      · simp at h

theorem mulUnits_units (s : QState) (u v : Nat) :
    (s.mulUnits u v).1.reg.units = s.reg.units := by
  unfold QState.mulUnits
  split
  · rfl
  · simp only; split <;> rfl

theorem divUnits_units (s : QState) (u v : Nat) :
    (s.divUnits u v).1.reg.units = s.reg.units := by
  unfold QState.divUnits
  split
  · rfl
  · simp only; split <;> rfl

theorem nu_of_units {a b : RegState} (h : a.units = b.units) : a.nu = b.nu := by
  funext w; unfold RegState.nu RegState.unit; rw [h]

theorem cacheBounded_mul (s : QState) (hD : DirInv s.reg) (hB : CacheBounded s.reg) (u v : Nat)
    (hu : u < s.reg.units.length) (hv : v < s.reg.units.length) :
    CacheBounded (s.mulUnits u v).1.reg := by
  unfold QState.mulUnits
  split
  · exact hB
  · simp only
    split
    · exact hB
    · rename_i r hr
      intro op a b f w hm
      simp only [List.mem_append, List.mem_singleton, Prod.mk.injEq] at hm
      rcases hm with hm | ⟨⟨_, rfl, rfl⟩, hfw⟩
      · exact hB op a b f w hm
      · refine ⟨hu, hv, ?_⟩
        intro w' hw
        subst hw
        rw [← hfw] at hr
        exact amntAndUnit_unit_lt s.reg hD _ f w' hr

theorem cacheBounded_div (s : QState) (hD : DirInv s.reg) (hB : CacheBounded s.reg) (u v : Nat)
    (hu : u < s.reg.units.length) (hv : v < s.reg.units.length) :
    CacheBounded (s.divUnits u v).1.reg := by
  unfold QState.divUnits
  split
  · exact hB
  · simp only
    split
    · exact hB
    · rename_i r hr
      intro op a b f w hm
      simp only [List.mem_append, List.mem_singleton, Prod.mk.injEq] at hm
      rcases hm with hm | ⟨⟨_, rfl, rfl⟩, hfw⟩
      · exact hB op a b f w hm
      · refine ⟨hu, hv, ?_⟩
        intro w' hw
        subst hw
        rw [← hfw] at hr
        split at hr
        · split at hr
          · simp at hr
          · split at hr
            · simp at hr
            · simp at hr
        · split at hr
          · simp at hr
          · rename_i r' hr'
            simp only [Except.ok.injEq] at hr
            rw [hr] at hr'
            exact amntAndUnit_unit_lt s.reg hD _ f w' hr'

/-! ### all histories -/

/-- states reached from `import quantity` by declarations (well-formed
arguments; valid or rejected) and unit products / quotients, interleaved in
any order -/
inductive ReachableQ : QState → Prop where
  | init : ReachableQ { reg := RegState.init }
  | decl (s : QState) (d : Decl) : ReachableQ s → d.WF s.reg →
      ReachableQ { s with reg := s.reg.applyDecl d }
  | mul (s : QState) (u v : Nat) : ReachableQ s → u < s.reg.units.length →
      v < s.reg.units.length → ReachableQ (s.mulUnits u v).1
  | div (s : QState) (u v : Nat) : ReachableQ s → u < s.reg.units.length →
      v < s.reg.units.length →
      (s.reg.unitCls u = s.reg.unitCls v → (s.reg.cls (s.reg.unitCls u)).refUnit.isSome = true) →
      ReachableQ (s.divUnits u v).1

theorem mulUnits_reg_eq (s : QState) (u v : Nat) :
    (s.mulUnits u v).1.reg = s.reg ∨
    ∃ r, (s.mulUnits u v).1.reg = { s.reg with opCache := s.reg.opCache ++ [((UOp.mul, u, v), r)] } := by
  unfold QState.mulUnits
  split
  · left; rfl
  · simp only
    split
    · left; rfl
    · right; exact ⟨_, rfl⟩

theorem divUnits_reg_eq (s : QState) (u v : Nat) :
    (s.divUnits u v).1.reg = s.reg ∨
    ∃ r, (s.divUnits u v).1.reg = { s.reg with opCache := s.reg.opCache ++ [((UOp.div, u, v), r)] } := by
  unfold QState.divUnits
  split
  · left; rfl
  · simp only
    split
    · left; rfl
    · right; exact ⟨_, rfl⟩

/-- the registry part of a state with another cache is reachable by the same
declarations: `ReachableWF` does not read the cache -/
structure SameButCache (a b : RegState) : Prop where
  classes : a.classes = b.classes
  units : a.units = b.units
  symMap : a.symMap = b.symMap
  termMap : a.termMap = b.termMap
  clsMap : a.clsMap = b.clsMap

/-- the invariants that carry the C17 statements hold in every reachable state -/
structure HistInv (s : QState) : Prop where
  dir : DirInv s.reg
  scale : ScaleInv s.reg
  bounded : CacheBounded s.reg
  sound : CacheSound s.reg s.reg.nu

theorem dirInv_of_cache {s : RegState} (c : List ((UOp × Nat × Nat) × (ℚ × Option Nat)))
    (h : DirInv s) : DirInv { s with opCache := c } :=
  ⟨h.termMap, h.symMap, h.symNodup, h.symTotal, h.unitLists⟩

theorem scaleInv_of_cache {s : RegState} (c : List ((UOp × Nat × Nat) × (ℚ × Option Nat)))
    (h : ScaleInv s) : ScaleInv { s with opCache := c } :=
  ⟨h.nz, h.base, h.derived, h.refs⟩

theorem dirInv_applyDecl (s : RegState) (d : Decl) (h : DirInv s) : DirInv (s.applyDecl d) := by
  cases d with
  | cls d => exact dirInv_declClass s d h
  | newUnit c sym d => exact dirInv_newUnit s c sym d h
  | derive c args sym => exact dirInv_deriveUnit s c args sym h
  | currency mc sym mi sf => exact dirInv_newCurrency s mc sym mi sf h

theorem scaleInv_applyDecl (s : RegState) (d : Decl) (h : ScaleInv s) (hwf : d.WF s) :
    ScaleInv (s.applyDecl d) := by
  cases d with
  | cls d => exact scaleInv_declClass s d h
  | newUnit c sym d => exact scaleInv_newUnit s c sym d h hwf
  | derive c args sym => exact scaleInv_deriveUnit s c args sym h hwf
  | currency mc sym mi sf => exact scaleInv_newCurrency s mc sym mi sf h

/-- **the invariants hold after every history** -/
theorem reachableQ_histInv {s : QState} (h : ReachableQ s) : HistInv s := by
  induction h with
  | init =>
    refine ⟨dirInv_init, scaleInv_init, ?_, ?_⟩
    · intro op u v f w hm; simp [RegState.init] at hm
    · intro op u v f w hm; simp [RegState.init] at hm
  | decl s d _ hwf ih =>
    obtain ⟨hb, hc⟩ := cache_after_decl (extends_applyDecl s.reg d) ih.bounded ih.sound
    exact ⟨dirInv_applyDecl s.reg d ih.dir, scaleInv_applyDecl s.reg d ih.scale hwf, hb, hc⟩
  | mul s u v _ hu hv ih =>
    have hA := admissible_nu s.reg ih.scale
    have hsound := (mulUnits_sound s s.reg.nu hA ih.dir.termMapSound ih.sound u v).2
    rw [← nu_of_units (mulUnits_units s u v)] at hsound
    refine ⟨?_, ?_, cacheBounded_mul s ih.dir ih.bounded u v hu hv, hsound⟩
    · rcases mulUnits_reg_eq s u v with h | ⟨r, h⟩
      · rw [h]; exact ih.dir
      · rw [h]; exact dirInv_of_cache _ ih.dir
    · rcases mulUnits_reg_eq s u v with h | ⟨r, h⟩
      · rw [h]; exact ih.scale
      · rw [h]; exact scaleInv_of_cache _ ih.scale
  | div s u v _ hu hv href ih =>
    have hA := admissible_nu s.reg ih.scale
    have hsound := (divUnits_sound s s.reg.nu hA ih.dir.termMapSound ih.sound u v href).2
    rw [← nu_of_units (divUnits_units s u v)] at hsound
    refine ⟨?_, ?_, cacheBounded_div s ih.dir ih.bounded u v hu hv, hsound⟩
    · rcases divUnits_reg_eq s u v with h | ⟨r, h⟩
      · rw [h]; exact ih.dir
      · rw [h]; exact dirInv_of_cache _ ih.dir
    · rcases divUnits_reg_eq s u v with h | ⟨r, h⟩
      · rw [h]; exact ih.scale
      · rw [h]; exact scaleInv_of_cache _ ih.scale

end QM
