/-
The magnitude ⌊log10 x⌋ of the exchange-rate model is what its name says:
`10 ^ magnitude x ≤ x < 10 ^ (magnitude x + 1)` for every positive `x` within
the fuel of the two search loops (`10⁻⁴⁰⁰⁰ ≤ x < 10⁴⁰⁰⁰`).
-/
import QuantityModel.Model.Rate
import Mathlib.Tactic.Ring
import Mathlib.Tactic.Linarith
import Mathlib.Tactic.Positivity
import Mathlib.Tactic.FieldSimp
import Mathlib.Data.Rat.Floor
namespace QM

theorem ilog10Nat_spec (fuel n : Nat) (h1 : 1 ≤ n) (hf : n < 10 ^ fuel) :
    10 ^ ilog10Nat fuel n ≤ n ∧ n < 10 ^ (ilog10Nat fuel n + 1) := by
  induction fuel generalizing n with
  | zero => simp at hf; omega
  | succ f ih =>
    unfold ilog10Nat
    by_cases h : n < 10
    · simp only [h, ↓reduceIte]
      exact ⟨by simpa using h1, by simpa using h⟩
    · simp only [h, ↓reduceIte]
      have h2 : 1 ≤ n / 10 := by omega
      have h3 : n / 10 < 10 ^ f := by
        rw [pow_succ] at hf; omega
      obtain ⟨a, b⟩ := ih (n / 10) h2 h3
      rw [pow_succ] at b
      rw [pow_succ, pow_succ (10) (ilog10Nat f (n / 10) + 1), pow_succ]
      generalize 10 ^ ilog10Nat f (n / 10) = P at a b ⊢
      omega

theorem magGo_spec (fuel k : Nat) (y : ℚ) (h0 : 0 < y) (h1 : y < 1) (hf : 1 ≤ y * 10 ^ fuel) :
    ∃ j : Nat, magnitude.go fuel k y = -((k : ℤ) + j + 1) ∧
      1 ≤ y * 10 ^ (j + 1) ∧ y * 10 ^ (j + 1) < 10 := by
  induction fuel generalizing k y with
  | zero => simp at hf; linarith
  | succ f ih =>
    unfold magnitude.go
    by_cases h : y * 10 ≥ 1
    · refine ⟨0, ?_, ?_, ?_⟩
      · simp [h]
      · simpa using h
      · simp only [zero_add, pow_one]; linarith
    · simp only [h, ↓reduceIte]
      have h' : y * 10 < 1 := not_le.mp h
      have hf' : 1 ≤ y * 10 * 10 ^ f := by rw [pow_succ] at hf; linarith
      obtain ⟨j, e, a, b⟩ := ih (k + 1) (y * 10) (by positivity) h' hf'
      refine ⟨j + 1, ?_, ?_, ?_⟩
      · rw [e]; push_cast; ring
      · rw [pow_succ]; linarith [a, (show y * 10 * 10 ^ (j + 1) = y * (10 ^ (j + 1) * 10) by ring)]
      · rw [pow_succ]; linarith [b, (show y * 10 * 10 ^ (j + 1) = y * (10 ^ (j + 1) * 10) by ring)]

theorem floor_nat_bounds (x : ℚ) (h : 1 ≤ x) :
    ((x.num.toNat / x.den : Nat) : ℚ) ≤ x ∧ x < ((x.num.toNat / x.den : Nat) : ℚ) + 1 := by
  have hnum : 0 ≤ x.num := by
    have : 0 < x := by linarith
    exact le_of_lt (Rat.num_pos.mpr this)
  have hd : (0 : ℚ) < x.den := by exact_mod_cast x.den_pos
  have h2 : ((x.num.toNat : ℕ) : ℚ) = (x.num : ℚ) := by
    have := Int.toNat_of_nonneg hnum
    exact_mod_cast congrArg (fun z : ℤ => (z : ℚ)) this
  have hx : x = (x.num.toNat : ℚ) / x.den := by rw [h2]; exact (Rat.num_div_den x).symm
  set a := x.num.toNat
  set d := x.den
  have hdn : 0 < d := x.den_pos
  constructor
  · rw [hx, le_div_iff₀ hd]
    exact_mod_cast Nat.div_mul_le_self a d
  · rw [hx, div_lt_iff₀ hd]
    have := Nat.lt_mul_div_succ a hdn
    have h3 : ((a / d : Nat) : ℚ) + 1 = ((a / d + 1 : Nat) : ℚ) := by push_cast; ring
    rw [h3]
    exact_mod_cast (by rw [Nat.mul_comm]; exact this : a < (a / d + 1) * d)

/-- **the magnitude is ⌊log10 x⌋** -/
theorem magnitude_spec (x : ℚ) (h0 : 0 < x) (hlo : 1 ≤ x * 10 ^ 4000) (hhi : x < 10 ^ 4000) :
    rpow 10 (magnitude x) ≤ x ∧ x < rpow 10 (magnitude x + 1) := by
  unfold magnitude
  by_cases h : x ≥ 1
  · simp only [h, ↓reduceIte]
    obtain ⟨fl, fu⟩ := floor_nat_bounds x h
    set n := x.num.toNat / x.den with hn
    have hn1 : 1 ≤ n := by
      have : (0 : ℚ) < (n : ℚ) + 1 - 0 := by linarith
      by_contra hc
      have : n = 0 := Nat.lt_one_iff.mp (not_le.mp hc)
      rw [this] at fu; simp at fu; linarith
    have hnf : n < 10 ^ 4000 := by
      have : (n : ℚ) < 10 ^ 4000 := lt_of_le_of_lt fl hhi
      exact_mod_cast this
    obtain ⟨a, b⟩ := ilog10Nat_spec 4000 n hn1 hnf
    have e1 : (0 : ℤ) ≤ (ilog10Nat 4000 n : ℤ) := Int.natCast_nonneg _
    have e2 : (0 : ℤ) ≤ (ilog10Nat 4000 n : ℤ) + 1 := by omega
    unfold rpow
    simp only [e1, e2, ↓reduceIte, Int.toNat_natCast]
    have e3 : ((ilog10Nat 4000 n : ℤ) + 1).toNat = ilog10Nat 4000 n + 1 := by omega
    rw [e3]
    constructor
    · have : ((10 ^ ilog10Nat 4000 n : Nat) : ℚ) ≤ (n : ℚ) := by exact_mod_cast a
      push_cast at this; linarith
    · have : ((n + 1 : Nat) : ℚ) ≤ ((10 ^ (ilog10Nat 4000 n + 1) : Nat) : ℚ) := by
        exact_mod_cast b
      push_cast at this; linarith
  · simp only [h, ↓reduceIte]
    have h1 : x < 1 := not_le.mp h
    obtain ⟨j, e, a, b⟩ := magGo_spec 4000 0 x h0 h1 hlo
    rw [e]
    have e1 : ¬ (0 : ℤ) ≤ -(((0 : Nat) : ℤ) + (j : ℤ) + 1) := by omega
    unfold rpow
    simp only [e1, ↓reduceIte]
    have e2 : (- -(((0 : Nat) : ℤ) + (j : ℤ) + 1)).toNat = j + 1 := by omega
    rw [e2]
    have hp : (0 : ℚ) < 10 ^ (j + 1) := by positivity
    constructor
    · rw [inv_le_comm₀ hp h0, ← one_div, div_le_iff₀ h0]
      linarith [mul_comm x ((10:ℚ) ^ (j + 1))]
    · by_cases hj : j = 0
      · subst hj; simp [h1]
      · have e3 : ¬ (0 : ℤ) ≤ -(((0 : Nat) : ℤ) + (j : ℤ) + 1) + 1 := by omega
        simp only [e3, ↓reduceIte]
        have e4 : (-(-(((0 : Nat) : ℤ) + (j : ℤ) + 1) + 1)).toNat = j := by omega
        rw [e4]
        have hq : (0 : ℚ) < 10 ^ j := by positivity
        rw [lt_inv_comm₀ h0 hq, ← one_div, lt_div_iff₀ h0]
        have : x * 10 ^ (j + 1) = (10 ^ j * x) * 10 := by rw [pow_succ]; ring
        rw [this] at b
        linarith

end QM
