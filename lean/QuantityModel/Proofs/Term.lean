/-
Denotational correctness of the Term model: every path of `_reduce_items`,
normalisation and the group operations preserve the denoted value under every
valuation of the elements that respects convertibility and definitions.
-/
import QuantityModel.Model.Term
import Mathlib.Algebra.Order.Field.Rat
import Mathlib.Algebra.BigOperators.Group.List.Basic
import Mathlib.Algebra.GroupWithZero.Basic
import Mathlib.Tactic.Ring
import Mathlib.Tactic.FieldSimp
import Mathlib.Tactic.Linarith
namespace QM

/-- value of an element under a valuation of the atoms -/
def evalElem (ν : Nat → ℚ) : Elem → ℚ
  | .num q => q
  | .atom a => ν a

/-- denoted value of an item list: `∏ elemᵢ ^ expᵢ` -/
def den (ν : Nat → ℚ) (items : Items) : ℚ :=
  (items.map fun it => evalElem ν it.1 ^ it.2).prod

/-- a valuation is admissible when no atom is worth zero ... -/
def NonZero (ν : Nat → ℚ) : Prop := ∀ a, ν a ≠ 0
/-- ... convertible atoms are related by their conversion factor ... -/
def Respects (env : Env) (ν : Nat → ℚ) : Prop :=
  ∀ a b f, getFactor env a b = some f → ν a = f * ν b
/-- ... and a derived atom is worth what its normalised definition denotes. -/
def RespectsDefs (env : Env) (ν : Nat → ℚ) : Prop :=
  ∀ a, (env.info a).isBase = false → ν a = den ν (env.info a).normDef

theorem rpow_eq_zpow (q : ℚ) (e : ℤ) : rpow q e = q ^ e := by
  unfold rpow
  split
  · rename_i h
    conv_rhs => rw [← Int.toNat_of_nonneg h]
    rw [zpow_natCast]
  · rename_i h
    have h' : 0 ≤ -e := by omega
    have : e = -((-e).toNat : ℤ) := by rw [Int.toNat_of_nonneg h']; ring
    conv_rhs => rw [this]
    rw [zpow_neg, zpow_natCast]

@[simp] theorem den_nil (ν) : den ν [] = 1 := rfl
@[simp] theorem den_cons (ν) (it : Item) (l : Items) :
    den ν (it :: l) = evalElem ν it.1 ^ it.2 * den ν l := by
  simp [den]
theorem den_append (ν) (l₁ l₂ : Items) : den ν (l₁ ++ l₂) = den ν l₁ * den ν l₂ := by
  simp [den]

theorem den_perm (ν) {l₁ l₂ : Items} (h : l₁.Perm l₂) : den ν l₁ = den ν l₂ := by
  unfold den; exact (h.map _).prod_eq

theorem den_filter (ν) (items : Items) : den ν (filterItems items) = den ν items := by
  induction items with
  | nil => rfl
  | cons it rest ih =>
    obtain ⟨el, e⟩ := it
    unfold filterItems at *
    simp only [List.filter_cons]
    split
    · simp [ih]
    · rename_i h
      simp only [Bool.and_eq_true, bne_iff_ne, ne_eq, not_and, not_not] at h
      rw [ih, den_cons]
      by_cases he : e = 0
      · simp [he]
      · have := h he
        simp only [this, evalElem, one_zpow, one_mul]

theorem den_reciprocal (ν) (items : Items) : den ν (reciprocalItems items) = (den ν items)⁻¹ := by
  induction items with
  | nil => simp [reciprocalItems]
  | cons it rest ih =>
    unfold reciprocalItems at *
    simp only [List.map_cons, den_cons, ih, zpow_neg, mul_inv]

theorem den_atomItems_cons (ν) (p : Nat × Int) (l) :
    den ν (atomItems (p :: l)) = ν p.1 ^ p.2 * den ν (atomItems l) := by
  simp [atomItems, evalElem]

theorem den_atomItems_append (ν) (l₁ l₂ : List (Nat × Int)) :
    den ν (atomItems (l₁ ++ l₂)) = den ν (atomItems l₁) * den ν (atomItems l₂) := by
  simp [atomItems, den_append]

theorem den_atomItems_filter (ν) (l : List (Nat × Int)) :
    den ν (atomItems (l.filter fun p => p.2 != 0)) = den ν (atomItems l) := by
  induction l with
  | nil => rfl
  | cons p rest ih =>
    simp only [List.filter_cons]
    split
    · rw [den_atomItems_cons, den_atomItems_cons, ih]
    · rename_i h
      simp only [bne_iff_ne, ne_eq, not_not] at h
      rw [den_atomItems_cons, ih, h]; simp

/-- merging one item into its group preserves the value -/
theorem den_mergeInto (env : Env) (ν) (hν : NonZero ν) (hr : Respects env ν)
    (a₂ : Nat) (e₂ : Int) (acc : List (Nat × Int)) :
    den ν (atomItems (mergeInto env a₂ e₂ acc).1) * (mergeInto env a₂ e₂ acc).2
      = den ν (atomItems acc) * ν a₂ ^ e₂ := by
  induction acc with
  | nil => simp [mergeInto, atomItems, evalElem]
  | cons p rest ih =>
    obtain ⟨a₁, e₁⟩ := p
    unfold mergeInto
    split
    · rename_i h
      subst h
      simp only [den_atomItems_cons, mul_one]
      rw [zpow_add₀ (hν a₁)]; ring
    · split
      · rename_i conv hc
        have := hr a₂ a₁ conv hc
        simp only [den_atomItems_cons, rpow_eq_zpow]
        rw [zpow_add₀ (hν a₁), this, mul_zpow]; ring
      · simp only [den_atomItems_cons]
        rw [mul_assoc, ih]; ring

theorem insertKeyed'_perm (x : Int × Item) (l : List (Int × Item)) :
    (sortKeyed.insertKeyed' x l).Perm (x :: l) := by
  induction l with
  | nil => simp [sortKeyed.insertKeyed']
  | cons y ys ih =>
    unfold sortKeyed.insertKeyed'
    split
    · exact List.Perm.refl _
    · exact (List.Perm.cons y ih).trans (List.Perm.swap x y ys)

theorem sortKeyed_perm (l : List (Int × Item)) : (sortKeyed l).Perm l := by
  induction l with
  | nil => simp [sortKeyed]
  | cons x xs ih =>
    unfold sortKeyed
    exact (insertKeyed'_perm x _).trans (List.Perm.cons x ih)

theorem firstIdxKeys_snd (env : Env) (items : Items) (idx : Nat) (seen) :
    (firstIdxKeys env items idx seen).map Prod.snd = items := by
  induction items generalizing idx seen with
  | nil => rfl
  | cons it rest ih =>
    unfold firstIdxKeys
    simp only
    split <;> simp [ih]

theorem attachKeys_snd (env : Env) (items : Items) (keep : Bool) :
    (attachKeys env items keep).map Prod.snd = items := by
  unfold attachKeys
  split
  · exact firstIdxKeys_snd ..
  · simp [List.map_map, Function.comp_def]

/-- value carried by the state of the sequential pass -/
def RState.val (ν : Nat → ℚ) (s : RState) : ℚ :=
  s.num * den ν (atomItems s.done) * den ν (atomItems s.cur)

theorem den_closeGroup (ν) (s : RState) :
    den ν (atomItems (closeGroup s)) = den ν (atomItems s.done) * den ν (atomItems s.cur) := by
  unfold closeGroup
  rw [den_atomItems_append, den_atomItems_filter]

theorem reduceStep_val (env : Env) (ν) (hν : NonZero ν) (hr : Respects env ν)
    (s : RState) (x : Int × Item) :
    (reduceStep env s x).val ν = s.val ν * evalElem ν x.2.1 ^ x.2.2 := by
  obtain ⟨k, el, e⟩ := x
  unfold reduceStep
  cases el with
  | num q => simp only [RState.val, rpow_eq_zpow, evalElem]; ring
  | atom a =>
    simp only
    split
    · have := den_mergeInto env ν hν hr a e s.cur
      simp only [RState.val, evalElem]
      calc s.num * (mergeInto env a e s.cur).2 * den ν (atomItems s.done)
              * den ν (atomItems (mergeInto env a e s.cur).1)
          = s.num * den ν (atomItems s.done)
              * (den ν (atomItems (mergeInto env a e s.cur).1) * (mergeInto env a e s.cur).2) := by ring
        _ = _ := by rw [this]; ring
    · have hc := den_closeGroup ν s
      simp only [RState.val, evalElem, hc, den_atomItems_cons]
      simp only [atomItems, List.map_nil, den_nil]
      ring

theorem foldl_reduceStep_val (env : Env) (ν) (hν : NonZero ν) (hr : Respects env ν)
    (l : List (Int × Item)) (s : RState) :
    (l.foldl (reduceStep env) s).val ν = s.val ν * den ν (l.map Prod.snd) := by
  induction l generalizing s with
  | nil => simp
  | cons x xs ih =>
    rw [List.foldl_cons, ih, reduceStep_val env ν hν hr]
    simp only [List.map_cons, den_cons]; ring

/-- the general path of `_reduce_items` preserves the denoted value -/
theorem den_reduceGeneral (env : Env) (ν) (hν : NonZero ν) (hr : Respects env ν)
    (items : Items) (keep : Bool) :
    den ν (reduceGeneral env items keep) = den ν items := by
  unfold reduceGeneral
  have hperm := sortKeyed_perm (attachKeys env items keep)
  have hval := foldl_reduceStep_val env ν hν hr (sortKeyed (attachKeys env items keep))
    { num := 1, done := [], curKey := 0, cur := [] }
  have hsnd : den ν ((sortKeyed (attachKeys env items keep)).map Prod.snd) = den ν items := by
    rw [den_perm ν (hperm.map Prod.snd), attachKeys_snd]
  simp only [RState.val, atomItems, List.map_nil, den_nil, mul_one, one_mul] at hval
  simp only
  generalize (sortKeyed (attachKeys env items keep)).foldl (reduceStep env)
    { num := 1, done := [], curKey := 0, cur := [] } = s at *
  have hcl := den_closeGroup ν s
  split
  · rw [den_cons, hcl]; simp only [evalElem, zpow_one]
    rw [← hsnd, ← hval]; simp only [atomItems]; ring
  · rename_i h
    simp only [bne_iff_ne, ne_eq, not_not] at h
    rw [hcl, ← hsnd, ← hval, h]; simp only [atomItems]; ring

/-- `_reduce_items` preserves the denoted value on every path (all `n_items`
shortcuts, both `keep_item_order` modes). -/
theorem den_reduceItems (env : Env) (ν) (hν : NonZero ν) (hr : Respects env ν)
    (items : Items) (n : Option Nat) (keep : Bool) :
    den ν (reduceItems env items n keep) = den ν items := by
  unfold reduceItems
  split
  · exact den_filter ν items
  · exact den_filter ν _
  · rename_i a₁ e₁ a₂ e₂
    split
    · rename_i h; subst h
      split
      · rename_i h0
        simp only [den_nil, den_cons, evalElem, mul_one]
        rw [← zpow_add₀ (hν a₁), h0, zpow_zero]
      · simp only [den_cons, den_nil, evalElem, mul_one]
        rw [zpow_add₀ (hν a₁)]
    · split
      · rename_i conv hc
        have := hr a₂ a₁ conv hc
        rw [den_filter]
        simp only [den_cons, den_nil, evalElem, mul_one, rpow_eq_zpow, zpow_one]
        rw [zpow_add₀ (hν a₁), this, mul_zpow]; ring
      · split
        · exact den_filter ν _
        · split
          · rw [den_filter]; simp only [den_cons, den_nil]; ring
          · exact den_filter ν _
  · rw [den_filter]; simp only [den_cons, den_nil]; ring
  · rename_i q₁ e₁ q₂ e₂
    simp only
    split
    · simp [evalElem, rpow_eq_zpow]
    · rename_i h
      simp only [bne_iff_ne, ne_eq, not_not] at h
      simp only [den_cons, den_nil, evalElem, mul_one, ← rpow_eq_zpow, h]
  · exact den_reduceGeneral env ν hν hr items keep

theorem den_map_mulExp (ν) (items : Items) (e : Int) :
    den ν (items.map fun (b, be) => (b, be * e)) = den ν items ^ e := by
  induction items with
  | nil => simp
  | cons it rest ih =>
    obtain ⟨b, be⟩ := it
    simp only [List.map_cons, den_cons, ih, mul_zpow, zpow_mul]

theorem den_flatMap (ν) (f : Item → Items) (items : Items)
    (h : ∀ it ∈ items, den ν (f it) = evalElem ν it.1 ^ it.2) :
    den ν (items.flatMap f) = den ν items := by
  induction items with
  | nil => simp
  | cons it rest ih =>
    rw [List.flatMap_cons, den_append, den_cons, h it (by simp),
      ih (fun x hx => h x (List.mem_cons_of_mem _ hx))]

theorem den_iterNormalized (env : Env) (ν) (hd : RespectsDefs env ν) (fuel : Nat)
    (items : Items) : den ν (iterNormalized env fuel items) = den ν items := by
  induction fuel generalizing items with
  | zero => simp [iterNormalized]
  | succ n ihf =>
    unfold iterNormalized
    apply den_flatMap
    intro ⟨el, e⟩ _
    cases el with
    | num q => simp
    | atom a =>
      simp only
      split
      · simp
      · rename_i hb
        simp only [Bool.not_eq_true] at hb
        rw [ihf, den_map_mulExp, ← hd a hb]; simp [evalElem]

/-- `Term.normalized()` preserves the denoted value. -/
theorem den_normalizedItems (env : Env) (ν) (hν : NonZero ν) (hr : Respects env ν)
    (hd : RespectsDefs env ν) (items : Items) :
    den ν (normalizedItems env items) = den ν items := by
  unfold normalizedItems
  rw [den_reduceGeneral env ν hν hr, den_iterNormalized env ν hd]

theorem den_termNormalized (env : Env) (ν) (hν : NonZero ν) (hr : Respects env ν)
    (hd : RespectsDefs env ν) (items : Items) :
    den ν (termNormalized env items) = den ν items := by
  unfold termNormalized
  split
  · rfl
  · exact den_normalizedItems env ν hν hr hd items

theorem den_mkTerm (env : Env) (ν) (hν : NonZero ν) (hr : Respects env ν) (items : Items) :
    den ν (mkTerm env items) = den ν items := by
  unfold mkTerm
  split
  · rename_i h; simp only [List.isEmpty_iff] at h; simp [h]
  · exact den_reduceItems env ν hν hr _ _ _

end QM
