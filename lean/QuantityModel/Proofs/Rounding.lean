/-
Integer-level facts about the *generated* `Gen.floordivRounded`
(translated from /repo/src/quantity/__init__.py on every run).
Core tactics only.
-/
import QuantityModel.Gen.FloorDiv
import QuantityModel.Ref.RoundSpec
namespace QM
open QM.Gen
set_option linter.unusedSimpArgs false

theorem ite_ok {c : Prop} [Decidable c] {a b : Int} {P : Int → Prop}
    (h1 : c → P a) (h2 : ¬c → P b) :
    ∃ r, (if c then (Except.ok a : Except Err Int) else Except.ok b) = Except.ok r ∧ P r := by
  by_cases h : c
  · exact ⟨a, by simp [h], h1 h⟩
  · exact ⟨b, by simp [h], h2 h⟩

/-- Python raises ZeroDivisionError in `divmod(x, 0)`. -/
theorem floordiv_zero (x : Int) (m : Option Rounding) (d : Rounding) :
    floordivRounded x 0 m d = .error Err.ZeroDivisionError := by
  simp [floordivRounded]

/-- `rounding=None` means the configured default mode. -/
theorem floordiv_none (x y : Int) (d : Rounding) :
    floordivRounded x y none d = floordivRounded x y (some d) d := by
  simp [floordivRounded]

/-- An explicit mode ignores the default. -/
theorem floordiv_some_dflt (x y : Int) (m d d' : Rounding) :
    floordivRounded x y (some m) d = floordivRounded x y (some m) d' := by
  simp [floordivRounded]

/-- The generated function meets the reference specification of every mode. -/
theorem floordiv_meets_spec (x y : Int) (m d : Rounding) (hy : 0 < y) :
    ∃ r, floordivRounded x y (some m) d = .ok r ∧ RoundSpec m x y r := by
  have h1 := Int.fdiv_mul_add_fmod x y
  have h2 := Int.fmod_nonneg_of_pos x hy
  have h3 := Int.fmod_lt_of_pos x hy
  have hne : y ≠ 0 := by omega
  unfold floordivRounded
  generalize Int.fdiv x y = q at *
  generalize Int.fmod x y = rem at *
  have e2 : Int.fmod q 2 = q % 2 := Int.fmod_eq_emod_of_nonneg q (by omega)
  have e5 : Int.fmod q 5 = q % 5 := Int.fmod_eq_emod_of_nonneg q (by omega)
  have e5' : Int.fmod (q+1) 5 = (q+1) % 5 := Int.fmod_eq_emod_of_nonneg _ (by omega)
  subst h1
  have hs1 : 0 ≤ q → 0 ≤ q * y := fun h => Int.mul_nonneg h (by omega)
  have hs2 : q < 0 → q * y + y ≤ 0 := fun h => by
    have := Int.mul_nonpos_of_nonpos_of_nonneg (show q + 1 ≤ 0 by omega) (show 0 ≤ y by omega)
    rw [Int.add_mul] at this; omega
  generalize ht : q * y = t at *
  by_cases hrem : rem = 0
  · cases m <;>
    simp [RoundSpec, TowardZero, AwayFromZero, iabs, e2, e5, e5', hne, hrem, ht, Int.add_mul] <;> omega
  · cases m <;>
    simp [RoundSpec, TowardZero, AwayFromZero, iabs, e2, e5, e5', hne, hrem, ht, Int.add_mul] <;>
    (try (apply ite_ok <;> intro hc)) <;> (try simp [Int.add_mul, ht]) <;> omega

theorem iabs_eq_max (a : Int) : iabs a = max a (-a) := by unfold iabs; split <;> omega

theorem iabs_neg (a : Int) : iabs (-a) = iabs a := by unfold iabs; split <;> split <;> omega
theorem iabs_two_mul_neg (a : Int) : iabs (2 * -a) = iabs (2 * a) := by
  unfold iabs; split <;> split <;> omega

/-- Python's `divmod(-x, -y) == (q, -r)`: the result only depends on the quotient. -/
theorem floordiv_neg_neg (x y : Int) (m : Option Rounding) (d : Rounding) :
    floordivRounded (-x) (-y) m d = floordivRounded x y m d := by
  unfold floordivRounded
  simp only [Int.neg_fdiv_neg, Int.neg_fmod_neg, iabs_neg, iabs_two_mul_neg]
  simp

/-- The specification determines the result: two results meeting it coincide. -/
theorem RoundSpec_unique (m : Rounding) (x y r₁ r₂ : Int) (hy : 0 < y)
    (h₁ : RoundSpec m x y r₁) (h₂ : RoundSpec m x y r₂) : r₁ = r₂ := by
  have hk : ∃ k, r₁ = r₂ + k := ⟨r₁ - r₂, by omega⟩
  obtain ⟨k, rfl⟩ := hk
  have b1 := h₁.1
  have b2 := h₂.1
  simp only [iabs_eq_max, Int.add_mul] at b1 b2
  have hk2 : k < 2 := by
    apply Classical.byContradiction; intro hc
    have : 2 * y ≤ k * y := Int.mul_le_mul_of_nonneg_right (by omega) (by omega)
    omega
  have hk3 : -2 < k := by
    apply Classical.byContradiction; intro hc
    have : k * y ≤ (-2) * y := Int.mul_le_mul_of_nonneg_right (by omega) (by omega)
    omega
  have hk' : k = -1 ∨ k = 0 ∨ k = 1 := by omega
  have ht1 : 1 ≤ r₂ → y ≤ r₂ * y := fun h => by
    have := Int.mul_le_mul_of_nonneg_right h (show 0 ≤ y by omega); omega
  have ht2 : r₂ ≤ -1 → r₂ * y ≤ -y := fun h => by
    have := Int.mul_le_mul_of_nonneg_right h (show 0 ≤ y by omega); omega
  have ht3 : r₂ = 0 → r₂ * y = 0 := fun h => by simp [h]
  generalize ht : r₂ * y = t at *
  rcases hk' with rfl | rfl | rfl
  · exfalso
    cases m <;> simp [RoundSpec, TowardZero, AwayFromZero, Int.add_mul, ht] at h₁ h₂ <;> grind [iabs]
  · omega
  · exfalso
    cases m <;> simp [RoundSpec, TowardZero, AwayFromZero, Int.add_mul, ht] at h₁ h₂ <;> grind [iabs]

/-- Consequently the generated function *is* the mode: any `r` meeting the
specification is what it returns. -/
theorem floordiv_eq_of_spec (x y r : Int) (m d : Rounding) (hy : 0 < y)
    (h : RoundSpec m x y r) : floordivRounded x y (some m) d = .ok r := by
  obtain ⟨r', e, s⟩ := floordiv_meets_spec x y m d hy
  rw [e, RoundSpec_unique m x y r r' hy h s]

/-- Exactness: an integral quotient is returned unchanged under every mode. -/
theorem floordiv_exact (q y : Int) (m d : Rounding) (hy : 0 < y) :
    floordivRounded (q * y) y (some m) d = .ok q := by
  apply floordiv_eq_of_spec _ _ _ _ _ hy
  cases m <;> simp [RoundSpec, TowardZero, AwayFromZero, iabs] <;> omega

end QM
