/-
Canonical form of reduced / normalised terms.

`reduceGeneral … false` (the general path of `_reduce_items` with
`keep_item_order=False`, which is what `Term.normalized()` ends with) returns
at most one numeric item (first, exponent 1, ≠ 1) followed by non-numeric
items that are sorted by sort key, carry non-zero exponents, and of which no
later one could have been merged into an earlier one of the same key
(`AtomsNF`).  Feeding such a list to the reduction again returns it unchanged,
which is idempotence of normalisation.
-/
import QuantityModel.Proofs.TermShape
namespace QM

def keyOf (env : Env) (a : Nat) : Int := (env.info a).key

/-- `q` comes after `p` in a reduced list: keys ascend, and within one key the
later element is neither the same as nor convertible into the earlier one -/
def RNF (env : Env) (p q : Nat × Int) : Prop :=
  keyOf env p.1 ≤ keyOf env q.1 ∧
    (keyOf env p.1 = keyOf env q.1 → p.1 ≠ q.1 ∧ getFactor env q.1 p.1 = none)

/-- the non-numeric part of a reduced item list -/
def AtomsNF (env : Env) (l : List (Nat × Int)) : Prop :=
  l.Pairwise (RNF env) ∧ ∀ p ∈ l, p.2 ≠ 0

def keyedAtoms (env : Env) (l : List (Nat × Int)) : List (Int × Item) :=
  l.map fun p => (keyOf env p.1, (Elem.atom p.1, p.2))

/-! ### `mergeInto` -/

theorem mergeInto_append (env : Env) (a₂ : Nat) (e₂ : Int) (acc : List (Nat × Int))
    (h : ∀ p ∈ acc, p.1 ≠ a₂ ∧ getFactor env a₂ p.1 = none) :
    mergeInto env a₂ e₂ acc = (acc ++ [(a₂, e₂)], 1) := by
  induction acc with
  | nil => rfl
  | cons p rest ih =>
    obtain ⟨a₁, e₁⟩ := p
    have hp := h (a₁, e₁) (by simp)
    have ih' := ih (fun p hp => h p (by simp [hp]))
    simp only [mergeInto, if_neg hp.1, hp.2, ih', List.cons_append]

/-- what `mergeInto` does to the list of elements: either nothing (merged into
an existing entry) or the new element is appended, and then no existing entry
could take it -/
theorem mergeInto_fst (env : Env) (a₂ : Nat) (e₂ : Int) (acc : List (Nat × Int)) :
    ((mergeInto env a₂ e₂ acc).1.map Prod.fst = acc.map Prod.fst) ∨
    ((mergeInto env a₂ e₂ acc).1.map Prod.fst = acc.map Prod.fst ++ [a₂] ∧
      ∀ p ∈ acc, p.1 ≠ a₂ ∧ getFactor env a₂ p.1 = none) := by
  induction acc with
  | nil => right; simp [mergeInto]
  | cons p rest ih =>
    obtain ⟨a₁, e₁⟩ := p
    unfold mergeInto
    by_cases h : a₁ = a₂
    · left; simp [h]
    · simp only [if_neg h]
      cases hf : getFactor env a₂ a₁ with
      | some conv => left; simp
      | none =>
        simp only
        rcases ih with ih | ⟨ih, ihall⟩
        · left; simp [ih]
        · right
          refine ⟨by simp [ih], ?_⟩
          intro p hp
          simp only [List.mem_cons] at hp
          rcases hp with rfl | hp
          · exact ⟨h, hf⟩
          · exact ihall p hp

/-! ### a reduced list is reproduced by the sequential pass -/

theorem foldl_reproduces (env : Env) (rest : List (Nat × Int)) (s : RState)
    (hcurk : ∀ p ∈ s.cur, keyOf env p.1 = s.curKey)
    (hcur0 : ∀ p ∈ s.cur, p.2 ≠ 0)
    (hpw : (s.cur ++ rest).Pairwise (RNF env))
    (hrest0 : ∀ p ∈ rest, p.2 ≠ 0) :
    ((keyedAtoms env rest).foldl (reduceStep env) s).num = s.num ∧
    closeGroup ((keyedAtoms env rest).foldl (reduceStep env) s) = s.done ++ s.cur ++ rest := by
  induction rest generalizing s with
  | nil =>
    simp only [keyedAtoms, List.map_nil, List.foldl_nil, List.append_nil, true_and]
    unfold closeGroup
    congr 1
    apply List.filter_eq_self.mpr
    intro p hp; simpa using hcur0 p hp
  | cons x r ih =>
    obtain ⟨a, e⟩ := x
    simp only [keyedAtoms, List.map_cons, List.foldl_cons]
    have hx0 : e ≠ 0 := hrest0 (a, e) (by simp)
    have hr0 : ∀ p ∈ r, p.2 ≠ 0 := fun p hp => hrest0 p (by simp [hp])
    by_cases hk : keyOf env a = s.curKey
    · -- same group: nothing in `cur` can take `a`, so it is appended
      have hno : ∀ p ∈ s.cur, p.1 ≠ a ∧ getFactor env a p.1 = none := by
        intro p hp
        have := (List.pairwise_append.mp hpw).2.2 p hp (a, e) (by simp)
        exact this.2 (by rw [hcurk p hp, hk])
      have hm := mergeInto_append env a e s.cur hno
      have hstep : reduceStep env s (keyOf env a, (Elem.atom a, e)) =
          { s with cur := s.cur ++ [(a, e)], num := s.num * 1 } := by
        simp only [reduceStep, hk, if_true, hm]
      rw [hstep]
      have := ih { s with cur := s.cur ++ [(a, e)], num := s.num * 1 }
        (by intro p hp
            simp only [List.mem_append, List.mem_singleton] at hp
            rcases hp with hp | rfl
            · exact hcurk p hp
            · exact hk)
        (by intro p hp
            simp only [List.mem_append, List.mem_singleton] at hp
            rcases hp with hp | rfl
            · exact hcur0 p hp
            · exact hx0)
        (by simpa [List.append_assoc] using hpw) hr0
      simp only [keyedAtoms] at this
      refine ⟨by rw [this.1]; simp, ?_⟩
      rw [this.2]; simp [List.append_assoc]
    · have hstep : reduceStep env s (keyOf env a, (Elem.atom a, e)) =
          { num := s.num, done := closeGroup s, curKey := keyOf env a, cur := [(a, e)] } := by
        simp only [reduceStep, hk, if_false]
      rw [hstep]
      have hcg : closeGroup s = s.done ++ s.cur := by
        unfold closeGroup; congr 1
        apply List.filter_eq_self.mpr
        intro p hp; simpa using hcur0 p hp
      have := ih { num := s.num, done := closeGroup s, curKey := keyOf env a, cur := [(a, e)] }
        (by intro p hp; simp only [List.mem_singleton] at hp; subst hp; rfl)
        (by intro p hp; simp only [List.mem_singleton] at hp; subst hp; exact hx0)
        (by have := (List.pairwise_append.mp hpw).2.1; simpa using this) hr0
      simp only [keyedAtoms] at this
      refine ⟨this.1, ?_⟩
      rw [this.2, hcg]; simp [List.append_assoc]

/-! ### the sequential pass produces a reduced list -/

/-- `RNF` only looks at the elements -/
def RA (env : Env) (a b : Nat) : Prop :=
  keyOf env a ≤ keyOf env b ∧ (keyOf env a = keyOf env b → a ≠ b ∧ getFactor env b a = none)

theorem pairwise_RNF_iff (env : Env) (l : List (Nat × Int)) :
    l.Pairwise (RNF env) ↔ (l.map Prod.fst).Pairwise (RA env) := by
  rw [List.pairwise_map]; rfl

structure StInv (env : Env) (s : RState) : Prop where
  pw : (s.done ++ s.cur).Pairwise (RNF env)
  curk : ∀ p ∈ s.cur, keyOf env p.1 = s.curKey
  donek : ∀ p ∈ s.done, keyOf env p.1 < s.curKey
  done0 : ∀ p ∈ s.done, p.2 ≠ 0

theorem closeGroup_sublist (s : RState) : (closeGroup s).Sublist (s.done ++ s.cur) := by
  unfold closeGroup
  exact List.Sublist.append (List.Sublist.refl _) List.filter_sublist

theorem stInv_step_atom (env : Env) (s : RState) (a : Nat) (e : Int)
    (h : StInv env s) (hle : s.curKey ≤ keyOf env a) :
    StInv env (reduceStep env s (keyOf env a, (Elem.atom a, e))) := by
  by_cases hk : keyOf env a = s.curKey
  · have hstep : reduceStep env s (keyOf env a, (Elem.atom a, e)) =
        { s with cur := (mergeInto env a e s.cur).1,
                 num := s.num * (mergeInto env a e s.cur).2 } := by
      simp only [reduceStep, hk, if_true]
    rw [hstep]
    have hfst := mergeInto_fst env a e s.cur
    refine ⟨?_, ?_, h.donek, h.done0⟩
    · show (s.done ++ (mergeInto env a e s.cur).1).Pairwise (RNF env)
      rw [pairwise_RNF_iff, List.map_append]
      have hpw := (pairwise_RNF_iff env _).mp h.pw
      rw [List.map_append] at hpw
      rcases hfst with hf | ⟨hf, hall⟩
      · rw [hf]; exact hpw
      · rw [hf, ← List.append_assoc]
        rw [List.pairwise_append]
        refine ⟨hpw, by simp, ?_⟩
        intro b hb c hc
        simp only [List.mem_singleton] at hc; subst hc
        simp only [List.mem_append, List.mem_map] at hb
        rcases hb with ⟨p, hp, rfl⟩ | ⟨p, hp, rfl⟩
        · have := h.donek p hp
          exact ⟨by omega, fun heq => by omega⟩
        · have hkp := h.curk p hp
          exact ⟨by omega, fun _ => hall p hp⟩
    · intro p hp
      show keyOf env p.1 = s.curKey
      have hmem : p.1 ∈ (mergeInto env a e s.cur).1.map Prod.fst := List.mem_map_of_mem hp
      rcases hfst with hf | ⟨hf, _⟩
      · rw [hf] at hmem
        obtain ⟨q, hq, hqe⟩ := List.mem_map.mp hmem
        rw [← hqe]; exact h.curk q hq
      · rw [hf] at hmem
        simp only [List.mem_append, List.mem_map, List.mem_singleton] at hmem
        rcases hmem with ⟨q, hq, hqe⟩ | hpa
        · rw [← hqe]; exact h.curk q hq
        · rw [hpa]; exact hk
  · have hlt : s.curKey < keyOf env a := by omega
    have hstep : reduceStep env s (keyOf env a, (Elem.atom a, e)) =
        { num := s.num, done := closeGroup s, curKey := keyOf env a, cur := [(a, e)] } := by
      simp only [reduceStep, hk, if_false]
    rw [hstep]
    have hsub := closeGroup_sublist s
    have hkeys : ∀ p ∈ closeGroup s, keyOf env p.1 < keyOf env a := by
      intro p hp
      have := hsub.subset hp
      simp only [List.mem_append] at this
      rcases this with hd | hc
      · have := h.donek p hd; omega
      · have := h.curk p hc; omega
    refine ⟨?_, ?_, hkeys, ?_⟩
    · show (closeGroup s ++ [(a, e)]).Pairwise (RNF env)
      rw [List.pairwise_append]
      refine ⟨h.pw.sublist hsub, by simp, ?_⟩
      intro p hp q hq
      simp only [List.mem_singleton] at hq; subst hq
      have := hkeys p hp
      exact ⟨by show keyOf env p.1 ≤ keyOf env a; omega,
             fun heq => by have : keyOf env p.1 = keyOf env a := heq; omega⟩
    · intro p hp; simp only [List.mem_singleton] at hp; subst hp; rfl
    · intro p hp
      unfold closeGroup at hp
      simp only [List.mem_append, List.mem_filter] at hp
      rcases hp with hd | ⟨_, h0⟩
      · exact h.done0 p hd
      · simpa using h0

/-- an input item carries the sort key of its element (`keep_item_order=False`) -/
def WellKeyed (env : Env) (x : Int × Item) : Prop := x.1 = sortKey env x.2.1

theorem stInv_step (env : Env) (s : RState) (x : Int × Item) (h : StInv env s)
    (hw : WellKeyed env x) (hle : ∀ a e, x.2 = (Elem.atom a, e) → s.curKey ≤ x.1) :
    StInv env (reduceStep env s x) := by
  obtain ⟨k, el, e⟩ := x
  cases el with
  | num q => exact ⟨h.pw, h.curk, h.donek, h.done0⟩
  | atom a =>
    have hk : k = keyOf env a := hw
    subst hk
    exact stInv_step_atom env s a e h (hle a e rfl)

theorem reduceStep_curKey (env : Env) (s : RState) (x : Int × Item) :
    (reduceStep env s x).curKey = s.curKey ∨
    ((reduceStep env s x).curKey = x.1 ∧ ∃ a e, x.2 = (Elem.atom a, e)) := by
  obtain ⟨k, el, e⟩ := x
  cases el with
  | num q => left; rfl
  | atom a =>
    simp only [reduceStep]
    split
    · left; rfl
    · right; exact ⟨rfl, a, e, rfl⟩

theorem stInv_foldl (env : Env) (l : List (Int × Item)) (s : RState) (h : StInv env s)
    (hw : ∀ x ∈ l, WellKeyed env x) (hs : l.Pairwise (fun x y => x.1 ≤ y.1))
    (hle : ∀ x ∈ l, ∀ a e, x.2 = (Elem.atom a, e) → s.curKey ≤ x.1) :
    StInv env (l.foldl (reduceStep env) s) := by
  induction l generalizing s with
  | nil => exact h
  | cons x r ih =>
    simp only [List.foldl_cons]
    have hx := stInv_step env s x h (hw x (by simp)) (hle x (by simp))
    apply ih _ hx (fun y hy => hw y (by simp [hy])) (List.pairwise_cons.mp hs).2
    intro y hy a e hya
    rcases reduceStep_curKey env s x with hc | ⟨hc, _⟩
    · rw [hc]; exact hle y (by simp [hy]) a e hya
    · rw [hc]; exact (List.pairwise_cons.mp hs).1 y hy

theorem atomsNF_closeGroup (env : Env) (s : RState) (h : StInv env s) :
    AtomsNF env (closeGroup s) := by
  refine ⟨h.pw.sublist (closeGroup_sublist s), ?_⟩
  intro p hp
  unfold closeGroup at hp
  simp only [List.mem_append, List.mem_filter] at hp
  rcases hp with hd | ⟨_, h0⟩
  · exact h.done0 p hd
  · simpa using h0

/-! ### the stable sort -/

theorem mem_insertKeyed' (x y : Int × Item) (l : List (Int × Item)) :
    y ∈ sortKeyed.insertKeyed' x l ↔ y = x ∨ y ∈ l := by
  rw [(insertKeyed'_perm x l).mem_iff]; simp

theorem insertKeyed'_sorted (x : Int × Item) (l : List (Int × Item))
    (h : l.Pairwise (fun a b => a.1 ≤ b.1)) :
    (sortKeyed.insertKeyed' x l).Pairwise (fun a b => a.1 ≤ b.1) := by
  induction l with
  | nil => simp [sortKeyed.insertKeyed']
  | cons y ys ih =>
    unfold sortKeyed.insertKeyed'
    have hy := List.pairwise_cons.mp h
    split
    · rename_i hxy
      refine List.pairwise_cons.mpr ⟨?_, h⟩
      intro z hz
      simp only [List.mem_cons] at hz
      rcases hz with rfl | hz
      · exact hxy
      · exact le_trans hxy (hy.1 z hz)
    · rename_i hxy
      refine List.pairwise_cons.mpr ⟨?_, ih hy.2⟩
      intro z hz
      rcases (mem_insertKeyed' x z ys).mp hz with rfl | hz
      · omega
      · exact hy.1 z hz

theorem sortKeyed_sorted (l : List (Int × Item)) :
    (sortKeyed l).Pairwise (fun a b => a.1 ≤ b.1) := by
  induction l with
  | nil => simp [sortKeyed]
  | cons x xs ih => unfold sortKeyed; exact insertKeyed'_sorted x _ ih

theorem sortKeyed_of_sorted (l : List (Int × Item))
    (h : l.Pairwise (fun a b => a.1 ≤ b.1)) : sortKeyed l = l := by
  induction l with
  | nil => rfl
  | cons x xs ih =>
    have hx := List.pairwise_cons.mp h
    unfold sortKeyed
    rw [ih hx.2]
    cases xs with
    | nil => rfl
    | cons y ys =>
      unfold sortKeyed.insertKeyed'
      rw [if_pos (hx.1 y (by simp))]

/-! ### shape and idempotence of the reduction -/

/-- sort keys of elements are not negative (the code reserves -1 for numbers;
types get their registration id, which is positive) -/
def KeysNonneg (env : Env) : Prop := ∀ a, 0 ≤ keyOf env a

def numPrefix (q : Rat) : Items := if q != 1 then [(Elem.num q, 1)] else []

theorem attachKeys_false (env : Env) (items : Items) :
    attachKeys env items false = items.map fun it => (sortKey env it.1, it) := by
  simp [attachKeys]

/-- The general reduction returns an optional numeric item followed by a
reduced list of non-numeric items. -/
theorem reduceGeneral_shape (env : Env) (hk : KeysNonneg env) (items : Items) :
    ∃ q l, reduceGeneral env items false = numPrefix q ++ atomItems l ∧ AtomsNF env l := by
  let s0 : RState := { num := 1, done := [], curKey := 0, cur := [] }
  let L := sortKeyed (attachKeys env items false)
  have hinv : StInv env (L.foldl (reduceStep env) s0) := by
    apply stInv_foldl env L s0
    · exact ⟨by simp [s0], by simp [s0], by simp [s0], by simp [s0]⟩
    · intro x hx
      have hx' := (sortKeyed_perm (attachKeys env items false)).mem_iff.mp hx
      rw [attachKeys_false] at hx'
      obtain ⟨it, _, rfl⟩ := List.mem_map.mp hx'
      rfl
    · exact sortKeyed_sorted _
    · intro x hx a e hxa
      have hx' := (sortKeyed_perm (attachKeys env items false)).mem_iff.mp hx
      rw [attachKeys_false] at hx'
      obtain ⟨it, _, rfl⟩ := List.mem_map.mp hx'
      simp only at hxa
      show (0 : Int) ≤ sortKey env it.1
      rw [hxa]; exact hk a
  refine ⟨(L.foldl (reduceStep env) s0).num, closeGroup (L.foldl (reduceStep env) s0), ?_,
    atomsNF_closeGroup env _ hinv⟩
  unfold reduceGeneral numPrefix
  simp only [L, s0]
  split <;> simp

theorem keyedAtoms_sorted (env : Env) (l : List (Nat × Int)) (h : l.Pairwise (RNF env)) :
    (keyedAtoms env l).Pairwise (fun a b => a.1 ≤ b.1) := by
  unfold keyedAtoms
  rw [List.pairwise_map]
  exact h.imp fun hab => hab.1

theorem attachKeys_atomItems (env : Env) (l : List (Nat × Int)) :
    attachKeys env (atomItems l) false = keyedAtoms env l := by
  rw [attachKeys_false]; unfold atomItems keyedAtoms
  rw [List.map_map]; rfl

/-- A reduced list is a fixed point of the reduction. -/
theorem reduceGeneral_fixed (env : Env) (hk : KeysNonneg env) (q : Rat) (l : List (Nat × Int))
    (hl : AtomsNF env l) :
    reduceGeneral env (numPrefix q ++ atomItems l) false = numPrefix q ++ atomItems l := by
  have hs := keyedAtoms_sorted env l hl.1
  unfold numPrefix
  by_cases hq : (q != 1) = true
  · rw [if_pos hq]
    have hkeyed : attachKeys env ([(Elem.num q, 1)] ++ atomItems l) false =
        (-1, (Elem.num q, 1)) :: keyedAtoms env l := by
      rw [attachKeys_false, List.map_append, ← attachKeys_false env (atomItems l),
        attachKeys_atomItems]; rfl
    have hsorted : ((-1, (Elem.num q, (1 : Int))) :: keyedAtoms env l).Pairwise
        (fun a b => a.1 ≤ b.1) := by
      refine List.pairwise_cons.mpr ⟨?_, hs⟩
      intro y hy
      obtain ⟨p, _, rfl⟩ := List.mem_map.mp hy
      have := hk p.1
      show (-1 : Int) ≤ keyOf env p.1
      omega
    unfold reduceGeneral
    simp only [hkeyed, sortKeyed_of_sorted _ hsorted, List.foldl_cons]
    have hstep : reduceStep env { num := 1, done := [], curKey := 0, cur := [] }
        (-1, (Elem.num q, 1)) = { num := q, done := [], curKey := 0, cur := [] } := by
      simp [reduceStep, rpow]
    rw [hstep]
    have := foldl_reproduces env l { num := q, done := [], curKey := 0, cur := [] }
      (by simp) (by simp) (by simpa using hl.1) hl.2
    simp only [List.nil_append] at this
    rw [this.1, this.2, if_pos hq]; rfl
  · rw [if_neg hq]
    simp only [List.nil_append]
    unfold reduceGeneral
    simp only [attachKeys_atomItems, sortKeyed_of_sorted _ hs]
    have := foldl_reproduces env l { num := 1, done := [], curKey := 0, cur := [] }
      (by simp) (by simp) (by simpa using hl.1) hl.2
    simp only [List.nil_append] at this
    rw [this.1, this.2]; simp

/-- Reducing twice is reducing once. -/
theorem reduceGeneral_idem (env : Env) (hk : KeysNonneg env) (items : Items) :
    reduceGeneral env (reduceGeneral env items false) false = reduceGeneral env items false := by
  obtain ⟨q, l, h, hl⟩ := reduceGeneral_shape env hk items
  rw [h]; exact reduceGeneral_fixed env hk q l hl

/-! ### idempotence of normalisation -/

/-- expanding a list of numbers and base elements changes nothing -/
theorem iterNormalized_of_baseOnly (env : Env) (fuel : Nat) (items : Items)
    (h : BaseOnly env items) : iterNormalized env fuel items = items := by
  cases fuel with
  | zero => rfl
  | succ n =>
    unfold iterNormalized
    induction items with
    | nil => rfl
    | cons it rest ih =>
      obtain ⟨el, e⟩ := it
      rw [List.flatMap_cons]
      have hrest : BaseOnly env rest := by
        intro a ha
        apply h a
        cases el with
        | num q => rw [atomsOf_cons_num]; exact ha
        | atom b => rw [atomsOf_cons_atom]; exact List.mem_cons_of_mem _ ha
      rw [ih hrest]
      cases el with
      | num q => rfl
      | atom b =>
        have hb : (env.info b).isBase = true := h b (by rw [atomsOf_cons_atom]; simp)
        simp only [hb, ↓reduceIte, List.singleton_append]

theorem normalizedItems_baseOnly (env : Env) (t : Items) (hd : DefsBaseOnly env) :
    BaseOnly env (normalizedItems env t) := by
  intro a ha
  unfold normalizedItems at ha
  have := reduceGeneral_atoms env _ false a ha
  exact iterNormalized_baseOnly env 7 t hd a this

/-- Normalisation is idempotent: the normal form of a normal form is itself. -/
theorem termNormalized_idem (env : Env) (hk : KeysNonneg env) (hd : DefsBaseOnly env)
    (t : Items) : termNormalized env (termNormalized env t) = termNormalized env t := by
  unfold termNormalized
  by_cases hm : markedNormal env t = true
  · rw [if_pos hm, if_pos hm]
  · rw [if_neg hm]
    by_cases hm2 : markedNormal env (normalizedItems env t) = true
    · rw [if_pos hm2]
    · rw [if_neg hm2]
      have hb := normalizedItems_baseOnly env t hd
      unfold normalizedItems at hb ⊢
      rw [iterNormalized_of_baseOnly env normFuel _ hb]
      exact reduceGeneral_idem env hk _

/-- The normal form: an optional numeric item (≠ 1, exponent 1) in front, then
base elements only, sorted by sort key, each at most once, exponents non-zero. -/
theorem normalizedItems_shape (env : Env) (hk : KeysNonneg env) (hd : DefsBaseOnly env)
    (t : Items) :
    ∃ q l, normalizedItems env t = numPrefix q ++ atomItems l ∧
      (l.map Prod.fst).Pairwise (fun a b => keyOf env a ≤ keyOf env b) ∧
      (l.map Prod.fst).Nodup ∧
      (∀ p ∈ l, p.2 ≠ 0) ∧ (∀ p ∈ l, (env.info p.1).isBase = true) := by
  obtain ⟨q, l, h, hl⟩ := reduceGeneral_shape env hk (iterNormalized env normFuel t)
  refine ⟨q, l, h, ?_, ?_, hl.2, ?_⟩
  · exact ((pairwise_RNF_iff env l).mp hl.1).imp fun hab => hab.1
  · refine ((pairwise_RNF_iff env l).mp hl.1).imp ?_
    intro a b hab heq
    subst heq
    exact (hab.2 rfl).1 rfl
  · intro p hp
    have hb := normalizedItems_baseOnly env t hd
    unfold normalizedItems at hb
    rw [h] at hb
    apply hb p.1
    rw [atomsOf_append, List.mem_append]; right
    rw [mem_atomsOf]; exact ⟨p.2, by unfold atomItems; exact List.mem_map_of_mem hp⟩

end QM
