/-
Digit-level lemmas: the decimal digits produced for a natural number parse
back to that number; values of concatenated digit lists.
-/
import QuantityModel.Model.Text
import Mathlib.Algebra.Order.Field.Rat
import Mathlib.Tactic.Ring
import Mathlib.Tactic.Linarith
import Mathlib.Tactic.FieldSimp
namespace QM

theorem digit_val : ∀ d, d < 10 → (digitChar d).toNat - 48 = d := by decide
theorem digit_isDigit : ∀ d, d < 10 → isDigit (digitChar d) = true := by decide

def valFrom (s : Nat) (cs : List Char) : Nat := cs.foldl (fun acc c => acc * 10 + (c.toNat - 48)) s

theorem valFrom_eq (s : Nat) (cs : List Char) : valFrom s cs = s * 10 ^ cs.length + digitsVal cs := by
  induction cs generalizing s with
  | nil => simp [valFrom, digitsVal]
  | cons c cs ih =>
    have h1 := ih (s * 10 + (c.toNat - 48))
    have h2 := ih (0 * 10 + (c.toNat - 48))
    simp only [valFrom, digitsVal, List.foldl_cons, List.length_cons] at h1 h2 ⊢
    rw [h1, h2]; ring

theorem digitsVal_cons (c : Char) (cs : List Char) :
    digitsVal (c :: cs) = (c.toNat - 48) * 10 ^ cs.length + digitsVal cs := by
  have := valFrom_eq (0 * 10 + (c.toNat - 48)) cs
  simp only [valFrom, digitsVal, List.foldl_cons] at this ⊢
  rw [this]; ring

theorem digitsVal_append (a b : List Char) :
    digitsVal (a ++ b) = digitsVal a * 10 ^ b.length + digitsVal b := by
  induction a with
  | nil => simp [digitsVal]
  | cons c cs ih =>
    rw [List.cons_append, digitsVal_cons, digitsVal_cons, ih, List.length_append]
    ring

/-- the digits of `n` followed by `acc` are worth `n · 10^|acc| + value(acc)`,
are all digits when `acc` is, and are not empty -/
theorem natDigitsAux_spec (fuel n : Nat) (acc : List Char) (h : n ≤ fuel) :
    digitsVal (natDigitsAux fuel n acc) = n * 10 ^ acc.length + digitsVal acc ∧
    ((acc.all isDigit = true) → (natDigitsAux fuel n acc).all isDigit = true) ∧
    natDigitsAux fuel n acc ≠ [] ∧
    (∃ c rest, natDigitsAux fuel n acc = c :: rest ∧ isDigit c = true) := by
  induction fuel generalizing n acc with
  | zero =>
    have hn : n = 0 := by omega
    subst hn
    simp only [natDigitsAux, Nat.zero_mod]
    refine ⟨?_, ?_, by simp, ⟨_, _, rfl, by decide⟩⟩
    · rw [digitsVal_cons, digit_val 0 (by omega)]
    · intro ha; simp [List.all_cons, ha, digit_isDigit 0 (by omega)]
  | succ k ih =>
    unfold natDigitsAux
    split
    · rename_i hlt
      refine ⟨?_, ?_, by simp, ⟨_, _, rfl, digit_isDigit n hlt⟩⟩
      · rw [digitsVal_cons, digit_val n hlt]
      · intro ha; simp [List.all_cons, ha, digit_isDigit n hlt]
    · rename_i hge
      have hmod : n % 10 < 10 := Nat.mod_lt _ (by omega)
      have hdiv : n / 10 ≤ k := by omega
      obtain ⟨h1, h2, h3, h4⟩ := ih (n / 10) (digitChar (n % 10) :: acc) hdiv
      refine ⟨?_, ?_, h3, h4⟩
      · rw [h1, digitsVal_cons, digit_val _ hmod, List.length_cons]
        have := Nat.div_add_mod n 10
        calc n / 10 * 10 ^ (acc.length + 1) + (n % 10 * 10 ^ acc.length + digitsVal acc)
            = (10 * (n / 10) + n % 10) * 10 ^ acc.length + digitsVal acc := by ring
          _ = n * 10 ^ acc.length + digitsVal acc := by rw [this]
      · intro ha; apply h2; simp [List.all_cons, ha, digit_isDigit _ hmod]

theorem natDigits_val (n : Nat) : digitsVal (natDigits n) = n := by
  have := (natDigitsAux_spec n n [] (le_refl _)).1
  simpa [natDigits, digitsVal] using this

theorem natDigits_all (n : Nat) : (natDigits n).all isDigit = true :=
  (natDigitsAux_spec n n [] (le_refl _)).2.1 (by simp)

theorem natDigits_ne_nil (n : Nat) : natDigits n ≠ [] :=
  (natDigitsAux_spec n n [] (le_refl _)).2.2.1

/-- the decimal digits of a natural number parse back to it -/
theorem parseNat_natDigits (n : Nat) : parseNat (natDigits n) = some n := by
  unfold parseNat
  have h1 : (natDigits n).isEmpty = false := by
    cases h : natDigits n with
    | nil => exact absurd h (natDigits_ne_nil n)
    | cons _ _ => rfl
  simp [h1, natDigits_all, natDigits_val]

end QM

namespace QM

/-! ### list plumbing -/

theorem takeWhile_all {α} (p : α → Bool) (l : List α) (h : l.all p = true) : l.takeWhile p = l := by
  induction l with
  | nil => rfl
  | cons x xs ih =>
    simp only [List.all_cons, Bool.and_eq_true] at h
    simp [List.takeWhile_cons, h.1, ih h.2]

theorem dropWhile_all {α} (p : α → Bool) (l : List α) (h : l.all p = true) : l.dropWhile p = [] := by
  induction l with
  | nil => rfl
  | cons x xs ih =>
    simp only [List.all_cons, Bool.and_eq_true] at h
    simp [List.dropWhile_cons, h.1, ih h.2]

theorem takeWhile_append_stop {α} (p : α → Bool) (a : List α) (c : α) (b : List α)
    (h : a.all p = true) (hc : p c = false) : (a ++ c :: b).takeWhile p = a := by
  induction a with
  | nil => simp [List.takeWhile_cons, hc]
  | cons x xs ih =>
    simp only [List.all_cons, Bool.and_eq_true] at h
    simp [List.takeWhile_cons, h.1, ih h.2]

theorem dropWhile_append_stop {α} (p : α → Bool) (a : List α) (c : α) (b : List α)
    (h : a.all p = true) (hc : p c = false) : (a ++ c :: b).dropWhile p = c :: b := by
  induction a with
  | nil => simp [List.dropWhile_cons, hc]
  | cons x xs ih =>
    simp only [List.all_cons, Bool.and_eq_true] at h
    simp [List.dropWhile_cons, h.1, ih h.2]

theorem all_mono {α} (p q : α → Bool) (l : List α) (h : l.all p = true) (hpq : ∀ x, p x = true → q x = true) :
    l.all q = true := by
  induction l with
  | nil => rfl
  | cons x xs ih =>
    simp only [List.all_cons, Bool.and_eq_true] at h ⊢
    exact ⟨hpq x h.1, ih h.2⟩

theorem digit_ne (c d : Char) (hd : isDigit d = false) (h : isDigit c = true) : (c != d) = true := by
  rw [bne_iff_ne]; intro hcd; subst hcd; rw [h] at hd; exact absurd hd (by simp)

theorem digits_all_ne (l : List Char) (d : Char) (hd : isDigit d = false) (h : l.all isDigit = true) :
    l.all (· != d) = true := all_mono _ _ l h (fun c hc => digit_ne c d hd hc)

theorem digits_all_not_e (l : List Char) (h : l.all isDigit = true) :
    l.all (fun c => c != 'e' && c != 'E') = true :=
  all_mono _ _ l h (fun c hc => by
    rw [Bool.and_eq_true]; exact ⟨digit_ne c 'e' (by decide) hc, digit_ne c 'E' (by decide) hc⟩)

/-- a list starting with a digit carries no sign -/
theorem splitSign_digit (c : Char) (rest : List Char) (h : isDigit c = true) :
    splitSign (c :: rest) = (false, c :: rest) := by
  have h1 : c ≠ '-' := by intro hc; subst hc; exact absurd h (by decide)
  have h2 : c ≠ '+' := by intro hc; subst hc; exact absurd h (by decide)
  unfold splitSign
  split
  · rename_i heq; simp only [List.cons.injEq] at heq; exact absurd heq.1 h1
  · rename_i heq; simp only [List.cons.injEq] at heq; exact absurd heq.1 h2
  · rfl

theorem splitSign_natDigits (n : Nat) : splitSign (natDigits n) = (false, natDigits n) := by
  obtain ⟨c, rest, hcr, hc⟩ := (natDigitsAux_spec n n [] (le_refl _)).2.2.2
  have : natDigits n = c :: rest := hcr
  rw [this]; exact splitSign_digit c rest hc

theorem splitSign_natDigits_append (n : Nat) (tl : List Char) :
    splitSign (natDigits n ++ tl) = (false, natDigits n ++ tl) := by
  obtain ⟨c, rest, hcr, hc⟩ := (natDigitsAux_spec n n [] (le_refl _)).2.2.2
  have : natDigits n = c :: rest := hcr
  rw [this, List.cons_append]; exact splitSign_digit c _ hc

/-- parsing an all-digit literal -/
theorem parseDecimalBody_digits (ds : List Char) (h : ds.all isDigit = true) (hne : ds ≠ []) :
    parseDecimalBody ds = some (digitsVal ds : ℚ) := by
  unfold parseDecimalBody
  simp only
  rw [takeWhile_all _ _ (digits_all_not_e ds h), dropWhile_all _ _ (digits_all_not_e ds h)]
  simp only [parseExp]
  rw [takeWhile_all _ _ (digits_all_ne ds '.' (by decide) h),
      dropWhile_all _ _ (digits_all_ne ds '.' (by decide) h)]
  have hp : parseNat ds = some (digitsVal ds) := by
    unfold parseNat
    have : ds.isEmpty = false := by cases ds <;> simp_all
    simp [this, h]
  simp [hp, pow10]

theorem splitSign_minus (tl : List Char) : splitSign ('-' :: tl) = (true, tl) := rfl

/-- sign wrapper: a literal is `-body` or `body` (starting with a digit) -/
theorem parseDecimalLit_signed (neg : Bool) (body : List Char) (c : Char) (rest : List Char)
    (hb : body = c :: rest) (hc : isDigit c = true) :
    parseDecimalLit ((if neg then ['-'] else []) ++ body) =
      (parseDecimalBody body).map (applySign neg) := by
  unfold parseDecimalLit
  cases neg
  · simp only [Bool.false_eq_true, ↓reduceIte, List.nil_append]
    rw [hb, splitSign_digit c rest hc]
  · simp only [↓reduceIte, List.singleton_append, splitSign_minus]

theorem parseFractionLit_signed (neg : Bool) (body : List Char) (c : Char) (rest : List Char)
    (hb : body = c :: rest) (hc : isDigit c = true) :
    parseFractionLit ((if neg then ['-'] else []) ++ body) =
      (parseFractionBody body).map fun r => r.map (applySign neg) := by
  unfold parseFractionLit
  cases neg
  · simp only [Bool.false_eq_true, ↓reduceIte, List.nil_append]
    rw [hb, splitSign_digit c rest hc]
  · simp only [↓reduceIte, List.singleton_append, splitSign_minus]

theorem natDigits_head (n : Nat) : ∃ c rest, natDigits n = c :: rest ∧ isDigit c = true :=
  (natDigitsAux_spec n n [] (le_refl _)).2.2.2

theorem natAbs_sign_cast (i : ℤ) : applySign (decide (i < 0)) (i.natAbs : ℚ) = (i : ℚ) := by
  unfold applySign
  by_cases h : i < 0
  · simp only [h, decide_true, ↓reduceIte]
    have : ((i.natAbs : ℤ) : ℚ) = ((-i : ℤ) : ℚ) := by rw [Int.ofNat_natAbs_of_nonpos (le_of_lt h)]
    have h2 : (i.natAbs : ℚ) = -(i : ℚ) := by simpa using this
    rw [h2]; ring
  · simp only [h, decide_false, Bool.false_eq_true, ↓reduceIte]
    have : ((i.natAbs : ℤ) : ℚ) = (i : ℚ) := by rw [Int.natAbs_of_nonneg (not_lt.mp h)]
    simpa using this

/-- integers round-trip: `str` of an integral amount parses back exactly -/
theorem parse_render_int (i : ℤ) :
    parseAmountStr ((if i < 0 then ['-'] else []) ++ natDigits i.natAbs) = .ok (i : ℚ) := by
  obtain ⟨c, rest, hcr, hc⟩ := natDigits_head i.natAbs
  have h := parseDecimalLit_signed (decide (i < 0)) (natDigits i.natAbs) c rest hcr hc
  simp only [decide_eq_true_eq] at h
  unfold parseAmountStr
  rw [h, parseDecimalBody_digits _ (natDigits_all _) (natDigits_ne_nil _), natDigits_val]
  simp only [Option.map_some]
  rw [natAbs_sign_cast]

end QM

namespace QM

theorem all_append_iff {α} (p : α → Bool) (a b : List α) :
    (a ++ b).all p = true ↔ a.all p = true ∧ b.all p = true := by
  simp [List.all_append]

theorem parseNat_digits (ds : List Char) (h : ds.all isDigit = true) (hne : ds ≠ []) :
    parseNat ds = some (digitsVal ds) := by
  unfold parseNat
  have : ds.isEmpty = false := by cases ds <;> simp_all
  simp [this, h]

theorem parseNat_not_digits (ds : List Char) (h : ds.all isDigit = false) : parseNat ds = none := by
  unfold parseNat; simp [h]

theorem digitsVal_zeros (k : Nat) : digitsVal (List.replicate k '0') = 0 := by
  induction k with
  | zero => rfl
  | succ k ih => rw [List.replicate_succ, digitsVal_cons, ih]; simp

theorem zeros_all (k : Nat) : (List.replicate k '0').all isDigit = true := by
  induction k with
  | zero => rfl
  | succ k ih => rw [List.replicate_succ, List.all_cons, ih]; decide

/-- a fraction literal `N/D` -/
theorem parse_fraction_body (n d : Nat) (hd : d ≠ 0) :
    parseDecimalBody (natDigits n ++ '/' :: natDigits d) = none ∧
    parseFractionBody (natDigits n ++ '/' :: natDigits d) = some (.ok ((n : ℚ) / (d : ℚ))) := by
  have hN := natDigits_all n
  have hD := natDigits_all d
  constructor
  · unfold parseDecimalBody
    simp only
    have hall : (natDigits n ++ '/' :: natDigits d).all (fun c => c != 'e' && c != 'E') = true := by
      rw [all_append_iff]
      refine ⟨digits_all_not_e _ hN, ?_⟩
      rw [List.all_cons, digits_all_not_e _ hD]; decide
    have hdot : (natDigits n ++ '/' :: natDigits d).all (· != '.') = true := by
      rw [all_append_iff]
      refine ⟨digits_all_ne _ '.' (by decide) hN, ?_⟩
      rw [List.all_cons, digits_all_ne _ '.' (by decide) hD]; decide
    rw [takeWhile_all _ _ hall, dropWhile_all _ _ hall]
    simp only [parseExp]
    rw [takeWhile_all _ _ hdot, dropWhile_all _ _ hdot]
    have : (natDigits n ++ '/' :: natDigits d).all isDigit = false := by
      rw [List.all_append, List.all_cons]
      have : isDigit '/' = false := by decide
      simp [this]
    simp [parseNat_not_digits _ this]
  · unfold parseFractionBody
    simp only
    rw [takeWhile_append_stop _ _ '/' _ (digits_all_ne _ '/' (by decide) hN) (by decide),
        dropWhile_append_stop _ _ '/' _ (digits_all_ne _ '/' (by decide) hN) (by decide)]
    simp only
    rw [parseNat_digits _ hN (natDigits_ne_nil n), parseNat_digits _ hD (natDigits_ne_nil d),
        natDigits_val, natDigits_val]
    simp [hd]

/-- `str` of a Fraction amount parses back to exactly that rational -/
theorem parse_render_frac (q : ℚ) : parseAmountStr (renderFrac q) = .ok q := by
  unfold renderFrac
  simp only
  by_cases hden : q.den = 1
  · simp only [hden, ↓reduceIte]
    have := parse_render_int q.num
    rw [this]
    congr 1
    have := Rat.num_div_den q
    rw [hden] at this; simpa using this
  · simp only [hden, ↓reduceIte, List.append_assoc]
    obtain ⟨c, rest, hcr, hc⟩ := natDigits_head q.num.natAbs
    have hb : natDigits q.num.natAbs ++ '/' :: natDigits q.den = c :: (rest ++ '/' :: natDigits q.den) := by
      rw [hcr]; rfl
    have h1 := parseDecimalLit_signed (decide (q.num < 0)) _ c _ hb hc
    have h2 := parseFractionLit_signed (decide (q.num < 0)) _ c _ hb hc
    simp only [decide_eq_true_eq] at h1 h2
    obtain ⟨p1, p2⟩ := parse_fraction_body q.num.natAbs q.den q.den_nz
    unfold parseAmountStr
    rw [h1, p1, h2, p2]
    simp only [Option.map_none, Option.map_some, Except.map]
    congr 1
    have e : applySign (decide (q.num < 0)) ((q.num.natAbs : ℚ) / (q.den : ℚ)) = (q.num : ℚ) / q.den := by
      have := natAbs_sign_cast q.num
      unfold applySign at this ⊢
      by_cases hn : q.num < 0
      · simp only [hn, decide_true, ↓reduceIte] at this ⊢; rw [← this]; ring
      · simp only [hn, decide_false, Bool.false_eq_true, ↓reduceIte] at this ⊢; rw [this]
    rw [e, Rat.num_div_den]

end QM

namespace QM

/-- `A.B` with digit lists `A ≠ []`, `B ≠ []` -/
theorem parse_point_body (A B : List Char) (hA : A.all isDigit = true) (hB : B.all isDigit = true)
    (hAne : A ≠ []) (hBne : B ≠ []) :
    parseDecimalBody (A ++ '.' :: B) =
      some ((digitsVal A : ℚ) + (digitsVal B : ℚ) / (10 : ℚ) ^ B.length) := by
  unfold parseDecimalBody
  simp only
  have hall : (A ++ '.' :: B).all (fun c => c != 'e' && c != 'E') = true := by
    rw [all_append_iff]
    refine ⟨digits_all_not_e _ hA, ?_⟩
    rw [List.all_cons, digits_all_not_e _ hB]; decide
  rw [takeWhile_all _ _ hall, dropWhile_all _ _ hall]
  simp only [parseExp]
  rw [takeWhile_append_stop _ _ '.' _ (digits_all_ne _ '.' (by decide) hA) (by decide),
      dropWhile_append_stop _ _ '.' _ (digits_all_ne _ '.' (by decide) hA) (by decide)]
  have e1 : A.isEmpty = false := by cases A <;> simp_all
  have e2 : B.isEmpty = false := by cases B <;> simp_all
  simp only [e1, Bool.false_eq_true, ↓reduceIte, e2]
  rw [parseNat_digits _ hA hAne, parseNat_digits _ hB hBne]
  simp [pow10]

theorem all_take_drop {α} (p : α → Bool) (l : List α) (k : Nat) (h : l.all p = true) :
    (l.take k).all p = true ∧ (l.drop k).all p = true := by
  have := List.take_append_drop k l
  rw [← this, all_append_iff] at h
  exact h

/-- the unsigned decimal text of `n / 10^p` (p > 0) parses back to it -/
theorem parse_decimal_text (n p : Nat) (hp : 0 < p) :
    let lit := natDigits n
    parseDecimalBody
      (if lit.length > p then lit.take (lit.length - p) ++ '.' :: lit.drop (lit.length - p)
       else '0' :: '.' :: (List.replicate (p - lit.length) '0' ++ lit)) =
      some ((n : ℚ) / (10 : ℚ) ^ p) := by
  intro lit
  have hlit := natDigits_all n
  have hval := natDigits_val n
  have hne := natDigits_ne_nil n
  by_cases hlen : lit.length > p
  · simp only [hlen, ↓reduceIte]
    obtain ⟨hA, hB⟩ := all_take_drop isDigit lit (lit.length - p) hlit
    have hAne : lit.take (lit.length - p) ≠ [] := by
      intro h
      have := congrArg List.length h
      simp at this; omega
    have hBlen : (lit.drop (lit.length - p)).length = p := by simp; omega
    have hBne : lit.drop (lit.length - p) ≠ [] := by
      intro h; rw [h] at hBlen; simp at hBlen; omega
    rw [parse_point_body _ _ hA hB hAne hBne, hBlen]
    congr 1
    have hsplit := digitsVal_append (lit.take (lit.length - p)) (lit.drop (lit.length - p))
    rw [List.take_append_drop, hBlen] at hsplit
    have hn : (n : ℚ) = (digitsVal (lit.take (lit.length - p)) : ℚ) * 10 ^ p
        + (digitsVal (lit.drop (lit.length - p)) : ℚ) := by
      have : digitsVal lit = n := hval
      rw [← this, hsplit]; push_cast; ring
    rw [hn]; field_simp
  · simp only [hlen, ↓reduceIte]
    have hz := zeros_all (p - lit.length)
    have hB : (List.replicate (p - lit.length) '0' ++ lit).all isDigit = true := by
      rw [all_append_iff]; exact ⟨hz, hlit⟩
    have hBlen : (List.replicate (p - lit.length) '0' ++ lit).length = p := by simp; omega
    have hBne : (List.replicate (p - lit.length) '0' ++ lit) ≠ [] := by
      intro h; have := congrArg List.length h; rw [hBlen] at this; simp at this; omega
    have := parse_point_body ['0'] _ (by decide) hB (by simp) hBne
    simp only [List.singleton_append] at this
    rw [this, hBlen, digitsVal_append, digitsVal_zeros]
    have : digitsVal lit = n := hval
    rw [this]
    simp [digitsVal]

/-- `str` of a Decimal amount (internal value `v`, precision `p`) parses back
to exactly `v / 10^p` -/
theorem parse_render_dec (v : ℤ) (p : Nat) :
    parseAmountStr (renderDec v p) = .ok ((v : ℚ) / (10 : ℚ) ^ p) := by
  by_cases hp : p = 0
  · subst hp
    unfold renderDec
    simp only [↓reduceIte, pow_zero, div_one]
    exact parse_render_int v
  · have hp' : 0 < p := Nat.pos_of_ne_zero hp
    have hbody := parse_decimal_text v.natAbs p hp'
    simp only at hbody
    unfold renderDec
    simp only [hp, ↓reduceIte]
    -- the body starts with a digit in both layouts
    obtain ⟨c, rest, hcr, hc⟩ := natDigits_head v.natAbs
    by_cases hlen : (natDigits v.natAbs).length > p
    · simp only [hlen, ↓reduceIte] at hbody ⊢
      have hb : (natDigits v.natAbs).take ((natDigits v.natAbs).length - p) ++
          '.' :: (natDigits v.natAbs).drop ((natDigits v.natAbs).length - p)
          = c :: ((rest.take ((natDigits v.natAbs).length - p - 1)) ++
            '.' :: (natDigits v.natAbs).drop ((natDigits v.natAbs).length - p)) := by
        have hk : (natDigits v.natAbs).length - p = ((natDigits v.natAbs).length - p - 1) + 1 := by omega
        rw [hk, hcr, List.take_succ_cons]; simp
      have h1 := parseDecimalLit_signed (decide (v < 0)) _ c _ hb hc
      simp only [decide_eq_true_eq, List.append_assoc] at h1
      unfold parseAmountStr
      rw [List.append_assoc, h1, hbody]
      simp only [Option.map_some]
      congr 1
      have := natAbs_sign_cast v
      unfold applySign at this ⊢
      by_cases hn : v < 0
      · simp only [hn, decide_true, ↓reduceIte] at this ⊢; rw [← this]; ring
      · simp only [hn, decide_false, Bool.false_eq_true, ↓reduceIte] at this ⊢; rw [this]
    · simp only [hlen, ↓reduceIte] at hbody ⊢
      have h1 := parseDecimalLit_signed (decide (v < 0))
        ('0' :: '.' :: (List.replicate (p - (natDigits v.natAbs).length) '0' ++ natDigits v.natAbs))
        '0' _ rfl (by decide)
      simp only [decide_eq_true_eq] at h1
      unfold parseAmountStr
      rw [h1, hbody]
      simp only [Option.map_some]
      congr 1
      have := natAbs_sign_cast v
      unfold applySign at this ⊢
      by_cases hn : v < 0
      · simp only [hn, decide_true, ↓reduceIte] at this ⊢; rw [← this]; ring
      · simp only [hn, decide_false, Bool.false_eq_true, ↓reduceIte] at this ⊢; rw [this]

/-- every amount the code can hold: its text form parses back to its value -/
theorem parse_render_amount (a : AmountRepr) : parseAmountStr (renderAmount a) = .ok a.val := by
  cases a with
  | dec v p => exact parse_render_dec v p
  | frac q => exact parse_render_frac q

end QM

namespace QM

/-- characters that occur in a rendered amount -/
def amountChar (c : Char) : Bool := isDigit c || c == '-' || c == '.' || c == '/'

theorem digits_amountChar (l : List Char) (h : l.all isDigit = true) : l.all amountChar = true :=
  all_mono _ _ l h (fun c hc => by simp [amountChar, hc])

theorem renderDec_chars (v : ℤ) (p : Nat) : (renderDec v p).all amountChar = true := by
  unfold renderDec
  have hlit := digits_amountChar _ (natDigits_all v.natAbs)
  have hsign : (if v < 0 then ['-'] else ([] : List Char)).all amountChar = true := by
    split <;> decide
  simp only
  split
  · rw [all_append_iff]; exact ⟨hsign, hlit⟩
  · split
    · obtain ⟨hA, hB⟩ := all_take_drop amountChar (natDigits v.natAbs)
        ((natDigits v.natAbs).length - p) hlit
      rw [all_append_iff, all_append_iff]
      refine ⟨⟨hsign, hA⟩, ?_⟩
      rw [List.all_cons, hB]; decide
    · rw [all_append_iff]
      refine ⟨hsign, ?_⟩
      rw [List.all_cons, List.all_cons]
      simp only [Bool.and_eq_true]
      refine ⟨by decide, by decide, ?_⟩
      rw [all_append_iff]
      exact ⟨digits_amountChar _ (zeros_all _), hlit⟩

theorem renderFrac_chars (q : ℚ) : (renderFrac q).all amountChar = true := by
  unfold renderFrac
  have hN := digits_amountChar _ (natDigits_all q.num.natAbs)
  have hD := digits_amountChar _ (natDigits_all q.den)
  have hsign : (if q.num < 0 then ['-'] else ([] : List Char)).all amountChar = true := by
    split <;> decide
  simp only
  split
  · rw [all_append_iff]; exact ⟨hsign, hN⟩
  · rw [all_append_iff, all_append_iff]
    refine ⟨⟨hsign, hN⟩, ?_⟩
    rw [List.all_cons, hD]; decide

theorem renderAmount_chars (a : AmountRepr) : (renderAmount a).all amountChar = true := by
  cases a with
  | dec v p => exact renderDec_chars v p
  | frac q => exact renderFrac_chars q

theorem amountChar_not_space (c : Char) (h : amountChar c = true) : isSpace c = false ∧ (c != ' ') = true := by
  unfold amountChar at h
  simp only [Bool.or_eq_true, beq_iff_eq] at h
  rcases h with ((h | h) | h) | h
  · constructor
    · by_contra hc
      simp only [Bool.not_eq_false] at hc
      unfold isSpace at hc
      simp only [Bool.or_eq_true, beq_iff_eq] at hc
      rcases hc with ((((hc | hc) | hc) | hc) | hc) | hc <;> (subst hc; exact absurd h (by decide))
    · exact digit_ne c ' ' (by decide) h
  · subst h; exact ⟨by decide, by decide⟩
  · subst h; exact ⟨by decide, by decide⟩
  · subst h; exact ⟨by decide, by decide⟩

theorem renderAmount_ne_nil (a : AmountRepr) : renderAmount a ≠ [] := by
  intro h
  have := parse_render_amount a
  rw [h] at this
  simp [parseAmountStr, parseDecimalLit, parseDecimalBody, splitSign, parseExp, parseNat,
    parseFractionLit, parseFractionBody] at this

/-- `str(q)` — amount, one blank, symbol — splits back into exactly the
amount's value and the symbol, provided the symbol has no leading or trailing
blank (inner blanks are fine: the string is split at the FIRST blank) -/
theorem parse_render_qty (a : AmountRepr) (sym : List Char) (hs : stripChars sym = sym) :
    parseQtyStr (renderAmount a ++ ' ' :: sym) = .ok (a.val, some sym) := by
  have hch := renderAmount_chars a
  have hne := renderAmount_ne_nil a
  have hnsp : (renderAmount a).all (· != ' ') = true :=
    all_mono _ _ _ hch (fun c hc => (amountChar_not_space c hc).2)
  unfold parseQtyStr
  -- no leading whitespace to strip
  have hdrop : (renderAmount a ++ ' ' :: sym).dropWhile isSpace = renderAmount a ++ ' ' :: sym := by
    cases hr : renderAmount a with
    | nil => exact absurd hr hne
    | cons c rest =>
      rw [hr] at hch
      simp only [List.all_cons, Bool.and_eq_true] at hch
      have := (amountChar_not_space c hch.1).1
      simp [List.dropWhile_cons, this]
  simp only [hdrop]
  rw [takeWhile_append_stop _ _ ' ' _ hnsp (by decide), dropWhile_append_stop _ _ ' ' _ hnsp (by decide)]
  rw [parse_render_amount]
  simp [hs]

end QM
