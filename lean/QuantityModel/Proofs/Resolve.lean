/-
Completeness of the resolution of unit terms (`_amnt_and_unit_from_term`):
whenever the directory holds a unit whose normalised definition has factor 1
and the exponents the term denotes - for a type with reference unit: its
reference unit, i.e. whenever a TYPE of the combined dimension is declared -
the resolution succeeds.  (With another factor only, the second look-up misses:
known finding D2.)
-/
import QuantityModel.Proofs.RegistryTerm
import QuantityModel.Proofs.TermKeep
namespace QM

theorem lookup_isSome_of_mem {β : Type} (l : List (Items × β)) (k : Items) (v : β)
    (h : (k, v) ∈ l) : (l.lookup k).isSome = true := by
  induction l with
  | nil => simp at h
  | cons p rest ih =>
    obtain ⟨k', v'⟩ := p
    simp only [List.lookup_cons]
    by_cases hk : k = k'
    · subst hk; simp
    · have : (k == k') = false := by simpa using hk
      rw [this]
      apply ih
      simp only [List.mem_cons, Prod.mk.injEq] at h
      rcases h with ⟨h1, _⟩ | h
      · exact absurd h1 hk
      · exact h

theorem termNormalized_of_fixed (env : Env) (K : Items) (h : normalizedItems env K = K) :
    termNormalized env K = K := by
  unfold termNormalized
  split
  · rfl
  · exact h

/-- a normal form without numeric factor is a list of atoms -/
theorem fixed_shape (env : Env) (hk : KeysNonneg env) (K : Items)
    (hKnf : normalizedItems env K = K) (hK1 : numVal K = 1) :
    ∃ l, K = atomItems l ∧ AtomsNF env l ∧
      ∀ p ∈ l, p.1 ∈ atomsOf (iterNormalized env normFuel K) := by
  obtain ⟨q, l, e, nf⟩ := reduceGeneral_shape env hk (iterNormalized env normFuel K)
  have e' : K = numPrefix q ++ atomItems l := by
    have := hKnf; unfold normalizedItems at this; rw [e] at this; exact this.symm
  have hq : q = 1 := by
    have := hK1; rw [e', numVal_numPrefix_append] at this; exact this
  subst hq
  have hp : numPrefix 1 = [] := by unfold numPrefix; simp
  rw [hp, List.nil_append] at e'
  refine ⟨l, e', nf, ?_⟩
  intro p hp'
  apply reduceGeneral_atoms env _ false
  rw [e, atomsOf_append, List.mem_append]; right
  rw [mem_atomsOf]; exact ⟨p.2, by unfold atomItems; exact List.mem_map_of_mem hp'⟩

/-- **Completeness of the resolution.**  `K` is the key of a registered unit
(`(K, w) ∈ termMap`), a normal form with factor 1, and has the
exponents the term `t` denotes: then resolving `t` succeeds. -/
theorem amntAndUnit_complete (r : RegState)
    (hd : DefsBaseOnly r.unitEnv) (hnc : BaseNoConv r.unitEnv)
    (t : Items) (ht : Clean t) (K : Items) (w : Nat) (hK : (K, w) ∈ r.termMap)
    (hKnf : normalizedItems r.unitEnv K = K)
    (hK1 : numVal K = 1) (hsep : KeysSeparate r.unitEnv t K)
    (hexp : ∀ a, expOf a (expanded r.unitEnv t) = expOf a K) :
    r.amntAndUnit t ≠ none := by
  have hk := keysNonneg_unitEnv r
  set env := r.unitEnv with henv
  -- shape of the key
  obtain ⟨l', eK, nf', hat'⟩ := fixed_shape env hk K hKnf hK1
  -- building a term from the key's items gives the key again
  have hKmk : mkTerm env K = K := by
    rw [eK]
    apply mkTerm_fixed env hk l' nf'
    have hb : ∀ p ∈ l', (env.info p.1).isBase = true := by
      intro p hp
      have hbo := normalizedItems_baseOnly env K hd
      rw [hKnf, eK] at hbo
      apply hbo p.1
      rw [mem_atomsOf]; exact ⟨p.2, by unfold atomItems; exact List.mem_map_of_mem hp⟩
    intro p hp q hq hne
    exact hnc p.1 q.1 (hb p hp) (hb q hq) hne
  -- shape of the term's normal form
  obtain ⟨q, l, e, nf⟩ := reduceGeneral_shape env hk (iterNormalized env normFuel t)
  have hN : termNormalized env t = numPrefix q ++ atomItems l := by
    rw [termNormalized_eq_normalizedItems env hk t ht]; unfold normalizedItems; exact e
  have hsem := sem_reduceGeneral env (fun a => (env.info a).isBase = true) hnc
    (iterNormalized env normFuel t) (iterNormalized_baseOnly env 7 t hd) false
  have hat : ∀ p ∈ l, p.1 ∈ atomsOf (iterNormalized env normFuel t) := by
    intro p hp
    apply reduceGeneral_atoms env _ false
    rw [e, atomsOf_append, List.mem_append]; right
    rw [mem_atomsOf]; exact ⟨p.2, by unfold atomItems; exact List.mem_map_of_mem hp⟩
  have hl : l = l' := by
    apply atomsNF_unique env l l' nf nf'
    · intro p hp p' hp' hkey
      exact hsep p.1 (List.mem_append_left _ (hat p hp)) p'.1
        (List.mem_append_right _ (hat' p' hp')) hkey
    · intro a
      have h1 := hsem.2 a
      rw [e, expOf_numPrefix_append] at h1
      have h2 := hexp a
      unfold expanded at h2
      rw [h1, h2, eK, expOf_atomItems]
  subst hl
  have hlook : (r.termMap.lookup K).isSome = true := lookup_isSome_of_mem _ K w hK
  have hKn : termNormalized env K = K := termNormalized_of_fixed env K hKnf
  unfold RegState.amntAndUnit RegState.unitFromTerm
  simp only [← henv]
  rw [hN]
  by_cases hq : (q != 1) = true
  · -- a numeric factor in front: the second look-up finds the registered unit
    have hp : numPrefix q = [(Elem.num q, 1)] := by unfold numPrefix; rw [if_pos hq]
    rw [hp]
    cases hl1 : r.termMap.lookup ([(Elem.num q, 1)] ++ atomItems l) with
    | some u => simp
    | none =>
      simp only
      have hsplit : splitTerm env ([(Elem.num q, 1)] ++ atomItems l) = (rpow q 1, K) := by
        unfold splitTerm
        simp only [List.singleton_append, numElem, List.tail_cons]
        rw [← eK, hKmk]
      rw [hsplit]
      simp only
      split
      · simp
      · have hne : termEq env K t = false := by
          unfold termEq
          rw [hKn, hN, hp, eK]
          simp
        rw [hne]
        simp only [Bool.not_false, ↓reduceIte]
        rw [hKn]
        cases hl2 : r.termMap.lookup K with
        | some u => simp
        | none => rw [hl2] at hlook; simp at hlook
  · -- no numeric factor: the normal form IS the registered key
    have hp : numPrefix q = [] := by unfold numPrefix; rw [if_neg hq]
    rw [hp, List.nil_append, ← eK]
    cases hl2 : r.termMap.lookup K with
    | some u => simp
    | none => rw [hl2] at hlook; simp at hlook

end QM
