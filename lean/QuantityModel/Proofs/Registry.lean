/-
What a successful `_make_unit` does to each directory (used by C15 and by the
reachable-state invariants).
-/
import QuantityModel.Proofs.Term
import QuantityModel.Model.Quantity
namespace QM

theorem lookup_none_not_mem {α β} [BEq α] [LawfulBEq α] (l : List (α × β)) (k : α)
    (h : (l.lookup k).isSome = false) : k ∉ l.map Prod.fst := by
  induction l with
  | nil => simp
  | cons p rest ih =>
    obtain ⟨k', v⟩ := p
    simp only [List.lookup] at h
    by_cases hk : k = k'
    · subst hk; simp at h
    · have hne : (k == k') = false := by simpa using hk
      simp only [hne] at h
      simp only [List.map_cons, List.mem_cons, hk, false_or]
      exact ih h

theorem lookup_none_of_not_mem {α β} [BEq α] [LawfulBEq α] (l : List (α × β)) (k : α)
    (h : k ∉ l.map Prod.fst) : l.lookup k = none := by
  induction l with
  | nil => rfl
  | cons p rest ih =>
    obtain ⟨k', v⟩ := p
    simp only [List.map_cons, List.mem_cons, not_or] at h
    have hne : (k == k') = false := by simpa using h.1
    rw [List.lookup, hne]
    exact ih h.2

/-- what a successful `_make_unit` does to the directories (one statement per
directory): the unit gets the next id, is found under its symbol, is appended
to the unit list of its own class and of no other class, and its stored scale
is the numeric part of its normalised definition (1 when there is none, and for
a reference unit). -/
theorem makeUnit_effect (s : RegState) (c : Nat) (sym : String) (defn : Option Items)
    (isRef : Bool) (s' : RegState) (uid : Nat)
    (h : s.makeUnit c sym defn isRef = .ok (s', uid)) :
    uid = s.units.length ∧
    s'.units = s.units ++ [s'.unit uid] ∧
    (s'.unit uid).symbol = sym ∧ (s'.unit uid).cls = c ∧ (s'.unit uid).defn = defn ∧
    s'.symMap = s.symMap ++ [(sym, uid)] ∧
    sym ∉ s.symMap.map Prod.fst ∧ sym ≠ "" ∧
    s'.classes = s.classes.modify c (fun ci => { ci with units := ci.units ++ [uid] }) ∧
    s'.clsMap = s.clsMap ∧ s'.opCache = s.opCache ∧
    (s'.termMap = s.termMap ∨ s'.termMap = s.termMap ++ [((s'.unit uid).normDef, uid)]) ∧
    (s'.unit uid).normDef = (match defn with
      | some d => termNormalized s.unitEnv d
      | none => [(.atom uid, 1)]) ∧
    (s'.unit uid).equiv = (if isRef then (some 1 : Option Rat) else match defn with
      | some d => some (match numElem (termNormalized s.unitEnv d) with
          | some n => if n = 0 then (1 : ℚ) else n
          | none => (1 : ℚ))
      | none => none) := by
  unfold RegState.makeUnit at h
  simp only at h
  split at h
  · simp at h
  · split at h
    · simp at h
    · rename_i hne hnone
      simp only [Except.ok.injEq, Prod.mk.injEq] at h
      obtain ⟨rfl, rfl⟩ := h
      have hnone' : (List.lookup sym s.symMap).isSome = false := by
        cases hl : List.lookup sym s.symMap <;> simp_all
      refine ⟨rfl, ?_, ?_, ?_, ?_, rfl, lookup_none_not_mem _ _ hnone', ?_, rfl, rfl, rfl, ?_, ?_, ?_⟩
      · simp [RegState.unit]
      · simp [RegState.unit]
      · simp [RegState.unit]
      · simp [RegState.unit]
      · simpa using hne
      · simp only
        split
        · left; rfl
        · right; simp [RegState.unit]
      · simp only [RegState.unit, List.getD_eq_getElem?_getD, List.getElem?_append_right (le_refl _),
          Nat.sub_self, List.getElem?_cons_zero, Option.getD_some]
        cases defn <;> rfl
      · simp only [RegState.unit, List.getD_eq_getElem?_getD, List.getElem?_append_right (le_refl _),
          Nat.sub_self, List.getElem?_cons_zero, Option.getD_some]
        cases defn <;> cases isRef <;> rfl


end QM
