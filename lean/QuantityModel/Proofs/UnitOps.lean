/-
Soundness of unit resolution (`_amnt_and_unit_from_term`) and of unit
arithmetic with the operation cache, under the directory invariant
"every entry of the term → unit map is keyed by that unit's normalised
definition".  Values are taken under any admissible valuation `ν` of the units
(C07): `ν` of a unit is what its normalised definition denotes.
-/
import QuantityModel.Proofs.Term
import QuantityModel.Model.Quantity
namespace QM

/-- every directory entry is keyed by the entry's own normalised definition -/
def TermMapSound (s : RegState) : Prop :=
  ∀ key w, (key, w) ∈ s.termMap → (s.unit w).normDef = key

/-- the valuation gives every unit the value of its normalised definition -/
def ValuesDefs (s : RegState) (ν : Nat → ℚ) : Prop :=
  ∀ u, ν u = den ν (s.unit u).normDef

/-- `ν` is admissible for the state -/
structure Admissible (s : RegState) (ν : Nat → ℚ) : Prop where
  nz : NonZero ν
  resp : Respects s.unitEnv ν
  defs : RespectsDefs s.unitEnv ν
  vals : ValuesDefs s ν

/-- value of an optional unit (`None` = dimensionless 1) -/
def optVal (ν : Nat → ℚ) : Option Nat → ℚ
  | some w => ν w
  | none => 1

theorem lookup_mem {α β} [BEq α] [LawfulBEq α] (l : List (α × β)) (k : α) (v : β)
    (h : l.lookup k = some v) : (k, v) ∈ l := by
  induction l with
  | nil => simp at h
  | cons p rest ih =>
    obtain ⟨k', v'⟩ := p
    rw [List.lookup] at h
    by_cases hk : k = k'
    · subst hk; simp only [beq_self_eq_true, Option.some.injEq] at h; subst h; simp
    · have : (k == k') = false := by simpa using hk
      simp only [this] at h
      exact List.mem_cons_of_mem _ (ih h)

theorem unitFromTerm_sound (s : RegState) (ν) (hA : Admissible s ν) (hT : TermMapSound s)
    (t : Items) (w : Nat) (h : s.unitFromTerm t = some w) : ν w = den ν t := by
  unfold RegState.unitFromTerm at h
  have hm := lookup_mem _ _ _ h
  rw [hA.vals w, hT _ _ hm, den_termNormalized _ ν hA.nz hA.resp hA.defs]

/-- KEY: a resolved term `(f, unit | None)` has exactly the value of the term -/
theorem amntAndUnit_sound (s : RegState) (ν) (hA : Admissible s ν) (hT : TermMapSound s)
    (t : Items) (f : ℚ) (w : Option Nat) (h : s.amntAndUnit t = some (f, w)) :
    f * optVal ν w = den ν t := by
  unfold RegState.amntAndUnit at h
  split at h
  · rename_i u hu
    simp only [Option.some.injEq, Prod.mk.injEq] at h
    obtain ⟨rfl, rfl⟩ := h
    simp [optVal, unitFromTerm_sound s ν hA hT t u hu]
  · simp only at h
    have hsplit := Props_split s ν hA t
    split at h
    · rename_i hempty
      simp only [Option.some.injEq, Prod.mk.injEq] at h
      obtain ⟨rfl, rfl⟩ := h
      simp only [List.isEmpty_iff] at hempty
      rw [hempty] at hsplit
      simpa [optVal] using hsplit
    · split at h
      · split at h
        · rename_i u hu
          simp only [Option.some.injEq, Prod.mk.injEq] at h
          obtain ⟨rfl, rfl⟩ := h
          simp only [optVal]
          rw [unitFromTerm_sound s ν hA hT _ u hu]
          exact hsplit
        · simp at h
      · simp at h
where
  Props_split (s : RegState) (ν) (hA : Admissible s ν) (t : Items) :
      (splitTerm s.unitEnv (termNormalized s.unitEnv t)).1 *
        den ν (splitTerm s.unitEnv (termNormalized s.unitEnv t)).2 = den ν t := by
    have h1 : ∀ t', (splitTerm s.unitEnv t').1 * den ν (splitTerm s.unitEnv t').2 = den ν t' := by
      intro t'
      unfold splitTerm
      match t' with
      | [] => simp [numElem]
      | (.atom a, e) :: rest => simp [numElem]
      | (.num q, e) :: rest =>
        simp only [numElem, List.tail_cons, den_mkTerm _ ν hA.nz hA.resp, den_cons, evalElem,
          rpow_eq_zpow]
    rw [h1, den_termNormalized _ ν hA.nz hA.resp hA.defs]

/-- every cached result has the value of the operation it stands for -/
def CacheSound (s : RegState) (ν : Nat → ℚ) : Prop :=
  ∀ op u v f w, ((op, u, v), (f, w)) ∈ s.opCache →
    f * optVal ν w = (match op with | .mul => ν u * ν v | .div => ν u / ν v)

theorem den_mkTerm_pair (s : RegState) (ν) (hA : Admissible s ν) (u v : Nat) (e : ℤ) :
    den ν (mkTerm s.unitEnv [(.atom u, 1), (.atom v, e)]) = ν u * ν v ^ e := by
  rw [den_mkTerm _ ν hA.nz hA.resp]; simp [evalElem]

/-- `Unit * Unit`: the result (fresh or cached) has the value of the product,
and the cache stays sound -/
theorem mulUnits_sound (s : QState) (ν) (hA : Admissible s.reg ν) (hT : TermMapSound s.reg)
    (hC : CacheSound s.reg ν) (u v : Nat) :
    (∀ f w, (s.mulUnits u v).2 = .ok (f, w) → f * optVal ν w = ν u * ν v) ∧
    CacheSound (s.mulUnits u v).1.reg ν := by
  unfold QState.mulUnits
  split
  · rename_i r hr
    refine ⟨?_, hC⟩
    intro f w h
    simp only [Except.ok.injEq] at h; subst h
    exact hC .mul u v f w (lookup_mem _ _ _ hr)
  · simp only
    split
    · exact ⟨by intro f w h; simp at h, hC⟩
    · rename_i r hr
      obtain ⟨f, w⟩ := r
      have hs := amntAndUnit_sound s.reg ν hA hT _ f w hr
      rw [den_mkTerm_pair s.reg ν hA u v 1, zpow_one] at hs
      refine ⟨?_, ?_⟩
      · intro f' w' h
        simp only [Except.ok.injEq, Prod.mk.injEq] at h
        obtain ⟨rfl, rfl⟩ := h; exact hs
      · intro op u' v' f' w' hmem
        simp only [List.mem_append, List.mem_singleton, Prod.mk.injEq] at hmem
        rcases hmem with hmem | ⟨⟨rfl, rfl, rfl⟩, rfl, rfl⟩
        · exact hC op u' v' f' w' hmem
        · exact hs

end QM

namespace QM

/-- `Unit / Unit` (different classes, or one class with a reference unit) -/
theorem divUnits_sound (s : QState) (ν) (hA : Admissible s.reg ν) (hT : TermMapSound s.reg)
    (hC : CacheSound s.reg ν) (u v : Nat)
    (href : s.reg.unitCls u = s.reg.unitCls v → (s.reg.cls (s.reg.unitCls u)).refUnit.isSome = true) :
    (∀ f w, (s.divUnits u v).2 = .ok (f, w) → f * optVal ν w = ν u / ν v) ∧
    CacheSound (s.divUnits u v).1.reg ν := by
  unfold QState.divUnits
  split
  · rename_i r hr
    refine ⟨?_, hC⟩
    intro f w h
    simp only [Except.ok.injEq] at h; subst h
    exact hC .div u v f w (lookup_mem _ _ _ hr)
  · simp only
    -- value of a freshly computed result
    have fresh : ∀ f w,
        (if s.reg.unitCls u == s.reg.unitCls v then
          if u == v then (Except.ok (1, none) : Except Err (ℚ × Option Nat))
          else match (s.reg.unit u).equiv, (s.reg.unit v).equiv with
            | some a, some b => .ok (a / b, none)
            | _, _ => .error .UnitConversionError
        else
          match s.reg.amntAndUnit (mkTerm s.reg.unitEnv [(.atom u, 1), (.atom v, -1)]) with
          | none => .error .UndefinedResultError
          | some r => .ok r) = .ok (f, w) → f * optVal ν w = ν u / ν v := by
      intro f w h
      split at h
      · rename_i hc
        have hc' : s.reg.unitCls u = s.reg.unitCls v := by simpa using hc
        split at h
        · rename_i huv
          have : u = v := by simpa using huv
          subst this
          simp only [Except.ok.injEq, Prod.mk.injEq] at h
          obtain ⟨rfl, rfl⟩ := h
          simp [optVal, div_self (hA.nz u)]
        · split at h
          · rename_i a b ha hb
            simp only [Except.ok.injEq, Prod.mk.injEq] at h
            obtain ⟨rfl, rfl⟩ := h
            have hf : getFactor s.reg.unitEnv u v = some (a / b) := by
              have hr := href hc'
              unfold getFactor RegState.unitEnv Env.info
              by_cases hu : u < s.reg.units.length
              · by_cases hv : v < s.reg.units.length
                · simp only [List.getD_eq_getElem?_getD, List.getElem?_map]
                  have eu : s.reg.unit u = s.reg.units[u] := by
                    simp [RegState.unit, List.getD_eq_getElem?_getD, hu]
                  have ev : s.reg.unit v = s.reg.units[v] := by
                    simp [RegState.unit, List.getD_eq_getElem?_getD, hv]
                  simp only [List.getElem?_eq_getElem hu, List.getElem?_eq_getElem hv,
                    Option.map_some, Option.getD_some]
                  rw [← eu, ← ev]
                  have hcu : (s.reg.unit u).cls = (s.reg.unit v).cls := hc'
                  have hrv : (s.reg.cls (s.reg.unit v).cls).refUnit.isSome = true := by
                    rw [← hcu]; exact hr
                  have hru : (s.reg.cls (s.reg.unit u).cls).refUnit.isSome = true := hr
                  simp [hcu, hrv, ha, hb]
                · exfalso
                  have : s.reg.unit v = default := by
                    simp [RegState.unit, List.getD_eq_getElem?_getD, List.getElem?_eq_none (by omega : s.reg.units.length ≤ v)]
                  rw [this] at hb; exact absurd hb (by simp [show (default : UnitInfo).equiv = none from rfl])
              · exfalso
                have : s.reg.unit u = default := by
                  simp [RegState.unit, List.getD_eq_getElem?_getD, List.getElem?_eq_none (by omega : s.reg.units.length ≤ u)]
                rw [this] at ha; exact absurd ha (by simp [show (default : UnitInfo).equiv = none from rfl])
            have := hA.resp u v _ hf
            simp only [optVal, mul_one]
            rw [this]; field_simp [hA.nz v]
          · simp at h
      · split at h
        · simp at h
        · rename_i r hr
          simp only [Except.ok.injEq] at h; subst h
          have hs := amntAndUnit_sound s.reg ν hA hT _ f w hr
          rw [den_mkTerm_pair s.reg ν hA u v (-1), zpow_neg, zpow_one] at hs
          rw [hs, div_eq_mul_inv]
    split
    · exact ⟨by intro f w h; simp at h, hC⟩
    · rename_i r hr
      obtain ⟨f, w⟩ := r
      have hs := fresh f w hr
      refine ⟨?_, ?_⟩
      · intro f' w' h
        simp only [Except.ok.injEq, Prod.mk.injEq] at h
        obtain ⟨rfl, rfl⟩ := h; exact hs
      · intro op u' v' f' w' hmem
        simp only [List.mem_append, List.mem_singleton, Prod.mk.injEq] at hmem
        rcases hmem with hmem | ⟨⟨rfl, rfl, rfl⟩, rfl, rfl⟩
        · exact hC op u' v' f' w' hmem
        · exact hs

end QM
