/-
Rational-level facts: the generated `_floordiv_rounded` computes, for every
non-zero divisor, the unique integer that the reference specification
`RoundSpecQ` assigns to the exact quotient.
-/
import QuantityModel.Proofs.Rounding
import QuantityModel.Model.Rounding
import QuantityModel.Ref.RoundSpecQ
import Mathlib.Tactic.Linarith
import Mathlib.Tactic.FieldSimp
import Mathlib.Tactic.Ring
import Mathlib.Tactic.Positivity
import Mathlib.Data.Rat.Lemmas
namespace QM
open QM.Gen

theorem iabs_eq_abs (a : ℤ) : iabs a = |a| := by
  unfold iabs; split
  · rw [abs_of_neg ‹_›]
  · rw [abs_of_nonneg (by omega)]

section transfer
variable {z : ℤ} {e c : ℚ} (hc : 0 < c) (he : (z : ℚ) = c * e)
include hc he
theorem tr_nonneg : 0 ≤ z ↔ 0 ≤ e := by
  have : (0 ≤ z) ↔ ((0:ℚ) ≤ (z:ℚ)) := by norm_cast
  rw [this, he]; exact mul_nonneg_iff_of_pos_left hc
theorem tr_pos : 0 < z ↔ 0 < e := by
  have : (0 < z) ↔ ((0:ℚ) < (z:ℚ)) := by norm_cast
  rw [this, he]; exact mul_pos_iff_of_pos_left hc
theorem tr_nonpos : z ≤ 0 ↔ e ≤ 0 := by
  rw [← not_lt, ← not_lt, tr_pos hc he]
theorem tr_neg : z < 0 ↔ e < 0 := by
  rw [← not_le, ← not_le, tr_nonneg hc he]
theorem tr_eq0 : z = 0 ↔ e = 0 := by
  rw [le_antisymm_iff, le_antisymm_iff, tr_nonneg hc he, tr_nonpos hc he]
theorem tr_abs : ((iabs z : ℤ) : ℚ) = c * |e| := by
  rw [iabs_eq_abs, Int.cast_abs, he, abs_mul, abs_of_pos hc]
end transfer

/-- The integer statement of the specification is the rational one. -/
theorem RoundSpec_iff_Q (m : Rounding) (x y r : ℤ) (hy : 0 < y) :
    RoundSpec m x y r ↔ RoundSpecQ m ((x : ℚ) / y) r := by
  have hyq : (0 : ℚ) < y := by exact_mod_cast hy
  have he : ((x - r * y : ℤ) : ℚ) = (y : ℚ) * ((x : ℚ) / y - r) := by
    push_cast; field_simp
  have hx : ((x : ℤ) : ℚ) = (y : ℚ) * ((x : ℚ) / y) := by field_simp
  have a1 : iabs (x - r * y) < y ↔ |(x : ℚ) / y - r| < 1 := by
    have : (iabs (x - r * y) < y) ↔ (((iabs (x - r * y) : ℤ) : ℚ) < y) := by norm_cast
    rw [this, tr_abs hyq he]
    constructor <;> intro h <;> nlinarith
  have a2 : 2 * iabs (x - r * y) ≤ y ↔ |(x : ℚ) / y - r| ≤ 1/2 := by
    have : (2 * iabs (x - r * y) ≤ y) ↔ (2 * ((iabs (x - r * y) : ℤ) : ℚ) ≤ y) := by norm_cast
    rw [this, tr_abs hyq he]
    constructor <;> intro h <;> nlinarith
  have a3 : 2 * iabs (x - r * y) = y ↔ |(x : ℚ) / y - r| = 1/2 := by
    have : (2 * iabs (x - r * y) = y) ↔ (2 * ((iabs (x - r * y) : ℤ) : ℚ) = y) := by norm_cast
    rw [this, tr_abs hyq he]
    constructor <;> intro h <;> nlinarith
  cases m <;>
  simp only [RoundSpec, RoundSpecQ, TowardZero, AwayFromZero, a1, a2, a3,
    tr_nonneg hyq he, tr_pos hyq he, tr_nonpos hyq he, tr_neg hyq he, tr_eq0 hyq he,
    tr_nonneg hyq hx, tr_pos hyq hx, tr_nonpos hyq hx, tr_neg hyq hx, ne_eq]

theorem num_div_den (v : ℚ) : ((v.num : ℚ) / ((v.den : ℤ) : ℚ)) = v := by
  simpa using Rat.num_div_den v

theorem den_pos' (v : ℚ) : (0 : ℤ) < (v.den : ℤ) := by exact_mod_cast v.den_pos

/-- The specification determines the result (rational form). -/
theorem RoundSpecQ_unique (m : Rounding) (v : ℚ) (r₁ r₂ : ℤ)
    (h₁ : RoundSpecQ m v r₁) (h₂ : RoundSpecQ m v r₂) : r₁ = r₂ := by
  rw [← num_div_den v] at h₁ h₂
  rw [← RoundSpec_iff_Q _ _ _ _ (den_pos' v)] at h₁ h₂
  exact RoundSpec_unique m _ _ _ _ (den_pos' v) h₁ h₂

/-- `roundQ` never takes its error branch. -/
theorem roundQ_ok (m d : Rounding) (v : ℚ) :
    floordivRounded v.num v.den (some m) d = .ok (roundQ m v) := by
  obtain ⟨r, e, _⟩ := floordiv_meets_spec v.num v.den m m (den_pos' v)
  rw [floordiv_some_dflt _ _ _ d m]
  simp [roundQ, e]

/-- `roundQ m v` meets the reference specification of mode `m`. -/
theorem roundQ_spec (m : Rounding) (v : ℚ) : RoundSpecQ m v (roundQ m v) := by
  obtain ⟨r, e, s⟩ := floordiv_meets_spec v.num v.den m m (den_pos' v)
  have : roundQ m v = r := by simp [roundQ, e]
  rw [this, ← num_div_den v, ← RoundSpec_iff_Q _ _ _ _ (den_pos' v)]
  exact s

/-- KEY: for every non-zero divisor (of either sign, reduced or not) the
generated function returns the mode's rounding of the exact quotient. -/
theorem floordiv_eq_roundQ (x y : ℤ) (m d : Rounding) (hy : y ≠ 0) :
    floordivRounded x y (some m) d = .ok (roundQ m ((x : ℚ) / y)) := by
  rcases lt_or_gt_of_ne hy with hneg | hpos
  · have hpos : 0 < -y := by omega
    rw [← floordiv_neg_neg]
    obtain ⟨r, e, s⟩ := floordiv_meets_spec (-x) (-y) m d hpos
    rw [e]; congr 1
    rw [RoundSpec_iff_Q _ _ _ _ hpos] at s
    have hq : ((-x : ℤ) : ℚ) / ((-y : ℤ) : ℚ) = (x : ℚ) / y := by push_cast; rw [neg_div_neg_eq]
    rw [hq] at s
    exact RoundSpecQ_unique m _ _ _ s (roundQ_spec m _)
  · obtain ⟨r, e, s⟩ := floordiv_meets_spec x y m d hpos
    rw [e]; congr 1
    rw [RoundSpec_iff_Q _ _ _ _ hpos] at s
    exact RoundSpecQ_unique m _ _ _ s (roundQ_spec m _)

theorem floordiv_eq_roundQ' (x y : ℤ) (m : Option Rounding) (d : Rounding) (hy : y ≠ 0) :
    floordivRounded x y m d = .ok (roundQ (m.getD d) ((x : ℚ) / y)) := by
  cases m with
  | none => rw [floordiv_none]; exact floordiv_eq_roundQ x y d d hy
  | some m => exact floordiv_eq_roundQ x y m d hy

/-! ### Consequences used by C05 / C06 / C09 / C13 -/

theorem roundQ_err_lt_one (m : Rounding) (v : ℚ) : |v - roundQ m v| < 1 :=
  (roundQ_spec m v).1

theorem roundQ_int (m : Rounding) (n : ℤ) : roundQ m (n : ℚ) = n := by
  have h := roundQ_err_lt_one m (n : ℚ)
  have : |((n - roundQ m (n:ℚ) : ℤ) : ℚ)| < 1 := by push_cast; exact h
  rw [← Int.cast_abs] at this
  have : |n - roundQ m (n:ℚ)| < 1 := by exact_mod_cast this
  have := abs_lt.mp this
  omega

def Rounding.isHalf : Rounding → Bool
  | .ROUND_HALF_UP | .ROUND_HALF_DOWN | .ROUND_HALF_EVEN => true
  | _ => false

theorem roundQ_half (m : Rounding) (hm : m.isHalf = true) (v : ℚ) :
    |v - roundQ m v| ≤ 1/2 := by
  have h := roundQ_spec m v
  cases m <;> simp [Rounding.isHalf] at hm <;> exact h.2.1

theorem roundQ_floor (v : ℚ) : (roundQ .ROUND_FLOOR v : ℚ) ≤ v := by
  have h := (roundQ_spec .ROUND_FLOOR v).2; simp only at h; linarith
theorem roundQ_ceiling (v : ℚ) : v ≤ (roundQ .ROUND_CEILING v : ℚ) := by
  have h := (roundQ_spec .ROUND_CEILING v).2; simp only at h; linarith
theorem roundQ_down (v : ℚ) : |(roundQ .ROUND_DOWN v : ℚ)| ≤ |v| := by
  obtain ⟨h0, h1, h2⟩ := roundQ_spec .ROUND_DOWN v
  have h0' := abs_lt.mp h0
  rcases le_total 0 v with hv | hv
  · have hd := h1 hv
    have : (0:ℚ) ≤ roundQ .ROUND_DOWN v := by
      by_contra hc; push_neg at hc
      have : (roundQ .ROUND_DOWN v : ℚ) ≤ -1 := by
        have : roundQ .ROUND_DOWN v < 0 := by exact_mod_cast hc
        have : roundQ .ROUND_DOWN v ≤ -1 := by omega
        exact_mod_cast this
      linarith
    rw [abs_of_nonneg this, abs_of_nonneg hv]; linarith
  · have hd := h2 hv
    have : (roundQ .ROUND_DOWN v : ℚ) ≤ 0 := by
      by_contra hc; push_neg at hc
      have : (1:ℚ) ≤ (roundQ .ROUND_DOWN v : ℚ) := by
        have : 0 < roundQ .ROUND_DOWN v := by exact_mod_cast hc
        have : 1 ≤ roundQ .ROUND_DOWN v := by omega
        exact_mod_cast this
      linarith
    rw [abs_of_nonpos this, abs_of_nonpos hv]; linarith
theorem roundQ_up (v : ℚ) : |v| ≤ |(roundQ .ROUND_UP v : ℚ)| := by
  obtain ⟨h0, h1, h2⟩ := roundQ_spec .ROUND_UP v
  rcases lt_trichotomy v 0 with hv | hv | hv
  · have := h2 hv
    rw [abs_of_neg hv, abs_of_nonpos (by linarith)]; linarith
  · simp [hv]
  · have := h1 hv
    rw [abs_of_pos hv, abs_of_nonneg (by linarith)]; linarith

/-- Ties under HALF_EVEN go to the even neighbour. -/
theorem roundQ_half_even_tie (v : ℚ) (h : |v - roundQ .ROUND_HALF_EVEN v| = 1/2) :
    roundQ .ROUND_HALF_EVEN v % 2 = 0 :=
  (roundQ_spec .ROUND_HALF_EVEN v).2.2 h

end QM
