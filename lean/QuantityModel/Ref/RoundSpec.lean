/-
Hand-written, independent reference for the eight decimal rounding modes
(IEEE 754 / General Decimal Arithmetic definitions), stated on integers:
`r` is the result of rounding the exact quotient `x / y` (`0 < y`).
`d = x - r*y` is (exact - result) scaled by `y`.
Not derived from the code's branch structure.
-/
import QuantityModel.Model.Basic
namespace QM

/-- result lies between zero and the exact value (rounding towards zero) -/
def TowardZero (x d : Int) : Prop := (0 ≤ x → 0 ≤ d) ∧ (x ≤ 0 → d ≤ 0)
/-- exact value lies between zero and the result (rounding away from zero) -/
def AwayFromZero (x d : Int) : Prop := (0 < x → d ≤ 0) ∧ (x < 0 → 0 ≤ d)

def RoundSpec (m : Rounding) (x y r : Int) : Prop :=
  let d := x - r * y
  iabs d < y ∧
  match m with
  | .ROUND_FLOOR => 0 ≤ d
  | .ROUND_CEILING => d ≤ 0
  | .ROUND_DOWN => TowardZero x d
  | .ROUND_UP => AwayFromZero x d
  | .ROUND_HALF_UP =>
      2 * iabs d ≤ y ∧ (2 * iabs d = y → (0 < x → d < 0) ∧ (x < 0 → 0 < d))
  | .ROUND_HALF_DOWN =>
      2 * iabs d ≤ y ∧ (2 * iabs d = y → (0 < x → 0 < d) ∧ (x < 0 → d < 0))
  | .ROUND_HALF_EVEN =>
      2 * iabs d ≤ y ∧ (2 * iabs d = y → r % 2 = 0)
  | .ROUND_05UP =>
      d = 0 ∨
      (TowardZero x d ∧ ¬ (5 ∣ r)) ∨
      (d ≠ 0 ∧ AwayFromZero x d ∧ (0 < x → 5 ∣ (r - 1)) ∧ (x < 0 → 5 ∣ (r + 1)))

end QM
