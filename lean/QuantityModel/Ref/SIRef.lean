/-
Hand-written, independent reference: what every predefined unit *is* according
to the SI, the international yard and pound agreement (1959), IEC 80000-13 /
IEEE 1541 binary prefixes.  Scales are exact rationals relative to the coherent
SI unit of the quantity (kg, m, s, byte and their products).  Written from the
definitions, not from /repo; reviewable by eye (DESIGN.md Appendix A).
-/
import QuantityModel.Model.Basic
namespace QM.Ref

-- yard-pound agreement
def inch : Rat := 254 / 10000           -- 1 in = 0.0254 m
def foot : Rat := 12 * inch
def yard : Rat := 3 * foot             -- = 0.9144 m
def chain : Rat := 22 * yard
def furlong : Rat := 10 * chain
def mile : Rat := 8 * furlong          -- = 1609.344 m
def pound : Rat := 45359237 / 100000000 -- 1 lb = 0.45359237 kg
def hour : Rat := 3600

/-- (class, symbol, scale relative to the class's coherent SI unit) -/
def linearUnits : List (String × String × Rat) := [
  -- Mass [kg]
  ("Mass", "kg", 1), ("Mass", "g", 1 / 1000), ("Mass", "mg", 1 / 1000000), ("Mass", "t", 1000),
  ("Mass", "ct", 2 / 10000), ("Mass", "lb", pound), ("Mass", "oz", pound / 16),
  ("Mass", "st", 14 * pound),
  -- Length [m]
  ("Length", "m", 1), ("Length", "nm", 1 / 1000000000), ("Length", "µm", 1 / 1000000),
  ("Length", "mm", 1 / 1000), ("Length", "cm", 1 / 100), ("Length", "dm", 1 / 10),
  ("Length", "km", 1000), ("Length", "in", inch), ("Length", "ft", foot), ("Length", "yd", yard),
  ("Length", "ch", chain), ("Length", "fur", furlong), ("Length", "mi", mile),
  -- Duration [s]
  ("Duration", "s", 1), ("Duration", "ns", 1 / 1000000000), ("Duration", "µs", 1 / 1000000),
  ("Duration", "ms", 1 / 1000), ("Duration", "min", 60), ("Duration", "h", hour),
  ("Duration", "d", 86400),
  -- Area [m²]
  ("Area", "m²", 1), ("Area", "mm²", 1 / 1000000), ("Area", "cm²", 1 / 10000),
  ("Area", "dm²", 1 / 100), ("Area", "km²", 1000000), ("Area", "a", 100), ("Area", "ha", 10000),
  ("Area", "in²", inch * inch), ("Area", "ft²", foot * foot), ("Area", "yd²", yard * yard),
  ("Area", "mi²", mile * mile), ("Area", "ac", 4840 * (yard * yard)),
  -- Volume [m³]
  ("Volume", "m³", 1), ("Volume", "mm³", 1 / 1000000000), ("Volume", "cm³", 1 / 1000000),
  ("Volume", "dm³", 1 / 1000), ("Volume", "km³", 1000000000), ("Volume", "l", 1 / 1000),
  ("Volume", "ml", 1 / 1000000), ("Volume", "cl", 1 / 100000), ("Volume", "dl", 1 / 10000),
  ("Volume", "in³", inch * inch * inch), ("Volume", "ft³", foot * foot * foot),
  ("Volume", "yd³", yard * yard * yard),
  -- Velocity [m/s]
  ("Velocity", "m/s", 1), ("Velocity", "km/h", 1000 / hour), ("Velocity", "ft/s", foot),
  ("Velocity", "mph", mile / hour),
  -- Acceleration [m/s²]
  ("Acceleration", "m/s²", 1), ("Acceleration", "mps²", mile),
  -- Force [N = kg·m/s²]
  ("Force", "N", 1), ("Force", "J/m", 1),
  -- Energy [J = N·m]
  ("Energy", "J", 1), ("Energy", "Nm", 1), ("Energy", "Ws", 1), ("Energy", "kWh", 1000 * hour),
  -- Power [W = J/s]
  ("Power", "W", 1), ("Power", "mW", 1 / 1000), ("Power", "kW", 1000), ("Power", "MW", 1000000),
  ("Power", "GW", 1000000000), ("Power", "TW", 1000000000000),
  -- Frequency [Hz = 1/s]
  ("Frequency", "Hz", 1), ("Frequency", "kHz", 1000), ("Frequency", "MHz", 1000000),
  ("Frequency", "GHz", 1000000000),
  -- DataVolume [byte]
  ("DataVolume", "B", 1), ("DataVolume", "kB", 1000), ("DataVolume", "MB", 1000000),
  ("DataVolume", "GB", 1000000000), ("DataVolume", "TB", 1000000000000),
  ("DataVolume", "KiB", 1024), ("DataVolume", "MiB", 1048576), ("DataVolume", "GiB", 1073741824),
  ("DataVolume", "TiB", 1099511627776),
  ("DataVolume", "b", 1 / 8), ("DataVolume", "kb", 1000 / 8), ("DataVolume", "Mb", 1000000 / 8),
  ("DataVolume", "Gb", 1000000000 / 8), ("DataVolume", "Tb", 1000000000000 / 8),
  ("DataVolume", "Kib", 1024 / 8), ("DataVolume", "Mib", 1048576 / 8),
  ("DataVolume", "Gib", 1073741824 / 8), ("DataVolume", "Tib", 1099511627776 / 8),
  -- DataThroughput [byte/s]
  ("DataThroughput", "B/s", 1), ("DataThroughput", "kB/s", 1000), ("DataThroughput", "MB/s", 1000000),
  ("DataThroughput", "GB/s", 1000000000), ("DataThroughput", "TB/s", 1000000000000),
  ("DataThroughput", "KiB/s", 1024), ("DataThroughput", "MiB/s", 1048576),
  ("DataThroughput", "GiB/s", 1073741824), ("DataThroughput", "TiB/s", 1099511627776),
  ("DataThroughput", "b/s", 1 / 8), ("DataThroughput", "kb/s", 1000 / 8),
  ("DataThroughput", "Mb/s", 1000000 / 8), ("DataThroughput", "Gb/s", 1000000000 / 8),
  ("DataThroughput", "Tb/s", 1000000000000 / 8), ("DataThroughput", "Kib/s", 1024 / 8),
  ("DataThroughput", "Mib/s", 1048576 / 8), ("DataThroughput", "Gib/s", 1073741824 / 8),
  ("DataThroughput", "Tib/s", 1099511627776 / 8)]

/-- reference-less units (class only) -/
def temperatureUnits : List (String × String) :=
  [("Temperature", "°C"), ("Temperature", "°F"), ("Temperature", "K")]

/-- dimension of each derived type over (Mass, Length, Duration, DataVolume) -/
def dimensions : List (String × (Int × Int × Int × Int)) := [
  ("Mass", (1, 0, 0, 0)), ("Length", (0, 1, 0, 0)), ("Duration", (0, 0, 1, 0)),
  ("DataVolume", (0, 0, 0, 1)),
  ("Area", (0, 2, 0, 0)), ("Volume", (0, 3, 0, 0)), ("Velocity", (0, 1, -1, 0)),
  ("Acceleration", (0, 1, -2, 0)), ("Force", (1, 1, -2, 0)), ("Energy", (1, 2, -2, 0)),
  ("Power", (1, 2, -3, 0)), ("Frequency", (0, 0, -1, 0)), ("DataThroughput", (0, 0, -1, 1))]

/-- SI prefixes: exponent of ten -/
def siPrefixExp : List (String × Int) := [
  ("Yocto", -24), ("Zepto", -21), ("Atto", -18), ("Femto", -15), ("Pico", -12), ("Nano", -9),
  ("Micro", -6), ("Milli", -3), ("Centi", -2), ("Deci", -1), ("Deca", 1), ("Hecto", 2),
  ("Kilo", 3), ("Mega", 6), ("Giga", 9), ("Tera", 12), ("Peta", 15), ("Exa", 18), ("Zetta", 21),
  ("Yotta", 24)]

/-- quantum of DataVolume: one bit -/
def dataVolumeQuantum : Rat := 1 / 8

end QM.Ref
