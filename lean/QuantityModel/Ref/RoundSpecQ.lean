/-
The same reference specification stated on the exact rational value `v`:
`r` is the result of rounding `v` to an integer under mode `m`.
This is the readable form of the IEEE 754 / General Decimal Arithmetic rules.
-/
import QuantityModel.Model.Basic
import Mathlib.Algebra.Order.Field.Rat
import Mathlib.Algebra.Order.AbsoluteValue.Basic
namespace QM

def RoundSpecQ (m : Rounding) (v : ℚ) (r : ℤ) : Prop :=
  let d : ℚ := v - r
  |d| < 1 ∧
  match m with
  | .ROUND_FLOOR => 0 ≤ d
  | .ROUND_CEILING => d ≤ 0
  | .ROUND_DOWN => (0 ≤ v → 0 ≤ d) ∧ (v ≤ 0 → d ≤ 0)
  | .ROUND_UP => (0 < v → d ≤ 0) ∧ (v < 0 → 0 ≤ d)
  | .ROUND_HALF_UP =>
      |d| ≤ 1/2 ∧ (|d| = 1/2 → (0 < v → d < 0) ∧ (v < 0 → 0 < d))
  | .ROUND_HALF_DOWN =>
      |d| ≤ 1/2 ∧ (|d| = 1/2 → (0 < v → 0 < d) ∧ (v < 0 → d < 0))
  | .ROUND_HALF_EVEN =>
      |d| ≤ 1/2 ∧ (|d| = 1/2 → r % 2 = 0)
  | .ROUND_05UP =>
      d = 0 ∨
      (((0 ≤ v → 0 ≤ d) ∧ (v ≤ 0 → d ≤ 0)) ∧ ¬ (5 ∣ r)) ∨
      (d ≠ 0 ∧ ((0 < v → d ≤ 0) ∧ (v < 0 → 0 ≤ d)) ∧
        (0 < v → 5 ∣ (r - 1)) ∧ (v < 0 → 5 ∣ (r + 1)))

end QM
