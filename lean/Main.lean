import QuantityModel.Model.Driver
open QM.Driver

partial def loop (h : IO.FS.Stream) (out : IO.FS.Stream) (s : DState) : IO Unit := do
  let line ← h.getLine
  if line.isEmpty then return ()
  let line := String.ofList (line.toList.takeWhile (fun c => c != '\n' && c != '\r'))
  let (s', o) := step s line
  out.putStrLn o
  loop h out s'

def main : IO Unit := do
  let stdin ← IO.getStdin
  let stdout ← IO.getStdout
  loop stdin stdout DState.init
