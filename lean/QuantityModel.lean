import QuantityModel.Model.Basic
import QuantityModel.Gen.FloorDiv
