"""Loads the hand-written reference table Ref/SIRef.lean through the model
driver (`siref` op) so that the Python oracle and the Lean theorems use one
and the same trusted table."""
from fractions import Fraction

import common

_cache = None


def table():
    """[(class, symbol, Fraction | None)]"""
    global _cache
    if _cache is None:
        out = common.run_driver(["siref"])[0]
        assert out.startswith("ok ")
        rows = []
        for tok in out[3:].split(" "):
            if tok.startswith("#"):
                continue
            c, sy, k = tok.split("|")
            rows.append((c, sy, None if k == "none" else common.parse_rat(k)))
        _cache = rows
    return _cache


def dimensions():
    """{class: {base class: exponent}} for the predefined catalogue"""
    out = common.run_driver(["siref"])[0]
    dims = {}
    for tok in out[3:].split(" "):
        if tok.startswith("#"):
            c, m, l, t, dv = tok[1:].split("|")
            d = {"Mass": int(m), "Length": int(l), "Duration": int(t), "DataVolume": int(dv)}
            dims[c] = {k: v for k, v in d.items() if v}
    dims["Temperature"] = {"Temperature": 1}
    return dims
