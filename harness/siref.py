"""Loads the hand-written reference table Ref/SIRef.lean through the model
driver (`siref` op) so that the Python oracle and the Lean theorems use one
and the same trusted table."""
from fractions import Fraction

import common

_cache = None


def table():
    """[(class, symbol, Fraction | None)]"""
    global _cache
    if _cache is None:
        out = common.run_driver(["siref"])[0]
        assert out.startswith("ok ")
        rows = []
        for tok in out[3:].split(" "):
            c, sy, k = tok.split("|")
            rows.append((c, sy, None if k == "none" else common.parse_rat(k)))
        _cache = rows
    return _cache
