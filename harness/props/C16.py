"""C16 — rejected declarations leave no trace."""
from __future__ import annotations

from props import _hist

ID = "C16"
LEAN_TARGETS = ["QuantityModel.Props.C16"]
RULE = ("random declaration histories (base / derived classes with given or "
        "default reference symbols, with and without reference unit or "
        "quantum; units scaled from a unit, term-defined, derived from base "
        "units, reference-less; ~25% invalid declarations of 15 kinds), each "
        "run in a forked child starting from the state after `import "
        "quantity`, a full directory dump after every step, then per-unit "
        "queries (Unit(sym), own class, scale via conversion to the reference "
        "unit, factory class). Non-trivial: history with >= 1 derived class "
        "or >= 1 non-reference unit; distinct by the multiset of step kinds")
EXHAUSTIVE = {}


def known_witness_cases():
    return []


def tolerated(case, i, impl, model):
    return False


def gen_cases(rng, tier):
    n = 400 if tier == "thorough" else 80
    cases = [_hist.gen_history_case(rng, rng.randint(8, 26), refless_script=(i % 5 == 4),
                                    undefined_units=(.6 if i % 3 == 0 else 0.0),
                                    undefined_multiples=True)
             for i in range(n)]
    # currency declarations and money-converter updates that are rejected
    from props import C08, C11
    for c in C08.gen_cases(rng, tier):
        if "user-currencies" in c["tags"]:
            c["delegate"] = "C08"
            cases.append(c)
    for c in C11.gen_cases(rng, "quick", rejections=True)[:10 if tier != "thorough" else 40]:
        c["delegate"] = "C11"
        cases.append(c)
    return cases


def search_cases(rng, focus, broken):
    return [_hist.gen_history_case(rng, rng.randint(6, 16)) for _ in range(10)]


def oracle(case, impl):
    if case.get("delegate") == "C08":
        from props import C08
        return [f for f in C08.oracle(case, impl) if f["site"] == "cur:reject-trace"]
    if case.get("delegate") == "C11":
        from props import C11
        # a rejected update must leave the table (dumped after every update) as it was
        return [f for f in C11.oracle(case, impl)
                if f["site"] in ("conv:table", "conv:update-accepted", "conv:update-trace")]
    return _hist.directory_oracle(case, impl, check_trace=True, check_dir=False)


def nontrivial_key(case, impl):
    if case.get("delegate"):
        return {(case["delegate"], tuple(o[:4])) for o, out in zip(case["ops"], impl)
                if o[0] in ("cur_new", "mc_update") and out.startswith("err")}
    kinds = sorted(m["kind"] for m in case["meta"] if "expect" in m)
    if not any(k not in ("base-class",) for k in kinds):
        return None
    return tuple(kinds)
