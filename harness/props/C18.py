"""C18 — construction is exact and the text form round-trips."""
from __future__ import annotations

from fractions import Fraction

from common import parse_rat, rat
from props import _qty

ID = "C18"
LEAN_TARGETS = ["QuantityModel.Props.C18"]
RULE = ("contexts: predefined catalogue (all 113 symbols incl. non-ASCII and "
        "compound ones) and user histories; (a) construction from every "
        "accepted amount kind (int, Fraction, Decimal with trailing zeros, "
        "float incl. huge / tiny / subnormal — exact binary value) through "
        "the type and through the generic factory; (b) str / format of "
        "Decimal (every precision) and Fraction amounts, and parsing it back "
        "through both factories: same type, unit and amount; (c) parsing with "
        "an explicit other unit == parse-then-convert; (d) literal forms "
        "(sign, leading/trailing dot, exponent, n/d, leading blanks, several "
        "blanks before the symbol) and malformed text (empty, no blank, tab "
        "instead of blank, garbage, unknown symbol, n/0). Non-trivial: "
        "everything but identity; distinct by (op, amount shape, symbol)")
EXHAUSTIVE = {}
MODE = "ROUND_HALF_EVEN"
TRUSTED_EXTRA = ["Python's wider numeric literal grammar (underscores, non-ASCII digits, inner "
                 "whitespace, inf/nan) is outside the modelled subset and is not generated"]


def known_witness_cases():
    return []


def tolerated(case, i, impl, model):
    return False


def dec_token(rng):
    v = rng.randint(-10 ** rng.randint(0, 12), 10 ** rng.randint(0, 12))
    p = rng.randint(0, 8)
    return f"D:{v}:{p}", Fraction(v, 10 ** p), (v, p)


def _dec_pair(x):
    """(v, p) with x = v / 10^p, p minimal; None when x is not a finite decimal"""
    d, p = x.denominator, 0
    while d % 10 == 0:
        d //= 10; p += 1
    a = b = 0
    while d % 2 == 0:
        d //= 2; a += 1
    while d % 5 == 0:
        d //= 5; b += 1
    if d != 1:
        return None
    p += max(a, b)
    return int(x * 10 ** p), p


def render_dec(v, p):
    """independent statement of the decimal text form: sign, integer digits,
    and exactly p fraction digits"""
    s = "-" if v < 0 else ""
    digits = str(abs(v)).rjust(p + 1, "0")
    return s + (digits if p == 0 else digits[:-p] + "." + digits[-p:])


LITERALS = [("1.5", Fraction(3, 2)), ("-1.50", Fraction(-3, 2)), ("+7", Fraction(7)), (".5", Fraction(1, 2)),
            ("5.", Fraction(5)), ("1e3", Fraction(1000)), ("1.25E-2", Fraction(1, 80)), ("-2.5e+1", Fraction(-25)),
            ("7/3", Fraction(7, 3)), ("-7/3", Fraction(-7, 3)), ("10/4", Fraction(5, 2)), ("0", Fraction(0)),
            ("000.100", Fraction(1, 10)), ("123456789012345678901234567890", Fraction(123456789012345678901234567890))]
MALFORMED = ["", " ", "abc", "1.5.2", "--1", "1e", "e5", "1/", "/2", "1/2/3", "1,5", "0x10", "1/0", "+", ".", "1 .5"]


def gen_cases(rng, tier):
    n_user = 20 if tier == "thorough" else 8
    n_pre = 6 if tier == "thorough" else 2
    per = 80 if tier == "thorough" else 60
    cases = []
    ctxs = [_qty.predefined_ctx() for _ in range(n_pre)] + \
           [_qty.user_ctx(rng, rng.randint(8, 14), odd_symbols=.6, blank_symbols=True) for _ in range(n_user)]
    for ctx in ctxs:
        ops = []
        plain = [u for u in ctx.units if ctx.units[u]["scale"] is None or ctx.quantum(u) is None]
        lin = [u for u in ctx.linear_units() if ctx.quantum(u) is None]
        for _ in range(per):
            u = rng.choice(plain)
            cls = ctx.units[u]["cls"]
            r = rng.random()
            if r < .2:
                tok, val, _ = dec_token(rng)
                ops.append(["q_str", f"{tok}@{u}"])
            elif r < .3:
                x = Fraction(rng.randint(-999, 999), rng.choice([3, 7, 9, 11, 1]))
                ops.append(["q_str", f"F:{rat(x)}@{u}"])
            elif r < .55:
                # round trip: render independently, parse through both factories
                if rng.random() < .7:
                    tok, val, (v, p) = dec_token(rng)
                    text = render_dec(v, p)
                else:
                    val = Fraction(rng.randint(-999, 999), rng.choice([3, 7, 9, 11]))
                    text = f"{val.numerator}/{val.denominator}" if val.denominator != 1 else str(val.numerator)
                ops.append(["q_parse", rng.choice(["-", cls]), f"{text} {u}", "-", MODE])
            elif r < .7:
                lit, val = rng.choice(LITERALS)
                pad = rng.choice(["", " ", "   "])
                sep = rng.choice([" ", "  ", "   "])
                tail = rng.choice(["", " ", "  "])
                ops.append(["q_parse", rng.choice(["-", cls]), f"{pad}{lit}{sep}{u}{tail}", "-", MODE])
            elif r < .8 and lin:
                u2 = rng.choice(lin)
                v2 = rng.choice([x for x in lin if ctx.units[x]["cls"] == ctx.units[u2]["cls"]])
                lit, val = rng.choice(LITERALS)
                ops.append(["q_parse", rng.choice(["-", ctx.units[u2]["cls"]]), f"{lit} {u2}", v2, MODE])
            elif r < .9:
                bad = rng.choice(MALFORMED)
                form = rng.choice([f"{bad} {u}", f"1.5\\t{u}", f"1.5{u}", f"1.5 nosuchunit", f"1.5 {u}x", bad, "1.5"])
                ops.append(["q_parse", rng.choice(["-", cls]), form, "-", MODE])
            else:
                # wrong type for the symbol
                other = rng.choice(list(ctx.classes))
                ops.append(["q_parse", other, f"2.5 {u}", "-", MODE])
        # the text form keeps its meaning after REJECTED declarations: try to
        # declare existing symbols again in other types (rejected: symbols are
        # unique), then parse those symbols through both factories
        if lin:
            for _ in range(3):
                u = rng.choice(list(ctx.units))
                t = rng.choice(lin)
                if ctx.units[t]["cls"] == ctx.units[u]["cls"]:
                    continue
                ops.append(["new_unit", ctx.units[t]["cls"], u, "qty", "3", t, MODE])
                if u in plain:
                    ops.append(["q_parse", "-", f"2.5 {u}", "-", MODE])
                    ops.append(["q_parse", ctx.units[u]["cls"], f"2.5 {u}", "-", MODE])
                    ops.append(["q_str", f"F:5/2@{u}"])
        # text with a symbol plus a DIFFERENT explicit unit that the quantity
        # cannot be converted to (type without reference unit, no converter)
        refless_cls = {}
        for u in ctx.units:
            if ctx.units[u]["scale"] is None and ctx.kind == "user":
                refless_cls.setdefault(ctx.units[u]["cls"], []).append(u)
        for cname, us in refless_cls.items():
            if len(us) >= 2:
                a, b = rng.sample(us, 2)
                ops.append(["q_parse", rng.choice(["-", cname]), f"5 {a}", b, MODE])
                ops.append(["q_parse", rng.choice(["-", cname]), f"5 {a}", a, MODE])
        # floats and ints through q_mk (exact binary value)
        for f in [0.1, 1e-300, 5e-324, 1.7976931348623157e308, 123456.789, -0.0, 2.5]:
            u = rng.choice(plain)
            ops.append(["q_mk", rng.choice(["-", ctx.units[u]["cls"]]), "L:" + rat(Fraction(f)), u, MODE])
        # ... and through `number * unit` / `unit * number` (the other documented
        # way to construct): the same exact value, also into quantised units
        qfl = [u for u in ctx.linear_units() if ctx.quantum(u) is not None]
        for f in [0.1, 1e300, 5e-324, 1.015, 123456.789, 2.675, 0.07]:
            u = rng.choice(qfl) if qfl and rng.random() < .4 else rng.choice(plain)
            ops.append(["u_num", rng.choice(["mul", "rmul"]), u, "L:" + rat(Fraction(f)), MODE])
        # numbers with more significant digits than any default precision (the
        # standard library's context rounds to 28), as both kinds of Decimal,
        # Fraction, int and text: held exactly
        for kind in ("P:", "P:", "", "F:"):
            u = rng.choice(plain)
            x = _qty.long_decimal(rng)
            ops.append(["q_mk", rng.choice(["-", ctx.units[u]["cls"]]), kind + rat(x), u, MODE])
            if kind == "F:":
                ops.append(["q_str", f"F:{rat(x)}@{u}"])
            elif kind == "":
                v_, p_ = _dec_pair(x)
                ops.append(["q_str", f"D:{v_}:{p_}@{u}"])
        # every accepted kind of number (int, float, Fraction, both Decimals),
        # also into quantised types: the exact value, rounded only to the
        # unit's quantum (few-digit amounts that are NOT on the grid included)
        qunits = [u for u in ctx.linear_units() if ctx.quantum(u) is not None]
        for _ in range(30):
            u = rng.choice(qunits) if qunits and rng.random() < .6 else rng.choice(plain)
            r = rng.random()
            if r < .4:
                x = Fraction(rng.randint(-300, 300), rng.choice([1, 10, 100, 1000]))
            elif r < .6:
                x = Fraction(rng.randint(-999, 999), rng.choice([2, 4, 8, 16, 64]))
            else:
                x = _qty.amount(rng)
            mode = rng.choice(["ROUND_HALF_EVEN", "ROUND_DOWN", "ROUND_CEILING", "ROUND_HALF_UP"])
            ops.append(["q_mk", rng.choice(["-", ctx.units[u]["cls"]]), _qty.kind_tok(rng, x, ctor=True), u, mode])
            if ctx.quantum(u) is not None:
                text = render_dec(*_dec_pair(x)) if _dec_pair(x) else f"{x.numerator}/{x.denominator}"
                ops.append(["q_parse", rng.choice(["-", ctx.units[u]["cls"]]), f"{text} {u}", "-", mode])
        cases.append(_qty.case_of(ctx, ops, ["text"]))
    # a type without reference unit and without converter: text naming one of
    # its units plus a different explicit unit cannot be converted
    setup = [["decl_class", "R", "-", "-", "0", "-"], ["new_unit", "R", "r1", "none"],
             ["new_unit", "R", "r2", "none"], ["decl_class", "L", "-", "m", "0", "-"]]
    ctx = _qty.Ctx(setup, {"r1": dict(cls="R", scale=None), "r2": dict(cls="R", scale=None),
                           "m": dict(cls="L", scale=Fraction(1))},
                   {"R": dict(dim={"R": 1}, ref=None, quantum=None),
                    "L": dict(dim={"L": 1}, ref="m", quantum=None)}, "user")
    ops = []
    for text in ("5 r1", "-7/3 r1", "0 r1", "2.50 r2"):
        for fac in ("-", "R"):
            for unit in ("r1", "r2", "m"):
                ops.append(["q_parse", fac, text, unit, MODE])
    cases.append(_qty.case_of(ctx, ops, ["text", "unconvertible"]))
    return cases


def search_cases(rng, focus, broken):
    return gen_cases(rng, "quick")[:3]


def parse_literal(s):
    """independent reading of the documented literal forms"""
    import re
    m = re.fullmatch(r"([+-]?)(?:(\d+)(?:\.(\d*))?|\.(\d+))(?:[eE]([+-]?\d+))?", s)
    if m:
        sign, ip, fp, of, ex = m.groups()
        if of is not None:
            val = Fraction(int(of), 10 ** len(of))
        else:
            val = Fraction(int(ip)) + (Fraction(int(fp), 10 ** len(fp)) if fp else 0)
        val *= Fraction(10) ** int(ex or 0)
        return -val if sign == "-" else val
    m = re.fullmatch(r"([+-]?)(\d+)/(\d+)", s)
    if m:
        sign, n, d = m.groups()
        if int(d) == 0:
            return "zerodiv"
        val = Fraction(int(n), int(d))
        return -val if sign == "-" else val
    return None


def oracle(case, impl):
    ctx = _qty.ctx_of(case)
    fails = _qty.setup_failures(case, impl)
    for o, out in list(zip(case["ops"], impl))[case["nsetup"]:]:
        if o[0] == "q_str":
            tok, _, u = o[1].rpartition("@")
            if tok.startswith("D:"):
                _, v, p = tok.split(":")
                exp = f"ok {render_dec(int(v), int(p))} {u}"
            else:
                x = parse_rat(tok[2:])
                exp = f"ok {x.numerator}/{x.denominator} {u}" if x.denominator != 1 else f"ok {x.numerator} {u}"
            if out != exp:
                fails.append({"site": "text:str", "msg": f"{o} -> {out!r}, expected {exp!r}"})
        elif o[0] == "q_parse":
            cls, text, uarg = o[1], o[2].replace("\\t", "\t"), o[3]
            s = text.lstrip()
            tok, sep, rest = s.partition(" ")
            val = parse_literal(tok)
            sym = rest.strip() if sep else None
            if val is None or (sym is not None and sym not in ctx.units) or (sym is None and uarg == "-"):
                # (a type's own reference unit is the default when no symbol is given;
                #  contexts here always pass the generic factory or a type: accept either
                #  QuantityError or a quantity in the type's reference unit)
                if val == "zerodiv":
                    exp = "err QuantityError"
                elif sym is None and uarg == "-" and val is not None and cls != "-" \
                        and ctx.classes[cls]["ref"] is not None:
                    exp = "ok " + ctx.qty(val, ctx.classes[cls]["ref"])
                else:
                    exp = "err QuantityError"
            elif val == "zerodiv":
                exp = "err QuantityError"
            else:
                if sym is None:
                    sym = uarg
                target = sym if uarg == "-" else uarg
                if ctx.units[sym]["cls"] != ctx.units[target]["cls"]:
                    exp = "err IncompatibleUnitsError"
                elif target != sym and (ctx.units[sym]["scale"] is None or ctx.units[target]["scale"] is None):
                    exp = "err UnitConversionError"
                elif cls != "-" and cls != ctx.units[sym]["cls"] and target == sym:
                    exp = "err QuantityError"
                else:
                    a = val
                    if target != sym:
                        a = val * ctx.units[sym]["scale"] / ctx.units[target]["scale"]
                    a = ctx.grid(sym, val, o[4])
                    if target != sym:
                        a = a * ctx.units[sym]["scale"] / ctx.units[target]["scale"]
                    exp = "ok " + ctx.qty(ctx.grid(target, a, o[4]), target)
            if out != exp:
                fails.append({"site": "text:parse", "msg": f"{o} -> {out}, expected {exp}"})
        elif o[0] == "u_num":
            exp = "ok " + ctx.qty(ctx.grid(o[2], _qty.tok_value(o[3]), o[4]), o[2])
            if out != exp:
                fails.append({"site": "text:construct", "msg": f"{o} -> {out}, expected {exp}"})
        elif o[0] == "q_mk":
            exp = "ok " + ctx.qty(ctx.grid(o[3], _qty.tok_value(o[2]), o[4]), o[3])
            if o[1] not in ("-", ctx.units[o[3]]["cls"]):
                exp = "err QuantityError"
            if out != exp:
                fails.append({"site": "text:construct", "msg": f"{o} -> {out}, expected {exp}"})
    return fails


def nontrivial_key(case, impl):
    keys = set()
    for o, out in list(zip(case["ops"], impl))[case["nsetup"]:]:
        if o[0] == "q_str":
            keys.add(("str", o[1].split(":")[0], len(out), o[1].rpartition("@")[2]))
        elif o[0] == "q_parse":
            keys.add(("parse", o[1] == "-", o[2], o[3] == "-", out[:6]))
    return keys
