"""C03 — addition, subtraction and comparison never mix quantity types."""
from __future__ import annotations

from fractions import Fraction

from common import rat
from props import _qty

ID = "C03"
LEAN_TARGETS = ["QuantityModel.Props.C03"]
RULE = ("contexts: predefined catalogue and random user histories; "
        "(a) ordered pairs of quantities of distinct types x {+,-,<,<=,>,>=,==,!=}; "
        "(b) quantity x plain object of 10 kinds (int, bool, zero, Fraction, "
        "Decimal, stdlib Decimal, float, complex, str, None) x both orders; "
        "(c) same-type pairs/triples: sum, difference, negation, abs, sum() "
        "of lists, k*(a+b) vs k*a+k*b, compared with exact reference values; "
        "one in four same-type pairs in a quantised type (DataVolume, user quanta): result in the LEFT unit, rounded once. "
        "Non-trivial: every case (mixed pairs must raise, same-type sums are "
        "checked by value); distinct by (op, classes, unit pair)")
EXHAUSTIVE = {}
MODE = "ROUND_HALF_EVEN"
KINDS = ["int", "bool", "zero", "Fraction", "Decimal", "stdDecimal", "float",
         "complex", "str", "None"]
BINOPS = ["add", "sub", "lt", "le", "gt", "ge", "eq", "ne", "iadd", "isub"]
MIXOPS = ["add", "radd", "sub", "rsub", "lt", "le", "gt", "ge", "eq", "ne"]


def known_witness_cases():
    return []


def tolerated(case, i, impl, model):
    return False


def gen_cases(rng, tier):
    n_user = 40 if tier == "thorough" else 10
    n_pre = 8 if tier == "thorough" else 2
    per = 80 if tier == "thorough" else 50
    cases = []
    ctxs = [_qty.predefined_ctx() for _ in range(n_pre)] + \
           [_qty.user_ctx(rng, rng.randint(8, 16)) for _ in range(n_user)]
    for ctx in ctxs:
        ops = []
        allu = list(ctx.units)
        lin = [u for u in ctx.linear_units() if ctx.quantum(u) is None]
        qlin = [u for u in ctx.linear_units() if ctx.quantum(u) is not None]
        for _ in range(per):
            r = rng.random()
            if r < .3:
                u, v = rng.choice(allu), rng.choice(allu)
                if ctx.units[u]["cls"] == ctx.units[v]["cls"]:
                    continue
                # zero amounts matter: "0 m + 5 kg" must raise as well
                a = rng.choice(["0", _qty.tok(rng, _qty.amount(rng))])
                b = rng.choice(["0", _qty.tok(rng, _qty.amount(rng))])
                ops.append(["q_bin", rng.choice(BINOPS), f"{a}@{u}", f"{b}@{v}", MODE])
            elif r < .5:
                u = rng.choice(allu)
                a = rng.choice(["0", _qty.tok(rng, _qty.amount(rng))])
                ops.append(["q_mixnum", rng.choice(MIXOPS), f"{a}@{u}", rng.choice(KINDS)])
            elif r < .85 and lin:
                u = rng.choice(lin)
                # one in four: a quantised type (the sum is rounded once, in
                # the LEFT operand's unit, whichever unit is the finer one)
                if qlin and rng.random() < .25:
                    u = rng.choice(qlin)
                v = rng.choice([x for x in lin + qlin if ctx.units[x]["cls"] == ctx.units[u]["cls"]])
                a = rng.choice(["0", _qty.tok(rng, _qty.amount(rng))])
                b = rng.choice(["0", _qty.tok(rng, _qty.amount(rng))])
                op = rng.choice(["add", "sub", "add", "sub", "neg", "abs", "iadd", "isub"])
                if op in ("neg", "abs"):
                    ops.append(["q_num", op, f"{a}@{u}", "1", MODE])
                else:
                    ops.append(["q_bin", op, f"{a}@{u}", f"{b}@{v}", MODE])
            elif lin and rng.random() < .4:
                # multiplication by a number of any kind (int, float, Fraction,
                # Decimal) scales the exact amount - it distributes over sums
                u = rng.choice(lin)
                a = _qty.tok(rng, _qty.amount(rng))
                k = _qty.kind_tok(rng, rng.choice([Fraction(3), Fraction(-7, 3), Fraction(0.1), Fraction(5, 2),
                                                   Fraction(1, 8), Fraction(2.5), Fraction(1, 3)]))
                ops.append(["q_num", "mul", f"{a}@{u}", k, MODE])
            elif lin:
                u = rng.choice(lin)
                same = [x for x in lin if ctx.units[x]["cls"] == ctx.units[u]["cls"]]
                n = rng.choice([0, 1, 2, 3, 5])
                toks = [f"{_qty.tok(rng, _qty.amount(rng))}@{rng.choice(same)}" for _ in range(n)]
                if n >= 2 and rng.random() < .2:
                    # one item of another type somewhere in the sequence
                    other = [x for x in lin if ctx.units[x]["cls"] != ctx.units[u]["cls"]]
                    if other:
                        toks[rng.randrange(1, n)] = f"{_qty.tok(rng, _qty.amount(rng))}@{rng.choice(other)}"
                ops.append(["q_sum", ",".join(toks) if toks else "-", MODE])
        # targeted (a): a unit of a type WITHOUT reference unit (no scale)
        # against a unit of another type, every operator in both orders
        refless = [u for u in allu if ctx.units[u]["scale"] is None][:2]
        for r_ in refless:
            others = [x for x in allu if ctx.units[x]["cls"] != ctx.units[r_]["cls"]]
            if not others:
                continue
            v = rng.choice(others)
            for o in BINOPS:
                ops.append(["q_bin", o, f"3@{r_}", f"4@{v}", MODE])
                ops.append(["q_bin", o, f"4@{v}", f"3@{r_}", MODE])
        # targeted (b): a base type and the type declared as its SUBCLASS: two
        # types (the subclass quantity is not a quantity of the parent type)
        for c, v_ in ctx.classes.items():
            par = v_.get("parent")
            if par is None or ctx.classes[par]["ref"] is None or v_["ref"] is None:
                continue
            pu = rng.choice(ctx.linear_units(par))
            cu = rng.choice(ctx.linear_units(c))
            for o in BINOPS:
                ops.append(["q_bin", o, f"3/2@{pu}", f"4@{cu}", MODE])
                ops.append(["q_bin", o, f"4@{cu}", f"3/2@{pu}", MODE])
        cases.append(_qty.case_of(ctx, ops, ["mix"]))
    # derived types over a base type WITHOUT reference unit (money per mass,
    # temperature per duration): their units carry factors from their
    # definitions, but no two different ones are convertible - quantities in
    # different units never add, subtract or order, and are unequal
    from props import _money
    ops = [["load_predefined"]] + _money.setup(["EUR", "USD"])
    ops.append(["decl_class", "PricePerMass", "c:Money^1;c:Mass^-1", "-", "0", "-"])
    ops.append(["decl_class", "Heating", "c:Temperature^1;c:Duration^-1", "-", "0", "-"])
    syms = []
    for cur in ("EUR", "USD"):
        for xu in ("g", "kg"):
            ops.append(["derive_unit", "PricePerMass", f"{cur},{xu}", "-"]); syms.append(f"{cur}/{xu}")
    for tu in ("K", "°C"):
        for du in ("s", "h"):
            ops.append(["derive_unit", "Heating", f"{tu},{du}", "-"]); syms.append(f"{tu}/{du}")
    n0 = len(ops)
    for u in syms:
        for v in syms:
            for o in rng.sample(BINOPS, 4):
                ops.append(["q_bin", o, f"{rat(Fraction(rng.randint(-9, 9), 2))}@{u}",
                            f"{rat(Fraction(rng.randint(1, 9)))}@{v}", MODE])
    cases.append({"ops": ops, "fork": True, "ctx": None, "refless_derived": True, "nsetup": n0,
                  "tags": ["refless-derived"]})
    return cases


def search_cases(rng, focus, broken):
    return gen_cases(rng, "quick")[:3]


def oracle(case, impl):
    if case.get("refless_derived"):
        fails = [{"site": "setup", "msg": f"{o} -> {out}"}
                 for o, out in list(zip(case["ops"], impl))[:case["nsetup"]] if not out.startswith("ok")]
        cls_of = lambda u: "PricePerMass" if u[:3] in ("EUR", "USD") else "Heating"
        for o, out in list(zip(case["ops"], impl))[case["nsetup"]:]:
            a, _, u = o[2].rpartition("@")
            b, _, v = o[3].rpartition("@")
            x, y = _qty.tok_value(a), _qty.tok_value(b)
            if cls_of(u) != cls_of(v):
                exp = {"eq": "ok false", "ne": "ok true"}.get(o[1], "err IncompatibleUnitsError")
            elif u != v:
                exp = {"eq": "ok false", "ne": "ok true"}.get(o[1], "err UnitConversionError")
            elif o[1] in ("add", "iadd"):
                exp = f"ok qty {rat(x + y)}@{u}:{cls_of(u)}"
            elif o[1] in ("sub", "isub"):
                exp = f"ok qty {rat(x - y)}@{u}:{cls_of(u)}"
            else:
                import operator
                exp = "ok " + ("true" if getattr(operator, o[1])(x, y) else "false")
            if out != exp:
                fails.append({"site": "mix:reference-less-derived", "msg": f"{o} -> {out}, expected {exp}"})
        return fails
    ctx = _qty.ctx_of(case)
    fails = _qty.setup_failures(case, impl)
    for o, out in list(zip(case["ops"], impl))[case["nsetup"]:]:
        if "FLOAT" in out:
            fails.append({"site": "mix:float", "msg": f"{o} -> {out}"})
        if o[0] == "q_mixnum":
            exp = {"eq": "ok false", "ne": "ok true"}.get(o[1], "err TypeError")
            if out != exp:
                fails.append({"site": "mix:number", "msg": f"{o} -> {out}, expected {exp}"})
        elif o[0] == "q_bin":
            a, _, u = o[2].rpartition("@")
            b, _, v = o[3].rpartition("@")
            cu, cv = ctx.units[u]["cls"], ctx.units[v]["cls"]
            if cu != cv:
                exp = {"eq": "ok false", "ne": "ok true"}.get(o[1], "err IncompatibleUnitsError")
                if out != exp:
                    fails.append({"site": "mix:types", "msg": f"{o} -> {out}, expected {exp}"})
            elif o[1] in ("add", "sub", "iadd", "isub"):
                # operands as constructed (on their grid if the type has a quantum)
                x, y = ctx.grid(u, _qty.tok_value(a), o[4]), ctx.grid(v, _qty.tok_value(b), o[4])
                su, sv = ctx.units[u]["scale"], ctx.units[v]["scale"]
                sign = 1 if o[1] in ("add", "iadd") else -1
                # left operand's unit; reference value = sum of reference
                # values (rounded once to the left unit's grid, if any)
                exp = "ok " + ctx.qty(ctx.grid(u, (x * su + sign * y * sv) / su, o[4]), u)
                if out != exp:
                    fails.append({"site": "add:value", "msg": f"{o} -> {out}, expected {exp}"})
        elif o[0] == "q_num" and o[1] == "mul":
            a, _, u = o[2].rpartition("@")
            exp = "ok " + ctx.qty(_qty.tok_value(a) * _qty.tok_value(o[3]), u)
            if out != exp:
                fails.append({"site": "add:scalar-multiple", "msg": f"{o} -> {out}, expected {exp}"})
        elif o[0] == "q_num" and o[1] in ("neg", "abs"):
            a, _, u = o[2].rpartition("@")
            x = _qty.tok_value(a)
            x = ctx.grid(u, x, o[4])
            exp = "ok " + ctx.qty(-x if o[1] == "neg" else abs(x), u)
            if out != exp:
                fails.append({"site": "add:neg-abs", "msg": f"{o} -> {out}, expected {exp}"})
        elif o[0] == "q_sum":
            if o[1] == "-":
                if out != "ok num 0/1":
                    fails.append({"site": "add:sum-empty", "msg": out})
                continue
            toks = o[1].split(",")
            u0 = toks[0].rpartition("@")[2]
            if len({ctx.units[t.rpartition("@")[2]]["cls"] for t in toks}) > 1:
                if out != "err IncompatibleUnitsError":
                    fails.append({"site": "add:sum-mixed", "msg": f"{o} -> {out}"})
                continue
            total = sum(_qty.tok_value(t.rpartition("@")[0]) * ctx.units[t.rpartition("@")[2]]["scale"]
                        for t in toks)
            exp = "ok " + ctx.qty(total / ctx.units[u0]["scale"], u0)
            if out != exp:
                fails.append({"site": "add:sum", "msg": f"{o} -> {out}, expected {exp}"})
    return fails


def nontrivial_key(case, impl):
    keys = set()
    for o in case["ops"][case["nsetup"]:]:
        keys.add(tuple(x.rpartition("@")[2] if "@" in x else x for x in o[:4]))
    return keys
