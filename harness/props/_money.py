"""Shared by C08-C12: currency sets, rate tokens, parsing of rate outputs."""
from __future__ import annotations

from fractions import Fraction

from common import parse_rat, rat

MODE = "ROUND_HALF_EVEN"
CODES = ["EUR", "USD", "JPY", "GBP", "CHF", "BHD", "HKD", "CLF", "KWD", "ISK", "SEK", "AUD"]
MINOR = {"EUR": 2, "USD": 2, "JPY": 0, "GBP": 2, "CHF": 2, "BHD": 3, "HKD": 2, "CLF": 4,
         "KWD": 3, "ISK": 0, "SEK": 2, "AUD": 2}


def iso_table():
    import translate
    return translate.parse_iso4217()


def setup(codes):
    return [["load_money"]] + [["cur_reg", c] for c in codes]


#: user-declared currencies some generators add (symbol -> (minor-unit arg,
#: smallest-fraction arg, the declared smallest fraction))
USER = {"XCA": ("-", "1/20:2", Fraction(1, 20)), "XCB": ("2", "1/4:2", Fraction(1, 4))}


def user_setup():
    return [["cur_new", s, mi, sf] for s, (mi, sf, _) in USER.items()]


def frac_of(code, table=None):
    if code in USER:
        return USER[code][2]
    if code in MINOR:
        return Fraction(1, 10 ** MINOR[code])
    return Fraction(1, 10 ** dict((c, m) for c, _, m in (table or iso_table()))[code])


def rand_rate_value(rng):
    r = rng.random()
    if r < .08:
        # tiny amounts with many significant digits (the stored sixth decimal
        # is where an inexact intermediate would show), down to the limit
        return rng.choice([Fraction(rng.randint(10 ** 6, 10 ** 7), 10 ** rng.randint(10, 13)),
                           Fraction(1, 10 ** 6), Fraction(9999999, 10 ** 13), Fraction(1000001, 10 ** 12)])
    if r < .3:
        return Fraction(rng.randint(1, 99999), 10 ** rng.randint(0, 5))
    if r < .5:
        return Fraction(rng.randint(1, 9999), rng.choice([3, 7, 9, 11, 13]))
    if r < .65:
        return Fraction(10) ** rng.randint(-5, 4)
    if r < .8:
        return Fraction(rng.randint(1, 999), 1) * Fraction(10) ** rng.randint(-6, 4)
    return Fraction(rng.randint(100000, 9999999), 10 ** rng.randint(2, 7))


def ta_token(rng, v):
    """term amount token of a random accepted kind"""
    from oracles import ilog10
    k = rng.random()
    d = v.denominator
    while d % 2 == 0:
        d //= 2
    while d % 5 == 0:
        d //= 5
    finite = d == 1
    if k < .45 and finite:
        return "dec:" + rat(v)
    if k < .7:
        return "frac:" + rat(v)
    if k < .8 and v.denominator == 1:
        return "int:" + rat(v)
    if k < .9:
        return "str:" + rat(v)
    # float: use the exact binary value of the nearest float
    f = float(v)
    return "float:" + rat(Fraction(f))


def ta_value(tok):
    kind, _, v = tok.partition(":")
    return parse_rat(v)


def um_token(rng, v):
    k = rng.random()
    if k < .5 and v.denominator == 1:
        return "int:" + rat(v)
    d = v.denominator
    while d % 2 == 0:
        d //= 2
    while d % 5 == 0:
        d //= 5
    if d != 1:
        return "frac:" + rat(v)
    if k < .7:
        return "dec:" + rat(v)
    if k < .85:
        return "str:" + rat(v)
    return "frac:" + rat(v)


def parse_rate_out(out):
    """'ok UC um TC ta [rate=.. inv=..]' -> (uc, um, tc, ta)"""
    if not out.startswith("ok ") or out == "ok none":
        return None
    parts = out[3:].split(" ")
    return parts[0], parse_rat(parts[1]), parts[2], parse_rat(parts[3])
