"""Shared by the quantity-level properties: contexts (predefined catalogue or
a generated valid declaration history) with independent bookkeeping, amount
tokens, and Fraction-only expectations."""
from __future__ import annotations

from fractions import Fraction

import siref
from common import parse_rat, rat
from histgen import HistGen
from oracles import MODES, round_ref


class Ctx:
    def __init__(self, setup, units, classes, kind):
        self.setup, self.units, self.classes, self.kind = setup, units, classes, kind
        self.defined = []     # units defined by a term / derived from base units

    def dump(self):
        return {"kind": self.kind,
                "units": {s: [u["cls"], None if u["scale"] is None else rat(u["scale"])] +
                          ([rat(u["quantum"])] if u.get("quantum") is not None else [])
                          for s, u in self.units.items()},
                "classes": {c: dict(dim=v["dim"], ref=v["ref"], parent=v.get("parent"),
                                    quantum=None if v["quantum"] is None else rat(v["quantum"]))
                            for c, v in self.classes.items()}}

    @staticmethod
    def load(d, setup):
        units = {s: dict(cls=v[0], scale=None if v[1] is None else parse_rat(v[1]),
                         quantum=parse_rat(v[2]) if len(v) > 2 else None)
                 for s, v in d["units"].items()}
        classes = {c: dict(dim=v["dim"], ref=v["ref"], parent=v.get("parent"),
                           quantum=None if v["quantum"] is None else parse_rat(v["quantum"]))
                   for c, v in d["classes"].items()}
        return Ctx(setup, units, classes, d["kind"])

    def quantum(self, u):
        ui = self.units[u]
        if ui.get("quantum") is not None:       # a currency: its own smallest fraction
            return ui["quantum"]
        q = self.classes[ui["cls"]]["quantum"]
        if q is None or ui["scale"] is None:
            return None
        return q / ui["scale"]

    def grid(self, u, x, mode):
        qu = self.quantum(u)
        if qu is None:
            return x
        return round_ref(x / qu, mode) * qu

    def qty(self, x, u):
        return f"qty {rat(x)}@{u}:{self.units[u]['cls']}"

    def linear_units(self, cls=None):
        return [s for s, u in self.units.items()
                if u["scale"] is not None and (cls is None or u["cls"] == cls)]

    def class_with_dim(self, dim):
        for c, v in self.classes.items():
            if v["dim"] == dim:
                return c
        return None


def predefined_ctx():
    units, classes = {}, {}
    dims = siref.dimensions()
    for c, sy, k in siref.table():
        units[sy] = dict(cls=c, scale=k)
        classes.setdefault(c, dict(dim=dims[c], ref=None, quantum=None))
        if k == 1 and classes[c]["ref"] is None:
            classes[c]["ref"] = sy          # the reference unit is listed first
    classes["DataVolume"]["quantum"] = Fraction(1, 8)
    return Ctx([["load_predefined"]], units, classes, "predefined")


_CTX_N = [0]


def user_ctx(rng, length=14, **kw):
    # every third context uses type names that agree in their first 40
    # characters; every context declares the product of two base types
    _CTX_N[0] += 1
    kw.setdefault("long_names", _CTX_N[0] % 3 == 0)
    g = HistGen(rng, with_invalid=False, split_items=.4, **kw)
    steps = g.history(length)
    w = g.w
    st = g.product_class()
    if st is not None:
        steps.append(st)
    # ... and every second one a negative power of a base type WITHOUT the
    # positive counterpart (X ** -2 but no X ** 2), or a cube without the square
    if _CTX_N[0] % 2 == 0:
        st = g.power_class(-2 if _CTX_N[0] % 4 == 0 else 3)
        if st is not None:
            steps.append(st)
    # every second context: a type without reference unit with two units, and
    # a base type written as a SUBCLASS of an earlier base type (a type of its
    # own, with its own reference unit)
    if _CTX_N[0] % 2 == 1:
        steps.append(g.base_class(refless=True))
        for _ in range(2):
            st = g.refless_unit()
            if st is not None:
                steps.append(st)
        steps.append(g.base_class(force_parent=True))
    # contexts asked for units without definition: two of them in ONE type
    # that has a reference unit
    if kw.get("undefined_units"):
        st = g.undefined_unit_in()
        if st is not None:
            steps.append(st)
            steps.append(g.undefined_unit_in(st["op"][1]))
    # targeted: two units of ONE derived type, each defined by a term with a
    # plain-int factor (the factor between them is int / int), and one more
    # term-defined unit
    refcls = [n for n, c in w.classes.items() if c["ref"] is not None and c["quantum"] is None]
    qcls = [n for n, c in w.classes.items() if c["ref"] is not None and c["quantum"] is not None]
    if qcls and rng.random() < .7:
        # two units of a quantised type below half its quantum, one above
        c = rng.choice(qcls)
        for og in (Fraction(1, 10), Fraction(1, 4), Fraction(5, 2)):
            st = g.term_unit(only_cls=c, offgrid=og)
            if st is not None:
                steps.append(st)
    if refcls and rng.random() < .8:
        cls = rng.choice(refcls)
        for kind in ("i", "i", None):
            st = g.term_unit(only_cls=cls, force_kind=kind)
            if st is not None:
                steps.append(st)
    units = {s: dict(cls=u["cls"], scale=u["scale"]) for s, u in w.units.items()}
    classes = {n: dict(dim=c["dim"], ref=c["ref"], quantum=c["quantum"], parent=c.get("parent"))
               for n, c in w.classes.items()}
    ctx = Ctx([st["op"] for st in steps if st["expect"] == "ok"], units, classes, "user")
    ctx.defined = [st["new_sym"] for st in steps if st["expect"] == "ok"
                   and st["kind"] in ("term-unit", "derive-unit")]
    return ctx


def amount(rng, onto=None):
    r = rng.random()
    if r < .25:
        x = Fraction(rng.randint(-50, 50))
    elif r < .5:
        x = Fraction(rng.randint(-10 ** 6, 10 ** 6), 10 ** rng.randint(0, 6))
    elif r < .7:
        x = Fraction(rng.randint(-999, 999), rng.choice([3, 7, 9, 11, 13, 64, 6]))
    elif r < .8:
        x = Fraction(rng.randint(1, 9), 1) * Fraction(10) ** rng.randint(-20, 20)
    elif r < .9:
        x = Fraction(rng.choice([0, 1, -1, 1]))
    else:
        x = Fraction(rng.randint(-10 ** 12, 10 ** 12), rng.randint(1, 10 ** 6))
    return x


def tok(rng, x):
    """a protocol token for amount x: plain (Decimal when finite) or forced
    Fraction"""
    if rng.random() < .25:
        return "F:" + rat(x)
    return rat(x)


def tok_value(t):
    if t[:2] in ("F:", "I:", "L:", "P:", "K:"):
        return parse_rat(t[2:])
    return parse_rat(t)


def kind_tok(rng, x, ctor=False):
    """number x as int / float / Fraction / decimalfp Decimal (and, for the
    constructor only, standard library Decimal: it is not a numbers.Real, the
    arithmetic operators do not accept it), whichever can hold it exactly"""
    kinds = ["", "F:"]
    if x.denominator == 1:
        kinds += ["I:", "I:"]
    if Fraction(float(x)) == x and abs(x) < 10 ** 300:
        kinds += ["L:", "L:"]
    d = x.denominator
    while d % 2 == 0:
        d //= 2
    while d % 5 == 0:
        d //= 5
    if d == 1 and ctor:
        kinds += ["P:"]
    return rng.choice(kinds) + rat(x)


def long_decimal(rng):
    """a decimal number with more significant digits than any default
    precision (28 for the standard library's context): 29 to 45 digits, as an
    integer, with a long fractional part, or of large magnitude"""
    nd = rng.choice([29, 31, 36, 45])
    n = rng.randint(10 ** (nd - 1), 10 ** nd - 1) | 1        # does not end in 0
    if n % 5 == 0:
        n += 2
    return Fraction(rng.choice([1, -1]) * n, 10 ** rng.choice([0, 0, 20, nd - 1, nd + 5]))


def case_of(ctx, ops, tags):
    return {"ops": list(ctx.setup) + ops, "fork": True, "ctx": ctx.dump(),
            "nsetup": len(ctx.setup), "tags": tags + ["ctx:" + ctx.kind]}


def ctx_of(case):
    return Ctx.load(case["ctx"], case["ops"][:case["nsetup"]])


def setup_failures(case, impl):
    out = []
    for o, r in zip(case["ops"][:case["nsetup"]], impl):
        if not r.startswith("ok"):
            out.append({"site": "setup", "msg": f"{o} -> {r}"})
    return out


def parse_qty_out(out):
    """'ok qty n/d@sym:Cls' -> (Fraction, sym, Cls) or None"""
    if not out.startswith("ok qty "):
        return None
    body = out[7:]
    a, _, rest = body.partition("@")
    sym, _, cls = rest.rpartition(":")
    try:
        return parse_rat(a), sym, cls
    except Exception:
        return None


def dim_add(d1, d2, sign=1):
    d = dict(d1)
    for k, e in d2.items():
        d[k] = d.get(k, 0) + sign * e
    return {k: e for k, e in d.items() if e}


def dim_pow(d1, n):
    return {k: e * n for k, e in d1.items() if e * n}


def check_value_result(ctx, mode, out, ref_value, dim, what):
    """Independent check of a product/quotient/power result by VALUE:
    right class for the combined dimension, reference value exact (or rounded
    once to the result unit's quantum)."""
    if not dim:
        exp = "ok num " + rat(ref_value)
        return None if out == exp else f"{what} -> {out}, expected {exp}"
    cls = ctx.class_with_dim(dim)
    if cls is None:
        return None if out == "err UndefinedResultError" else \
            f"{what} -> {out}, but no declared type has dimension {dim}"
    got = parse_qty_out(out)
    if got is None:
        return f"{what} -> {out}, expected a {cls}"
    amt, sym, gcls = got
    if gcls != cls or sym not in ctx.units or ctx.units[sym]["cls"] != cls:
        return f"{what} -> {out}, expected type {cls}"
    sc = ctx.units[sym]["scale"]
    want = ctx.grid(sym, ref_value / sc, mode)
    if amt != want:
        return f"{what} -> {out}, expected amount {rat(want)} {sym} (reference value {rat(ref_value)})"
    return None
