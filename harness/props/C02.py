"""C02 — products, quotients and powers respect dimensions and scales."""
from __future__ import annotations

from fractions import Fraction

from common import parse_rat, rat
from props import _qty

ID = "C02"
LEAN_TARGETS = ["QuantityModel.Props.C02"]
RULE = ("contexts: predefined catalogue (quick: random ordered unit pairs; "
        "thorough: ALL 113x113 ordered pairs x {*, /} in one process) and "
        "random user histories; operand kinds {unit, quantity, number} in both "
        "orders, powers n in [-3,3], pairs whose dimensions cancel and pairs "
        "with no declared result type; oracle by VALUE: result type = the "
        "declared type with the combined dimension (else UndefinedResultError), "
        "reference value = product / quotient / power of the operands' "
        "reference values, plain number when dimensions cancel. Non-trivial: "
        "every binary case; distinct by (op, operand kinds, unit pair)")
EXHAUSTIVE = {"thorough": True}
MODE = "ROUND_HALF_EVEN"


def known_witness_cases():
    return []


def tolerated(case, i, impl, model):
    return False


def _ops_for(ctx, rng, n):
    ops = []
    allu = [u for u in ctx.units if ctx.units[u]["scale"] is not None]
    for _ in range(n):
        u, v = rng.choice(allu), rng.choice(allu)
        if rng.random() < .25:
            # bias towards related types (cancelling / defined results)
            same = [x for x in allu if ctx.units[x]["cls"] == ctx.units[u]["cls"]]
            v = rng.choice(same)
        a = _qty.tok(rng, _qty.amount(rng))
        b = _qty.tok(rng, _qty.amount(rng))
        r = rng.random()
        if r < .2:
            ops.append(["uop", rng.choice(["mul", "div"]), u, v])
        elif r < .5:
            ops.append(["q_bin", rng.choice(["mul", "div"]), f"{a}@{u}", f"{b}@{v}", MODE])
        elif r < .7:
            ops.append(["q_unit", rng.choice(["mul", "rmul", "div", "rdiv"]), f"{a}@{u}", v, MODE])
        elif r < .8:
            ops.append(["upow", u, str(rng.randint(-3, 3)), MODE])
        elif r < .9:
            ops.append(["q_num", "pow", f"{a}@{u}", str(rng.randint(-3, 3)), MODE])
        elif r < .95:
            # a plain number of any kind: int, float, Fraction, both Decimals
            k = _qty.kind_tok(rng, rng.choice([Fraction(3), Fraction(-7, 3), Fraction(1, 1000), Fraction(5, 2),
                                               Fraction(1, 8), Fraction(-2), Fraction(0.1)]))
            ops.append(["q_num", rng.choice(["mul", "div", "rdiv"]), f"{a}@{u}", k, MODE])
        else:
            # a unit and a plain number (or an SI prefix)
            if rng.random() < .3:
                k = "K:" + rat(Fraction(10) ** rng.choice([-24, -9, -6, -3, -2, -1, 1, 2, 3, 6, 9, 21, 24]))
                ops.append(["u_num", rng.choice(["mul", "rmul"]), u, k, MODE])
            else:
                k = _qty.kind_tok(rng, rng.choice([Fraction(3), Fraction(-7, 3), Fraction(1, 1000), Fraction(5, 2),
                                                   Fraction(1, 8), Fraction(0.1), Fraction(0)]))
                ops.append(["u_num", rng.choice(["mul", "rmul", "div", "rdiv"]), u, k, MODE])
    return ops


def _quantised_result_ops(ctx, rng, n):
    """products / quotients whose RESULT type has a quantum (DataThroughput x
    Duration -> DataVolume, both operand orders; DataVolume x number): the
    exact result is rounded once, whichever operand comes first"""
    thr = [u for u in ctx.units if ctx.units[u]["cls"] == "DataThroughput"]
    dur = [u for u in ctx.units if ctx.units[u]["cls"] == "Duration"]
    frq = [u for u in ctx.units if ctx.units[u]["cls"] == "Frequency"]
    vol = [u for u in ctx.units if ctx.units[u]["cls"] == "DataVolume"]
    ops = []
    for _ in range(n):
        a = _qty.tok(rng, Fraction(rng.randint(1, 10 ** 6), rng.choice([1, 10, 100, 1000, 7, 3])))
        b = _qty.tok(rng, Fraction(rng.randint(1, 10 ** 4), rng.choice([1, 10, 100, 8, 3])))
        r = rng.random()
        if r < .3:
            ops.append(["q_bin", "mul", f"{a}@{rng.choice(thr)}", f"{b}@{rng.choice(dur)}", MODE])
        elif r < .6:
            ops.append(["q_bin", "mul", f"{b}@{rng.choice(dur)}", f"{a}@{rng.choice(thr)}", MODE])
        elif r < .75:
            ops.append(["q_bin", "div", f"{a}@{rng.choice(thr)}", f"{b}@{rng.choice(frq)}", MODE])
        elif r < .9:
            ops.append(["q_unit", rng.choice(["mul", "rmul"]), f"{a}@{rng.choice(thr)}", rng.choice(dur), MODE])
        else:
            ops.append(["q_unit", rng.choice(["mul", "rmul"]), f"{b}@{rng.choice(dur)}", rng.choice(thr), MODE])
    return ops


def _declared_dimension_ops(ctx, rng):
    """for every declared derived type: the operations that land in it, written
    in every operand order (X*Y and Y*X, X/Y, X**n for a single base type, also
    n < 0 when only the negative power is declared)"""
    ops = []
    refs = {c: v["ref"] for c, v in ctx.classes.items() if v["ref"] is not None}
    for c, v in ctx.classes.items():
        dim = v["dim"]
        if set(dim) == {c} or not all(b in refs for b in dim):
            continue
        a = _qty.tok(rng, Fraction(rng.randint(1, 99), rng.choice([1, 2, 5])))
        b = _qty.tok(rng, Fraction(rng.randint(1, 99), rng.choice([1, 4, 3])))
        if len(dim) == 1:
            (x, e), = dim.items()
            ops.append(["upow", refs[x], str(e), MODE])
            ops.append(["q_num", "pow", f"{a}@{refs[x]}", str(e), MODE])
        elif len(dim) == 2 and all(abs(e) == 1 for e in dim.values()):
            (x, ex), (y, ey) = dim.items()
            if ex == 1 and ey == 1:
                for p, q in ((x, y), (y, x)):
                    ops.append(["uop", "mul", refs[p], refs[q]])
                    ops.append(["q_bin", "mul", f"{a}@{refs[p]}", f"{b}@{refs[q]}", MODE])
                    ops.append(["q_unit", rng.choice(["mul", "rmul"]), f"{a}@{refs[p]}", refs[q], MODE])
            elif ex != ey:
                num, den_ = (x, y) if ex == 1 else (y, x)
                ops.append(["uop", "div", refs[num], refs[den_]])
                ops.append(["q_bin", "div", f"{a}@{refs[num]}", f"{b}@{refs[den_]}", MODE])
    return ops


def _reciprocal_ops(ctx, rng):
    """number / quantity for EVERY unit of a type whose reciprocal dimension is a
    declared type (Duration -> Frequency): the unit's own reciprocal need not
    be a declared unit (1 / (2 min) = 1/120 Hz)"""
    ops = []
    for c, v in ctx.classes.items():
        rd = _qty.dim_pow(v["dim"], -1)
        if ctx.class_with_dim(rd) is None or v["ref"] is None:
            continue
        for u in ctx.linear_units(c):
            if ctx.quantum(u) is not None:
                continue
            a = _qty.tok(rng, Fraction(rng.randint(1, 60), rng.choice([1, 2, 3])))
            k = _qty.kind_tok(rng, rng.choice([Fraction(1), Fraction(5, 2), Fraction(-7, 3), Fraction(12)]))
            ops.append(["q_num", "rdiv", f"{a}@{u}", k, MODE])
        # products of a unit of the type with a unit of its reciprocal type: the
        # dimensions cancel, the result is the plain number - also when the two
        # scales multiply to exactly one (Hz * s, kHz * ms)
        rc = ctx.class_with_dim(rd)
        for u in ctx.linear_units(c):
            for v in ctx.linear_units(rc):
                if ctx.units[u]["scale"] * ctx.units[v]["scale"] == 1 or rng.random() < .1:
                    ops.append(["uop", "mul", u, v])
                    ops.append(["q_bin", "mul", f"3/2@{u}", f"4@{v}", MODE])
    return ops


def _offgrid_unit_ops(ctx, rng):
    """a quantity divided / multiplied by a UNIT of a quantised type whose scale
    is not a multiple of the quantum: the unit stands for its exact scale (it is
    not the quantity `1 unit`, which would be rounded to the grid)"""
    ops = []
    for v in ctx.linear_units():
        qv = ctx.quantum(v)
        if qv is None or (1 / qv).denominator == 1:
            continue
        same = [u for u in ctx.linear_units(ctx.units[v]["cls"])]
        for u in rng.sample(same, min(3, len(same))):
            a = _qty.tok(rng, Fraction(rng.randint(1, 400), rng.choice([1, 2, 10])))
            ops.append(["q_unit", "div", f"{a}@{u}", v, MODE])
            ops.append(["q_unit", "rdiv", f"{a}@{u}", v, MODE])
    return ops


def gen_cases(rng, tier):
    n_user = 40 if tier == "thorough" else 12
    n_pre = 6 if tier == "thorough" else 2
    per = 100 if tier == "thorough" else 60
    cases = []
    for _ in range(n_pre):
        ctx = _qty.predefined_ctx()
        cases.append(_qty.case_of(ctx, _ops_for(ctx, rng, per) +
                                  _quantised_result_ops(ctx, rng, per // 2) +
                                  _reciprocal_ops(ctx, rng), ["random"]))
    # declaration histories with operations attempted BEFORE their result type
    # exists and repeated after it has been declared (the oracle of C17)
    from props import C17
    for c in C17.gen_cases(rng, "quick")[:(12 if tier == "thorough" else 6)]:
        c["tags"] = c.get("tags", []) + ["early-ops"]
        cases.append(c)
    for _ in range(n_user):
        ctx = _qty.user_ctx(rng, rng.randint(10, 20))
        cases.append(_qty.case_of(ctx, _ops_for(ctx, rng, per) + _declared_dimension_ops(ctx, rng) +
                                  _reciprocal_ops(ctx, rng) + _offgrid_unit_ops(ctx, rng), ["random"]))
    # all pairs of predefined units (thorough), a rotating block (quick)
    ctx = _qty.predefined_ctx()
    allu = [u for u in ctx.units if ctx.units[u]["scale"] is not None]
    pairs = [(u, v) for u in allu for v in allu]
    if tier != "thorough":
        rng.shuffle(pairs)
        pairs = pairs[:700]
    ops = []
    for u, v in pairs:
        ops.append(["uop", "mul", u, v])
        ops.append(["uop", "div", u, v])
    cases.append(_qty.case_of(ctx, ops, ["unit-pairs"]))
    return cases


def search_cases(rng, focus, broken):
    return gen_cases(rng, "quick")[:4]


def _refdim(ctx, u):
    return ctx.units[u]["scale"], ctx.classes[ctx.units[u]["cls"]]["dim"]


def check_pair(ctx, out, ref_value, dim, what):
    """`unit op unit` -> 'pair f sym|none'"""
    cls = ctx.class_with_dim(dim) if dim else None
    if dim and cls is None:
        return None if out == "err UndefinedResultError" else \
            f"{what} -> {out}, but no declared type has dimension {dim}"
    if not out.startswith("ok pair "):
        return f"{what} -> {out}"
    _, _, f, sym = out.split(" ", 3)
    f = parse_rat(f)
    if not dim:
        return None if (sym == "none" and f == ref_value) else \
            f"{what} -> {out}, expected the plain number {rat(ref_value)}"
    if sym not in ctx.units or ctx.units[sym]["cls"] != cls:
        return f"{what} -> {out}, expected a unit of {cls}"
    if f * ctx.units[sym]["scale"] != ref_value:
        return f"{what} -> {out}, value {rat(f * ctx.units[sym]['scale'])} != {rat(ref_value)}"
    return None


def oracle(case, impl):
    if "cls_after" in case:
        from props import C17
        return C17.oracle(case, impl)
    ctx = _qty.ctx_of(case)
    fails = _qty.setup_failures(case, impl)
    for o, out in list(zip(case["ops"], impl))[case["nsetup"]:]:
        what, msg = str(o), None
        if "FLOAT" in out:
            fails.append({"site": "prod:float", "msg": f"{what} -> {out}"})
            continue
        if o[0] == "uop":
            (su, du), (sv, dv) = _refdim(ctx, o[2]), _refdim(ctx, o[3])
            if o[1] == "mul":
                msg = check_pair(ctx, out, su * sv, _qty.dim_add(du, dv), what)
            else:
                msg = check_pair(ctx, out, su / sv, _qty.dim_add(du, dv, -1), what)
        elif o[0] == "upow":
            su, du = _refdim(ctx, o[1])
            n = int(o[2])
            msg = _qty.check_value_result(ctx, MODE, out, su ** n, _qty.dim_pow(du, n), what)
        elif o[0] == "q_bin":
            a, _, u = o[2].rpartition("@")
            b, _, v = o[3].rpartition("@")
            x = ctx.grid(u, _qty.tok_value(a), MODE)
            y = ctx.grid(v, _qty.tok_value(b), MODE)
            (su, du), (sv, dv) = _refdim(ctx, u), _refdim(ctx, v)
            if o[1] == "mul":
                msg = _qty.check_value_result(ctx, MODE, out, x * su * y * sv, _qty.dim_add(du, dv), what)
            else:
                dim = _qty.dim_add(du, dv, -1)
                if y == 0:
                    ok = out == "err ZeroDivisionError" or (
                        dim and ctx.class_with_dim(dim) is None and out == "err UndefinedResultError")
                    msg = None if ok else f"{what} -> {out}"
                else:
                    msg = _qty.check_value_result(ctx, MODE, out, (x * su) / (y * sv), dim, what)
        elif o[0] == "q_unit":
            a, _, u = o[2].rpartition("@")
            x = ctx.grid(u, _qty.tok_value(a), MODE)
            (su, du), (sv, dv) = _refdim(ctx, u), _refdim(ctx, o[3])
            if o[1] in ("mul", "rmul"):
                msg = _qty.check_value_result(ctx, MODE, out, x * su * sv, _qty.dim_add(du, dv), what)
            elif o[1] == "div":
                msg = _qty.check_value_result(ctx, MODE, out, x * su / sv, _qty.dim_add(du, dv, -1), what)
            else:
                dim = _qty.dim_add(dv, du, -1)
                if x == 0:
                    ok = out == "err ZeroDivisionError" or (
                        dim and ctx.class_with_dim(dim) is None and out == "err UndefinedResultError")
                    msg = None if ok else f"{what} -> {out}"
                else:
                    msg = _qty.check_value_result(ctx, MODE, out, sv / (x * su), dim, what)
        elif o[0] == "q_num":
            a, _, u = o[2].rpartition("@")
            x = ctx.grid(u, _qty.tok_value(a), MODE)
            su, du = _refdim(ctx, u)
            k = _qty.tok_value(o[3])
            if o[1] == "mul":
                exp = "ok " + ctx.qty(ctx.grid(u, x * k, MODE), u)
                msg = None if out == exp else f"{what} -> {out}, expected {exp}"
            elif o[1] == "div":
                exp = "ok " + ctx.qty(ctx.grid(u, x / k, MODE), u)
                msg = None if out == exp else f"{what} -> {out}, expected {exp}"
            elif o[1] == "rdiv":
                dim = _qty.dim_pow(du, -1)
                if x == 0:
                    msg = None if out.startswith("err ") else f"{what} -> {out}"
                elif ctx.quantum(u) is None:
                    msg = _qty.check_value_result(ctx, MODE, out, k / (x * su), dim, what)
            elif o[1] == "pow":
                n = int(k)
                if x == 0 and n < 0:
                    msg = None if out.startswith("err ") else f"{what} -> {out}"
                elif ctx.quantum(u) is None:
                    msg = _qty.check_value_result(ctx, MODE, out, (x * su) ** n, _qty.dim_pow(du, n), what)
        elif o[0] == "u_num":
            u = o[2]
            su, du = _refdim(ctx, u)
            k = _qty.tok_value(o[3])
            if o[1] in ("mul", "rmul"):
                exp = "ok " + ctx.qty(ctx.grid(u, k, MODE), u)
                msg = None if out == exp else f"{what} -> {out}, expected {exp}"
            elif o[1] == "div":
                exp = "err ZeroDivisionError" if k == 0 else "ok " + ctx.qty(ctx.grid(u, 1 / k, MODE), u)
                msg = None if out == exp else f"{what} -> {out}, expected {exp}"
            else:
                msg = _qty.check_value_result(ctx, MODE, out, k / su, _qty.dim_pow(du, -1), what)
        if msg:
            fails.append({"site": "prod:" + o[0] + ":" + str(o[1]), "msg": msg})
    return fails


def nontrivial_key(case, impl):
    keys = set()
    if "cls_after" in case:
        from props import C17
        return C17.nontrivial_key(case, impl)
    for o in case["ops"][case["nsetup"]:]:
        keys.add(tuple(x.rpartition("@")[2] if "@" in x else x for x in o[:4]))
    return keys
