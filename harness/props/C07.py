"""C07 — term algebra is an exact commutative group with a canonical form."""
from __future__ import annotations

from fractions import Fraction

from common import parse_rat, rat

ID = "C07"
LEAN_TARGETS = ["QuantityModel.Props.C07"]
RULE = ("random coherent element environments (2-4 groups: reference groups "
        "with a base reference element, scaled derived elements and "
        "derived-group elements defined over the base groups; reference-less "
        "groups of independent base elements; rarely two groups sharing a "
        "sort key) x terms of length 0-8 with exponents in [-4,4] incl. 0, "
        "numeric elements as int / Decimal / Fraction x the operations "
        "construct, normalise, *, /, scalar *, /, r/, **, reciprocal, ==, "
        "hash, num_elem, split. Non-trivial: the operation changed the item "
        "list (merge, conversion, fold, expansion or reorder); distinct by "
        "(op, lengths, #numeric, #convertible pairs, #derived, result length)")
EXHAUSTIVE = {}


def known_witness_cases():
    # D5: same sort key, not convertible, different input order
    env = [["numkind", "dec"],
           ["atom", "0", "5", "0", "-", "1", "-"],
           ["atom", "1", "5", "0", "-", "1", "-"]]
    return [{"ops": env + [["t_eq", "a:0^1;a:1^-1", "a:1^-1;a:0^1"]],
             "fork": False, "tags": ["witness:D5"]}]


def tolerated(case, i, impl, model):
    return False


# ---- environment generation ----------------------------------------------

def gen_env(rng):
    """Returns (ops, info) where info[id] = dict(key, group, scale, base,
    nd=[(elem, exp)], den=(factor, {base atom: exp}))."""
    ops, info = [], []
    groups = []          # per group: dict(ref=id|None, key, atoms=[ids])
    n_groups = rng.randint(2, 4)
    next_key = [rng.randint(1, 5)]

    def new_key():
        if groups and rng.random() < 0.12:
            return rng.choice(groups)["key"]        # shared key (rare)
        next_key[0] += rng.randint(1, 3)
        return next_key[0]

    def add(key, group, scale, base, nd, den):
        ident = len(info)
        info.append(dict(key=key, group=group, scale=scale, base=base, nd=nd,
                         den=den))
        ops.append(["atom", str(ident), str(key), str(group),
                    "-" if scale is None else rat(scale),
                    "1" if base else "0", fmt_items(nd)])
        return ident

    base_groups = []
    for g in range(n_groups):
        key = new_key()
        kind = rng.random()
        if kind < 0.5 or not base_groups:
            # base group with reference element
            if kind < 0.2 and g > 0:
                # reference-less group: independent base elements
                grp = dict(ref=None, key=key, atoms=[])
                for _ in range(rng.randint(1, 3)):
                    a = add(key, g, None, True, [], None)
                    info[a]["den"] = (Fraction(1), {a: 1})
                    grp["atoms"].append(a)
                groups.append(grp)
                continue
            r = add(key, g, Fraction(1), True, [], None)
            info[r]["den"] = (Fraction(1), {r: 1})
            grp = dict(ref=r, key=key, atoms=[r], refden={r: 1})
            base_groups.append(grp)
        else:
            # derived group: reference element defined over base groups
            vec = {}
            for bg in rng.sample(base_groups, rng.randint(1, min(2, len(base_groups)))):
                vec[bg["ref"]] = rng.choice([-2, -1, 1, 2, 3])
            nd = [(("a", b), e) for b, e in sorted(vec.items(), key=lambda kv: info[kv[0]]["key"])]
            r = add(key, g, Fraction(1), False, nd, (Fraction(1), dict(vec)))
            grp = dict(ref=r, key=key, atoms=[r], refden=dict(vec))
        # scaled elements of the group
        for _ in range(rng.randint(0, 2)):
            s = rng.choice([Fraction(1000), Fraction(1, 1000), Fraction(254, 100),
                            Fraction(1, 3), Fraction(60), Fraction(7, 5),
                            Fraction(1)])
            refnd = info[grp["ref"]]["nd"] if not info[grp["ref"]]["base"] \
                else [(("a", grp["ref"]), 1)]
            nd = ([(("n", s), 1)] if s != 1 else []) + list(refnd)
            a = add(key, g, s, False, nd, (s, dict(grp["refden"])))
            grp["atoms"].append(a)
        groups.append(grp)
    return ops, info


def fmt_items(items):
    if not items:
        return "-"
    out = []
    for (kind, v), e in items:
        out.append(f"n:{rat(v)}^{e}" if kind == "n" else f"a:{v}^{e}")
    return ";".join(out)


def parse_items(s):
    if s == "-":
        return []
    out = []
    for part in s.split(";"):
        el, _, e = part.rpartition("^")
        if el.startswith("n:"):
            out.append((("n", parse_rat(el[2:])), int(e)))
        elif el.startswith("a:"):
            out.append((("a", int(el[2:])), int(e)))
        else:
            out.append((("bad", el), int(e)))
    return out


NUMS = [Fraction(2), Fraction(3), Fraction(1, 2), Fraction(10), Fraction(1),
        Fraction(-1), Fraction(5, 3), Fraction(1000), Fraction(-7, 4),
        Fraction(254, 100), Fraction(8), Fraction(1, 3)]


def gen_term(rng, info, maxlen=8):
    n = rng.choice([0, 1, 1, 2, 2, 2, 3, 3, 4, 5, 6, 8][:maxlen + 4])
    n = min(n, maxlen)
    items = []
    for _ in range(n):
        e = rng.choice([-4, -3, -2, -1, -1, 0, 1, 1, 1, 2, 2, 3, 4])
        if rng.random() < 0.3:
            items.append((("n", rng.choice(NUMS)), e))
        else:
            items.append((("a", rng.randrange(len(info))), e))
    return items


def gen_cases(rng, tier):
    n_env = 400 if tier == "thorough" else 60
    per_env = 30 if tier == "thorough" else 22
    cases = []
    for _ in range(n_env):
        env_ops, info = gen_env(rng)
        kind = rng.choice(["dec", "dec", "int", "frac"])
        ops = [["numkind", kind]] + env_ops
        for _ in range(per_env):
            a = fmt_items(gen_term(rng, info))
            b = fmt_items(gen_term(rng, info, 5))
            q = rat(rng.choice([x for x in NUMS if x != 0]))
            r = rng.random()
            if r < .12:
                ops.append(["t_mk", a])
            elif r < .30:
                ops.append(["t_norm", a])
            elif r < .42:
                ops.append(["t_mul", a, b])
            elif r < .52:
                ops.append(["t_div", a, b])
            elif r < .57:
                ops.append(["t_scale", q, a])
            elif r < .61:
                ops.append(["t_divs", a, q])
            elif r < .65:
                ops.append(["t_rdivs", q, a])
            elif r < .72:
                ops.append(["t_pow", a, str(rng.randint(-3, 3))])
            elif r < .75:
                ops.append(["t_recip", a])
            elif r < .90:
                derived = [i for i, v in enumerate(info) if not v["base"]]
                if derived and rng.random() < .3:
                    # a ONE-item term of a derived element and its expansion
                    i = rng.choice(derived)
                    e = rng.choice([1, 1, 2, -1])
                    a = fmt_items([(("a", i), e)])
                    b = fmt_items([(el, ee * e) for el, ee in info[i]["nd"]])
                    if rng.random() < .5:
                        a, b = b, a
                elif rng.random() < .5:
                    # an equal term by construction: shuffle / split items
                    items = parse_items(a)
                    rng.shuffle(items)
                    if items and rng.random() < .5:
                        (k, v), e = items[0]
                        items = [((k, v), e - 1), ((k, v), 1)] + items[1:]
                    b = fmt_items(items)
                ops.append(["t_eq", a, b])
            elif r < .95:
                ops.append(["t_numelem", a])
            else:
                ops.append(["t_split", a])
        cases.append({"ops": ops, "fork": False, "tags": ["numkind:" + kind]})
    for _ in range(30 if tier == "thorough" else 6):
        cases.append(gen_registry_case(rng))
    return cases


# ---- terms over REGISTRY units --------------------------------------------
# (the real Unit._get_factor / norm_sort_key / normalized_definition inside
# term reduction; types without reference unit with several units and with
# multiples of different base units of theirs)

def gen_registry_case(rng):
    from histgen import HistGen
    g = HistGen(rng, with_invalid=False, split_items=.4)
    steps = [st for st in g.history(rng.randint(8, 14))]
    steps.append(g.base_class(refless=True))
    for _ in range(3):
        steps.append(g.refless_unit())
    for _ in range(4):
        steps.append(g.refless_multiple())
    steps = [st for st in steps if st is not None and st["expect"] == "ok"]
    w = g.w
    world = {}
    for sy, u in w.units.items():
        if u["scale"] is not None:
            vec = {"c:" + b: e for b, e in u["dim"].items()}
            world[sy] = [rat(u["scale"]), vec, w.classes[u["cls"]]["ref"], u["cls"]]
        elif "base" in u:
            world[sy] = [rat(u["base"][1]), {"u:" + u["base"][0]: 1}, u["base"][0], u["cls"]]
        else:
            world[sy] = ["1/1", {"u:" + sy: 1}, sy, u["cls"]]
    syms = sorted(world)
    ops = [st["op"] for st in steps]
    nsetup = len(ops)

    def term(n):
        items = []
        if rng.random() < .4:
            items.append(("n", rng.choice([Fraction(3), Fraction(1, 2), Fraction(1000), Fraction(-7, 5)]), rng.choice([1, 1, 2, -1])))
        for _ in range(rng.randint(1, n)):
            items.append(("u", rng.choice(syms), rng.choice([-2, -1, 1, 1, 2, 3, 0])))
        rng.shuffle(items)
        return items

    def fmt(items):
        return ";".join((f"n:{rat(v)}^{e}" if k == "n" else f"u:{v}^{e}") for k, v, e in items) or "-"

    for _ in range(45):
        a = term(4)
        r = rng.random()
        if r < .3:
            ops.append(["rt_norm", fmt(a)])
        elif r < .45:
            ops.append(["rt_mk", fmt(a)])
        else:
            if rng.random() < .6:
                # equal by construction: shuffled, one unit replaced by what it is defined as
                b = list(a)
                rng.shuffle(b)
                idx = [i for i, it in enumerate(b) if it[0] == "u" and world[it[1]][2] != it[1]]
                if idx:
                    i = rng.choice(idx)
                    _, sy, e = b[i]
                    f, _, base, _ = world[sy]
                    b[i:i + 1] = [("n", parse_rat(f), e), ("u", base, e)]
            else:
                b = term(4)
            ops.append(["rt_eq", fmt(a), fmt(b)])
    return {"ops": ops, "fork": True, "registry": True, "nsetup": nsetup, "world": world,
            "tags": ["registry-units"]}


def _rden(world, text):
    f, vec = Fraction(1), {}
    if text == "-":
        return f, vec
    for part in text.split(";"):
        el, _, e = part.rpartition("^")
        e = int(e)
        if el.startswith("n:"):
            v = parse_rat(el[2:])
            if v == 0 and e < 0:
                raise Undefined
            f *= v ** e
        elif el.startswith("u:"):
            k, v2, _, _ = world[el[2:]]
            f *= parse_rat(k) ** e
            for b, be in v2.items():
                vec[b] = vec.get(b, 0) + be * e
        else:
            raise Undefined
    return f, {b: e for b, e in vec.items() if e}


def oracle_registry(case, impl):
    world = case["world"]
    fails = []
    for i, (o, out) in enumerate(zip(case["ops"], impl)):
        if i < case["nsetup"]:
            if not out.startswith("ok"):
                fails.append({"site": "setup", "msg": f"{o} -> {out}"})
            continue
        if "FLOAT" in out:
            fails.append({"site": "term:float", "msg": f"{o} -> {out}"})
            continue
        if not out.startswith("ok"):
            fails.append({"site": "term:raises", "msg": f"{o} -> {out}"})
            continue
        try:
            if o[0] in ("rt_mk", "rt_norm"):
                want, got = _rden(world, o[1]), _rden(world, out[3:])
                if want != got:
                    fails.append({"site": "term:denotation", "msg": f"{o} -> {out}: denotes {got}, expected {want}"})
                if o[0] == "rt_norm" and out[3:] != "-":
                    parts = out[3:].split(";")
                    nums = [p for p in parts if p.startswith("n:")]
                    us = [p.rpartition("^")[0][2:] for p in parts if p.startswith("u:")]
                    probs = []
                    if len(nums) > 1 or (nums and not parts[0].startswith("n:")):
                        probs.append("numeric item not single / not first")
                    if nums and (not nums[0].endswith("^1") or nums[0] == "n:1/1^1"):
                        probs.append("numeric item with exponent != 1 or value 1")
                    if len(set(us)) != len(us):
                        probs.append("unit occurs twice")
                    if any(world[u][2] != u or (world[u][0] != "1/1") for u in us):
                        probs.append("non-base unit in normal form")
                    if any(p.endswith("^0") for p in parts):
                        probs.append("zero exponent")
                    if probs:
                        fails.append({"site": "term:normal-form", "msg": f"{o} -> {out}: {probs}"})
            else:
                da, db = _rden(world, o[1]), _rden(world, o[2])
                eq, heq = "eq=true" in out, "hasheq=true" in out
                if eq != (da == db):
                    site = "term:eq-vs-denotation"
                    atoms = [b[2:] for b in da[1] if b.startswith("u:")]
                    classes = [world[a][3] for a in atoms]
                    if da == db and len(set(classes)) < len(classes):
                        site = "term:same-key-order"       # known finding D5
                    fails.append({"site": site, "msg": f"{o} -> {out}: denotations "
                                  f"{'equal' if da == db else 'differ'}"})
                if eq and not heq:
                    fails.append({"site": "term:eq-hash", "msg": f"{o} -> {out}"})
        except Undefined:
            continue
    return fails


def search_cases(rng, focus, broken):
    return gen_cases(rng, "quick")[:20]


# ---- oracle -------------------------------------------------------------

def env_of(ops):
    info = {}
    for o in ops:
        if o[0] == "atom":
            ident = int(o[1])
            info[ident] = dict(key=int(o[2]), group=int(o[3]),
                               scale=None if o[4] == "-" else parse_rat(o[4]),
                               base=o[5] == "1", nd=parse_items(o[6]))
    return info


class Undefined(Exception):
    pass


def den(info, items):
    """Independent denotation: (factor, {base atom: exponent})."""
    f, vec = Fraction(1), {}
    for (kind, v), e in items:
        if kind == "n":
            if v == 0 and e < 0:
                raise Undefined
            f *= Fraction(v) ** e
        elif kind == "a":
            i = info[v]
            if i["base"]:
                vec[v] = vec.get(v, 0) + e
            else:
                f2, v2 = den(info, i["nd"])
                f *= f2 ** e
                for b, be in v2.items():
                    vec[b] = vec.get(b, 0) + be * e
        else:
            raise Undefined
    return f, {b: e for b, e in vec.items() if e != 0}


def den_mul(a, b, sign=1):
    f = a[0] * (b[0] ** sign)
    vec = dict(a[1])
    for k, e in b[1].items():
        vec[k] = vec.get(k, 0) + sign * e
    return f, {k: e for k, e in vec.items() if e != 0}


def den_pow(a, n):
    return a[0] ** n, {k: e * n for k, e in a[1].items() if e * n != 0}


def normal_form_problems(info, items):
    probs = []
    nums = [i for i, ((k, _), _) in enumerate(items) if k == "n"]
    if len(nums) > 1:
        probs.append("more than one numeric item")
    if nums and nums[0] != 0:
        probs.append("numeric item not first")
    for (k, v), e in items:
        if k == "n" and (e != 1 or v == 1):
            probs.append("numeric item with exponent != 1 or value 1")
        if k == "a":
            if not info[v]["base"]:
                probs.append("non-base element in normal form")
            if e == 0:
                probs.append("zero exponent")
    atoms = [v for (k, v), _ in items if k == "a"]
    if len(set(atoms)) != len(atoms):
        probs.append("element occurs twice")
    keys = [info[v]["key"] for v in atoms if v in info]
    if keys != sorted(keys):
        probs.append("not ordered by sort key")
    return probs


def shared_key_nonconvertible(info, items):
    """site predicate of known finding D5: two distinct non-convertible base
    elements with the same sort key occur in the expanded term."""
    try:
        _, vec = den(info, items)
    except Undefined:
        return False
    atoms = list(vec)
    for i, a in enumerate(atoms):
        for b in atoms[i + 1:]:
            if info[a]["key"] == info[b]["key"]:
                return True
    return False


def oracle(case, impl):
    if case.get("registry"):
        return oracle_registry(case, impl)
    info = env_of(case["ops"])
    fails = []
    for o, out in zip(case["ops"], impl):
        kind = o[0]
        if not kind.startswith("t_"):
            continue
        if "FLOAT" in out:
            fails.append({"site": "term:float", "msg": f"{o}: float in {out}"})
            continue
        if not out.startswith("ok"):
            fails.append({"site": "term:raises", "msg": f"{o} -> {out}"})
            continue
        try:
            if kind in ("t_mk", "t_norm", "t_recip", "t_mul", "t_div",
                        "t_scale", "t_divs", "t_rdivs", "t_pow"):
                res = parse_items(out[3:])
                if kind == "t_mk":
                    exp = den(info, parse_items(o[1]))
                elif kind == "t_norm":
                    exp = den(info, parse_items(o[1]))
                    probs = normal_form_problems(info, res)
                    if probs:
                        fails.append({"site": "term:normal-form", "msg":
                                      f"{o} -> {out}: {probs}"})
                elif kind == "t_recip":
                    exp = den_pow(den(info, parse_items(o[1])), -1)
                elif kind == "t_mul":
                    exp = den_mul(den(info, parse_items(o[1])),
                                  den(info, parse_items(o[2])))
                elif kind == "t_div":
                    exp = den_mul(den(info, parse_items(o[1])),
                                  den(info, parse_items(o[2])), -1)
                elif kind == "t_scale":
                    exp = den_mul((parse_rat(o[1]), {}),
                                  den(info, parse_items(o[2])))
                elif kind == "t_divs":
                    exp = den_mul(den(info, parse_items(o[1])),
                                  (parse_rat(o[2]), {}), -1)
                elif kind == "t_rdivs":
                    exp = den_mul((parse_rat(o[1]), {}),
                                  den(info, parse_items(o[2])), -1)
                else:
                    exp = den_pow(den(info, parse_items(o[1])), int(o[2]))
                got = den(info, res)
                if got != exp:
                    fails.append({"site": "term:denotation", "msg":
                                  f"{o} -> {out}: denotes {got}, "
                                  f"expected {exp}"})
            elif kind == "t_eq":
                da = den(info, parse_items(o[1]))
                db = den(info, parse_items(o[2]))
                eq = "eq=true" in out
                heq = "hasheq=true" in out
                if eq != (da == db):
                    site = "term:eq-vs-denotation"
                    if da == db and shared_key_nonconvertible(
                            info, parse_items(o[1])):
                        site = "term:same-key-order"
                    fails.append({"site": site, "msg":
                                  f"{o} -> {out}: denotations "
                                  f"{'equal' if da == db else 'differ'}"})
                if eq and not heq:
                    fails.append({"site": "term:eq-hash", "msg":
                                  f"{o} -> {out}"})
            elif kind == "t_numelem":
                pass        # compared with the model only
            elif kind == "t_split":
                _, n, rest = out.split(" ", 2)
                whole = den(info, parse_items(_mk_items(o[1])))
                got = den_mul((parse_rat(n), {}), den(info, parse_items(rest)))
                # split of the *constructed* term: compare through t_mk's den
                if got != whole:
                    fails.append({"site": "term:split", "msg":
                                  f"{o} -> {out}"})
        except Undefined:
            continue
    return fails


def _mk_items(s):
    return s


def nontrivial_key(case, impl):
    keys = set()
    if case.get("registry"):
        return {(o[0], o[1].count(";"), out[:12]) for o, out in
                list(zip(case["ops"], impl))[case["nsetup"]:]}
    for o, out in zip(case["ops"], impl):
        if o[0].startswith("t_") and out.startswith("ok"):
            ins = [parse_items(x) for x in o[1:] if (":" in x or x == "-")]
            n_in = sum(len(i) for i in ins)
            res = out[3:]
            changed = fmt_items(sum(ins, [])) != res
            if changed:
                keys.add((o[0], n_in, sum(1 for i in ins for (k, _), _ in i if k == "n"),
                          res.count(";") + (res != "-")))
    return keys
