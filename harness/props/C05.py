"""C05 — quantised types hold the nearest multiple of the quantum, rounded once."""
from __future__ import annotations

from fractions import Fraction

from common import rat
from oracles import MODES, round_ref
from props import _qty

ID = "C05"
LEAN_TARGETS = ["QuantityModel.Props.C05"]
RULE = ("quantised types (every DataVolume unit; user types with quanta 1/8, "
        "1/100, 1/3, 5/8 and scaled units) x all 8 default rounding modes (set "
        "and restored around each operation) x producing operations "
        "{constructor via type and via generic factory, + - neg abs, * / by "
        "number, conversion, qty*qty and qty/qty landing in a quantised type}; "
        "oracle: result on the grid and equal to the exact result on the "
        "STORED operands rounded once by an independent implementation of the "
        "mode. Non-trivial: exact result off the grid; distinct by (op, mode, "
        "unit, side of the tie)")
EXHAUSTIVE = {}


def known_witness_cases():
    return []


def tolerated(case, i, impl, model):
    return False


def gen_cases(rng, tier):
    n_user = 30 if tier == "thorough" else 10
    n_pre = 6 if tier == "thorough" else 2
    per = 80 if tier == "thorough" else 45
    cases = []
    ctxs = [_qty.predefined_ctx() for _ in range(n_pre)]
    while len(ctxs) < n_pre + n_user:
        c = _qty.user_ctx(rng, rng.randint(8, 16))
        if any(v["quantum"] is not None for v in c.classes.values()):
            ctxs.append(c)
    for ctx in ctxs:
        ops = []
        qunits = [u for u in ctx.units if ctx.quantum(u) is not None]
        others = [u for u in ctx.linear_units() if ctx.quantum(u) is None]
        for _ in range(per):
            mode = rng.choice(MODES)
            u = rng.choice(qunits)
            same = [x for x in qunits if ctx.units[x]["cls"] == ctx.units[u]["cls"]]
            v = rng.choice(same)
            qu = ctx.quantum(u)
            # amounts near the grid: k*qu, k*qu + qu/2 (tie), tie +/- eps, random
            k = rng.randint(-40, 40)
            shape = rng.random()
            if shape < .3:
                x = (k + Fraction(1, 2)) * qu
            elif shape < .45:
                x = (k + Fraction(1, 2)) * qu + Fraction(rng.choice([-1, 1]), 10 ** 9)
            elif shape < .55:
                x = k * qu
            else:
                x = _qty.amount(rng)
            a = _qty.tok(rng, x)
            r = rng.random()
            if r < .2:
                ops.append(["q_mk", rng.choice(["-", ctx.units[u]["cls"]]), a, u, mode])
            elif r < .35:
                ops.append(["q_conv", f"{a}@{u}", v, mode])
            elif r < .5:
                b = _qty.tok(rng, _qty.amount(rng))
                ops.append(["q_bin", rng.choice(["add", "sub"]), f"{a}@{u}", f"{b}@{v}", mode])
            elif r < .7:
                kk = rng.choice(["3", "1/3", "7/5", "-2", "1/7", "1000", "5/2", "I:3", "I:-2", "L:5/2",
                                 "L:1/8", "F:7/5", "L:3602879701896397/36028797018963968"])
                if rng.random() < .25:
                    # unit (x) number: the quantity `k unit`, rounded once
                    ops.append(["u_num", rng.choice(["mul", "rmul", "div"]), u, kk, mode])
                else:
                    ops.append(["q_num", rng.choice(["mul", "div"]), f"{a}@{u}", kk, mode])
            elif r < .78:
                ops.append(["q_num", rng.choice(["neg", "abs"]), f"{a}@{u}", "1", mode])
            elif others:
                w = rng.choice(others)
                b = _qty.tok(rng, _qty.amount(rng))
                ops.append(["q_bin", rng.choice(["mul", "div"]),
                            *rng.sample([f"{a}@{u}", f"{b}@{w}"], 2), mode])
        # the same operation on the same operands under ANOTHER default mode,
        # in the same process (nothing about a rounding may be remembered)
        for o in list(ops):
            if rng.random() < .25:
                o2 = list(o)
                o2[-1] = rng.choice([m for m in MODES if m != o[-1]])
                ops.insert(rng.randint(ops.index(o) + 1, len(ops)), o2)
        if ctx.kind == "predefined":
            # products whose RESULT type is quantised although neither operand is
            from props import C02
            for o in C02._quantised_result_ops(ctx, rng, per // 2):
                o[-1] = rng.choice(MODES)
                ops.append(o)
        cases.append(_qty.case_of(ctx, ops, ["quantised"]))
    # money x rate, money / rate: the exact product / quotient rounded once
    from props import C10
    for c in C10.gen_cases(rng, "quick")[:4 if tier != "thorough" else 12]:
        c["tags"] = ["rate-application"]
        c["delegate"] = "C10"
        cases.append(c)
    # quantize / round() at the level of quantities (C13's generator): in a
    # quantised type the result is put on the unit's grid, once
    from props import C13
    for c in [c for c in C13.gen_cases(rng, "quick") if "quantity-level" in c["tags"]][:3]:
        c["delegate"] = "C13q"
        cases.append(c)
    # user-declared currencies (smallest fractions that are not powers of ten,
    # given alone or together with the minor unit): every amount on the grid
    from props import C08
    for c in C08.gen_cases(rng, tier):
        if "user-currencies" in c["tags"]:
            c["delegate"] = "C08"
            cases.append(c)
    # money: arithmetic across currencies under an active converter, all modes
    # (the exact result on the stored operands is rounded ONCE)
    from props import C12
    for c in C12.gen_cases(rng, "quick")[:10 if tier != "thorough" else 25]:
        if "money-stack" in c["tags"]:
            c["tags"] = ["money-converter"]
            c["delegate"] = "C12"
            cases.append(c)
    # ... and with a converter active throughout: sums and differences across
    # currencies, whose converted operand has more digits than the currency
    # holds (converted exactly, added, rounded ONCE - not converted-and-rounded
    # first), every mode, both converters
    for name in sorted(C12.CONVS):
        ops = C12.setup_ops() + [["mc_stack", "enter", name]]
        for _ in range(40 if tier != "thorough" else 120):
            o = C12.rand_use(rng)
            while o[0] != "q_bin" or o[1] not in ("add", "sub"):
                o = C12.rand_use(rng)
            o[-1] = rng.choice(["ROUND_FLOOR", "ROUND_CEILING", "ROUND_DOWN", "ROUND_UP",
                                "ROUND_HALF_EVEN", "ROUND_HALF_UP"])
            ops.append(o)
        cases.append({"ops": ops, "fork": True, "tags": ["money-converter"], "delegate": "C12"})
    return cases


def search_cases(rng, focus, broken):
    # a broken rounding kernel: the tie / sign sweep of C13 finds the input
    from props import C13
    out = []
    for c in C13.search_cases(rng, focus, broken)[:600]:
        c = dict(c)
        c["delegate"] = "C13"
        out.append(c)
    return out + gen_cases(rng, "quick")[:3]


def oracle(case, impl):
    if case.get("delegate") == "C12":
        from props import C12
        return [f for f in C12.oracle(case, impl) if f["site"] == "stack:conversion"]
    if case.get("delegate") == "C13":
        from props import C13
        return C13.oracle(case, impl)
    if case.get("delegate") == "C10":
        from props import C10
        return [f for f in C10.oracle(case, impl) if f["site"] == "apply:money"]
    if case.get("delegate") == "C13q":
        from props import C13
        return [f for f in C13.oracle(case, impl) if f["site"].startswith(("quantize:", "round:"))]
    if case.get("delegate") == "C08":
        from props import C08
        return [f for f in C08.oracle(case, impl) if f["site"] in ("money:grid", "cur:fraction")]
    ctx = _qty.ctx_of(case)
    fails = _qty.setup_failures(case, impl)
    for o, out in list(zip(case["ops"], impl))[case["nsetup"]:]:
        mode = o[-1]
        what = str(o)
        msg = None
        if o[0] == "q_mk":
            x = _qty.tok_value(o[2])
            exp = "ok " + ctx.qty(ctx.grid(o[3], x, mode), o[3])
            msg = None if out == exp else f"{what} -> {out}, expected {exp}"
        elif o[0] == "q_conv":
            a, _, u = o[1].rpartition("@")
            x = ctx.grid(u, _qty.tok_value(a), mode)
            v = o[2]
            exp = "ok " + ctx.qty(ctx.grid(v, x * ctx.units[u]["scale"] / ctx.units[v]["scale"], mode), v)
            msg = None if out == exp else f"{what} -> {out}, expected {exp}"
        elif o[0] == "q_bin":
            a, _, u = o[2].rpartition("@")
            b, _, v = o[3].rpartition("@")
            x = ctx.grid(u, _qty.tok_value(a), mode)
            y = ctx.grid(v, _qty.tok_value(b), mode)
            su, sv = ctx.units[u]["scale"], ctx.units[v]["scale"]
            if o[1] in ("add", "sub"):
                sign = 1 if o[1] == "add" else -1
                exp = "ok " + ctx.qty(ctx.grid(u, x + sign * y * sv / su, mode), u)
                msg = None if out == exp else f"{what} -> {out}, expected {exp}"
            else:
                du = ctx.classes[ctx.units[u]["cls"]]["dim"]
                dv = ctx.classes[ctx.units[v]["cls"]]["dim"]
                if o[1] == "mul":
                    msg = _qty.check_value_result(ctx, mode, out, x * su * y * sv,
                                                  _qty.dim_add(du, dv), what)
                elif y == 0:
                    msg = None if out in ("err ZeroDivisionError", "err UndefinedResultError") else f"{what} -> {out}"
                else:
                    msg = _qty.check_value_result(ctx, mode, out, (x * su) / (y * sv),
                                                  _qty.dim_add(du, dv, -1), what)
        elif o[0] == "u_num":
            k = _qty.tok_value(o[3])
            e = k if o[1] in ("mul", "rmul") else 1 / k
            exp = "ok " + ctx.qty(ctx.grid(o[2], e, mode), o[2])
            msg = None if out == exp else f"{what} -> {out}, expected {exp}"
        elif o[0] == "q_num":
            a, _, u = o[2].rpartition("@")
            x = ctx.grid(u, _qty.tok_value(a), mode)
            k = _qty.tok_value(o[3])
            e = {"mul": x * k, "div": x / k, "neg": -x, "abs": abs(x)}[o[1]]
            exp = "ok " + ctx.qty(ctx.grid(u, e, mode), u)
            msg = None if out == exp else f"{what} -> {out}, expected {exp}"
        if msg:
            fails.append({"site": "grid:" + o[0] + (":" + o[1] if o[0] in ("q_bin", "q_num", "u_num") else ""),
                          "msg": msg})
        # on-grid check of whatever came out
        got = _qty.parse_qty_out(out)
        if got and got[1] in ctx.units and ctx.quantum(got[1]) is not None:
            if (got[0] / ctx.quantum(got[1])).denominator != 1:
                fails.append({"site": "grid:off-grid", "msg": f"{what} -> {out} is not a multiple of the quantum"})
    return fails


def nontrivial_key(case, impl):
    keys = set()
    if case.get("delegate"):
        return {("money", o[1], o[-1]) for o in case["ops"] if o[0] in ("q_bin", "money_rate")}
    for o, out in list(zip(case["ops"], impl))[case["nsetup"]:]:
        keys.add((o[0], o[1] if o[0] in ("q_bin", "q_num", "u_num") else "", o[-1], out.rpartition("@")[2]))
    return keys
