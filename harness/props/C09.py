"""C09 — exchange rates: normal form, accuracy, inversion and triangulation."""
from __future__ import annotations

from fractions import Fraction

from common import parse_rat, rat
from oracles import MODES, RateRejected, ilog10, is_pow10, ref_rate
from props import _money

ID = "C09"
LEAN_TARGETS = ["QuantityModel.Props.C09"]
RULE = ("currency pairs/triples x unit multiples (powers of ten and other "
        "integers; int / Decimal / Fraction / str; invalid: 0, negative, "
        "non-integral, 1/3) x term amounts over 12 orders of magnitude as "
        "Decimal / Fraction / int / float (exact binary value) / str, incl. "
        "exact powers of ten, the validity limits 0.000001 and below, zero, "
        "negative, garbage; all 8 default rounding modes; then inversion and "
        "all four triangulation patterns plus non-sharing pairs; equality and "
        "hash of equal rates quoted per 1 / 100 / 1000. Oracle: normal-form "
        "predicate, accuracy bound, rejection rule and direction computed "
        "independently. Non-trivial: accepted rates that needed adjustment or "
        "rounding; distinct by (op, multiple kind, magnitude, mode)")
EXHAUSTIVE = {}
TRUSTED_EXTRA = ["the float log10 used for non-Decimal term amounts is modelled by the exact "
                 "floor(log10); inputs within 1e-9 relative of a power of ten are not generated"]


def known_witness_cases():
    ops = _money.setup(["EUR", "USD"]) + [
        ["rate_new", "w", "EUR", "int:9", "USD", "dec:1/100", _money.MODE]]
    return [{"ops": ops, "fork": True, "tags": ["witness:D7"]}]


def tolerated(case, i, impl, model):
    return False


def gen_cases(rng, tier):
    n = 60 if tier == "thorough" else 10
    per = 60 if tier == "thorough" else 40
    cases = []
    for _ in range(n):
        codes = rng.sample(_money.CODES, 4)
        ops = _money.setup(codes)
        names = []
        for i in range(per):
            mode = rng.choice(MODES)
            r = rng.random()
            if r < .55 or len(names) < 3:
                uc, tc = rng.sample(codes, 2) if rng.random() < .95 else (codes[0], codes[0])
                kind = rng.random()
                if kind < .7:
                    um = Fraction(10) ** rng.randint(0, 4)
                elif kind < .9:
                    um = Fraction(rng.choice([2, 5, 9, 25, 99, 500, 7]))
                else:
                    um = rng.choice([Fraction(0), Fraction(-1), Fraction(5, 2), Fraction(1, 3), Fraction(1, 10)])
                umt = _money.um_token(rng, um) if rng.random() < .97 else "bad"
                kind = rng.random()
                if kind < .8:
                    ta = _money.rand_rate_value(rng)
                elif kind < .9:
                    ta = rng.choice([Fraction(1, 10 ** 6), Fraction(9, 10 ** 7), Fraction(1, 10 ** 7),
                                     Fraction(0), Fraction(-3, 2), Fraction(1), Fraction(10), Fraction(1, 10)])
                else:
                    ta = Fraction(rng.randint(1, 9)) * Fraction(10) ** rng.randint(-5, 5)
                tat = _money.ta_token(rng, ta) if rng.random() < .95 else rng.choice(["bad", "none"])
                name = f"r{i}"
                ops.append(["rate_new", name, uc, umt, tc, tat, mode])
                names.append(name)
            elif r < .7:
                ops.append(["rate_inv", rng.choice(names), f"r{i}", mode])
                names.append(f"r{i}")
            elif r < .9:
                ops.append(["rate_op", rng.choice(["mul", "div"]), rng.choice(names), rng.choice(names), f"r{i}", mode])
                names.append(f"r{i}")
            else:
                ops.append(["rate_eq", rng.choice(names), rng.choice(names)])
        # equal rates quoted differently
        v = _money.rand_rate_value(rng)
        a, b = rng.sample(codes, 2)
        ops.append(["rate_new", "q1", a, "int:1", b, "dec:" + rat(Fraction(round(v * 1000), 1000) + 1), _money.MODE])
        ops.append(["rate_new", "q2", a, "int:100", b, "dec:" + rat((Fraction(round(v * 1000), 1000) + 1) * 100), _money.MODE])
        ops.append(["rate_eq", "q1", "q2"])
        ops.append(["rate_inv", "q2", "q3", _money.MODE])
        ops.append(["rate_inv", "q3", "q4", _money.MODE])
        ops.append(["rate_eq", "q1", "q4"])
        cases.append({"ops": ops, "fork": True, "tags": ["rates"]})
    return cases


def search_cases(rng, focus, broken):
    return gen_cases(rng, "quick")[:3]


def check_normal_form(o, um, ta, true_rate, mode, um_in_pow10):
    probs = []
    if not is_pow10(um):
        probs.append(f"unit multiple {um} is not a power of ten >= 1")
    if (ta * 10 ** 6).denominator != 1 or ta <= 0:
        probs.append(f"term amount {ta} is not a positive multiple of 1e-6")
    err = abs(ta - true_rate * um)
    bound = Fraction(1, 2 * 10 ** 6) if mode in ("ROUND_HALF_EVEN", "ROUND_HALF_UP", "ROUND_HALF_DOWN") \
        else Fraction(1, 10 ** 6)
    if err > bound or (err == bound and bound == Fraction(1, 10 ** 6)):
        probs.append(f"term amount off by {float(err)} (> {float(bound)})")
    site = "rate:normal-form"
    if ta > 0 and ilog10(ta) < -1:
        if um_in_pow10:
            probs.append(f"magnitude of {ta} below -1")
        else:
            return probs, "rate:non-pow10-multiple-magnitude"
    return probs, site


def oracle(case, impl):
    fails = []
    rates = {}      # name -> (uc, um, tc, ta) as reported
    for o, out in zip(case["ops"], impl):
        if o[0] in ("load_money", "cur_reg"):
            if not out.startswith("ok"):
                fails.append({"site": "setup", "msg": f"{o} -> {out}"})
            continue
        got = _money.parse_rate_out(out) if o[0] != "rate_eq" else None
        if o[0] == "rate_new":
            _, name, uc, umt, tc, tat, mode = o
            try:
                if uc == tc:
                    raise RateRejected("identical")
                if umt == "bad" or tat in ("bad", "none"):
                    raise RateRejected("unconvertible")
                um = parse_rat(umt.partition(":")[2])
                d = um.denominator
                while d % 2 == 0:
                    d //= 2
                while d % 5 == 0:
                    d //= 5
                if d != 1:
                    raise RateRejected("multiple not decimal")
                ta = _money.ta_value(tat)
                ref_rate(um, ta, mode)            # raises on invalid inputs
            except RateRejected:
                if not out.startswith("err "):
                    fails.append({"site": "rate:accepted-invalid", "msg": f"{o} -> {out}"})
                continue
            if got is None:
                fails.append({"site": "rate:rejected-valid", "msg": f"{o} -> {out}"})
                continue
            guc, gum, gtc, gta = got
            if (guc, gtc) != (uc, tc):
                fails.append({"site": "rate:currencies", "msg": f"{o} -> {out}"})
            probs, site = check_normal_form(o, gum, gta, ta / um, mode, is_pow10(um))
            if probs or site != "rate:normal-form":
                fails.append({"site": site, "msg": f"{o} -> {out}: {probs or 'magnitude below -1'}"})
            if f"rate={rat(gta / gum)}" not in out or f"inv={rat(gum / gta)}" not in out:
                fails.append({"site": "rate:rate-inverse", "msg": f"{o} -> {out}"})
            rates[name] = got + (mode,)
        elif o[0] == "rate_inv":
            src = rates.get(o[1])
            if src is None:
                continue
            uc, um, tc, ta, _ = src
            true = um / ta
            if true < Fraction(1, 10 ** 6):
                if not out.startswith("err "):
                    fails.append({"site": "rate:inverse-too-small", "msg": f"{o} -> {out}"})
                continue
            if got is None:
                fails.append({"site": "rate:inverse-rejected", "msg": f"{o} -> {out}"})
                continue
            if (got[0], got[2]) != (tc, uc):
                fails.append({"site": "rate:inverse-direction", "msg": f"{o} -> {out}"})
            probs, site = check_normal_form(o, got[1], got[3], true, o[3], True)
            if probs:
                fails.append({"site": "rate:inverse-accuracy", "msg": f"{o} -> {out}: {probs}"})
            rates[o[2]] = got + (o[3],)
        elif o[0] == "rate_op":
            a, b = rates.get(o[2]), rates.get(o[3])
            if a is None or b is None:
                continue
            ra, rb = a[3] / a[1], b[3] / b[1]
            exp = None
            if o[1] == "mul":
                if a[0] == b[2]:
                    exp = (b[0], a[2], ra * rb)
                elif a[2] == b[0]:
                    exp = (a[0], b[2], ra * rb)
            else:
                if a[0] == b[0]:
                    exp = (b[2], a[2], ra / rb)
                elif a[2] == b[2]:
                    exp = (a[0], b[0], ra / rb)
            if exp is None or exp[0] == exp[1] or exp[2] < Fraction(1, 10 ** 6):
                if not out.startswith("err "):
                    fails.append({"site": "rate:triangulation-accepted", "msg": f"{o} -> {out}"})
                continue
            if got is None:
                fails.append({"site": "rate:triangulation-rejected", "msg": f"{o} -> {out}"})
                continue
            if (got[0], got[2]) != (exp[0], exp[1]):
                fails.append({"site": "rate:triangulation-direction", "msg":
                              f"{o} -> {out}, expected {exp[0]}->{exp[1]}"})
            probs, _ = check_normal_form(o, got[1], got[3], exp[2], o[5], True)
            if probs:
                fails.append({"site": "rate:triangulation-accuracy", "msg": f"{o} -> {out}: {probs}"})
            rates[o[4]] = got + (o[5],)
        elif o[0] == "rate_eq":
            a, b = rates.get(o[1]), rates.get(o[2])
            if a is None or b is None or not out.startswith("ok"):
                continue
            want = (a[0], a[2], a[3] / a[1]) == (b[0], b[2], b[3] / b[1])
            eq, heq = "eq=true" in out, "hasheq=true" in out
            if eq != want:
                fails.append({"site": "rate:eq", "msg": f"{o} -> {out}"})
            if eq and not heq:
                fails.append({"site": "rate:eq-hash", "msg": f"{o} -> {out}: equal rates hash differently"})
    return fails


def nontrivial_key(case, impl):
    keys = set()
    for o, out in zip(case["ops"], impl):
        if o[0] == "rate_new" and out.startswith("ok"):
            keys.add(("new", o[3].partition(":")[0], o[5].partition(":")[0], out.split(" ")[2], o[6]))
        elif o[0] in ("rate_inv", "rate_op") and out.startswith("ok"):
            keys.add((o[0], o[1], out.split(" ")[2]))
    return keys
