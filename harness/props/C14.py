"""C14 — table (affine) converters are exact, invertible and mutually consistent."""
from __future__ import annotations

import re
from fractions import Fraction

from common import parse_rat, rat
from props import _qty

ID = "C14"
LEAN_TARGETS = ["QuantityModel.Props.C14"]
RULE = ("(a) the predefined temperature table: all ordered pairs and triples "
        "of the three units with random rational amounts incl. the fixed "
        "points, conversion there-and-back and through the third unit, == and "
        "ordering across units; (b) user types without reference unit with "
        "3-5 units and random tables (list form with duplicate rows — last "
        "wins; one or both directions; rational factors and offsets; missing "
        "pairs): convert, round trip, comparisons, UnitConversionError when "
        "no row applies, results that are exactly zero. Non-trivial: "
        "conversion between different units; distinct by (table id, from, to, "
        "direct/reverse/none)")
EXHAUSTIVE = {}
MODE = "ROUND_HALF_EVEN"
TEMPS = ["°C", "°F", "K"]


def known_witness_cases():
    return []


def tolerated(case, i, impl, model):
    return False


def temp_rows():
    import translate
    _, cat = translate.catalogue_ops()
    return [(f, t, k, o) for f, t, k, o in cat.temp_rows]


def fmt_rows(rows):
    return ";".join(f"{f}>{t}:{rat(k)}:{rat(o)}" for f, t, k, o in rows)


def gen_cases(rng, tier):
    n_user = 40 if tier == "thorough" else 8
    per = 60 if tier == "thorough" else 40
    cases = []
    # (a) temperature
    rows = temp_rows()
    ops = [["load_predefined"]]
    fixed = ["0", "32", "-40", "5463/20", "-5463/20", "-45967/100", "100", "212", "-160/9"]
    for _ in range(per * 2):
        u, v, w = rng.choice(TEMPS), rng.choice(TEMPS), rng.choice(TEMPS)
        a = rng.choice(fixed) if rng.random() < .4 else _qty.tok(rng, _qty.amount(rng))
        r = rng.random()
        if r < .4:
            ops.append(["q_conv", f"{a}@{u}", v, MODE])
        elif r < .55:
            ops.append(["q_convback", f"{a}@{u}", v, MODE])
        elif r < .7:
            ops.append(["q_conv3", f"{a}@{u}", v, w, MODE])
        else:
            b = rng.choice(fixed) if rng.random() < .5 else _qty.tok(rng, _qty.amount(rng))
            ops.append(["q_bin", rng.choice(["eq", "lt", "le", "gt", "ge", "ne"]), f"{a}@{u}", f"{b}@{v}", MODE])
    cases.append({"ops": ops, "fork": True, "rows": [[f, t, rat(k), rat(o)] for f, t, k, o in rows],
                  "tags": ["temperature"]})
    # (b) user tables
    for ti in range(n_user):
        n_units = rng.randint(3, 5)
        units = [f"t{ti}u{i}" for i in range(n_units)]
        ops = [["decl_class", f"T{ti}", "-", "-", "0", "-"]]
        ops += [["new_unit", f"T{ti}", u, "none"] for u in units]
        # two units that HAVE a definition (as Rankine = 5/9 K, Reaumur = 5/4 degC
        # would): without reference unit their factors say nothing about each
        # other - the table alone converts, its absence raises
        ops.append(["new_unit", f"T{ti}", f"t{ti}m0", "qty", "5/9", units[0], MODE])
        ops.append(["new_unit", f"T{ti}", f"t{ti}m1", "qty", "5/4", units[1], MODE])
        units += [f"t{ti}m0", f"t{ti}m1"]
        # both directions of one pair tabulated with rows that are NOT inverse
        # to each other (independently calibrated lines): each direction uses
        # its own row, whichever was entered first
        rows = [(units[0], units[1], Fraction(9, 5), Fraction(32)),
                (units[1], units[0], Fraction(1, 2), Fraction(-7))]
        if ti % 3 == 0:
            rows.append((units[-2], units[-1], Fraction(4, 9), Fraction(-21853, 100)))
        for _ in range(rng.randint(2, 8)):
            u, v = rng.sample(units, 2)
            k = rng.choice([Fraction(9, 5), Fraction(5, 9), Fraction(1), Fraction(-2), Fraction(1, 3), Fraction(1000),
                            Fraction(3), Fraction(10), Fraction(7)])
            o = rng.choice([Fraction(0), Fraction(32), Fraction(-160, 9), Fraction(27315, 100), Fraction(1, 7)])
            rows.append((u, v, k, o))
        ops.append(["conv_table", f"T{ti}", fmt_rows(rows)])
        if ti % 2:
            # a second, more recently registered converter that covers none of
            # the pairs asked for: it answers None and the search goes on
            ops += [["new_unit", f"T{ti}", f"t{ti}u8", "none"], ["new_unit", f"T{ti}", f"t{ti}u9", "none"],
                    ["conv_table", f"T{ti}", fmt_rows([(f"t{ti}u8", f"t{ti}u9", Fraction(3), Fraction(1))])]]
        for a_, b_ in ((units[0], units[1]), (units[1], units[0]), (units[-2], units[-1]),
                       (units[-1], units[-2])):
            ops.append(["q_conv", f"{_qty.tok(rng, _qty.amount(rng))}@{a_}", b_, MODE])
            ops.append(["q_conv", f"0@{a_}", b_, MODE])
        for _ in range(per // 2):
            u, v, w = rng.choice(units), rng.choice(units), rng.choice(units)
            a = _qty.tok(rng, _qty.amount(rng))
            r = rng.random()
            if r < .15:
                # an amount whose conversion is exactly zero
                d = {}
                for f, t, k, o in rows:
                    d[(f, t)] = (k, o)
                if (u, v) in d:
                    k, o = d[(u, v)]
                    a = rat(-o / k)
            if r < .5:
                ops.append(["q_conv", f"{a}@{u}", v, MODE])
            elif r < .65:
                ops.append(["q_convback", f"{a}@{u}", v, MODE])
            elif r < .8:
                ops.append(["q_conv3", f"{a}@{u}", v, w, MODE])
            else:
                b = _qty.tok(rng, _qty.amount(rng))
                ops.append(["q_bin", rng.choice(["eq", "lt", "ge"]), f"{a}@{u}", f"{b}@{v}", MODE])
        cases.append({"ops": ops, "fork": True, "rows": [[f, t, rat(k), rat(o)] for f, t, k, o in rows],
                      "tags": ["user-table"]})
    return cases


def search_cases(rng, focus, broken):
    return gen_cases(rng, "quick")[:4]


def conv(table, u, v, a):
    """independent statement of the rule"""
    if u == v:
        return a
    if (u, v) in table:
        k, o = table[(u, v)]
        return a * k + o
    if (v, u) in table:
        k, o = table[(v, u)]
        return (a - o) / k
    return None


def oracle(case, impl):
    table = {}
    for f, t, k, o in case["rows"]:
        table[(f, t)] = (parse_rat(k), parse_rat(o))
    cls = "Temperature" if "temperature" in case["tags"] else None
    fails = []
    for o, out in zip(case["ops"], impl):
        if o[0] in ("decl_class", "new_unit", "conv_table", "load_predefined"):
            if not out.startswith("ok"):
                fails.append({"site": "setup", "msg": f"{o} -> {out}"})
            continue
        a, _, u = o[1 if o[0] != "q_bin" else 2].rpartition("@")
        x = _qty.tok_value(a)
        c = cls or ("T" + re.match(r"t(\d+)[um]", u).group(1))
        if o[0] == "q_conv":
            r = conv(table, u, o[2], x)
            exp = "err UnitConversionError" if r is None else f"ok qty {rat(r)}@{o[2]}:{c}"
            if out != exp:
                fails.append({"site": "table:convert", "msg": f"{o} -> {out}, expected {exp}"})
        elif o[0] == "q_convback":
            r = conv(table, u, o[2], x)
            back = None if r is None else conv(table, o[2], u, r)
            if r is None or back is None:
                exp = "err UnitConversionError"
            else:
                # == of original and converted: the converted quantity taken
                # back into the original's unit (for a consistent table: equal)
                exp = f"ok qty {rat(back)}@{u}:{c} eq={'true' if back == x else 'false'}"
            if out != exp:
                site = "table:round-trip"
                fails.append({"site": site, "msg": f"{o} -> {out}, expected {exp}"})
        elif o[0] == "q_conv3":
            r = conv(table, u, o[2], x)
            r2 = None if r is None else conv(table, o[2], o[3], r)
            exp = "err UnitConversionError" if r2 is None else f"ok qty {rat(r2)}@{o[3]}:{c}"
            if out != exp:
                fails.append({"site": "table:via", "msg": f"{o} -> {out}, expected {exp}"})
        elif o[0] == "q_bin":
            b, _, v = o[3].rpartition("@")
            y = conv(table, v, u, _qty.tok_value(b))     # other in self's unit
            op = o[1]
            if y is None:
                exp = {"eq": "ok false", "ne": "ok true"}.get(op, "err UnitConversionError")
            else:
                res = {"eq": x == y, "ne": x != y, "lt": x < y, "le": x <= y, "gt": x > y, "ge": x >= y}[op]
                exp = "ok " + ("true" if res else "false")
            if out != exp:
                fails.append({"site": "table:compare", "msg": f"{o} -> {out}, expected {exp}"})
    return fails


def nontrivial_key(case, impl):
    keys = set()
    for o, out in zip(case["ops"], impl):
        if o[0] in ("q_conv", "q_convback", "q_conv3"):
            u = o[1].rpartition("@")[2]
            if u != o[2]:
                keys.add((o[0], u, o[2], out[:6]))
    return keys
