"""C19 — objects that compare equal hash equal."""
from __future__ import annotations

from fractions import Fraction

from common import rat
from props import _qty, C07

ID = "C19"
LEAN_TARGETS = ["QuantityModel.Props.C19"]
RULE = ("pairs generated TO BE EQUAL: the same reference value through "
        "different units of a type and through Decimal / Fraction "
        "representations (predefined catalogue and user histories), pairs of "
        "same-scale units, equal terms (shuffled / split items), plus unequal "
        "controls; temperature pairs equal through the table converter; the "
        "implementation reports a == b, hash(a) == hash(b) and len({a, b}). "
        "Non-trivial: equal objects that are not identical; distinct by "
        "(kind, unit pair, representation pair)")
EXHAUSTIVE = {}
MODE = "ROUND_HALF_EVEN"


def known_witness_cases():
    ctx = _qty.predefined_ctx()
    return [_qty.case_of(ctx, [["u_hash", "l", "dm³"],
                               ["q_hash", "0@°C", "5463/20@K"]], ["witness:D13"])]


def tolerated(case, i, impl, model):
    return False


def gen_cases(rng, tier):
    n_user = 30 if tier == "thorough" else 10
    n_pre = 6 if tier == "thorough" else 2
    per = 80 if tier == "thorough" else 50
    cases = []
    ctxs = [_qty.predefined_ctx() for _ in range(n_pre)] + \
           [_qty.user_ctx(rng, rng.randint(8, 16), undefined_units=.6) for _ in range(n_user)]
    for ctx in ctxs:
        ops = []
        lin = [u for u in ctx.linear_units() if ctx.quantum(u) is None]
        for _ in range(per):
            u = rng.choice(lin)
            v = rng.choice([x for x in lin if ctx.units[x]["cls"] == ctx.units[u]["cls"]])
            su, sv = ctx.units[u]["scale"], ctx.units[v]["scale"]
            x = _qty.amount(rng)
            y = x * su / sv if rng.random() < .8 else _qty.amount(rng)
            ops.append(["q_hash", f"{_qty.tok(rng, x)}@{u}", f"{_qty.tok(rng, y)}@{v}"])
            if rng.random() < .15:
                ops.append(["u_hash", u, v])
        # units WITHOUT scale (declared without definition, in types with and
        # without reference unit): quantities in two different ones
        for cname in ctx.classes:
            und = [x for x in ctx.units if ctx.units[x]["cls"] == cname and ctx.units[x]["scale"] is None]
            for x in und[:3]:
                for y in und[:3]:
                    k = _qty.amount(rng)
                    ops.append(["q_hash", f"{_qty.tok(rng, k)}@{x}", f"{_qty.tok(rng, k)}@{y}"])
                    ops.append(["q_hash", f"5@{x}", f"7@{y}"])
        cases.append(_qty.case_of(ctx, ops, ["hash"]))
    # terms (the C07 generator, equality operations only)
    for c in C07.gen_cases(rng, "quick")[:6 if tier != "thorough" else 40]:
        c["ops"] = [o for o in c["ops"] if not o[0].startswith("t_") or o[0] == "t_eq"]
        c["ctx"] = None
        c["nsetup"] = 0
        c["tags"] = ["terms"]
        cases.append(c)
    # exchange rates: equal rates quoted per 1 / 100, inverted twice, triangulated
    from props import C09
    for c in C09.gen_cases(rng, "quick")[:6 if tier != "thorough" else 30]:
        c["ctx"] = "rates"
        c["nsetup"] = 0
        c["tags"] = ["rates"]
        cases.append(c)
    # money: the hash of an amount is the same outside and inside a
    # `with converter:` block (a key stored before must be found inside)
    from props import C12
    for _ in range(6 if tier == "thorough" else 2):
        ops = C12.setup_ops()
        n0 = len(ops)
        for _ in range(12):
            cur = rng.choice(C12.CODES)
            a = rat(Fraction(rng.randint(-10 ** 5, 10 ** 5), 100))
            ops.append(["q_hash_stable", f"{a}@{cur}", rng.choice(list(C12.CONVS))])
        cases.append({"ops": ops, "fork": True, "ctx": "money-hash", "nsetup": n0, "tags": ["money-hash"]})
    # derived types over a base type WITHOUT reference unit (money per mass,
    # temperature per duration): units of different scale; whatever the code
    # answers for their equality, equal ones must hash equal
    from props import _money
    for _ in range(4 if tier == "thorough" else 1):
        codes = ["EUR", "USD"]
        ops = [["load_predefined"]] + _money.setup(codes)
        ops.append(["decl_class", "PricePerMass", "c:Money^1;c:Mass^-1", "-", "0", "-"])
        ops.append(["decl_class", "Heating", "c:Temperature^1;c:Duration^-1", "-", "0", "-"])
        syms = []
        for cur in codes:
            for xu in ("g", "kg", "t"):
                ops.append(["derive_unit", "PricePerMass", f"{cur},{xu}", "-"])
                syms.append((f"{cur}/{xu}", {"g": Fraction(1, 1000), "kg": Fraction(1), "t": Fraction(1000)}[xu]))
        for tu in ("K", "°C"):
            for du in ("s", "min", "h"):
                ops.append(["derive_unit", "Heating", f"{tu},{du}", "-"])
                syms.append((f"{tu}/{du}", {"s": Fraction(1), "min": Fraction(60), "h": Fraction(3600)}[du]))
        n0 = len(ops)
        for (u, ku) in syms:
            for (v, kv) in syms:
                if u.split("/")[0] != v.split("/")[0] and rng.random() < .7:
                    continue
                x = Fraction(rng.randint(-50, 50), rng.choice([1, 2, 10]))
                # the same value per base unit, and another one
                ops.append(["q_hash", f"{rat(x)}@{u}", f"{rat(x * kv / ku)}@{v}"])
                ops.append(["q_hash", f"{rat(x)}@{u}", f"{rat(x)}@{v}"])
        # terms over two units that share a sort key and cannot be merged (two
        # currencies, K and degC), written in both orders: whatever equality
        # answers, equal terms must hash equal
        for x, y in (("EUR", "USD"), ("K", "°C"), ("USD", "EUR")):
            for a, b in ((f"u:{x}^1;u:{y}^-1", f"u:{y}^-1;u:{x}^1"),
                         (f"u:{x}^1;u:{y}^-1;u:kg^-1", f"u:kg^-1;u:{y}^-1;u:{x}^1"),
                         (f"n:3^1;u:{y}^2;u:{x}^1", f"u:{x}^1;n:3^1;u:{y}^2"),
                         (f"u:{x}^1;u:{y}^1", f"u:{y}^1;u:{x}^1"),
                         (f"u:{x}^1;u:{y}^-1", f"u:{x}^1;u:{y}^-1")):
                ops.append(["rt_eq", a, b])
        cases.append({"ops": ops, "fork": True, "ctx": "refless-derived", "nsetup": n0,
                      "tags": ["refless-derived"]})
    return cases


def search_cases(rng, focus, broken):
    return gen_cases(rng, "quick")[:4]


def oracle(case, impl):
    if case.get("ctx") == "rates":
        from props import C09
        return [f for f in C09.oracle(case, impl) if f["site"] in ("rate:eq-hash", "rate:eq")]
    if case.get("ctx") is None:
        return [f for f in C07.oracle(case, impl) if f["site"] in ("term:eq-hash",)]
    if case.get("ctx") == "refless-derived":
        fails = [{"site": "setup", "msg": f"{o} -> {out}"}
                 for o, out in list(zip(case["ops"], impl))[:case["nsetup"]] if not out.startswith("ok")]
        for o, out in list(zip(case["ops"], impl))[case["nsetup"]:]:
            if not out.startswith("ok "):
                fails.append({"site": "hash:raises", "msg": f"{o} -> {out}"})
            elif "eq=true" in out and "hasheq=true" not in out:
                fails.append({"site": "hash:quantity", "msg": f"{o} -> {out}"})
        return fails
    if case.get("ctx") == "money-hash":
        return [{"site": "hash:unstable", "msg": f"{o} -> {out}"}
                for o, out in list(zip(case["ops"], impl))[case["nsetup"]:]
                if out != "ok stable=true fresh=true"]
    ctx = _qty.ctx_of(case)
    fails = _qty.setup_failures(case, impl)
    for o, out in list(zip(case["ops"], impl))[case["nsetup"]:]:
        if not out.startswith("ok "):
            fails.append({"site": "hash:raises", "msg": f"{o} -> {out}"})
            continue
        eq, heq = "eq=true" in out, "hasheq=true" in out
        if o[0] == "q_hash":
            a, _, u = o[1].rpartition("@")
            b, _, v = o[2].rpartition("@")
            su, sv = ctx.units[u]["scale"], ctx.units[v]["scale"]
            if su is not None and sv is not None:
                want = _qty.tok_value(a) * su == _qty.tok_value(b) * sv
                if eq != want:
                    fails.append({"site": "hash:eq-wrong", "msg": f"{o} -> {out}"})
            if eq and not heq:
                site = "hash:quantity"
                if (su is None or sv is None) and ctx.classes[ctx.units[u]["cls"]]["ref"] is None:
                    site = "hash:converter-equality"      # equal through a converter: D13c
                fails.append({"site": site, "msg": f"{o} -> {out}: equal but hashes differ"})
        elif o[0] == "u_hash":
            if eq and not heq:
                site = "hash:same-scale-units" if o[1] != o[2] else "hash:unit"
                fails.append({"site": site, "msg": f"{o} -> {out}: equal units, hashes differ"})
    return fails


def nontrivial_key(case, impl):
    keys = set()
    for o, out in zip(case["ops"], impl):
        if o[0] == "rate_eq" and "eq=true" in out and o[1] != o[2]:
            keys.add(("rate_eq", len(keys)))
        if o[0] in ("q_hash", "u_hash") and "eq=true" in out:
            keys.add((o[0], o[1].rpartition("@")[2], o[2].rpartition("@")[2],
                      o[1][:2] == "F:", o[2][:2] == "F:"))
        elif o[0] == "t_eq" and "eq=true" in out:
            keys.add(("t_eq", o[1], o[2]))
    return keys
