"""C10 — applying an exchange rate converts money and prices correctly."""
from __future__ import annotations

from fractions import Fraction

from common import parse_rat, rat
from oracles import MODES, round_ref
from props import _money, _qty

ID = "C10"
LEAN_TARGETS = ["QuantityModel.Props.C10"]
RULE = ("money amounts x rates x {money*rate, rate*money, money/rate, "
        "rate/money} with matching and non-matching currencies under all 8 "
        "default modes; compound money-per-X types (per mass, length, "
        "duration, volume) with declared and missing target units, scaled "
        "compound units (EUR/g with only HKD/kg declared), prices whose "
        "currency does not match the rate, quantities involving no money. "
        "Oracle: exact product rounded once to the target currency's fraction "
        "(money); value-based for prices (price per base unit scaled by "
        "exactly the rate, same price type, target currency inside the unit). "
        "Non-trivial: every accepted application; distinct by (op, operand "
        "type, unit, rate pair)")
EXHAUSTIVE = {}
CODES = ["EUR", "USD", "HKD", "JPY", "BHD"]
PER = {"Mass": ["kg", "g", "lb"], "Length": ["m", "km", "in"], "Duration": ["s", "h"],
       "Volume": ["m³", "l"]}


def known_witness_cases():
    return []


def tolerated(case, i, impl, model):
    return False


_N = [0]


def gen_case(rng, per):
    ops = [["load_predefined"]] + _money.setup(CODES) + _money.user_setup()
    late = []
    price_units = {}      # symbol -> (class, currency, x-unit)
    for cls, xunits in rng.sample(sorted(PER.items()), rng.randint(1, 3)):
        pname = "PricePer" + cls
        ops.append(["decl_class", pname, f"c:Money^1;c:{cls}^-1", "-", "0", "-"])
        for cur in rng.sample(CODES, rng.randint(2, 4)):
            for xu in rng.sample(xunits, rng.randint(1, 2)):
                sym = f"{cur}/{xu}"
                price_units[sym] = (pname, cur, xu)
                if rng.random() < .3:
                    late.append(["derive_unit", pname, f"{cur},{xu}", "-"])   # declared later
                else:
                    ops.append(["derive_unit", pname, f"{cur},{xu}", "-"])
    # a money type of the second level: (money per X) per length
    first = [o for o in ops if o[0] == "decl_class"]
    if first and first[0][1] != "PricePerLength" and rng.random() < .6:
        pname = first[0][1]
        pname2 = pname + "PerLength"
        ops.append(["decl_class", pname2, f"c:{pname}^1;c:Length^-1", "-", "0", "-"])
        for o in [o for o in ops if o[0] == "derive_unit" and o[1] == pname]:
            cur, xu = o[2].split(",")
            for lu in rng.sample(["m", "km"], rng.randint(1, 2)):
                sym2 = f"{cur}/{xu}*{lu}"
                ops.append(["derive_unit", pname2, f"{cur}/{xu},{lu}", sym2])
                price_units[sym2] = (pname2, cur, f"{xu}*{lu}")
    rates = {}
    for i in range(6):
        # (the last two rates lead into / out of a user-declared currency whose
        # smallest fraction is not a power of ten)
        a, b = rng.sample(CODES, 2) if i < 4 else rng.sample([rng.choice(CODES), rng.choice(sorted(_money.USER))], 2)
        v = _money.rand_rate_value(rng)
        name = f"r{i}"
        ops.append(["rate_new", name, a, rng.choice(["int:1", "int:100"]), b, _money.ta_token(rng, v), _money.MODE])
        rates[name] = (a, b)
    # every second case: a money converter that knows rates between all the
    # currencies is ACTIVE while the explicit rates are applied; applying a
    # given rate is not a conversion, the converter must not take part
    _N[0] += 1
    if _N[0] % 2 == 0:
        base = rng.choice(CODES)
        ops.append(["mc_new", "cv", base])
        ops.append(["mc_update", "cv", "none",
                    ";".join(f"{c},dec:{rat(Fraction(rng.randint(11, 999), 100))},int:1"
                             for c in CODES if c != base), _money.MODE])
        ops.append(["mc_stack", "enter", "cv"])
    # targeted: for the first rate (a -> b) the price unit a/X is declared now,
    # its counterpart b/X only half-way through: the application is rejected
    # first (no target), asked again at once, and must succeed afterwards
    first_cls = next(o for o in ops if o[0] == "decl_class" and o[2].startswith("c:Money^1;c:") and "PricePer" in o[1] and "PerLength" not in o[1][8:])
    fx = PER[first_cls[1][len("PricePer"):]][0]
    fa, fb = rates["r0"]
    forced = []
    if fa in CODES and fb in CODES:
        for cur, bucket in ((fa, ops), (fb, late)):
            d = ["derive_unit", first_cls[1], f"{cur},{fx}", "-"]
            if bucket is ops and d in ops:
                pass                        # declared already, stays where it is
            else:
                for lst in (ops, late):
                    if d in lst:
                        lst.remove(d)
                bucket.append(d)
            price_units[f"{cur}/{fx}"] = (first_cls[1], cur, fx)
        # (second-level units built on the late one are declared after it)
        dep = [o for o in ops if o[0] == "derive_unit" and o[2].startswith(f"{fb}/{fx},")]
        for o in dep:
            ops.remove(o)
            late.append(o)
        forced = [["money_rate", "mul", f"25/2@{fa}/{fx}", "r0", _money.MODE]] * 2
    nsetup = len(ops)
    ops.extend([list(o) for o in forced])
    declared_now = {o[2].replace(",", "/") for o in ops if o[0] == "derive_unit"}
    for step in range(per):
        if late and step == per // 2:
            # the missing price units are declared now; what was rejected for
            # want of them before is asked again
            asked = [list(o) for o in ops[nsetup:] if o[0] == "money_rate"]
            ops.extend(late)
            declared_now |= {o[2].replace(",", "/") for o in late}
            late = []
            ops.extend(asked[-12:])
            ops.extend([list(o) for o in forced])
        mode = rng.choice(MODES)
        rn = rng.choice(list(rates))
        r = rng.random()
        amt = rat(Fraction(rng.randint(-10 ** 6, 10 ** 6), rng.choice([1, 100, 1000, 7])))
        if r < .45:
            cur = rng.choice([rates[rn][0], rates[rn][0], rates[rn][1], rng.choice(CODES)])
            ops.append(["money_rate", rng.choice(["mul", "rmul", "div", "rdiv"]), f"{amt}@{cur}", rn, mode])
        elif r < .92 and price_units and declared_now:
            sym = rng.choice(sorted(declared_now & set(price_units)) or sorted(declared_now))
            ops.append(["money_rate", rng.choice(["mul", "rmul", "div"]), f"{amt}@{sym}", rn, mode])
        else:
            ops.append(["money_rate", rng.choice(["mul", "div"]), f"{amt}@{rng.choice(['kg', 'm', 's'])}", rn, mode])
    # targeted: LARGE amounts divided by / multiplied with every rate (the exact
    # quotient by the stored rate - an inverse rounded to six digits first is
    # off by whole units of the currency at this size)
    for rn, (a, b) in rates.items():
        big = rat(Fraction(rng.randint(10 ** 10, 10 ** 11), 100))
        ops.append(["money_rate", "div", f"{big}@{b}", rn, rng.choice(MODES)])
        ops.append(["money_rate", rng.choice(["mul", "rmul"]), f"{big}@{a}", rn, rng.choice(MODES)])
    # targeted: the counterpart of the price unit exists in the other currency
    # at ANOTHER scale only (EUR/g with HKD/kg): the look-up factor matters
    extra = []
    for rn, (a, b) in rates.items():
        for sym, (pcls, cur, xu) in price_units.items():
            for op, src, dst in (("mul", a, b), ("rmul", a, b), ("div", b, a)):
                if cur != src or f"{dst}/{xu}" in price_units:
                    continue
                if any(v[0] == pcls and v[1] == dst for v in price_units.values()):
                    amt = rat(Fraction(rng.randint(1, 10 ** 5), rng.choice([1, 100, 8])))
                    extra.append(["money_rate", op, f"{amt}@{sym}", rn, rng.choice(MODES)])
    rng.shuffle(extra)
    ops.extend(extra[:12])
    return {"ops": ops, "fork": True, "nsetup": nsetup,
            "price_units": {k: list(v) for k, v in price_units.items()}, "tags": ["rates-applied"]}


def gen_cases(rng, tier):
    n = 50 if tier == "thorough" else 12
    return [gen_case(rng, 50) for _ in range(n)]


def search_cases(rng, focus, broken):
    return [gen_case(rng, 30) for _ in range(3)]


def oracle(case, impl):
    import siref
    scale = {sy: k for _, sy, k in siref.table()}
    for xu in {v[2] for v in case["price_units"].values() if "*" in v[2]}:
        a, b = xu.split("*")
        scale[xu] = scale[a] * scale[b]
    fails = []
    rates = {}
    declared = {}
    for i, (o, out) in enumerate(zip(case["ops"], impl)):
        if o[0] == "derive_unit":
            if out.startswith("ok "):
                declared[out[3:]] = case["price_units"].get(out[3:])
            else:
                fails.append({"site": "setup", "msg": f"{o} -> {out}"})
            continue
        if i < case["nsetup"]:
            if o[0] == "rate_new":
                got = _money.parse_rate_out(out)
                if got:
                    rates[o[1]] = got
            elif not out.startswith("ok"):
                if o[0] != "rate_new":
                    fails.append({"site": "setup", "msg": f"{o} -> {out}"})
            continue
        if o[0] != "money_rate" or o[3] not in rates:
            continue
        uc, um, tc, ta = rates[o[3]]
        rate = ta / um
        op, mode = o[1], o[-1]
        a, _, u = o[2].rpartition("@")
        x = parse_rat(a)
        what = str(o)
        if u in _money.MINOR or u in _money.USER:  # plain money
            f = _money.frac_of(u)
            x = round_ref(x / f, mode) * f
            if op == "rdiv":
                exp = "err TypeError"
            elif op in ("mul", "rmul"):
                exp = "err ValueError" if u != uc else \
                    f"ok qty {rat(round_ref(x * rate / _money.frac_of(tc), mode) * _money.frac_of(tc))}@{tc}:Money"
            else:
                exp = "err ValueError" if u != tc else \
                    f"ok qty {rat(round_ref(x / rate / _money.frac_of(uc), mode) * _money.frac_of(uc))}@{uc}:Money"
            if out != exp:
                fails.append({"site": "apply:money", "msg": f"{what} -> {out}, expected {exp}"})
        elif u in declared and declared[u]:
            pcls, cur, xu = declared[u]
            src, dst, k = (uc, tc, rate) if op in ("mul", "rmul") else (tc, uc, 1 / rate)
            targets = [s for s, v in declared.items() if v and v[0] == pcls and v[1] == dst]
            if cur != src or not targets:
                if out != "err QuantityError":
                    fails.append({"site": "apply:price-accepted", "msg":
                                  f"{what} -> {out}, expected QuantityError (price currency {cur}, "
                                  f"rate {uc}->{tc}, declared targets {targets})"})
                continue
            got = _qty.parse_qty_out(out)
            exact_declared = f"{dst}/{xu}" in declared
            if got is None:
                # D2: a target that exists at another scale only is found iff it is
                # defined without a numeric factor (its X-unit is the coherent one)
                coherent = any(scale[declared[t][2]] == 1 for t in targets)
                if out == "err QuantityError" and not exact_declared and not coherent:
                    continue          # only a differently scaled target exists (see DESIGN D2)
                fails.append({"site": "apply:price-rejected", "msg": f"{what} -> {out}"})
                continue
            amt, sym, gcls = got
            if gcls != pcls or sym not in declared or declared[sym][1] != dst:
                fails.append({"site": "apply:price-unit", "msg": f"{what} -> {out}"})
                continue
            # value per base unit of X: amount / scale(x-unit)
            want = x * k / scale[xu] * scale[declared[sym][2]]
            if amt != want:
                fails.append({"site": "apply:price-value", "msg":
                              f"{what} -> {out}, expected amount {rat(want)} {sym}"})
        else:
            if out != "err QuantityError" and u in ("kg", "m", "s"):
                fails.append({"site": "apply:no-money", "msg": f"{what} -> {out}"})
    return fails


def nontrivial_key(case, impl):
    keys = set()
    for o, out in list(zip(case["ops"], impl))[case["nsetup"]:]:
        if out.startswith("ok "):
            keys.add((o[1], o[2].rpartition("@")[2], out.rpartition("@")[2]))
    return keys
