"""C15 — directory coherence."""
from __future__ import annotations

from histgen import MODE
from props import _hist

ID = "C15"
LEAN_TARGETS = ["QuantityModel.Props.C15"]
RULE = ("random declaration histories (base / derived classes with given or "
        "default reference symbols, with and without reference unit or "
        "quantum; units scaled from a unit, term-defined, derived from base "
        "units, reference-less; ~25% invalid declarations of 15 kinds), each "
        "run in a forked child starting from the state after `import "
        "quantity`, a full directory dump after every step, then per-unit "
        "queries (Unit(sym), own class, scale via conversion to the reference "
        "unit, factory class). Non-trivial: history with >= 1 derived class "
        "or >= 1 non-reference unit; distinct by the multiset of step kinds")
EXHAUSTIVE = {}


def known_witness_cases():
    # D10: a unit defined as ZERO times another gets scale 1
    ops = [["observe"], ["decl_class", "L", "-", "m", "0", "-"], ["observe"],
           ["new_unit", "L", "z", "qty", "0", "m", MODE], ["observe"],
           ["unit_info", "z"]]
    meta = [dict(kind="observe0"),
            dict(kind="base-class", expect="ok", new_sym="m", new_cls="L"), dict(kind="observe"),
            dict(kind="scaled-unit", expect="ok", new_sym="z", new_cls=None), dict(kind="observe"),
            dict(kind="unit_info", sym="z")]
    world = dict(units={"m": dict(cls="L", scale="1"), "z": dict(cls="L", scale="0")},
                 classes={"L": dict(ref="m", units=["m", "z"], quantum=None)}, order=["L"])
    return [{"ops": ops, "fork": True, "meta": meta, "world": world, "tags": ["witness:D10"]}]


def tolerated(case, i, impl, model):
    return False


def gen_cases(rng, tier):
    n = 400 if tier == "thorough" else 80
    return [_hist.gen_history_case(rng, rng.randint(8, 26), refless_script=(i % 5 == 4),
                                   undefined_units=(.5 if i % 4 == 1 else 0.0))
            for i in range(n)]


def search_cases(rng, focus, broken):
    return [_hist.gen_history_case(rng, rng.randint(6, 16)) for _ in range(10)]


def oracle(case, impl):
    return _hist.directory_oracle(case, impl, check_trace=False, check_dir=True)


def nontrivial_key(case, impl):
    kinds = sorted(m["kind"] for m in case["meta"] if "expect" in m)
    if not any(k not in ("base-class",) for k in kinds):
        return None
    return tuple(kinds)
