"""C15 — directory coherence."""
from __future__ import annotations

from fractions import Fraction

from common import rat
from histgen import MODE
from props import _hist

ID = "C15"
LEAN_TARGETS = ["QuantityModel.Props.C15"]
RULE = ("random declaration histories (base / derived classes with given or "
        "default reference symbols, with and without reference unit or "
        "quantum; units scaled from a unit, term-defined, derived from base "
        "units, reference-less; ~25% invalid declarations of 15 kinds), each "
        "run in a forked child starting from the state after `import "
        "quantity`, a full directory dump after every step, then per-unit "
        "queries (Unit(sym), own class, scale via conversion to the reference "
        "unit, factory class). Non-trivial: history with >= 1 derived class "
        "or >= 1 non-reference unit; distinct by the multiset of step kinds")
EXHAUSTIVE = {}


def known_witness_cases():
    # D10: a unit defined as ZERO times another gets scale 1
    ops = [["observe"], ["decl_class", "L", "-", "m", "0", "-"], ["observe"],
           ["new_unit", "L", "z", "qty", "0", "m", MODE], ["observe"],
           ["unit_info", "z"]]
    meta = [dict(kind="observe0"),
            dict(kind="base-class", expect="ok", new_sym="m", new_cls="L"), dict(kind="observe"),
            dict(kind="scaled-unit", expect="ok", new_sym="z", new_cls=None), dict(kind="observe"),
            dict(kind="unit_info", sym="z")]
    world = dict(units={"m": dict(cls="L", scale="1"), "z": dict(cls="L", scale="0")},
                 classes={"L": dict(ref="m", units=["m", "z"], quantum=None)}, order=["L"])
    return [{"ops": ops, "fork": True, "meta": meta, "world": world, "tags": ["witness:D10"]}]


def tolerated(case, i, impl, model):
    return False


def two_word_case(rng, k):
    """units whose symbol consists of two words, the first one a registered
    symbol itself: found under the whole symbol, built from number + unit and
    from an amount-and-symbol string as an instance of their own type"""
    ops = [["decl_class", f"Force{k}", "-", f"dN{k}", "0", "-"],
           ["decl_class", f"Span{k}", "-", f"dM{k}", "0", "-"],
           ["decl_class", f"Work{k}", f"c:Force{k}^1;c:Span{k}^1", f"dN{k} dM{k}", "0", "-"],
           ["new_unit", f"Span{k}", f"sea mile{k}", "qty", "1852", f"dM{k}", MODE],
           ["new_unit", f"Span{k}", f"dM{k} x{k}", "qty", "3", f"dM{k}", MODE]]
    meta = [dict(kind="setup")] * len(ops)
    want = {f"dN{k}": f"Force{k}", f"dM{k}": f"Span{k}", f"dN{k} dM{k}": f"Work{k}",
            f"sea mile{k}": f"Span{k}", f"dM{k} x{k}": f"Span{k}"}
    for sym, cls in want.items():
        amt = rat(Fraction(rng.randint(1, 99), rng.choice([1, 2, 4])))
        for o in (["q_mk", "-", amt, sym, MODE], ["q_parse", "-", f"{amt} {sym}", "-", MODE],
                  ["q_parse", cls, f"{amt} {sym}", "-", MODE], ["unit_info", sym]):
            ops.append(o); meta.append(dict(kind="two-word", sym=sym, cls=cls, amt=amt))
    return {"ops": ops, "fork": True, "meta": meta, "two_word": True, "world": None, "tags": ["two-word-symbols"]}


def gen_cases(rng, tier):
    n = 400 if tier == "thorough" else 80
    return [_hist.gen_history_case(rng, rng.randint(8, 26), refless_script=(i % 5 == 4),
                                   undefined_units=(.5 if i % 4 == 1 else 0.0))
            for i in range(n)] + [two_word_case(rng, k) for k in range(2)]


def search_cases(rng, focus, broken):
    return [_hist.gen_history_case(rng, rng.randint(6, 16)) for _ in range(10)]


def oracle(case, impl):
    if case.get("two_word"):
        fails = []
        for o, m, out in zip(case["ops"], case["meta"], impl):
            if m["kind"] == "setup":
                if not out.startswith("ok"):
                    fails.append({"site": "setup", "msg": f"{o} -> {out}"})
            elif o[0] == "unit_info":
                if not out.startswith("ok ") or f"cls={m['cls']} " not in out:
                    fails.append({"site": "dir:unit-class", "msg": f"{o} -> {out}"})
            elif out != f"ok qty {m['amt']}@{m['sym']}:{m['cls']}":
                fails.append({"site": "dir:factory-class", "msg":
                              f"{o} -> {out}, expected {m['amt']} {m['sym']} ({m['cls']})"})
        return fails
    return _hist.directory_oracle(case, impl, check_trace=False, check_dir=True)


def nontrivial_key(case, impl):
    if case.get("two_word"):
        return ("two-word",)
    kinds = sorted(m["kind"] for m in case["meta"] if "expect" in m)
    if not any(k not in ("base-class",) for k in kinds):
        return None
    return tuple(kinds)
