"""C08 — money never mixes currencies implicitly and follows ISO 4217."""
from __future__ import annotations

from fractions import Fraction

from common import parse_rat, rat
from oracles import MODES, round_ref
from props import _money

ID = "C08"
LEAN_TARGETS = ["QuantityModel.Props.C08"]
RULE = ("(a) EXHAUSTIVE on every run: every entry of the bundled ISO 4217 "
        "table (as read by the harness's own XML reader) is registered, its "
        "name and smallest fraction read back, registered again (must be the "
        "same object), plus unknown / lower-case / fund codes; (b) all ordered "
        "pairs of a rotating subset of currencies x {+,-,/,<,<=,>,>=,==,!=, "
        "convert, *} with amounts incl. zero, with no converter active, and "
        "same-currency arithmetic (stays in the currency, rounded to its "
        "fraction under all 8 modes); (c) user currencies with valid and "
        "invalid minor unit / smallest fraction combinations. Non-trivial: "
        "every mixed pair; distinct by (op, currency pair) / table entry")
EXHAUSTIVE = {"quick": True, "thorough": True}
OPS = ["add", "sub", "div", "lt", "le", "gt", "ge", "eq", "ne", "mul"]


def known_witness_cases():
    return []


def tolerated(case, i, impl, model):
    return False


def gen_cases(rng, tier):
    table = _money.iso_table()
    cases = []
    # (a) the whole table
    ops = [["load_money"]]
    # wrong spellings of real codes BEFORE these are registered: unknown codes
    for code, _, _ in rng.sample(table, 6):
        ops.append(["cur_reg", code.lower()])
        ops.append(["cur_reg", code.capitalize()])
        ops.append(["cur_reg", code.lower()])
    for code, name, minor in table:
        ops.append(["cur_reg", code])
        ops.append(["cur_reg", code])
    for bad in ["XXX", "eur", "ZZZ", "XAU", "XTS", "EURO", "<empty>", "BOV"]:
        ops.append(["cur_reg", bad])
    ops.append(["observe"])
    cases.append({"ops": ops, "fork": True, "tags": ["iso-table"]})
    # symbols of units that are NOT currencies are unknown codes too
    ops = [["load_predefined"], ["load_money"], ["decl_class", "Pieces", "-", "PCS", "0", "-"]]
    for bad in ["kg", "m", "PCS", "B", "kg", "EUR", "PCS"]:
        ops.append(["cur_reg", bad])
    ops.append(["q_mk", "-", "3", "PCS", _money.MODE])
    cases.append({"ops": ops, "fork": True, "tags": ["iso-table", "foreign-symbols"]})
    # (b) mixed pairs
    n_sets = 8 if tier == "thorough" else 2
    codes_all = [c for c, _, _ in table]
    for _ in range(n_sets):
        codes = rng.sample(codes_all, 6 if tier == "thorough" else 5)
        ops = _money.setup(codes)
        for u in codes:
            for v in codes:
                for op in (OPS if tier == "thorough" else rng.sample(OPS, 5)):
                    a = rng.choice(["0", rat(Fraction(rng.randint(-10 ** 6, 10 ** 6), 10 ** rng.randint(0, 4)))])
                    b = rng.choice(["0", rat(Fraction(rng.randint(1, 10 ** 6), 10 ** rng.randint(0, 4)))])
                    mode = rng.choice(MODES)
                    ops.append(["q_bin", op, f"{a}@{u}", f"{b}@{v}", mode])
                ops.append(["q_conv", f"{rng.choice(['0', '5/2', '-1/3'])}@{u}", v, _money.MODE])
                # text naming one currency with another currency as explicit
                # unit is a conversion, too
                ops.append(["q_parse", rng.choice(["-", "Money"]),
                            f"{rng.choice(['12.34567', '5', '0', '-7/3'])} {u}", v, _money.MODE])
        cases.append({"ops": ops, "fork": True, "tags": ["mixed-pairs"]})
    # (c) user currencies
    n_user = 30 if tier == "thorough" else 6
    for k in range(n_user):
        ops = [["load_money"], ["numkind", rng.choice(["dec", "str"])]]
        for i in range(12):
            sym = rng.choice([f"U{k}x{i}", f"U{k}x{i}", "<empty>", "-", f"U{k}x0"])
            minor = rng.choice(["-", "-", "0", "2", "3", "5", "-1", "x"])
            sf = rng.choice(["-", "-", "1/100:2", "1/20:2", "1/1000:3", "1/4:2", "3/100:2", "0:2", "-1/100:2",
                             "1:0", "1/100:3", "1/8:3", "bad", "33333/100000:5"])
            ops.append(["cur_new", sym, minor, sf])
            ops.append(["observe"])
        # three currencies whose smallest fraction is NOT a power of ten
        good = [(f"V{k}a", "-", "1/20:2"), (f"V{k}b", "2", "1/4:2"), (f"V{k}c", "3", "1/8:3")]
        for sym, minor, sf in good:
            ops.append(["cur_new", sym, minor, sf])
        for i in range(12):
            sym = rng.choice(good)[0]
            num, den = rng.randint(-300, 300), rng.choice([1, 10, 100, 100, 1000])
            ops.append(["q_mk", "-", rat(Fraction(num, den)), sym, rng.choice(MODES)])
            if rng.random() < .4:
                b = rat(Fraction(rng.randint(1, 300), rng.choice([10, 100])))
                ops.append(["q_bin", rng.choice(["add", "sub"]), f"{rat(Fraction(num, den))}@{sym}",
                            f"{b}@{sym}", rng.choice(MODES)])
        for i in range(16):
            # amounts with MANY and with FEW fractional digits (fewer than the
            # smallest fraction has: 0.03 in a currency of 0.05 steps)
            den = rng.choice([7, 1000, 3, 16, 1, 10, 100, 100, 100])
            num = rng.randint(-10 ** 6, 10 ** 6) if den in (7, 1000, 3, 16) else rng.randint(-300, 300)
            ops.append(["q_mk", "-", rat(Fraction(num, den)),
                        f"U{k}x{rng.randint(0, 11)}", rng.choice(MODES)])
        cases.append({"ops": ops, "fork": True, "tags": ["user-currencies"]})
    return cases


def search_cases(rng, focus, broken):
    return gen_cases(rng, "quick")[:3]


def oracle(case, impl):
    table = {c: (n, m) for c, n, m in _money.iso_table()}
    fails = []
    registered = {}
    prev_obs = None
    seen = set()
    for i, (o, out) in enumerate(zip(case["ops"], impl)):
        if o[0] == "cur_reg":
            code = o[1] if o[1] != "<empty>" else ""
            if code in table:
                name, minor = table[code]
                frac = rat(Fraction(1, 10 ** minor))
                want_same = "true" if code in seen else "false"
                exp = f"ok {code} name={name} frac={frac} same={want_same}"
                if out != exp:
                    fails.append({"site": "iso:registration", "msg": f"{o} -> {out}, table says {exp}"})
                seen.add(code)
                registered[code] = Fraction(1, 10 ** minor)
            elif out != "err ValueError":
                fails.append({"site": "iso:unknown-accepted", "msg": f"{o} -> {out}"})
        elif o[0] == "cur_new":
            sym, minor, sf = o[1], o[2], o[3]
            if out.startswith("ok "):
                # whatever was accepted: its quantum is its smallest fraction
                s, _, fr = out[3:].partition(" frac=")
                # amounts are held on the grid of the DECLARED smallest fraction
                # (the reported one only where none was given)
                registered[s] = parse_rat(sf.split(":")[0]) if sf not in ("-", "bad") and \
                    parse_rat(sf.split(":")[0]) > 0 else parse_rat(fr)
                # decidable part of the validation: these must never be accepted
                # (with an explicit minor unit the code only checks that the
                # fraction's precision fits; zero / negative fractions are then
                # accepted -- outside what C08 states, mirrored by the model)
                bad = (minor in ("-1", "x") or sf == "bad" or sym in ("-", "<empty>")
                       or (minor == "-" and sf in ("0:2", "-1/100:2"))
                       or (minor not in ("-", "x", "-1") and sf not in ("-", "bad") and int(minor) != int(sf.split(":")[1]))
                       or (minor == "-" and sf in ("33333/100000:5", "1:0", "3/100:2")))
                if bad:
                    fails.append({"site": "cur:accepted-invalid", "msg": f"{o} -> {out}"})
                if sf == "-" and minor not in ("-",) and fr != rat(Fraction(1, 10 ** int(minor))):
                    fails.append({"site": "cur:fraction", "msg": f"{o} -> {out}"})
                if sf == "-" and minor == "-" and fr != "1/100":
                    fails.append({"site": "cur:fraction", "msg": f"{o} -> {out}"})
                # a smallest fraction that was given and accepted IS the smallest
                # fraction (whether or not a minor unit was given as well)
                if sf not in ("-", "bad") and not bad:
                    want = rat(parse_rat(sf.split(":")[0]))
                    if fr != want:
                        fails.append({"site": "cur:fraction", "msg":
                                      f"{o} -> {out}, the given smallest fraction is {want}"})
        elif o[0] == "observe":
            step = case["ops"][i - 1] if i else None
            if step and step[0] == "cur_new" and impl[i - 1].startswith("err") and prev_obs is not None \
                    and out != prev_obs:
                fails.append({"site": "cur:reject-trace", "msg": f"rejected {step} changed the directories"})
            prev_obs = out
        elif o[0] == "q_bin":
            a, _, u = o[2].rpartition("@")
            b, _, v = o[3].rpartition("@")
            mode = o[-1]
            fu, fv = registered.get(u), registered.get(v)
            if fu is None or fv is None:
                continue
            x = round_ref(parse_rat(a) / fu, mode) * fu
            y = round_ref(parse_rat(b) / fv, mode) * fv
            op = o[1]
            if u != v:
                exp = {"eq": "ok false", "ne": "ok true", "mul": "err UndefinedResultError"}.get(
                    op, "err UnitConversionError")
            elif op in ("add", "sub"):
                r = x + y if op == "add" else x - y
                exp = f"ok qty {rat(round_ref(r / fu, mode) * fu)}@{u}:Money"
            elif op == "div":
                exp = "err ZeroDivisionError" if y == 0 else f"ok num {rat(x / y)}"
            elif op == "mul":
                exp = "err UndefinedResultError"
            else:
                res = {"eq": x == y, "ne": x != y, "lt": x < y, "le": x <= y, "gt": x > y, "ge": x >= y}[op]
                exp = "ok " + ("true" if res else "false")
            if out != exp:
                fails.append({"site": "money:mixed" if u != v else "money:same-currency",
                              "msg": f"{o} -> {out}, expected {exp}"})
        elif o[0] == "q_conv":
            a, _, u = o[1].rpartition("@")
            v = o[2]
            if u != v and out != "err UnitConversionError":
                fails.append({"site": "money:mixed", "msg": f"{o} -> {out}"})
        elif o[0] == "q_parse" and o[3] != "-":
            u, v = o[2].split()[-1], o[3]
            if u != v and out != "err UnitConversionError":
                fails.append({"site": "money:mixed", "msg": f"{o} -> {out}"})
        elif o[0] == "q_mk":
            u = o[3]
            if u in registered and out.startswith("ok qty "):
                amt = parse_rat(out[7:].partition("@")[0])
                want = round_ref(parse_rat(o[2]) / registered[u], o[4]) * registered[u]
                if amt != want:
                    fails.append({"site": "money:grid", "msg": f"{o} -> {out}, expected {rat(want)}"})
    return fails


def nontrivial_key(case, impl):
    keys = set()
    for o in case["ops"]:
        if o[0] == "cur_reg":
            keys.add(("reg", o[1]))
        elif o[0] == "q_bin":
            keys.add((o[1], o[2].rpartition("@")[2], o[3].rpartition("@")[2]))
        elif o[0] == "cur_new":
            keys.add(("new", o[2], o[3]))
    return keys
