"""C06 — allocation conserves the total and deviates by less than one quantum."""
from __future__ import annotations

from fractions import Fraction

from common import parse_rat, rat
from oracles import MODES
from props import _qty

ID = "C06"
LEAN_TARGETS = ["QuantityModel.Props.C06"]
RULE = ("quantised (DataVolume units, user types with quanta 1/8, 1/100, 1/3, "
        "5/8, currencies) and plain quantities x ratio lists of length 1-8 "
        "(ints, Fractions, Decimals, quantities of one type in mixed units; "
        "many equal ratios, tiny and huge ratios) x disperse flag x all 8 "
        "default rounding modes. Oracle (independent of the algorithm): "
        "portions + remainder == receiver exactly; portions on the grid; each "
        "portion < 1 quantum from its exact share; remainder 0 when dispersed "
        "(or no quantum), else |remainder| < n quanta (<= n/2 under half "
        "modes); receiver unchanged (asserted in-process). Non-trivial: a "
        "non-zero rounding error existed; distinct by (n, mode, disperse, "
        "sign and size of the pre-dispersal remainder)")
EXHAUSTIVE = {}


def known_witness_cases():
    return []


def tolerated(case, i, impl, model):
    return False


def gen_ratios(rng, ctx, n):
    kind = rng.random()
    if kind < .45:
        rs = [Fraction(rng.randint(1, 12)) for _ in range(n)]
    elif kind < .6:
        rs = [Fraction(1)] * (n - 1) + [Fraction(rng.randint(1, 9))]
    elif kind < .8:
        rs = [Fraction(rng.randint(1, 999), rng.choice([1, 3, 7, 10, 100])) for _ in range(n)]
    else:
        rs = [Fraction(rng.randint(1, 9)) * Fraction(10) ** rng.randint(-3, 6) for _ in range(n)]
    return rs


def gen_cases(rng, tier):
    n_ctx = 30 if tier == "thorough" else 8
    per = 60 if tier == "thorough" else 22
    cases = []
    ctxs = [_qty.predefined_ctx()]
    while len(ctxs) < n_ctx:
        c = _qty.user_ctx(rng, rng.randint(8, 14))
        if any(v["quantum"] is not None for v in c.classes.values()):
            ctxs.append(c)
    for ctx in ctxs:
        ops = [["numkind", rng.choice(["dec", "int"])]]
        qunits = [u for u in ctx.units if ctx.quantum(u) is not None]
        plain = [u for u in ctx.linear_units() if ctx.quantum(u) is None]
        for _ in range(per):
            mode = rng.choice(MODES)
            u = rng.choice(qunits) if rng.random() < .8 else rng.choice(plain)
            n = rng.choice([1, 2, 3, 3, 4, 5, 5, 6, 7, 8])
            x = _qty.amount(rng) if rng.random() < .6 else Fraction(rng.randint(-5000, 5000), 100)
            if rng.random() < .25 and plain:
                # ratios as quantities of one (plain) type in mixed units
                w = rng.choice(plain)
                same = [y for y in plain if ctx.units[y]["cls"] == ctx.units[w]["cls"]]
                toks, vals = [], []
                for _ in range(n):
                    y = rng.choice(same)
                    r = Fraction(rng.randint(1, 500), rng.choice([1, 10, 4]))
                    toks.append(f"q:{rat(r)}@{y}")
                    vals.append(r * ctx.units[y]["scale"])
            else:
                vals = gen_ratios(rng, ctx, n)
                toks = ["n:" + rat(r) for r in vals]
            disperse = rng.choice(["0", "1", "1"])
            if rng.random() < .3:
                # tight: few quanta over many nearly equal portions under a half
                # mode, error dispersed (which portions are adjusted matters)
                u = rng.choice(qunits)
                mode = rng.choice([m for m in MODES if "HALF" in m])
                n = rng.randint(5, 8)
                x = rng.randint(1, 300) * ctx.quantum(u) * rng.choice([1, 1, -1])
                vals = [Fraction(1)] * n
                for _ in range(rng.randint(1, 2)):
                    vals[rng.randrange(n)] = Fraction(rng.randint(2, 3))
                toks = ["n:" + rat(r) for r in vals]
                disperse = "1"
            elif rng.random() < .15:
                # equal whole-number shares that are NOT on the grid (the quantum
                # does not divide 1): every portion must still be a multiple of it
                u = rng.choice(qunits)
                qu = ctx.quantum(u)
                for _ in range(50):
                    sh, n = rng.randint(1, 60), rng.randint(2, 6)
                    if (sh / qu).denominator != 1 and (n * sh / qu).denominator == 1:
                        x = Fraction(n * sh)
                        vals = [Fraction(1)] * n
                        toks = ["n:1/1"] * n
                        break
            ops.append(["q_alloc", f"{_qty.tok(rng, x)}@{u}", ",".join(toks), disperse, mode])
        case = _qty.case_of(ctx, ops, ["allocate"])
        cases.append(case)
    # money: ISO currencies and user-declared currencies whose smallest fraction
    # is NOT a power of ten, declared with the fraction alone and together with
    # the minor unit - every portion is a multiple of the DECLARED fraction
    for k in range(4 if tier == "thorough" else 2):
        curs = {"EUR": Fraction(1, 100), "JPY": Fraction(1), "BHD": Fraction(1, 1000),
                f"XA{k}": Fraction(1, 20), f"XB{k}": Fraction(1, 4), f"XC{k}": Fraction(1, 40)}
        setup = [["load_money"], ["cur_reg", "EUR"], ["cur_reg", "JPY"], ["cur_reg", "BHD"],
                 ["cur_new", f"XA{k}", "-", "1/20:2"], ["cur_new", f"XB{k}", "2", "1/4:2"],
                 ["cur_new", f"XC{k}", "3", "1/40:3"]]
        ctx = _qty.Ctx(setup, {c: dict(cls="Money", scale=None, quantum=q) for c, q in curs.items()},
                       {"Money": dict(dim={"Money": 1}, ref=None, quantum=None)}, "money")
        ops = [["numkind", "dec"]]
        for _ in range(per):
            u = rng.choice(sorted(curs))
            n = rng.choice([2, 3, 3, 5, 6, 7])
            vals = gen_ratios(rng, ctx, n)
            x = Fraction(rng.randint(-50000, 50000), 100)
            ops.append(["q_alloc", f"{rat(x)}@{u}", ",".join("n:" + rat(r) for r in vals),
                        rng.choice(["0", "1", "1"]), rng.choice(MODES)])
        cases.append(_qty.case_of(ctx, ops, ["allocate", "money"]))
    return cases


def search_cases(rng, focus, broken):
    return gen_cases(rng, "quick")[:3]


def ratio_values(ctx, toks):
    vals = []
    for t in toks.split(","):
        if t.startswith("n:"):
            vals.append(parse_rat(t[2:]))
        else:
            a, _, y = t[2:].rpartition("@")
            vals.append(parse_rat(a) * ctx.units[y]["scale"])
    return vals


def oracle(case, impl):
    ctx = _qty.ctx_of(case)
    fails = _qty.setup_failures(case, impl)
    for o, out in list(zip(case["ops"], impl))[case["nsetup"]:]:
        if o[0] != "q_alloc":
            continue
        a, _, u = o[1].rpartition("@")
        mode, disp = o[4], o[3] == "1"
        A = ctx.grid(u, _qty.tok_value(a), mode)
        vals = ratio_values(ctx, o[2])
        total = sum(vals)
        qu = ctx.quantum(u)
        if not out.startswith("ok "):
            fails.append({"site": "alloc:raises", "msg": f"{o} -> {out}"})
            continue
        body, _, rem = out[3:].rpartition(" rem=")
        amts, _, rest = body.partition("@")
        if rest != f"{u}:{ctx.units[u]['cls']}":
            fails.append({"site": "alloc:unit", "msg": f"{o} -> {out}"})
        ps = [parse_rat(x) for x in amts.split(",")]
        rem = parse_rat(rem)
        n = len(vals)
        if len(ps) != n:
            fails.append({"site": "alloc:count", "msg": f"{o} -> {out}"})
            continue
        if sum(ps) + rem != A:
            fails.append({"site": "alloc:conservation", "msg":
                          f"{o} -> {out}: portions + remainder = {sum(ps) + rem} != {A}"})
        shares = [A * v / total for v in vals]
        if qu is None:
            if ps != shares or rem != 0:
                fails.append({"site": "alloc:exact-shares", "msg": f"{o} -> {out}, expected {shares}"})
            continue
        for p, sh in zip(ps, shares):
            if (p / qu).denominator != 1:
                fails.append({"site": "alloc:off-grid", "msg": f"{o} -> {out}: {p} not on the grid"})
            if abs(p - sh) >= abs(qu):
                fails.append({"site": "alloc:deviation", "msg":
                              f"{o} -> {out}: portion {p} is {float(abs(p - sh) / abs(qu)):.3f} quanta "
                              f"from its share {sh}"})
        if disp:
            if rem != 0:
                fails.append({"site": "alloc:remainder-after-dispersal", "msg": f"{o} -> {out}"})
        else:
            half = mode in ("ROUND_HALF_EVEN", "ROUND_HALF_UP", "ROUND_HALF_DOWN")
            bound = abs(qu) * n / 2 if half else abs(qu) * n
            if abs(rem) > bound or (not half and abs(rem) >= bound):
                fails.append({"site": "alloc:remainder-bound", "msg": f"{o} -> {out}"})
    return fails


def nontrivial_key(case, impl):
    keys = set()
    ctx = _qty.ctx_of(case)
    for o, out in list(zip(case["ops"], impl))[case["nsetup"]:]:
        if o[0] == "q_alloc" and out.startswith("ok "):
            u = o[1].rpartition("@")[2]
            if ctx.quantum(u) is not None:
                keys.add((len(o[2].split(",")), o[4], o[3], out.rpartition("rem=")[2] == "0/1", u))
    return keys
