"""C20 — predefined catalogue matches SI / international definitions and docs."""
from __future__ import annotations

from fractions import Fraction

import siref
from common import parse_rat, rat
from props._hist import parse_observe

ID = "C20"
LEAN_TARGETS = ["QuantityModel.Props.C20"]
MODE = "ROUND_HALF_EVEN"
RULE = ("exhaustive over the predefined catalogue: after `import "
        "quantity.predefined` (implementation) / replay of the translated "
        "declaration script (model) the full directory dump, every unit's "
        "class / scale / quantum, 1*unit converted to the reference unit, and "
        "conversions between ordered pairs of units of each type (quick: a "
        "rotating sample; thorough: all ordered pairs) with random amounts; "
        "oracle = Ref/SIRef.lean. Non-trivial: conversion between two "
        "different units; distinct by (from, to)")
EXHAUSTIVE = {"thorough": True}


def known_witness_cases():
    return []


def tolerated(case, i, impl, model):
    return False


def _amounts(rng):
    return rng.choice(["1", "5/2", "-7/3", "1000000", "1/1000000", "254/100",
                       "F:1/7", "123456789/1000", "0"])


def gen_cases(rng, tier):
    ref = siref.table()
    by_cls = {}
    for c, sy, k in ref:
        by_cls.setdefault(c, []).append((sy, k))
    ops = [["load_predefined"], ["observe"]]
    for c, sy, k in ref:
        ops.append(["unit_info", sy])
    cases = [{"ops": ops, "fork": True, "tags": ["directory"]}]
    refsym = {c: next(sy for sy, k in us if k == 1) for c, us in by_cls.items()
              if any(k == 1 for _, k in us)}
    for c, us in by_cls.items():
        if c == "Temperature":
            continue
        ops = [["load_predefined"]]
        quantised = c == "DataVolume"
        pairs = [(a, b) for a, _ in us for b, _ in us]
        if tier != "thorough":
            rng.shuffle(pairs)
            pairs = pairs[:40]
        for a, b in pairs:
            if quantised:
                # exact conversion needs an amount on b's grid: whole bytes
                amt = str(rng.choice([8, 1024, 8000, 3 * 1048576]))
                ops.append(["q_conv", f"{amt}@B", b, MODE])
            else:
                ops.append(["q_conv", f"{_amounts(rng)}@{a}", b, MODE])
        for sy, _ in us:
            if not quantised:
                ops.append(["q_conv", f"1@{sy}", refsym[c], MODE])
        cases.append({"ops": ops, "fork": True, "tags": ["convert:" + c]})
    # temperature: the defining fixed points and the documented equivalents,
    # every ordered pair of scales (amounts given on either side of each row)
    ops = [["load_predefined"]]
    temps = ["\u00b0C", "\u00b0F", "K"]
    for row in TEMP_ROWS:
        for i, a in enumerate(row):
            for j in range(3):
                ops.append(["q_conv", f"{rat(a)}@{temps[i]}", temps[j], MODE])
    for _ in range(20):
        a = rng.choice([Fraction(rng.randint(-500, 500), rng.choice([1, 2, 3, 100]))])
        ops.append(["q_conv", f"{_tok(a)}@{rng.choice(temps)}", rng.choice(temps), MODE])
    cases.append({"ops": ops, "fork": True, "tags": ["temperature"]})
    # quantities produced by allocation in the quantised catalogue type convert,
    # add and compare by the reference scales like any other quantity
    dv = [sy for c, sy, k in ref if c == "DataVolume"]
    ops = [["load_predefined"]]
    for _ in range(12):
        u = rng.choice(dv)
        v = rng.choice([x for x in dv if x != u])
        n = rng.randint(2, 7)
        ratios = ",".join("n:%d/1" % rng.choice([1, 1, 1, 2, 3]) for _ in range(n))
        x = Fraction(rng.randint(1, 400))
        ops.append(["q_alloc_cmp", f"{rat(x)}@{u}", ratios, v,
                    rng.choice(["ROUND_HALF_EVEN", "ROUND_FLOOR", "ROUND_CEILING"])])
    cases.append({"ops": ops, "fork": True, "tags": ["allocated-portions"]})
    # the documentation tables, row by row, against the computed conversions;
    # and units ordered by their reference scales
    ops = [["load_predefined"], ["doc_rows"]]
    for c, us in by_cls.items():
        if c == "Temperature":
            continue
        for _ in range(6):
            (a, _), (b, _) = rng.choice(us), rng.choice(us)
            ops.append(["ucmp", rng.choice(["lt", "le", "gt", "ge"]), a, b])
    cases.append({"ops": ops, "fork": True, "tags": ["doc-rows", "unit-order"]})
    # the catalogue's symbols are taken: another quantity type cannot declare
    # a unit under one of them, and the catalogue unit stays what it was
    ops = [["load_predefined"], ["decl_class", "UserCount", "-", "uc0", "0", "-"]]
    taken = rng.sample([sy for c, sy, k in ref if c != "Temperature"], 6) + ["mi", "st", "km"]
    for sy in taken:
        ops.append(["new_unit", "UserCount", sy, "qty", "10", "uc0", MODE])
        ops.append(["unit_info", sy])
        other = rng.choice([b for b, _ in by_cls[next(c for c, s2, _ in ref if s2 == sy)]])
        if next(c for c, s2, _ in ref if s2 == sy) != "DataVolume":
            ops.append(["q_conv", f"1@{sy}", other, MODE])
    ops.append(["decl_class", "UserCount2", "-", rng.choice(["m", "kg", "s"]), "0", "-"])
    cases.append({"ops": ops, "fork": True, "tags": ["symbols-taken"]})
    # SI prefixes by the name of their module-level constant
    cases.append({"ops": [["prefix", n] for n in PREFIX_EXP], "fork": False, "tags": ["prefixes"]})
    return cases


def _tok(a):
    d = a.denominator
    while d % 2 == 0:
        d //= 2
    while d % 5 == 0:
        d //= 5
    return rat(a) if d == 1 else "F:" + rat(a)


# (°C, °F, K) triples: rows of the documentation and the defining fixed points
TEMP_ROWS = [(Fraction(0), Fraction(32), Fraction(27315, 100)),
             (Fraction(-40), Fraction(-40), Fraction(23315, 100)),
             (Fraction(-27315, 100), Fraction(-45967, 100), Fraction(0)),
             (Fraction(100), Fraction(212), Fraction(37315, 100)),
             (Fraction(-160, 9), Fraction(0), Fraction(27315, 100) - Fraction(160, 9))]

# the SI brochure: prefix name -> power of ten
PREFIX_EXP = {"YOCTO": -24, "ZEPTO": -21, "ATTO": -18, "FEMTO": -15, "PICO": -12, "NANO": -9,
              "MICRO": -6, "MILLI": -3, "CENTI": -2, "DECI": -1, "DECA": 1, "HECTO": 2, "KILO": 3,
              "MEGA": 6, "GIGA": 9, "TERA": 12, "PETA": 15, "EXA": 18, "ZETTA": 21, "YOTTA": 24}
PREFIX_ABBR = {"YOCTO": "y", "ZEPTO": "z", "ATTO": "a", "FEMTO": "f", "PICO": "p", "NANO": "n",
               "MICRO": "\u00b5", "MILLI": "m", "CENTI": "c", "DECI": "d", "DECA": "da", "HECTO": "h",
               "KILO": "k", "MEGA": "M", "GIGA": "G", "TERA": "T", "PETA": "P", "EXA": "E",
               "ZETTA": "Z", "YOTTA": "Y"}


def _to_celsius(a, u):
    if u == "K":
        return a - Fraction(27315, 100)
    if u == "\u00b0F":
        return (a - 32) * Fraction(5, 9)
    return a


def _from_celsius(c, u):
    if u == "K":
        return c + Fraction(27315, 100)
    if u == "\u00b0F":
        return c * Fraction(9, 5) + 32
    return c


def search_cases(rng, focus, broken):
    if getattr(search_cases, "_done", False):
        return []
    search_cases._done = True
    return gen_cases(rng, "thorough")


def oracle(case, impl):
    ref = siref.table()
    scale = {sy: k for _, sy, k in ref}
    cls_of = {sy: c for c, sy, _ in ref}
    fails = []
    for o, out in zip(case["ops"], impl):
        if o[0] == "load_predefined" and out != "ok failed=0":
            fails.append({"site": "cat:import", "msg": out})
        elif o[0] == "observe":
            units, classes, order = parse_observe(out)
            want = {sy: (c, k) for c, sy, k in ref}
            if units != want:
                bad = sorted(set(units) ^ set(want)) + sorted(
                    s for s in set(units) & set(want) if units[s] != want[s])
                fails.append({"site": "cat:scale", "msg":
                              "units differing from the SI reference: " + ", ".join(
                                  f"{s}: got {units.get(s)} want {want.get(s)}" for s in bad[:8])})
            if classes.get("DataVolume", {}).get("quantum") != "1/8":
                fails.append({"site": "cat:quantum", "msg": str(classes.get("DataVolume"))})
        elif o[0] == "new_unit" and o[2] in scale:
            if out != "err ValueError":
                fails.append({"site": "cat:symbol-taken", "msg": f"{o} -> {out}"})
        elif o[0] == "decl_class" and o[3] in scale:
            if out != "err ValueError":
                fails.append({"site": "cat:symbol-taken", "msg": f"{o} -> {out}"})
        elif o[0] == "unit_info":
            sy = o[1]
            k = scale[sy]
            if f"cls={cls_of[sy]} " not in out or f"equiv={'none' if k is None else rat(k)} " not in out:
                fails.append({"site": "cat:scale", "msg": f"{sy}: {out}, SI: {cls_of[sy]} {k}"})
        elif o[0] == "q_alloc_cmp":
            if out != "ok true":
                fails.append({"site": "cat:allocated-portion", "msg": f"{o} -> {out}"})
        elif o[0] == "doc_rows":
            if not out.startswith("ok rows=") or not out.endswith(" bad=-"):
                fails.append({"site": "cat:doc-row", "msg": f"documentation rows differ from the computed "
                              f"equivalents: {out}"})
        elif o[0] == "ucmp":
            su, sv = scale[o[2]], scale[o[3]]
            rel = {"lt": su < sv, "le": su <= sv, "gt": su > sv, "ge": su >= sv}[o[1]]
            exp = "ok " + ("true" if rel else "false")
            if out != exp:
                fails.append({"site": "cat:unit-order", "msg": f"{o} -> {out}, SI scales {su} vs {sv}"})
        elif o[0] == "prefix":
            exp = f"ok {o[1].capitalize()} {PREFIX_ABBR[o[1]]} {rat(Fraction(10) ** PREFIX_EXP[o[1]])}"
            if out != exp:
                fails.append({"site": "cat:prefix", "msg": f"{o[1]}: {out}, SI: {exp}"})
        elif o[0] == "q_conv" and cls_of.get(o[2]) == "Temperature":
            a, _, u = o[1].rpartition("@")
            a = parse_rat(a[2:] if a.startswith("F:") else a)
            want = _from_celsius(_to_celsius(a, u), o[2])
            exp = f"ok qty {rat(want)}@{o[2]}:Temperature"
            if out != exp:
                fails.append({"site": "cat:temperature", "msg": f"{o[1]} -> {o[2]}: {out}, expected {exp}"})
        elif o[0] == "q_conv":
            a, _, u = o[1].rpartition("@")
            a = parse_rat(a[2:] if a.startswith("F:") else a)
            v = o[2]
            want = a * scale[u] / scale[v]
            exp = f"ok qty {rat(want)}@{v}:{cls_of[v]}"
            if out != exp:
                fails.append({"site": "cat:convert", "msg": f"{o[1]} -> {v}: {out}, SI: {exp}"})
    return fails


def nontrivial_key(case, impl):
    return {(o[1].rpartition("@")[2], o[2]) for o in case["ops"]
            if o[0] == "q_conv" and o[1].rpartition("@")[2] != o[2]}
