"""C20 — predefined catalogue matches SI / international definitions and docs."""
from __future__ import annotations

from fractions import Fraction

import siref
from common import parse_rat, rat
from props._hist import parse_observe

ID = "C20"
LEAN_TARGETS = ["QuantityModel.Props.C20"]
MODE = "ROUND_HALF_EVEN"
RULE = ("exhaustive over the predefined catalogue: after `import "
        "quantity.predefined` (implementation) / replay of the translated "
        "declaration script (model) the full directory dump, every unit's "
        "class / scale / quantum, 1*unit converted to the reference unit, and "
        "conversions between ordered pairs of units of each type (quick: a "
        "rotating sample; thorough: all ordered pairs) with random amounts; "
        "oracle = Ref/SIRef.lean. Non-trivial: conversion between two "
        "different units; distinct by (from, to)")
EXHAUSTIVE = {"thorough": True}


def known_witness_cases():
    return []


def tolerated(case, i, impl, model):
    return False


def _amounts(rng):
    return rng.choice(["1", "5/2", "-7/3", "1000000", "1/1000000", "254/100",
                       "F:1/7", "123456789/1000", "0"])


def gen_cases(rng, tier):
    ref = siref.table()
    by_cls = {}
    for c, sy, k in ref:
        by_cls.setdefault(c, []).append((sy, k))
    ops = [["load_predefined"], ["observe"]]
    for c, sy, k in ref:
        ops.append(["unit_info", sy])
    cases = [{"ops": ops, "fork": True, "tags": ["directory"]}]
    refsym = {c: next(sy for sy, k in us if k == 1) for c, us in by_cls.items()
              if any(k == 1 for _, k in us)}
    for c, us in by_cls.items():
        if c == "Temperature":
            continue
        ops = [["load_predefined"]]
        quantised = c == "DataVolume"
        pairs = [(a, b) for a, _ in us for b, _ in us]
        if tier != "thorough":
            rng.shuffle(pairs)
            pairs = pairs[:40]
        for a, b in pairs:
            if quantised:
                # exact conversion needs an amount on b's grid: whole bytes
                amt = str(rng.choice([8, 1024, 8000, 3 * 1048576]))
                ops.append(["q_conv", f"{amt}@B", b, MODE])
            else:
                ops.append(["q_conv", f"{_amounts(rng)}@{a}", b, MODE])
        for sy, _ in us:
            if not quantised:
                ops.append(["q_conv", f"1@{sy}", refsym[c], MODE])
        cases.append({"ops": ops, "fork": True, "tags": ["convert:" + c]})
    return cases


def search_cases(rng, focus, broken):
    if getattr(search_cases, "_done", False):
        return []
    search_cases._done = True
    return gen_cases(rng, "thorough")


def oracle(case, impl):
    ref = siref.table()
    scale = {sy: k for _, sy, k in ref}
    cls_of = {sy: c for c, sy, _ in ref}
    fails = []
    for o, out in zip(case["ops"], impl):
        if o[0] == "load_predefined" and out != "ok failed=0":
            fails.append({"site": "cat:import", "msg": out})
        elif o[0] == "observe":
            units, classes, order = parse_observe(out)
            want = {sy: (c, k) for c, sy, k in ref}
            if units != want:
                bad = sorted(set(units) ^ set(want)) + sorted(
                    s for s in set(units) & set(want) if units[s] != want[s])
                fails.append({"site": "cat:scale", "msg":
                              "units differing from the SI reference: " + ", ".join(
                                  f"{s}: got {units.get(s)} want {want.get(s)}" for s in bad[:8])})
            if classes.get("DataVolume", {}).get("quantum") != "1/8":
                fails.append({"site": "cat:quantum", "msg": str(classes.get("DataVolume"))})
        elif o[0] == "unit_info":
            sy = o[1]
            k = scale[sy]
            if f"cls={cls_of[sy]} " not in out or f"equiv={'none' if k is None else rat(k)} " not in out:
                fails.append({"site": "cat:scale", "msg": f"{sy}: {out}, SI: {cls_of[sy]} {k}"})
        elif o[0] == "q_conv":
            a, _, u = o[1].rpartition("@")
            a = parse_rat(a[2:] if a.startswith("F:") else a)
            v = o[2]
            want = a * scale[u] / scale[v]
            exp = f"ok qty {rat(want)}@{v}:{cls_of[v]}"
            if out != exp:
                fails.append({"site": "cat:convert", "msg": f"{o[1]} -> {v}: {out}, SI: {exp}"})
    return fails


def nontrivial_key(case, impl):
    return {(o[1].rpartition("@")[2], o[2]) for o in case["ops"]
            if o[0] == "q_conv" and o[1].rpartition("@")[2] != o[2]}
