"""C13 — quantize and round follow the requested rounding mode exactly."""
from __future__ import annotations

from fractions import Fraction

from common import parse_rat, rat
from oracles import MODES, round_ref
from props import _qty

ID = "C13"
LEAN_TARGETS = ["QuantityModel.Props.C13"]
RULE = ("kernel cases: (x, y, mode|default) for _floordiv_rounded, (amount, "
        "quantum, mode) for _quantize_fraction and for Decimal.quantize on "
        "the internal (value, precision) pair; generated as exact ties, tie "
        "+/- epsilon, exact multiples, random; both signs of dividend and "
        "divisor; all 8 modes explicit and as default. Quantity level: "
        "q.quantize(quantum, mode) and round(q, n) in the predefined catalogue "
        "and in random user histories (quantum given in any unit of the type, "
        "negative quanta, another type, a type without reference unit, a "
        "quantised type; the same value held as Decimal and as Fraction; ties "
        "and near-ties). A case is non-trivial "
        "if the quotient is not integral; distinct by (op, mode source, "
        "mode, sign x, sign y, tie/near/other, parity of floor, floor mod 5)")
EXHAUSTIVE = {}


def known_witness_cases():
    return []


def tolerated(case, i, impl, model):
    return False


def _classify(x, y):
    v = Fraction(x, y)
    fl = v.numerator // v.denominator
    if v.denominator == 1:
        kind = "exact"
    elif v.denominator == 2:
        kind = "tie"
    else:
        kind = "other"
    return kind, fl % 2, fl % 5, x > 0, y > 0


def gen_cases(rng, tier):
    n = 4000 if tier == "thorough" else 600
    cases = []

    def mode_pair():
        m = rng.choice(MODES)
        if rng.random() < 0.5:
            return m, rng.choice(MODES)        # explicit mode, other default
        return "-", m                           # default mode

    for _ in range(n):
        r = rng.random()
        m, d = mode_pair()
        # --- a quotient with controlled structure
        y = rng.choice([1, 2, 3, 4, 5, 7, 8, 10, 20, 25, 1000,
                        rng.randint(1, 10 ** rng.randint(1, 12))])
        q = rng.randint(-60, 60) if rng.random() < .8 else \
            rng.randint(-10 ** 15, 10 ** 15)
        shape = rng.random()
        if shape < .3 and y % 2 == 0:
            x = q * y + y // 2                   # exact tie
        elif shape < .45:
            x = q * y + (y // 2) + rng.choice([-1, 1])  # beside the tie
        elif shape < .55:
            x = q * y                            # exact
        else:
            x = q * y + rng.randint(0, y)
        if rng.random() < .3:
            y = -y
            if rng.random() < .5:
                x = -x
        if r < .4:
            ops = [["floordiv", str(x), str(y), m, d]]
            tag = "floordiv"
        elif r < .7:
            # amount / quantum == x / y
            quant = Fraction(rng.choice([1, 1, 5, 25, 3, 7]),
                             rng.choice([1, 10, 100, 3, 8, 1000]))
            if rng.random() < .25:
                quant = -quant
            a = Fraction(x, y) * quant
            ops = [["quantfrac", rat(a), rat(quant), m, d]]
            if rng.random() < .3:
                # the same pair again with no explicit mode under two other
                # configured defaults (in the same process)
                for d2 in rng.sample(MODES, 2):
                    ops.append(["quantfrac", rat(a), rat(quant), "-", d2])
            tag = "quantfrac"
        else:
            p = rng.randint(0, 6)
            quant = Fraction(rng.choice([1, 5, 25, 2, 3, 7]),
                             rng.choice([1, 10, 100, 1000, 3, 8]))
            if rng.random() < .25:
                quant = -quant
            # choose v so that (v/10^p)/quant is near x/y
            v = round(Fraction(x, y) * quant * 10 ** p)
            ops = [["decquant", str(v), str(p), rat(quant), m, d],
                   ["quantfrac", rat(Fraction(v, 10 ** p)), rat(quant), m, d]]
            tag = "decquant+quantfrac"
        cases.append({"ops": ops, "fork": False, "tags": [tag, "mode:" + (m if m != "-" else "dflt:" + d)]})
    # --- the quantity level: Quantity.quantize / round() around the kernels
    n_ctx = 12 if tier == "thorough" else 6
    ctxs = [_qty.predefined_ctx()] + [_qty.user_ctx(rng, rng.randint(8, 14)) for _ in range(n_ctx)]
    for ctx in ctxs:
        ops = []
        lin = ctx.linear_units()
        refless = [u for u in ctx.units if ctx.units[u]["scale"] is None]
        for _ in range(120 if tier == "thorough" else 60):
            m, d = mode_pair()
            u = rng.choice(lin)
            same = ctx.linear_units(ctx.units[u]["cls"])
            v = rng.choice(same)
            quant = Fraction(rng.choice([1, 1, 5, 25, 3, 7, 2]), rng.choice([1, 10, 100, 3, 8, 1000]))
            if rng.random() < .2:
                quant = -quant
            # the quantum expressed in u, and an amount near a multiple / a tie of it
            qu = quant * ctx.units[v]["scale"] / ctx.units[u]["scale"]
            k = rng.randint(-40, 40)
            shape = rng.random()
            if shape < .3:
                a = (k + Fraction(1, 2)) * qu
            elif shape < .45:
                a = (k + Fraction(1, 2)) * qu + Fraction(rng.choice([-1, 1]), 10 ** 9)
            elif shape < .55:
                a = k * qu
            elif shape < .6:
                a = Fraction(0)
            else:
                a = _qty.amount(rng)
            r = rng.random()
            if r < .62:
                atok = rat(a) if rng.random() < .5 else "F:" + rat(a)
                ops.append(["q_quantize", f"{atok}@{u}", f"{rat(quant)}@{v}", m, d])
                if rng.random() < .3:
                    # again without explicit mode under another configured default
                    ops.append(["q_quantize", f"{atok}@{u}", f"{rat(quant)}@{v}", "-",
                                rng.choice([x for x in MODES if x != d])])
                if rng.random() < .5:
                    # the same value in the other representation
                    other = "F:" + rat(a) if not atok.startswith("F:") else rat(a)
                    ops.append(["q_quantize", f"{other}@{u}", f"{rat(quant)}@{v}", m, d])
            elif r < .7:
                w = rng.choice([x for x in ctx.units if ctx.units[x]["cls"] != ctx.units[u]["cls"]] or [u])
                ops.append(["q_quantize", f"{rat(a)}@{u}", f"{rat(abs(quant))}@{w}", m, d])
            elif r < .75 and refless:
                w = rng.choice(refless)
                ops.append(["q_quantize", f"5/2@{w}", f"1@{w}", m, d])
            else:
                if ctx.quantum(u) is not None and not _is_dec(ctx.quantum(u)):
                    continue    # representation of such amounts is decimalfp's business
                n = rng.randint(-3, 6)
                x = rng.choice([a, Fraction(rng.randint(-10 ** 7, 10 ** 7), 10 ** rng.randint(0, 8)),
                                Fraction(2 * rng.randint(-50, 50) + 1, 2) / Fraction(10) ** n])
                atok = rat(x) if rng.random() < .6 else "F:" + rat(x)
                ops.append(["q_round", f"{atok}@{u}", str(n), d])
        cases.append(_qty.case_of(ctx, ops, ["quantity-level"]))
    # zero divisors / zero quanta
    for m in ("-", "ROUND_UP"):
        cases.append({"ops": [["floordiv", "3", "0", m, "ROUND_HALF_EVEN"]],
                      "fork": False, "tags": ["zero-divisor"]})
    return cases


def search_cases(rng, focus, broken):
    # exhaustive small sweep over ties and signs in every mode first
    if not getattr(search_cases, "_done", False):
        search_cases._done = True
        out = []
        for m in MODES:
            for y in (1, 2, 3, 4, 5, 10, -2, -3, -4):
                for x in range(-25, 26):
                    out.append({"ops": [["floordiv", str(x), str(y), m,
                                         "ROUND_FLOOR"],
                                        ["floordiv", str(x), str(y), "-", m]],
                                "fork": False, "tags": ["search"]})
        return out
    return gen_cases(rng, "quick")


def _expect(x, y, m, d):
    mode = d if m == "-" else m
    return round_ref(Fraction(x, y), mode)


def _is_dec(x):
    d = x.denominator
    while d % 2 == 0:
        d //= 2
    while d % 5 == 0:
        d //= 5
    return d == 1


def oracle_qty(case, impl):
    ctx = _qty.ctx_of(case)
    fails = _qty.setup_failures(case, impl)
    for o, out in list(zip(case["ops"], impl))[case["nsetup"]:]:
        what = str(o)
        if o[0] == "q_quantize":
            atok, _, u = o[1].rpartition("@")
            qtok, _, v = o[2].rpartition("@")
            m, d = o[3], o[4]
            mode = d if m == "-" else m
            cu, cv = ctx.units[u]["cls"], ctx.units[v]["cls"]
            if cu != cv or ctx.classes[cu]["ref"] is None or ctx.units[u]["scale"] is None:
                exp = "err TypeError"
            else:
                a = ctx.grid(u, _qty.tok_value(atok), d)
                q = ctx.grid(v, _qty.tok_value(qtok), d)
                qu = q * ctx.units[v]["scale"] / ctx.units[u]["scale"]
                if a == 0:
                    exp = "ok " + ctx.qty(a, u)
                elif qu == 0:
                    exp = None                      # a zero quantum: any error
                    if not out.startswith("err "):
                        fails.append({"site": "quantize:zero-quantum", "msg": f"{what} -> {out}"})
                else:
                    # the multiple of the quantum (in the receiver's unit) the mode selects;
                    # a quantised type rounds the result to its own grid (C05)
                    exp = "ok " + ctx.qty(ctx.grid(u, round_ref(a / qu, mode) * qu, d), u)
            if exp is not None and out != exp:
                fails.append({"site": "quantize:quantity", "msg": f"{what} -> {out}, expected {exp}"})
        elif o[0] == "q_round":
            atok, _, u = o[1].rpartition("@")
            n, d = int(o[2]), o[3]
            x = _qty.tok_value(atok)
            a = ctx.grid(u, x, d)
            got = _qty.parse_qty_out(out)
            if got is None or got[1] != u or got[2] != ctx.units[u]["cls"]:
                fails.append({"site": "round:unit", "msg": f"{what} -> {out}"})
                continue
            step = Fraction(10) ** (-n)
            r = got[0]
            held_dec = (not atok.startswith("F:") and _is_dec(x)) or ctx.quantum(u) is not None
            if True:
                if (r / step).denominator != 1 and ctx.quantum(u) is None:
                    fails.append({"site": "round:multiple", "msg": f"{what} -> {out}: not a multiple of 10^-{n}"})
                # (a Decimal amount is rounded with the configured default
                # mode - decimalfp's documented behaviour -, so only the half
                # modes guarantee half a unit)
                if ctx.quantum(u) is not None:
                    # rounded to n decimals, then to the unit's own grid (C05)
                    exp = "ok " + ctx.qty(ctx.grid(u, round_ref(a / step, d) * step, d), u)
                    if out != exp:
                        fails.append({"site": "round:quantised", "msg": f"{what} -> {out}, expected {exp}"})
                    continue
                if abs(r - a) >= step or (("HALF" in d or not held_dec) and abs(r - a) > step / 2):
                    fails.append({"site": "round:distance", "msg": f"{what} -> {out}: too far from the amount"})
                # ties: a Decimal amount follows the default mode, a Fraction half-even
                mode = d if held_dec else "ROUND_HALF_EVEN"
                exp = "ok " + ctx.qty(round_ref(a / step, mode) * step, u)
                if out != exp:
                    fails.append({"site": "round:tie-rule", "msg": f"{what} -> {out}, expected {exp}"})
    return fails


def oracle(case, impl):
    if "ctx" in case:
        return oracle_qty(case, impl)
    fails = []
    last = {}
    for op, out in zip(case["ops"], impl):
        kind = op[0]
        if kind == "floordiv":
            x, y, m, d = int(op[1]), int(op[2]), op[3], op[4]
            if y == 0:
                if out != "err ZeroDivisionError":
                    fails.append({"site": "floordiv:zero", "msg":
                                  f"divmod by zero gave {out}"})
                continue
            exp = "ok %d" % _expect(x, y, m, d)
            if out != exp:
                fails.append({"site": "floordiv:mode", "msg":
                              f"_floordiv_rounded({x},{y},{m},dflt={d}) = "
                              f"{out}, standard rounding gives {exp}"})
        elif kind in ("quantfrac", "decquant"):
            if kind == "quantfrac":
                a, q, m, d = parse_rat(op[1]), parse_rat(op[2]), op[3], op[4]
            else:
                a = Fraction(int(op[1]), 10 ** int(op[2]))
                q, m, d = parse_rat(op[3]), op[4], op[5]
            mode = d if m == "-" else m
            exp = "ok " + rat(round_ref(a / q, mode) * q)
            if out != exp:
                fails.append({"site": kind + ":mode", "msg":
                              f"{kind} amount={a} quantum={q} mode={m} "
                              f"dflt={d}: got {out}, expected {exp}"})
            key = (a, q, m, d)
            if key in last and last[key] != out:
                fails.append({"site": "quantize:repr-dependent", "msg":
                              f"decimal and fraction paths differ for "
                              f"{key}: {last[key]} vs {out}"})
            last[key] = out
    return fails


def nontrivial_key(case, impl):
    if "ctx" in case:
        return {(o[0], o[-2] if o[0] == "q_quantize" else "", o[-1], o[1].startswith("F:"), out[:6],
                 o[1].rpartition("@")[2])
                for o, out in list(zip(case["ops"], impl))[case["nsetup"]:]}
    op = case["ops"][0]
    if op[0] == "floordiv":
        x, y = int(op[1]), int(op[2])
        if y == 0:
            return None
        k = _classify(x, y)
        if k[0] == "exact":
            return None
        return ("floordiv", op[3] == "-", op[3] if op[3] != "-" else op[4]) + k
    if op[0] == "quantfrac":
        a, q = parse_rat(op[1]), parse_rat(op[2])
    else:
        a, q = Fraction(int(op[1]), 10 ** int(op[2])), parse_rat(op[3])
    v = a / q
    if v.denominator == 1:
        return None
    m, d = op[-2], op[-1]
    k = _classify(v.numerator, v.denominator)
    return (op[0], m == "-", m if m != "-" else d) + k[:3] + (q > 0,)
