"""C13 — quantize and round follow the requested rounding mode exactly."""
from __future__ import annotations

from fractions import Fraction

from common import parse_rat, rat
from oracles import MODES, round_ref

ID = "C13"
LEAN_TARGETS = ["QuantityModel.Props.C13"]
RULE = ("kernel cases: (x, y, mode|default) for _floordiv_rounded, (amount, "
        "quantum, mode) for _quantize_fraction and for Decimal.quantize on "
        "the internal (value, precision) pair; generated as exact ties, tie "
        "+/- epsilon, exact multiples, random; both signs of dividend and "
        "divisor; all 8 modes explicit and as default. A case is non-trivial "
        "if the quotient is not integral; distinct by (op, mode source, "
        "mode, sign x, sign y, tie/near/other, parity of floor, floor mod 5)")
EXHAUSTIVE = {}


def known_witness_cases():
    return []


def tolerated(case, i, impl, model):
    return False


def _classify(x, y):
    v = Fraction(x, y)
    fl = v.numerator // v.denominator
    if v.denominator == 1:
        kind = "exact"
    elif v.denominator == 2:
        kind = "tie"
    else:
        kind = "other"
    return kind, fl % 2, fl % 5, x > 0, y > 0


def gen_cases(rng, tier):
    n = 4000 if tier == "thorough" else 600
    cases = []

    def mode_pair():
        m = rng.choice(MODES)
        if rng.random() < 0.5:
            return m, rng.choice(MODES)        # explicit mode, other default
        return "-", m                           # default mode

    for _ in range(n):
        r = rng.random()
        m, d = mode_pair()
        # --- a quotient with controlled structure
        y = rng.choice([1, 2, 3, 4, 5, 7, 8, 10, 20, 25, 1000,
                        rng.randint(1, 10 ** rng.randint(1, 12))])
        q = rng.randint(-60, 60) if rng.random() < .8 else \
            rng.randint(-10 ** 15, 10 ** 15)
        shape = rng.random()
        if shape < .3 and y % 2 == 0:
            x = q * y + y // 2                   # exact tie
        elif shape < .45:
            x = q * y + (y // 2) + rng.choice([-1, 1])  # beside the tie
        elif shape < .55:
            x = q * y                            # exact
        else:
            x = q * y + rng.randint(0, y)
        if rng.random() < .3:
            y = -y
            if rng.random() < .5:
                x = -x
        if r < .4:
            ops = [["floordiv", str(x), str(y), m, d]]
            tag = "floordiv"
        elif r < .7:
            # amount / quantum == x / y
            quant = Fraction(rng.choice([1, 1, 5, 25, 3, 7]),
                             rng.choice([1, 10, 100, 3, 8, 1000]))
            if rng.random() < .25:
                quant = -quant
            a = Fraction(x, y) * quant
            ops = [["quantfrac", rat(a), rat(quant), m, d]]
            tag = "quantfrac"
        else:
            p = rng.randint(0, 6)
            quant = Fraction(rng.choice([1, 5, 25, 2, 3, 7]),
                             rng.choice([1, 10, 100, 1000, 3, 8]))
            if rng.random() < .25:
                quant = -quant
            # choose v so that (v/10^p)/quant is near x/y
            v = round(Fraction(x, y) * quant * 10 ** p)
            ops = [["decquant", str(v), str(p), rat(quant), m, d],
                   ["quantfrac", rat(Fraction(v, 10 ** p)), rat(quant), m, d]]
            tag = "decquant+quantfrac"
        cases.append({"ops": ops, "fork": False, "tags": [tag, "mode:" + (m if m != "-" else "dflt:" + d)]})
    # zero divisors / zero quanta
    for m in ("-", "ROUND_UP"):
        cases.append({"ops": [["floordiv", "3", "0", m, "ROUND_HALF_EVEN"]],
                      "fork": False, "tags": ["zero-divisor"]})
    return cases


def search_cases(rng, focus, broken):
    # exhaustive small sweep over ties and signs in every mode first
    if not getattr(search_cases, "_done", False):
        search_cases._done = True
        out = []
        for m in MODES:
            for y in (1, 2, 3, 4, 5, 10, -2, -3, -4):
                for x in range(-25, 26):
                    out.append({"ops": [["floordiv", str(x), str(y), m,
                                         "ROUND_FLOOR"],
                                        ["floordiv", str(x), str(y), "-", m]],
                                "fork": False, "tags": ["search"]})
        return out
    return gen_cases(rng, "quick")


def _expect(x, y, m, d):
    mode = d if m == "-" else m
    return round_ref(Fraction(x, y), mode)


def oracle(case, impl):
    fails = []
    last = {}
    for op, out in zip(case["ops"], impl):
        kind = op[0]
        if kind == "floordiv":
            x, y, m, d = int(op[1]), int(op[2]), op[3], op[4]
            if y == 0:
                if out != "err ZeroDivisionError":
                    fails.append({"site": "floordiv:zero", "msg":
                                  f"divmod by zero gave {out}"})
                continue
            exp = "ok %d" % _expect(x, y, m, d)
            if out != exp:
                fails.append({"site": "floordiv:mode", "msg":
                              f"_floordiv_rounded({x},{y},{m},dflt={d}) = "
                              f"{out}, standard rounding gives {exp}"})
        elif kind in ("quantfrac", "decquant"):
            if kind == "quantfrac":
                a, q, m, d = parse_rat(op[1]), parse_rat(op[2]), op[3], op[4]
            else:
                a = Fraction(int(op[1]), 10 ** int(op[2]))
                q, m, d = parse_rat(op[3]), op[4], op[5]
            mode = d if m == "-" else m
            exp = "ok " + rat(round_ref(a / q, mode) * q)
            if out != exp:
                fails.append({"site": kind + ":mode", "msg":
                              f"{kind} amount={a} quantum={q} mode={m} "
                              f"dflt={d}: got {out}, expected {exp}"})
            key = (a, q, m, d)
            if key in last and last[key] != out:
                fails.append({"site": "quantize:repr-dependent", "msg":
                              f"decimal and fraction paths differ for "
                              f"{key}: {last[key]} vs {out}"})
            last[key] = out
    return fails


def nontrivial_key(case, impl):
    op = case["ops"][0]
    if op[0] == "floordiv":
        x, y = int(op[1]), int(op[2])
        if y == 0:
            return None
        k = _classify(x, y)
        if k[0] == "exact":
            return None
        return ("floordiv", op[3] == "-", op[3] if op[3] != "-" else op[4]) + k
    if op[0] == "quantfrac":
        a, q = parse_rat(op[1]), parse_rat(op[2])
    else:
        a, q = Fraction(int(op[1]), 10 ** int(op[2])), parse_rat(op[3])
    v = a / q
    if v.denominator == 1:
        return None
    m, d = op[-2], op[-1]
    k = _classify(v.numerator, v.denominator)
    return (op[0], m == "-", m if m != "-" else d) + k[:3] + (q > 0,)
