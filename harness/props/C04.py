"""C04 — equality and ordering agree with exact reference values."""
from __future__ import annotations

from fractions import Fraction

from common import rat
from props import _qty

ID = "C04"
LEAN_TARGETS = ["QuantityModel.Props.C04"]
RULE = ("contexts: predefined catalogue and random user histories; pairs of "
        "quantities of one linear type over all unit combinations: random "
        "amounts, amounts EQUAL across units by construction (same reference "
        "value through different units), zero and negative equal amounts, "
        "near-ties (x vs x +/- 10^-k), Decimal vs Fraction representation; all "
        "six operators, both operand orders; units compared by scale: every alias pair (distinct units of equal scale, predefined l/dm3, J/Nm/Ws ... and generated aliases) with == and the four orderings. "
        "Non-trivial: different units; distinct by (op, unit pair, relation of "
        "reference values)")
EXHAUSTIVE = {}
MODE = "ROUND_HALF_EVEN"
OPS = ["eq", "ne", "lt", "le", "gt", "ge"]


def known_witness_cases():
    # D6: a unit with a negative factor
    setup = [["decl_class", "L", "-", "m", "0", "-"],
             ["new_unit", "L", "negm", "qty", "-1", "m", MODE]]
    ctx = _qty.Ctx(setup, {"m": dict(cls="L", scale=Fraction(1)),
                           "negm": dict(cls="L", scale=Fraction(-1))},
                   {"L": dict(dim={"L": 1}, ref="m", quantum=None)}, "user")
    return [_qty.case_of(ctx, [["q_bin", "lt", "1@negm", "2@negm", MODE],
                               ["q_bin", "gt", "1@negm", "1@m", MODE]], ["witness:D6"])]


def tolerated(case, i, impl, model):
    return False


def gen_cases(rng, tier):
    n_user = 40 if tier == "thorough" else 10
    n_pre = 8 if tier == "thorough" else 2
    per = 90 if tier == "thorough" else 60
    cases = []
    ctxs = [_qty.predefined_ctx() for _ in range(n_pre)] + \
           [_qty.user_ctx(rng, rng.randint(8, 16)) for _ in range(n_user)]
    for ctx in ctxs:
        ops = []
        lin = [u for u in ctx.linear_units() if ctx.quantum(u) is None]
        if not lin:
            continue
        for _ in range(per):
            u = rng.choice(lin)
            v = rng.choice([x for x in lin if ctx.units[x]["cls"] == ctx.units[u]["cls"]])
            su, sv = ctx.units[u]["scale"], ctx.units[v]["scale"]
            x = _qty.amount(rng)
            r = rng.random()
            if r < .3:
                y = x * su / sv                      # equal by construction
            elif r < .45:
                x = rng.choice([Fraction(0), -abs(x), Fraction(-5)])
                y = x                                 # same *amount*, zero or negative
            elif r < .7:
                y = x * su / sv + Fraction(rng.choice([-1, 1]), 10 ** rng.randint(1, 12))
            else:
                y = _qty.amount(rng)
            ops.append(["q_bin", rng.choice(OPS), f"{_qty.tok(rng, x)}@{u}", f"{_qty.tok(rng, y)}@{v}", MODE])
            if rng.random() < .1:
                ops.append(["ueq", u, v])
        # quantities produced by allocation (adjusted in place by the
        # dispersal) compare across units as their amounts say
        qunits = [u for u in ctx.linear_units() if ctx.quantum(u) is not None]
        for _ in range(8 if qunits else 0):
            u = rng.choice(qunits)
            same = [x for x in ctx.linear_units(ctx.units[u]["cls"]) if x != u]
            if not same:
                continue
            n = rng.randint(2, 7)
            x = rng.randint(1, 500) * ctx.quantum(u)
            ratios = ",".join("n:%d/1" % rng.choice([1, 1, 1, 2, 3]) for _ in range(n))
            ops.append(["q_alloc_cmp", f"{rat(x)}@{u}", ratios, rng.choice(same),
                        rng.choice(["ROUND_HALF_EVEN", "ROUND_FLOOR", "ROUND_CEILING", "ROUND_HALF_UP"])])
        # units compare by their scale: every alias pair (distinct units of
        # one scale) and a sample of other pairs, all six operators
        by_cls = {}
        for u in lin:
            by_cls.setdefault(ctx.units[u]["cls"], []).append(u)
        pairs = [(u, v) for us in by_cls.values() for u in us for v in us
                 if u != v and ctx.units[u]["scale"] == ctx.units[v]["scale"]]
        rng.shuffle(pairs)
        pairs = pairs[:16]
        for _ in range(10):
            u = rng.choice(lin)
            pairs.append((u, rng.choice(by_cls[ctx.units[u]["cls"]])))
        for u, v in pairs:
            ops.append(["ueq", u, v])
            ops.append(["ucmp", rng.choice(["lt", "le", "gt", "ge"]), u, v])
        # units of different types do not compare (== is False); units of a
        # type without reference unit have no scale to compare by
        allu = list(ctx.units)
        for _ in range(8):
            u, v = rng.choice(allu), rng.choice(allu)
            if ctx.units[u]["cls"] != ctx.units[v]["cls"] or ctx.units[u]["scale"] is None:
                ops.append(["ueq", u, v])
                ops.append(["ucmp", rng.choice(["lt", "le", "gt", "ge"]), u, v])
        # units of a QUANTISED type compare by their exact scales too (also
        # units smaller than the quantum or between two multiples of it)
        qpairs = [(u, v) for u in qunits for v in qunits
                  if u != v and ctx.units[u]["cls"] == ctx.units[v]["cls"]]
        # smallest scales first: units below the quantum are the interesting ones
        qpairs.sort(key=lambda p: (abs(ctx.units[p[0]]["scale"]) + abs(ctx.units[p[1]]["scale"]), p))
        for u, v in qpairs[:24]:
            ops.append(["ueq", u, v])
            ops.append(["ucmp", rng.choice(["lt", "le", "gt", "ge"]), u, v])
        cases.append(_qty.case_of(ctx, ops, ["compare"]))
    return cases


def search_cases(rng, focus, broken):
    return gen_cases(rng, "quick")[:3]


def _rel(op, a, b):
    return {"eq": a == b, "ne": a != b, "lt": a < b, "le": a <= b, "gt": a > b, "ge": a >= b}[op]


def oracle(case, impl):
    ctx = _qty.ctx_of(case)
    fails = _qty.setup_failures(case, impl)
    for o, out in list(zip(case["ops"], impl))[case["nsetup"]:]:
        if o[0] == "q_bin":
            a, _, u = o[2].rpartition("@")
            b, _, v = o[3].rpartition("@")
            ra = _qty.tok_value(a) * ctx.units[u]["scale"]
            rb = _qty.tok_value(b) * ctx.units[v]["scale"]
            exp = "ok " + ("true" if _rel(o[1], ra, rb) else "false")
            if out != exp:
                site = "cmp:reference-value"
                if ctx.units[u]["scale"] < 0 or ctx.units[v]["scale"] < 0:
                    site = "cmp:negative-scale"
                fails.append({"site": site, "msg": f"{o} -> {out}, reference values {ra} vs {rb}"})
        elif o[0] == "ucmp" and ctx.units[o[2]]["cls"] != ctx.units[o[3]]["cls"]:
            if out != "err IncompatibleUnitsError":
                fails.append({"site": "cmp:units-types", "msg": f"{o} -> {out}"})
        elif o[0] == "ucmp" and (ctx.units[o[2]]["scale"] is None or ctx.units[o[3]]["scale"] is None):
            if out != "err UnitConversionError":
                fails.append({"site": "cmp:units-no-scale", "msg": f"{o} -> {out}"})
        elif o[0] == "ucmp":
            su, sv = ctx.units[o[2]]["scale"], ctx.units[o[3]]["scale"]
            exp = "ok " + ("true" if _rel(o[1], su, sv) else "false")
            if out != exp:
                site = "cmp:negative-scale" if su < 0 or sv < 0 else "cmp:units-order"
                fails.append({"site": site, "msg": f"{o} -> {out}, scales {su} vs {sv}"})
        elif o[0] == "ueq" and ctx.units[o[1]]["cls"] != ctx.units[o[2]]["cls"]:
            if out != "ok false":
                fails.append({"site": "cmp:units-types", "msg": f"{o} -> {out}"})
        elif o[0] == "ueq" and ctx.units[o[1]]["scale"] is None:
            if out != ("ok true" if o[1] == o[2] else "ok false"):
                fails.append({"site": "cmp:units-no-scale", "msg": f"{o} -> {out}"})
        elif o[0] == "ueq":
            exp = "ok " + ("true" if ctx.units[o[1]]["scale"] == ctx.units[o[2]]["scale"] else "false")
            if out != exp:
                fails.append({"site": "cmp:units", "msg": f"{o} -> {out}"})
        elif o[0] == "q_alloc_cmp":
            if out != "ok true":
                fails.append({"site": "cmp:allocated-portion", "msg": f"{o} -> {out}"})
    return fails


def nontrivial_key(case, impl):
    keys = set()
    for o, out in list(zip(case["ops"], impl))[case["nsetup"]:]:
        if o[0] == "q_bin":
            u, v = o[2].rpartition("@")[2], o[3].rpartition("@")[2]
            if u != v:
                keys.add((o[1], u, v, out))
        elif o[0] in ("ueq", "ucmp") and o[-1] != o[-2]:
            keys.add(tuple(o) + (out,))
    return keys
