"""C01 — linear conversion is exact and coherent."""
from __future__ import annotations

from fractions import Fraction

from common import rat
from oracles import MODES
from props import _qty

ID = "C01"
LEAN_TARGETS = ["QuantityModel.Props.C01"]
RULE = ("contexts: the predefined catalogue and random user histories "
        "(scaled, term-defined, derived-from-base units; rational factors); "
        "per context pairs and triples of units of one linear type with "
        "random rational amounts (decimal / fraction, any sign, 40 orders of "
        "magnitude): convert, convert back, convert through an intermediate "
        "unit, equality with the original, conversion to another type. "
        "Non-trivial: conversion between two different units; distinct by "
        "(context kind, from, to, amount kind)")
EXHAUSTIVE = {"quick": True, "thorough": True}   # all ordered pairs of predefined units per type
MODE = "ROUND_HALF_EVEN"


def known_witness_cases():
    return []


def tolerated(case, i, impl, model):
    return False


def gen_cases(rng, tier):
    n_user = 60 if tier == "thorough" else 14
    n_pre = 12 if tier == "thorough" else 2
    per = 60 if tier == "thorough" else 40
    cases = []
    ctxs = [_qty.predefined_ctx() for _ in range(n_pre)] + \
           [_qty.user_ctx(rng, rng.randint(8, 18), undefined_units=.3) for _ in range(n_user)]
    for ctx in ctxs:
        ops = []
        lin = ctx.linear_units()
        for _ in range(per):
            u = rng.choice(lin)
            same = ctx.linear_units(ctx.units[u]["cls"])
            v, w = rng.choice(same), rng.choice(same)
            a = _qty.tok(rng, _qty.amount(rng))
            r = rng.random()
            if r < .55:
                ops.append(["q_conv", f"{a}@{u}", v, MODE])
            elif r < .75:
                ops.append(["q_conv3", f"{a}@{u}", v, w, MODE])
            elif r < .9:
                ops.append(["q_convback", f"{a}@{u}", v, MODE])
            else:
                other = rng.choice(list(ctx.units))
                ops.append(["q_conv", f"{a}@{u}", other, MODE])
        # units WITHOUT scale (types without reference unit, units declared
        # without definition): converting to a unit of ANOTHER type is
        # IncompatibleUnitsError all the same (to another unit of their own
        # type: UnitConversionError)
        for z in [x for x in ctx.units if ctx.units[x]["scale"] is None][:4]:
            others = [x for x in ctx.units if ctx.units[x]["cls"] != ctx.units[z]["cls"]]
            if others:
                ops.append(["q_conv", f"3/2@{z}", rng.choice(others), MODE])
                ops.append(["q_conv", f"3/2@{rng.choice(others)}", z, MODE])
            own = [x for x in ctx.units if ctx.units[x]["cls"] == ctx.units[z]["cls"] and x != z]
            if own:
                ops.append(["q_conv", f"3/2@{z}", rng.choice(own), MODE])
        # amounts with more significant digits than any default precision,
        # held as either kind of Decimal or as Fraction: no rounding anywhere
        for kind in ("P:", "", "F:", "P:"):
            u = rng.choice([x for x in lin if ctx.quantum(x) is None] or lin)
            v = rng.choice(ctx.linear_units(ctx.units[u]["cls"]))
            a = kind + _qty.rat(_qty.long_decimal(rng))
            ops.append(["q_conv", f"{a}@{u}", v, MODE])
            ops.append(["q_convback", f"{a}@{u}", v, MODE])
        # targeted: every unit defined by a term or derived from base units,
        # to and from every other unit of its type (its scale is the product
        # along the chain: reduction and normalisation of the definition)
        for i, t in enumerate(ctx.defined):
            same = [v for v in ctx.linear_units(ctx.units[t]["cls"]) if v != t]
            rng.shuffle(same)
            # ... and the defined units of one type among each other
            prev = [v for v in ctx.defined[:i] if v in same][-2:]
            for v in prev + same[:4]:
                a = _qty.tok(rng, _qty.amount(rng))
                ops.append(["q_conv", f"{a}@{t}", v, MODE])
                ops.append(["q_convback", f"{a}@{v}", t, MODE])
        cases.append(_qty.case_of(ctx, ops, ["convert"]))
    # exhaustive: every ordered pair of predefined units of every type, there
    # and back, in ONE process (so that caches and registries accumulate)
    ctx = _qty.predefined_ctx()
    ops = []
    by_cls = {}
    for sy, u in ctx.units.items():
        if u["scale"] is not None:
            by_cls.setdefault(u["cls"], []).append(sy)
    for cls, us in by_cls.items():
        for u in us:
            for v in us:
                a = rat(Fraction(rng.randint(-10 ** 6, 10 ** 6), 10 ** rng.randint(0, 4)))
                ops.append(["q_convback", f"{a}@{u}", v, MODE])
    cases.append(_qty.case_of(ctx, ops, ["all-pairs"]))
    return cases


def search_cases(rng, focus, broken):
    return gen_cases(rng, "quick")[:4]


def oracle(case, impl):
    ctx = _qty.ctx_of(case)
    fails = _qty.setup_failures(case, impl)
    for o, out in list(zip(case["ops"], impl))[case["nsetup"]:]:
        if "FLOAT" in out or "?" in out.split("@")[0]:
            fails.append({"site": "convert:inexact-type", "msg": f"{o} -> {out}"})
            continue
        a, _, u = o[1].rpartition("@")
        x = ctx.grid(u, _qty.tok_value(a), MODE)
        su, cu = ctx.units[u]["scale"], ctx.units[u]["cls"]
        if o[0] == "q_conv":
            v = o[2]
            if ctx.units[v]["cls"] != cu:
                exp = "err IncompatibleUnitsError"
            elif ctx.units[v]["scale"] is None or su is None:
                if u == v or ctx.kind != "user":
                    continue
                exp = "err UnitConversionError"      # no converter in user contexts
            else:
                exp = "ok " + ctx.qty(ctx.grid(v, x * su / ctx.units[v]["scale"], MODE), v)
            if out != exp:
                fails.append({"site": "convert:ratio", "msg": f"{o} -> {out}, expected {exp}"})
        elif o[0] == "q_conv3":
            v, w = o[2], o[3]
            sv, sw = ctx.units[v]["scale"], ctx.units[w]["scale"]
            mid = ctx.grid(v, x * su / sv, MODE)
            exp = "ok " + ctx.qty(ctx.grid(w, mid * sv / sw, MODE), w)
            direct = "ok " + ctx.qty(ctx.grid(w, x * su / sw, MODE), w)
            if out != exp:
                fails.append({"site": "convert:via", "msg": f"{o} -> {out}, expected {exp}"})
            if ctx.quantum(u) is None and exp != direct:
                fails.append({"site": "convert:oracle-bug", "msg": "via != direct"})
        elif o[0] == "q_convback":
            v = o[2]
            sv = ctx.units[v]["scale"]
            mid = ctx.grid(v, x * su / sv, MODE)
            back = ctx.grid(u, mid * sv / su, MODE)
            exp = f"ok {ctx.qty(back, u)} eq=true"
            if ctx.quantum(u) is not None:
                # with a quantum the round trip is exact only up to rounding;
                # equality of converted and original is not claimed
                exp = None
            if exp is not None and out != exp:
                fails.append({"site": "convert:round-trip", "msg": f"{o} -> {out}, expected {exp}"})
    return fails


def nontrivial_key(case, impl):
    keys = set()
    kind = case["ctx"]["kind"]
    for o in case["ops"][case["nsetup"]:]:
        a, _, u = o[1].rpartition("@")
        if u != o[2]:
            keys.add((kind if kind == "user" else "", o[0], u if kind != "user" else "", o[2] if kind != "user" else "",
                      "F" if a.startswith("F:") else "D", len(keys) if kind == "user" else 0))
    return keys
