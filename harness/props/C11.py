"""C11 — the money converter yields the right rate for every update history and date."""
from __future__ import annotations

import datetime
from fractions import Fraction

from common import parse_rat, rat
from oracles import MODES, RateRejected, ref_rate
from props import _money

ID = "C11"
LEAN_TARGETS = ["QuantityModel.Props.C11"]
RULE = ("random histories (length <= 40; thorough also all histories of "
        "length <= 3 over a small alphabet) of update calls on converters with "
        "3 base currencies and 6 term currencies: every kind of validity "
        "(None / year / month / day) in every spelling (int, 'YYYY', tuple, "
        "'YYYY-MM', date, 'YYYY-MM-DD'), repeated and overlapping keys, "
        "several unit multiples, invalid periods (month 13, 29 Feb of a "
        "non-leap year, year 0, garbage), updates of another kind, updates "
        "with an invalid rate spec (must change nothing) — interleaved with "
        "lookups for ordered currency pairs x dates at period boundaries or "
        "the configured default date, and calls of the converter. Oracle: an "
        "independent last-write-wins table + the documented rate normal form. "
        "Non-trivial: lookups that find a rate; distinct by (kind, shape "
        "direct/inverse/cross, overwritten?, default date?)")
EXHAUSTIVE = {}
BASES = ["EUR", "USD", "GBP"]
TERMS = ["USD", "JPY", "CHF", "BHD", "HKD", "EUR", "GBP"]
ALL = sorted(set(BASES + TERMS))


def known_witness_cases():
    ops = _money.setup(ALL) + [["mc_new", "w", "EUR"],
                               ["mc_update", "w", "none", "USD,dec:11/10,int:1", _money.MODE],
                               ["mc_rate", "w", "USD", "USD", "2020-1-1", _money.MODE]]
    return [{"ops": ops, "fork": True, "base": "EUR", "tags": ["witness:D8"]}]


def tolerated(case, i, impl, model):
    return False


def rand_date(rng):
    y = rng.choice([2019, 2020, 2021, 2024])
    m = rng.choice([1, 2, 2, 3, 12])
    last = 29 if (m == 2 and y % 4 == 0) else (28 if m == 2 else 31)
    d = rng.choice([1, last, rng.randint(1, last)])
    return y, m, d


def spell(rng, kind, y, m, d):
    if kind == "none":
        return "none"
    if kind == "year":
        return rng.choice([f"int:{y}", f"str:{y:04d}"])
    if kind == "month":
        return rng.choice([f"tuple:{y},{m}", f"str:{y:04d}-{m:02d}"])
    return rng.choice([f"date:{y}-{m}-{d}", f"str:{y:04d}-{m:02d}-{d:02d}"])


INVALID = ["str:2021-02-29", "tuple:2020,13", "int:0", "str:2020-3", "other", "str:20-01",
           "str:2020-00", "int:10000", "str:abcd", "str:2020-01-01-01", "tuple:2020,0"]


def gen_history(rng, length, force=None):
    base = rng.choice(BASES)
    kind = rng.choice(["none", "year", "month", "day"])
    ops = _money.setup(ALL) + [["mc_new", "c", base]]
    y0, m0, d0 = rand_date(rng)
    ops.append(["mc_today", f"{y0}-{m0}-{d0}"])
    dates = [rand_date(rng) for _ in range(3)] + [(y0, m0, d0)]
    if rng.random() < .35 or force == "badspec-opening":
        # opening: the very first update is rejected because of one of its
        # rate specs; the converter must still be unbound, so an update with
        # another kind of validity is accepted afterwards
        y, m, d = rng.choice(dates)
        other = rng.choice([k for k in ("none", "year", "month", "day") if k != kind])
        good = f"{rng.choice([t for t in TERMS if t != base])},dec:{rat(Fraction(rng.randint(1, 999), 100))},int:1"
        badspec = rng.choice([f"{rng.choice([t for t in TERMS if t != base])},int:0,int:1",
                              f"{base},dec:3/2,int:1",
                              f"{rng.choice([t for t in TERMS if t != base])},dec:3/2,frac:5/2"])
        ops.append(["mc_update", "c", spell(rng, other, y, m, d), good + ";" + badspec, rng.choice(MODES)])
        ops.append(["mc_dump", "c"])
    elif rng.random() < .5 and kind != "none":
        # opening: a cross rate (neither currency is the base) asked for, one
        # of its two base rates replaced for the SAME period, asked for again
        y, m, d = rng.choice(dates)
        x, z = rng.sample([t for t in TERMS if t != base], 2)
        ds = f"{y}-{m}-{d}"
        def rate():
            return "dec:" + rat(Fraction(rng.randint(1, 9999), rng.choice([10, 100, 1000])))
        ops.append(["mc_update", "c", spell(rng, kind, y, m, d), f"{x},{rate()},int:1;{z},{rate()},int:1", _money.MODE])
        ops.append(["mc_rate", "c", x, z, ds, _money.MODE])
        ops.append(["mc_rate", "c", z, x, ds, _money.MODE])
        ops.append(["mc_update", "c", spell(rng, kind, y, m, d), f"{rng.choice([x, z])},{rate()},int:1", _money.MODE])
        ops.append(["mc_rate", "c", x, z, ds, _money.MODE])
        ops.append(["mc_rate", "c", z, x, ds, _money.MODE])
        ops.append(["mc_call", "c", "1000", x, z, ds, _money.MODE])
    if rng.random() < .3 or force == "unknown-code":
        # an update naming a term currency by the ISO code of a currency that
        # has NOT been registered: rejected, and no currency appears
        y, m, d = rng.choice(dates)
        code = rng.choice(["NOK", "DKK", "PLN"])
        good = f"{rng.choice([t for t in TERMS if t != base])},dec:{rat(Fraction(rng.randint(1, 999), 100))},int:1"
        specs = rng.choice([f"?{code},dec:3/2,int:1", f"{good};?{code},dec:3/2,int:1"])
        ops.append(["observe"])
        ops.append(["mc_update", "c", spell(rng, kind, y, m, d), specs, rng.choice(MODES)])
        ops.append(["observe"])
        ops.append(["mc_dump", "c"])
        ops.append(["cur_reg", code])
    lookups = []
    for _ in range(length):
        r = rng.random()
        mode = rng.choice(MODES)
        if lookups and rng.random() < .25:
            # ask again what was asked before (updates may have come in between)
            ops.append(list(rng.choice(lookups)))
            continue
        if r < .45:
            # update
            k = kind if rng.random() < .85 else rng.choice(["none", "year", "month", "day"])
            y, m, d = rng.choice(dates)
            v = spell(rng, k, y, m, d) if rng.random() < .88 else rng.choice(INVALID)
            specs = []
            for _ in range(rng.randint(1, 3)):
                cur = rng.choice([t for t in TERMS if t != base] + ([base] if rng.random() < .03 else []))
                ta = _money.rand_rate_value(rng) if rng.random() < .93 else rng.choice(
                    [Fraction(0), Fraction(-1), Fraction(1, 10 ** 8)])
                um = Fraction(rng.choice([1, 1, 1, 100, 1000, 5]))
                specs.append(f"{cur},{_money.ta_token(rng, ta)},{_money.um_token(rng, um)}")
            ops.append(["mc_update", "c", v, ";".join(specs), mode])
            ops.append(["mc_dump", "c"])
        elif r < .9:
            u, t = rng.choice(ALL), rng.choice(ALL)
            dt = rng.choice(dates)
            ds = "-" if rng.random() < .2 else f"{dt[0]}-{dt[1]}-{dt[2]}"
            if rng.random() < .4:
                # prefer cross rates (neither currency is the base)
                u, t = rng.sample([c for c in ALL if c != base], 2)
            ops.append(["mc_rate", "c", u, t, ds, mode])
            lookups.append(ops[-1])
        else:
            u, t = rng.sample(ALL, 2)
            dt = rng.choice(dates)
            # (without an effective date the configured callable supplies it)
            ops.append(["mc_call", "c", rat(Fraction(rng.randint(1, 10 ** 6), 100)), u, t,
                        "-" if rng.random() < .3 else f"{dt[0]}-{dt[1]}-{dt[2]}", mode])
    # closing: with rates stored for one more period, the converter is called
    # in every direction (into the base currency, out of it, across it); the
    # amount must be multiplied by exactly the rate `get_rate` reports for that
    # direction (an inverted 6-digit rate, not a division by the stored one)
    y, m, d = rng.choice(dates)
    ds = f"{y}-{m}-{d}"
    x, z = rng.sample([t for t in TERMS if t != base], 2)
    def crate():
        return "dec:" + rat(Fraction(rng.choice([12, 86, 107, 1625, rng.randint(2, 9999)]),
                                     rng.choice([10, 100, 1000])))
    ops.append(["mc_update", "c", spell(rng, kind, y, m, d),
                f"{x},{crate()},int:1;{z},{crate()},int:{rng.choice([1, 100])}", _money.MODE])
    for u, t in ((x, base), (base, x), (x, z), (z, base)):
        ops.append(["mc_rate", "c", u, t, ds, _money.MODE])
        ops.append(["mc_call", "c", rat(Fraction(rng.randint(1, 10 ** 5), rng.choice([1, 100]))),
                    u, t, ds, _money.MODE])
    return {"ops": ops, "fork": True, "base": base, "tags": ["history:" + kind]}


def gen_cases(rng, tier, rejections=False):
    n = 120 if tier == "thorough" else 20
    force = [None, "badspec-opening", "unknown-code"] if rejections else [None]
    return [gen_history(rng, rng.randint(8, 40), force[i % len(force)]) for i in range(n)]


def search_cases(rng, focus, broken):
    return [gen_history(rng, rng.randint(5, 20)) for _ in range(5)]


# ---- independent specification ------------------------------------------

def norm_validity(v):
    """spec of the accepted spellings -> key | None(invalid)"""
    if v == "none":
        return ("none",)
    kind, _, s = v.partition(":")
    try:
        if kind == "int":
            y = int(s)
            datetime.date(y, 1, 1)
            return ("year", y)
        if kind == "tuple":
            y, m = (int(x) for x in s.split(","))
            datetime.date(y, m, 1)
            return ("month", y, m)
        if kind == "date":
            y, m, d = (int(x) for x in s.split("-"))
            return ("day", y, m, d)
        if kind == "str":
            parts = s.split("-")
            if not all(p.isdigit() for p in parts):
                return None
            if len(parts) == 1 and len(parts[0]) == 4:
                datetime.date(int(parts[0]), 1, 1)
                return ("year", int(parts[0]))
            if len(parts) == 2 and len(parts[0]) == 4 and len(parts[1]) == 2:
                datetime.date(int(parts[0]), int(parts[1]), 1)
                return ("month", int(parts[0]), int(parts[1]))
            if len(parts) == 3 and (len(parts[0]), len(parts[1]), len(parts[2])) == (4, 2, 2):
                datetime.date(int(parts[0]), int(parts[1]), int(parts[2]))
                return ("day", int(parts[0]), int(parts[1]), int(parts[2]))
    except ValueError:
        return None
    return None


def key_for(kind, y, m, d):
    return {"none": ("none",), "year": ("year", y), "month": ("month", y, m), "day": ("day", y, m, d)}[kind]


def spec_rate(uc, um, tc, ta, mode):
    if uc == tc:
        raise RateRejected("identical")
    mult, t = ref_rate(um, ta, mode)
    return (uc, mult, tc, t)


def fmt_rate(r):
    return f"{r[0]} {rat(r[1])} {r[2]} {rat(r[3])}"


def oracle(case, impl):
    fails = []
    base = case["base"]
    table, kind = {}, None
    today = (2000, 1, 1)
    prev_observe = None
    for o, out in zip(case["ops"], impl):
        if o[0] == "mc_update" and prev_observe is not None:
            # only a REJECTED update in between makes the next dump comparable
            prev_observe[1] = out.startswith("err ")
        if o[0] == "cur_reg" and prev_observe is not None:
            prev_observe = None
        if o[0] in ("load_money", "cur_reg", "mc_new"):
            if not out.startswith("ok"):
                fails.append({"site": "setup", "msg": f"{o} -> {out}"})
        elif o[0] == "observe":
            if prev_observe is not None and out != prev_observe[0] and prev_observe[1]:
                fails.append({"site": "conv:update-trace", "msg":
                              f"a rejected update changed the directories: {out[:200]}"})
            prev_observe = [out, False]
        elif o[0] == "mc_today":
            today = tuple(int(x) for x in o[1].split("-"))
        elif o[0] == "mc_update":
            key = norm_validity(o[2])
            new = {}
            ok = key is not None and (kind is None or kind == key[0])
            if ok:
                try:
                    for sp in o[3].split(";"):
                        cur, tat, umt = sp.split(",")
                        if tat in ("bad", "none") or cur.startswith("?"):
                            raise RateRejected("x")
                        new[(key, cur)] = spec_rate(base, parse_rat(umt.partition(":")[2]), cur,
                                                    _money.ta_value(tat), o[4])
                except RateRejected:
                    ok = False
            if ok:
                if out != "ok":
                    fails.append({"site": "conv:update-rejected", "msg": f"{o} -> {out}"})
                kind = key[0]
                table.update(new)
            elif not out.startswith("err "):
                fails.append({"site": "conv:update-accepted", "msg": f"{o} -> {out}"})
        elif o[0] == "mc_dump":
            want_kind = {None: "unset", "none": "none", "year": "year", "month": "month", "day": "day"}[kind]
            lines = []
            for (k, cur), r in table.items():
                v = {"none": "none", "year": f"{k[1] if len(k) > 1 else ''}",
                     "month": f"{k[1]}-{k[2]}" if len(k) > 2 else "",
                     "day": f"{k[1]}-{k[2]}-{k[3]}" if len(k) > 3 else ""}[k[0]]
                lines.append(f"{v}/{cur}={fmt_rate(r)}")
            exp = f"ok kind={want_kind} " + " ; ".join(sorted(lines))
            if out != exp:
                fails.append({"site": "conv:table", "msg": f"converter table is {out}, history gives {exp}"})
        elif o[0] in ("mc_rate", "mc_call"):
            if o[0] == "mc_rate":
                _, _, u, t, ds, mode = o
            else:
                _, _, amt, u, t, ds, mode = o
            y, m, d = today if ds == "-" else tuple(int(x) for x in ds.split("-"))

            def stored(cur):
                if kind is None:
                    return None
                return table.get((key_for(kind, y, m, d), cur))
            site = "conv:lookup"
            try:
                if u == t:
                    exp = "one"
                    site = "conv:same-currency"
                elif u == base:
                    r = stored(t)
                    exp = None if r is None else r
                elif t == base:
                    r = stored(u)
                    # stored: base -> u; wanted: u -> base = inverse of the stored rate
                    exp = None if r is None else spec_rate(r[2], Fraction(1), r[0], r[1] / r[3], mode)
                else:
                    ur, tr = stored(u), stored(t)
                    exp = None if ur is None or tr is None else \
                        spec_rate(u, Fraction(1), t, (tr[3] / tr[1]) / (ur[3] / ur[1]), mode)
            except RateRejected:
                exp = "err"
            if o[0] == "mc_rate":
                if exp == "one":
                    want = None      # the rate one; any spelling of it
                    got = _money.parse_rate_out(out)
                    if got is None or got[3] / got[1] != 1:
                        fails.append({"site": site, "msg": f"{o} -> {out}, expected the rate one"})
                    continue
                want = "err" if exp == "err" else ("ok none" if exp is None else "ok " + fmt_rate(exp))
                if (want == "err" and not out.startswith("err ")) or (want != "err" and out != want):
                    fails.append({"site": site, "msg": f"{o} -> {out}, history gives {want}"})
            else:
                if exp == "one":
                    continue
                if exp is None:
                    want = "err UnitConversionError"
                elif exp == "err":
                    want = "err"
                else:
                    frac = _money.frac_of(u)
                    from oracles import round_ref
                    a = round_ref(parse_rat(amt) / frac, mode) * frac
                    want = "ok " + rat(exp[3] / exp[1] * a)
                if (want == "err" and not out.startswith("err ")) or (want != "err" and out != want):
                    fails.append({"site": "conv:call", "msg": f"{o} -> {out}, expected {want}"})
    return fails


def nontrivial_key(case, impl):
    keys = set()
    base = case["base"]
    for o, out in zip(case["ops"], impl):
        if o[0] == "mc_rate" and out.startswith("ok ") and out != "ok none":
            shape = "direct" if o[2] == base else ("inverse" if o[3] == base else "cross")
            keys.add((case["tags"][0], shape, o[4] == "-", o[2], o[3]))
    return keys
