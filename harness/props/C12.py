"""C12 — converter registration is last-in-first-out and restores prior behaviour."""
from __future__ import annotations

from fractions import Fraction

from common import parse_rat, rat
from oracles import MODES, RateRejected, ref_rate, round_ref
from props import _money, C14

ID = "C12"
LEAN_TARGETS = ["QuantityModel.Props.C12"]
RULE = ("money: random sequences (length <= 30; thorough: also ALL sequences "
        "of length <= 4 over the alphabet below) over {register c, unregister "
        "c, enter c, leave c normally, leave c by exception, show the stack, "
        "convert / add / compare money of two currencies} for 4 converters "
        "with different rate tables (some lacking a pair), incl. the same "
        "converter entered twice with another in between; under random default "
        "rounding modes. Oracle: an independent stack + the top converter's "
        "rate. Generic types: register twice, removal, most-recent-first "
        "lookup with fall-through (reuses the C14 table cases). Non-trivial: "
        "sequences reaching depth >= 2 or a rejected removal; distinct by "
        "the sequence of stack operations")
EXHAUSTIVE = {"thorough": True}
CODES = ["EUR", "USD", "JPY", "GBP"]
CONVS = {   # name -> (base, {term: rate})
    "A": ("EUR", {"USD": Fraction(11, 10), "JPY": Fraction(130), "GBP": Fraction(85, 100)}),
    "B": ("EUR", {"USD": Fraction(12, 10), "JPY": Fraction(140)}),
    "C": ("USD", {"EUR": Fraction(9, 10), "JPY": Fraction(118), "GBP": Fraction(3, 4)}),
    "D": ("GBP", {"EUR": Fraction(7, 6)}),
}
STACK_OPS = ["reg", "unreg", "enter", "exit", "exit_exc"]


def known_witness_cases():
    return []


def tolerated(case, i, impl, model):
    return False


def setup_ops():
    ops = _money.setup(CODES)
    for name, (base, rates) in CONVS.items():
        ops.append(["mc_new", name, base])
        specs = ";".join(f"{t},{'dec' if (r * 10 ** 6).denominator == 1 else 'frac'}:{rat(r)},int:1"
                         for t, r in rates.items())
        ops.append(["mc_update", name, "none", specs, _money.MODE])
    return ops


def rand_use(rng):
    u, t = rng.sample(CODES, 2)
    a = rat(Fraction(rng.randint(1, 10 ** 6), 100))
    b = rat(Fraction(rng.randint(1, 10 ** 6), 100))
    if rng.random() < .15:
        a = "0"          # the most recent converter answers 0: still an answer
    if rng.random() < .1:
        b = "0"
    mode = rng.choice(MODES)
    k = rng.random()
    if k < .4:
        return ["q_conv", f"{a}@{u}", t, mode]
    if k < .8:
        return ["q_bin", rng.choice(["add", "sub"]), f"{a}@{u}", f"{b}@{t}", mode]
    return ["q_bin", rng.choice(["lt", "eq", "ge"]), f"{a}@{u}", f"{b}@{t}", mode]


def gen_cases(rng, tier):
    n = 150 if tier == "thorough" else 25
    cases = []
    for _ in range(n):
        ops = setup_ops()
        for _ in range(rng.randint(5, 30)):
            r = rng.random()
            if r < .5:
                ops.append(["mc_stack", rng.choice(STACK_OPS), rng.choice(list(CONVS))])
                if rng.random() < .5:
                    ops.append(["mc_stack_show"])
            else:
                ops.append(rand_use(rng))
        ops.append(["mc_stack_show"])
        cases.append({"ops": ops, "fork": True, "tags": ["money-stack"]})
    # the scripted tricky one: same converter twice with another in between
    ops = setup_ops() + [["mc_stack", "enter", "A"], ["mc_stack", "enter", "B"], ["mc_stack", "enter", "A"],
                         ["mc_stack_show"], ["mc_stack", "exit", "A"], ["mc_stack_show"],
                         ["q_conv", "100@EUR", "USD", _money.MODE], ["mc_stack", "unreg", "A"],
                         ["mc_stack", "exit_exc", "B"], ["mc_stack_show"], ["mc_stack", "exit", "A"],
                         ["mc_stack_show"], ["q_conv", "100@EUR", "USD", _money.MODE]]
    cases.append({"ops": ops, "fork": True, "tags": ["money-stack", "scripted"]})
    if tier == "thorough":
        alphabet = [["mc_stack", o, c] for o in ("enter", "exit", "unreg") for c in ("A", "B")] + \
                   [["q_conv", "100@EUR", "USD", _money.MODE]]
        import itertools
        for L in range(1, 5):
            for seq in itertools.product(alphabet, repeat=L):
                cases.append({"ops": setup_ops() + [list(x) for x in seq] + [["mc_stack_show"]],
                              "fork": True, "tags": ["money-stack", "exhaustive"]})
    # generic converters: the C14 user-table cases + a double registration
    for c in C14.gen_cases(rng, "quick")[1:4]:
        reg = [o for o in c["ops"] if o[0] == "conv_table"]
        idx = c["ops"].index(reg[0])
        c["ops"].insert(idx + 1, list(reg[0]))       # same rows again: lookups unchanged
        c["tags"] = ["generic"]
        c["generic"] = True
        cases.append(c)
    # generic converters as OBJECTS that are registered, registered again and
    # removed (plain instances and bound methods - the latter are equal but not
    # identical from one access to the next)
    for gi in range(12 if tier == "thorough" else 4):
        cases.append(gen_generic_seq(rng, gi))
    return cases


def gen_generic_seq(rng, gi):
    cls = f"G{gi}"
    units = [f"g{gi}u{i}" for i in range(4)]
    ops = [["decl_class", cls, "-", "-", "0", "-"]] + [["new_unit", cls, u, "none"] for u in units]
    # two more units that HAVE a definition (1/1000 of the first two): in a type
    # without reference unit their factors mean nothing to each other - only
    # the registered converters decide
    for i in (0, 1):
        ops.append(["new_unit", cls, f"g{gi}m{i}", "qty", "1/1000", units[i], _money.MODE])
    units = units + [f"g{gi}m0", f"g{gi}m1"]
    tables = {}
    for name in ("P", "Q", "R"):
        # (P and Q both cover the first pair, with different lines: which of
        # them answers depends on the order of registration alone)
        rows = [] if name == "R" else \
            [(units[0], units[1], Fraction(2) if name == "P" else Fraction(10), Fraction(0 if name == "P" else 7))]
        for _ in range(rng.randint(1, 3)):
            u, v = rng.sample(units, 2)
            rows.append((u, v, rng.choice([Fraction(2), Fraction(1, 3), Fraction(-5, 2), Fraction(10)]),
                         rng.choice([Fraction(0), Fraction(7), Fraction(-1, 4)])))
        tables[name] = rows
        ops.append(["conv_obj", name, cls, C14.fmt_rows(rows)])
    nsetup = len(ops)
    for _ in range(rng.randint(8, 25)):
        r = rng.random()
        if r < .3:
            ops.append(["conv_reg", cls, rng.choice("PQR")])
        elif r < .45:
            ops.append(["conv_unreg", cls, rng.choice("PQR")])
        elif r < .6:
            ops.append(["conv_list", cls])
        else:
            u, v = rng.sample(units, 2)
            if rng.random() < .3:
                u, v = rng.sample(units[-2:], 2)
            a = rat(Fraction(rng.randint(-50, 50), rng.choice([1, 2, 3])))
            ops.append(["q_conv", f"{a}@{u}", v, _money.MODE])
            if rng.random() < .3:
                # a converter object called directly, registered or not: its own
                # table only (same unit: the amount; no row: None)
                ops.append(["conv_call", rng.choice("PQR"), f"{a}@{u}", rng.choice([v, u]), _money.MODE])
    # scripted ending: everything removed, then P, Q, and P AGAIN (no effect:
    # Q stays the most recent one), the shared pair converted after each step
    for n_ in "PQR":
        ops.append(["conv_unreg", cls, n_])
    for n_ in ("P", "Q", "P"):
        ops.append(["conv_reg", cls, n_])
        ops.append(["conv_list", cls])
        ops.append(["q_conv", f"3@{units[0]}", units[1], _money.MODE])
        ops.append(["q_conv", f"3@{units[1]}", units[0], _money.MODE])
    ops.append(["conv_unreg", cls, "Q"])
    ops.append(["q_conv", f"3@{units[0]}", units[1], _money.MODE])
    ops.append(["conv_list", cls])
    return {"ops": ops, "fork": True, "nsetup": nsetup, "generic_seq": True, "cls": cls,
            "tables": {n: [[f, t, rat(k), rat(o)] for f, t, k, o in rows] for n, rows in tables.items()},
            "tags": ["generic-objects"]}


def oracle_generic_seq(case, impl):
    from common import parse_rat
    fails = []
    tables = {n: {(f, t): (parse_rat(k), parse_rat(o)) for f, t, k, o in rows}
              for n, rows in case["tables"].items()}
    reg = []
    for i, (o, out) in enumerate(zip(case["ops"], impl)):
        if i < case["nsetup"]:
            if not out.startswith("ok"):
                fails.append({"site": "setup", "msg": f"{o} -> {out}"})
            continue
        if o[0] == "conv_reg":
            if o[2] not in reg:
                reg.append(o[2])
            exp = "ok"
        elif o[0] == "conv_unreg":
            if o[2] in reg:
                reg.remove(o[2]); exp = "ok"
            else:
                exp = "err ValueError"
        elif o[0] == "conv_list":
            exp = "ok " + ",".join(reversed(reg))
        elif o[0] == "conv_call":
            a, _, u = o[2].rpartition("@")
            a, v, t = parse_rat(a), o[3], tables[o[1]]
            if u == v:
                exp = "ok " + rat(a)
            elif (u, v) in t:
                exp = "ok " + rat(t[(u, v)][0] * a + t[(u, v)][1])
            elif (v, u) in t:
                exp = "ok " + rat((a - t[(v, u)][1]) / t[(v, u)][0])
            else:
                exp = "ok none"
        else:
            a, _, u = o[1].rpartition("@")
            a, v = parse_rat(a), o[2]
            res = None
            for n in reversed(reg):
                t = tables[n]
                if (u, v) in t:
                    k, off = t[(u, v)]
                    res = k * a + off
                elif (v, u) in t:
                    k, off = t[(v, u)]
                    res = (a - off) / k
                if res is not None:
                    break
            exp = "err UnitConversionError" if res is None else f"ok qty {rat(res)}@{v}:{case['cls']}"
        if out != exp:
            fails.append({"site": "generic:" + o[0], "msg": f"{o} -> {out}, expected {exp} (registered: {reg})"})
    return fails


def search_cases(rng, focus, broken):
    return gen_cases(rng, "quick")[:6]


def conv_rate(name, u, t, mode):
    """rate u -> t from converter `name` (independent spec)"""
    base, rates = CONVS[name]

    def stored(cur):
        if cur not in rates:
            return None
        return ref_rate(Fraction(1), rates[cur], _money.MODE)     # stored at setup with the default mode
    if u == base:
        r = stored(t)
        return None if r is None else r[1] / r[0]
    if t == base:
        r = stored(u)
        if r is None:
            return None
        m, ta = ref_rate(Fraction(1), r[0] / r[1], mode)
        return ta / m
    ur, tr = stored(u), stored(t)
    if ur is None or tr is None:
        return None
    m, ta = ref_rate(Fraction(1), (tr[1] / tr[0]) / (ur[1] / ur[0]), mode)
    return ta / m


def grid(cur, x, mode):
    f = _money.frac_of(cur)
    return round_ref(x / f, mode) * f


def oracle(case, impl):
    if case.get("generic_seq"):
        return oracle_generic_seq(case, impl)
    if case.get("generic"):
        return C14.oracle(case, impl)
    fails = []
    stack = []
    for o, out in zip(case["ops"], impl):
        if o[0] in ("load_money", "cur_reg", "mc_new", "mc_update"):
            if not out.startswith("ok"):
                fails.append({"site": "setup", "msg": f"{o} -> {out}"})
        elif o[0] == "mc_stack":
            op, c = o[1], o[2]
            if op in ("reg", "enter"):
                stack.append(c)
                exp = "ok"
            else:
                if not stack:
                    exp = "err IndexError"
                elif stack[-1] == c:
                    stack.pop()
                    exp = "ok"
                else:
                    exp = "err ValueError"
            if out != exp:
                fails.append({"site": "stack:op", "msg": f"{o} -> {out}, expected {exp} (stack {stack})"})
        elif o[0] == "mc_stack_show":
            exp = "ok " + ",".join(stack)
            if out != exp:
                fails.append({"site": "stack:content", "msg": f"stack is {out}, expected {exp}"})
        elif o[0] in ("q_conv", "q_bin"):
            mode = o[-1]
            if o[0] == "q_conv":
                a, _, u = o[1].rpartition("@")
                t = o[2]
                x = grid(u, parse_rat(a), mode)
                r = conv_rate(stack[-1], u, t, mode) if stack else None
                exp = "err UnitConversionError" if r is None else f"ok qty {rat(grid(t, r * x, mode))}@{t}:Money"
            else:
                a, _, u = o[2].rpartition("@")
                b, _, v = o[3].rpartition("@")
                x, y = grid(u, parse_rat(a), mode), grid(v, parse_rat(b), mode)
                r = conv_rate(stack[-1], v, u, mode) if stack else None     # other -> self's currency
                op = o[1]
                if r is None:
                    # no converter: == is False; an active converter that lacks
                    # the rate raises (it never answers None)
                    exp = "ok false" if (op == "eq" and not stack) else "err UnitConversionError"
                elif op in ("add", "sub"):
                    e = x + r * y if op == "add" else x - r * y
                    exp = f"ok qty {rat(grid(u, e, mode))}@{u}:Money"          # rounded ONCE
                else:
                    res = {"lt": x < r * y, "eq": x == r * y, "ge": x >= r * y}[op]
                    exp = "ok " + ("true" if res else "false")
            if out != exp:
                fails.append({"site": "stack:conversion", "msg":
                              f"{o} -> {out}, expected {exp} (stack {stack})"})
    return fails


def nontrivial_key(case, impl):
    if case.get("generic_seq"):
        return tuple((o[0], o[2]) for o in case["ops"] if o[0] in ("conv_reg", "conv_unreg"))
    seq = tuple((o[1], o[2]) for o in case["ops"] if o[0] == "mc_stack")
    depth, mx, rejected = 0, 0, False
    for o, out in zip(case["ops"], impl):
        if o[0] == "mc_stack":
            if out == "ok":
                depth += 1 if o[1] in ("reg", "enter") else -1
            else:
                rejected = True
            mx = max(mx, depth)
    if mx >= 2 or rejected:
        return seq
    return None
