"""C17 — results do not depend on evaluation history."""
from __future__ import annotations

from fractions import Fraction

from common import rat
from histgen import HistGen
from props import _qty, C02

ID = "C17"
LEAN_TARGETS = ["QuantityModel.Props.C17"]
RULE = ("for a random set of valid declarations two dependency-respecting "
        "orders (the generated one and a random topological shuffle) are run "
        "in two fresh (forked) processes, each interleaved with its own "
        "schedule of unit / quantity products, quotients and powers: "
        "operations attempted BEFORE their result type exists (must raise "
        "UndefinedResultError then and succeed after the declaration), "
        "immediately repeated operations (must give the identical answer), "
        "and a common final block evaluated in both processes; every result "
        "is checked by value against the history-independent expectation "
        "(reference value, type), which implies pairwise equality between the "
        "processes. Non-trivial: operations evaluated both before and after a "
        "relevant declaration or repeated; distinct by (op, units, phase)")
EXHAUSTIVE = {}
MODE = "ROUND_HALF_EVEN"


def known_witness_cases():
    return []


def tolerated(case, i, impl, model):
    return False


def _deps(op):
    """symbols / class names an op refers to, and what it creates"""
    if op[0] == "decl_class":
        need = {("c", x.split("^")[0][2:]) for x in op[2].split(";") if x.startswith("c:")}
        if op[4].startswith("sub:"):
            need.add(("c", op[4].split(":")[1]))       # the parent class of a subclass
        return need, ("c", op[1])
    if op[0] == "new_unit":
        need = {("c", op[1])}
        if op[3] == "qty":
            need.add(("u", op[5]))
        elif op[3] == "term":
            need |= {("u", x.rpartition("^")[0][2:]) for x in op[4].split(";") if x.startswith("u:")}
        return need, ("u", op[2])
    if op[0] == "derive_unit":
        return {("c", op[1])} | {("u", x) for x in op[2].split(",")}, None
    return set(), None


def topo_shuffle(rng, steps, world):
    """random order respecting dependencies (a class also provides its
    reference unit)"""
    provided_by = {}
    for i, st in enumerate(steps):
        _, made = _deps(st["op"])
        if made:
            provided_by[made] = i
        if st.get("new_sym"):
            provided_by[("u", st["new_sym"])] = i
    remaining = list(range(len(steps)))
    done, order = set(), []
    while remaining:
        ready = [i for i in remaining
                 if all(provided_by.get(d, -1) in done or provided_by.get(d, -1) == -1
                        for d in _deps(steps[i]["op"])[0])]
        i = rng.choice(ready)
        remaining.remove(i)
        done.add(i)
        order.append(steps[i])
    return order


def build(rng, steps, ctx, final_ops, declared_dims_at):
    """interleave declarations with operations; returns ops + per-op context
    snapshot index"""
    ops, meta = [], []
    known_units = []
    sched = []
    # targeted: for every derived class D declared at step k, an operation
    # whose dimension is D's, scheduled BEFORE step k (as soon as its operand
    # classes exist) -- it must raise then and succeed afterwards
    pos_cls = {st["new_cls"]: i for i, st in enumerate(steps) if st.get("new_cls")}
    targeted = {}
    for dname, k in pos_cls.items():
        d = ctx.classes[dname]["dim"]
        earlier = [c for c, i in pos_cls.items() if i < k and ctx.classes[c]["ref"] is not None]
        cands = []
        for x in earlier:
            for y in earlier:
                if _qty.dim_add(ctx.classes[x]["dim"], ctx.classes[y]["dim"]) == d:
                    cands.append(("mul", x, y))
                if _qty.dim_add(ctx.classes[x]["dim"], ctx.classes[y]["dim"], -1) == d:
                    cands.append(("div", x, y))
        # ... or a pure power of one earlier type (X ** 3, X ** -2), whether or
        # not the intermediate powers (X ** 2) are declared types
        pows = []
        for x in earlier:
            dx = ctx.classes[x]["dim"]
            for e in (-3, -2, 2, 3):
                if {k_: e * v_ for k_, v_ in dx.items()} == d:
                    pows.append(("pow", x, e))
        if pows and (not cands or rng.random() < .7):
            opn, x, e = rng.choice(pows)
            targeted.setdefault(pos_cls[x], []).append((opn, x, e))
        elif cands:
            opn, x, y = rng.choice(cands)
            at = max(pos_cls[x], pos_cls[y])
            targeted.setdefault(at, []).append((opn, x, y))
    for k, st in enumerate(steps):
        ops.append(st["op"]); meta.append(("decl", k))
        if st.get("new_sym"):
            known_units.append(st["new_sym"])
        lin = [u for u in known_units if ctx.units[u]["scale"] is not None]
        for opn, x, y in targeted.get(k, []):
            if opn == "pow":
                ux = rng.choice([u for u in lin if ctx.units[u]["cls"] == x])
                o = ["upow", ux, str(y), MODE]
                ops.append(o); meta.append(("early", k))
                sched.append(o)
                continue
            ux = rng.choice([u for u in lin if ctx.units[u]["cls"] == x])
            uy = rng.choice([u for u in lin if ctx.units[u]["cls"] == y])
            if rng.random() < .5:
                o = ["uop", opn, ux, uy]
            else:
                o = ["q_bin", opn, f"{_qty.tok(rng, _qty.amount(rng))}@{ux}",
                     f"{_qty.tok(rng, Fraction(rng.randint(1, 99), rng.choice([1, 4, 7])))}@{uy}", MODE]
            ops.append(o); meta.append(("early", k))
            sched.append(o)
        for _ in range(rng.choice([0, 1, 2, 3])):
            if len(lin) < 1:
                break
            u, v = rng.choice(lin), rng.choice(lin)
            kind = rng.random()
            if kind < .5:
                o = ["uop", rng.choice(["mul", "div"]), u, v]
            elif kind < .85:
                a, b = _qty.tok(rng, _qty.amount(rng)), _qty.tok(rng, _qty.amount(rng))
                o = ["q_bin", rng.choice(["mul", "div"]), f"{a}@{u}", f"{b}@{v}", MODE]
            else:
                o = ["upow", u, str(rng.choice([-2, -1, 2, 3])), MODE]
            ops.append(o); meta.append(("op", k))
            sched.append(o)
            if rng.random() < .4:
                ops.append(list(o)); meta.append(("repeat", k))
    # everything attempted earlier is evaluated again at the end, then the
    # common final block
    for o in sched:
        ops.append(list(o)); meta.append(("again", len(steps) - 1))
    for o in final_ops:
        ops.append(list(o)); meta.append(("final", len(steps) - 1))
    return ops, meta


_N = [0]


def gen_cases(rng, tier):
    n = 60 if tier == "thorough" else 16
    cases = []
    for _ in range(n):
        g = HistGen(rng, with_invalid=False, simple_derived=0.8)
        steps = [st for st in g.history(rng.randint(10, 20)) if st["expect"] == "ok"]
        # every second history: a cube (or a negative square) of a base type
        # whose square need not be a declared type
        _N[0] += 1
        if _N[0] % 2 == 0:
            st = g.power_class(3 if _N[0] % 4 == 0 else -2)
            if st is not None:
                steps.append(st)
        w = g.w
        units = {s: dict(cls=u["cls"], scale=u["scale"]) for s, u in w.units.items()}
        classes = {c: dict(dim=v["dim"], ref=v["ref"], quantum=v["quantum"]) for c, v in w.classes.items()}
        full = _qty.Ctx([], units, classes, "user")
        lin = [u for u in units if units[u]["scale"] is not None]
        final_ops = []
        for _ in range(25):
            u, v = rng.choice(lin), rng.choice(lin)
            final_ops.append(["uop", rng.choice(["mul", "div"]), u, v])
            a, b = _qty.tok(rng, _qty.amount(rng)), _qty.tok(rng, _qty.amount(rng))
            final_ops.append(["q_bin", rng.choice(["mul", "div"]), f"{a}@{u}", f"{b}@{v}", MODE])
        for label, order in (("A", steps), ("B", topo_shuffle(rng, steps, w))):
            ops, meta = build(rng, order, full, final_ops, None)
            # which classes exist after the k-th declaration
            cls_after, seen = [], []
            for st in order:
                if st.get("new_cls"):
                    seen.append(st["new_cls"])
                cls_after.append(list(seen))
            cases.append({"ops": ops, "fork": True, "meta": meta, "ctx": full.dump(),
                          "cls_after": cls_after, "nsetup": 0,
                          "tags": ["order:" + label]})
    for _ in range(12 if tier == "thorough" else 6):
        cases.append(gen_price_case(rng))
    for k in range(4 if tier == "thorough" else 2):
        cases.append(gen_price_order_case(rng, scaled_first=(k % 2 == 0)))
    return cases


def gen_price_case(rng):
    """a money-per-X type (no reference unit: its units are not scaled against
    each other) with units for several currencies over the SAME quantity
    unit; the same product / quotient evaluated for one currency after the
    other, in both operand orders, repeated"""
    from props import C10, _money
    import siref
    scale = {sy: k for _, sy, k in siref.table()}
    codes = rng.sample(C10.CODES, 3)
    ops = [["load_predefined"]] + _money.setup(C10.CODES)
    cls, xunits = rng.choice(sorted(C10.PER.items()))
    pname = "PricePer" + cls
    ops.append(["decl_class", pname, f"c:Money^1;c:{cls}^-1", "-", "0", "-"])
    xu = rng.choice(xunits)
    nsetup = len(ops)
    expect = []
    # attempted BEFORE the price units exist (the type does, but it has no
    # reference unit: only a declared unit defines the result) ...
    early = []
    for cur in codes[:2]:
        o = ["q_bin", "div", f"12@{cur}", f"3@{xu}", MODE]
        ops.append(o); expect.append("err UndefinedResultError"); early.append((o, cur))
    for cur in codes:
        ops.append(["derive_unit", pname, f"{cur},{xu}", "-"])
        expect.append(f"ok {cur}/{xu}")
    # ... and again once they are declared
    for o, cur in early:
        ops.append(list(o)); expect.append(f"ok qty 4/1@{cur}/{xu}:{pname}")
    order = [rng.choice(codes) for _ in range(8)] + codes
    for cur in order:
        a = Fraction(rng.randint(1, 9999), rng.choice([1, 4, 100]))
        xv = rng.choice(xunits)
        b = Fraction(rng.randint(1, 999), rng.choice([1, 2, 10]))
        frac = _money.frac_of(cur)
        from oracles import round_ref
        want = round_ref(a * b * scale[xv] / scale[xu] / frac, MODE) * frac
        exp = f"ok qty {rat(want)}@{cur}:Money"
        o = ["q_bin", "mul", f"{rat(a)}@{cur}/{xu}", f"{rat(b)}@{xv}", MODE]
        if rng.random() < .4:
            o = ["q_bin", "mul", o[3], o[2], MODE]
        ops.append(o); expect.append(exp)
        if rng.random() < .5:
            # money / quantity -> the price unit of that currency
            m = round_ref(a / frac, MODE) * frac
            o = ["q_bin", "div", f"{rat(m)}@{cur}", f"{rat(b)}@{xu}", MODE]
            ops.append(o); expect.append(f"ok qty {rat(m / b)}@{cur}/{xu}:{pname}")
    return {"ops": ops, "fork": True, "nsetup": nsetup, "expect": expect, "tags": ["prices"]}


def gen_price_order_case(rng, scaled_first):
    """a money-per-mass type (no reference unit) with the units of ONE currency
    over g, kg and t declared with the scaled ones first or last: money /
    mass lands in the unit of the divisor's own mass unit either way"""
    from props import C10, _money
    cur = rng.choice(C10.CODES)
    ops = [["load_predefined"]] + _money.setup(C10.CODES)
    ops.append(["decl_class", "PricePerMass", "c:Money^1;c:Mass^-1", "-", "0", "-"])
    nsetup = len(ops)
    expect = []
    order = ["g", "t", "kg"] if scaled_first else ["kg", "g", "t"]
    for xu in order:
        ops.append(["derive_unit", "PricePerMass", f"{cur},{xu}", "-"]); expect.append(f"ok {cur}/{xu}")
    frac = _money.frac_of(cur)
    from oracles import round_ref
    for _ in range(12):
        xu = rng.choice(order)
        m = round_ref(Fraction(rng.randint(1, 99999), 100) / frac, MODE) * frac
        b = Fraction(rng.randint(1, 99), rng.choice([1, 2, 4]))
        o = ["q_bin", "div", f"{rat(m)}@{cur}", f"{rat(b)}@{xu}", MODE]
        ops.append(o); expect.append(f"ok qty {rat(m / b)}@{cur}/{xu}:PricePerMass")
        ops.append(["uop", "div", cur, xu]); expect.append(f"ok pair 1/1 {cur}/{xu}")
    return {"ops": ops, "fork": True, "nsetup": nsetup, "expect": expect,
            "tags": ["prices", "order:" + ("scaled-first" if scaled_first else "scaled-last")]}


def search_cases(rng, focus, broken):
    return gen_cases(rng, "quick")[:4]


def oracle(case, impl):
    if "expect" in case:
        fails = []
        for o, out in zip(case["ops"][:case["nsetup"]], impl):
            if not out.startswith("ok"):
                fails.append({"site": "setup", "msg": f"{o} -> {out}"})
        for o, out, exp in zip(case["ops"][case["nsetup"]:], impl[case["nsetup"]:], case["expect"]):
            if out != exp:
                fails.append({"site": "hist:price-units", "msg": f"{o} -> {out}, expected {exp}"})
        return fails
    full = _qty.Ctx.load(case["ctx"], [])
    fails = []
    last = {}
    for o, m, out in zip(case["ops"], case["meta"], impl):
        kind, k = m
        if kind == "decl":
            if not out.startswith("ok"):
                fails.append({"site": "setup", "msg": f"{o} -> {out}"})
            continue
        # the context as of now: only the classes declared so far exist
        present = set(case["cls_after"][k])
        ctx = _qty.Ctx([], full.units, {c: v for c, v in full.classes.items() if c in present}, "user")
        sub = {"ops": [o], "nsetup": 0, "ctx": ctx.dump()}
        for f in C02.oracle(sub, [out]):
            f["site"] = "hist:" + kind + ":" + f["site"]
            fails.append(f)
        key = tuple(o)
        if kind == "repeat" and last.get(key) != out:
            fails.append({"site": "hist:repeat-differs", "msg": f"{o}: {last.get(key)} then {out}"})
        last[key] = out
    return fails


def nontrivial_key(case, impl):
    keys = set()
    if "expect" in case:
        return {("price", o[1], o[2].rpartition("@")[2], o[3].rpartition("@")[2])
                for o in case["ops"][case["nsetup"]:]}
    for o, m in zip(case["ops"], case["meta"]):
        if m[0] in ("repeat", "again"):
            keys.add((m[0],) + tuple(x.rpartition("@")[2] if "@" in x else x for x in o[:4]))
    return keys
