"""Shared by C15 / C16 / C01: declaration histories, their protocol lines and
the directory oracle."""
from __future__ import annotations

from fractions import Fraction

from common import parse_rat, rat
from histgen import HistGen, MODE


def parse_observe(line):
    """'ok sym=Cls:equiv ... | Cls[u,..]ref=r q=..' -> (units, classes)"""
    assert line.startswith("ok "), line
    left, _, right = line[3:].partition(" | ")
    units = {}
    for tok in left.split(" "):
        if not tok:
            continue
        sym, _, rest = tok.rpartition("=")
        cls, _, eq = rest.partition(":")
        units[sym] = (cls, None if eq == "none" else parse_rat(eq))
    classes = {}
    order = []
    for tok in right.split(" "):
        if not tok or "[" not in tok:
            continue
        name, _, rest = tok.partition("[")
        us, _, rest = rest.partition("]ref=")
        classes[name] = dict(units=[u for u in us.split(",") if u], ref=rest)
        order.append(name)
    # quantum tokens ("q=..") follow each class token
    toks = right.split(" ")
    for i, tok in enumerate(toks):
        if tok.startswith("q=") and i > 0:
            name = toks[i - 1].partition("[")[0]
            if name in classes:
                classes[name]["quantum"] = tok[2:]
    return units, classes, order


def gen_history_case(rng, length, with_invalid=True, queries=True, refless_script=False,
                     undefined_units=0.0, undefined_multiples=False):
    g = HistGen(rng, with_invalid=with_invalid, refless_derived=.3, split_items=.4,
                undefined_units=undefined_units, undefined_multiples=undefined_multiples)
    steps = g.history(length, refless_script=refless_script)
    ops, meta = [["observe"]], [dict(kind="observe0")]
    for st in steps:
        ops.append(st["op"])
        meta.append(dict(kind=st["kind"], expect=st["expect"], new_sym=st.get("new_sym"),
                         new_cls=st.get("new_cls")))
        ops.append(["observe"])
        meta.append(dict(kind="observe"))
    w = g.w
    if queries:
        for sym, u in w.units.items():
            ops.append(["unit_info", sym]); meta.append(dict(kind="unit_info", sym=sym))
            ops.append(["q_mk", "-", "3/2", sym, MODE]); meta.append(dict(kind="q_mk", sym=sym))
            if u["scale"] is None or w.classes[u["cls"]]["quantum"] is None:
                # ... and from an amount-and-symbol string
                ops.append(["q_parse", "-", f"3/2 {sym}", "-", MODE]); meta.append(dict(kind="q_mk", sym=sym))
            ref = w.classes[u["cls"]]["ref"]
            if ref is not None and u["scale"] is not None and w.classes[u["cls"]]["quantum"] is None:
                ops.append(["q_conv", "1@" + sym, ref, MODE])
                meta.append(dict(kind="q_conv_ref", sym=sym))
        # a unit declared WITHOUT definition in a type that has a reference
        # unit has no scale: it converts to nothing (UnitConversionError, not
        # an AssertionError) and equals itself only
        for sym, u in w.units.items():
            ref = w.classes[u["cls"]]["ref"]
            if u.get("undefined") and ref is not None:
                for a, b in ((sym, ref), (ref, sym)):
                    ops.append(["q_conv", "1@" + a, b, MODE])
                    meta.append(dict(kind="q_conv_undef", sym=a, to=b))
                    ops.append(["ueq", a, b]); meta.append(dict(kind="ueq_undef", sym=a, to=b))
                ops.append(["ueq", sym, sym]); meta.append(dict(kind="ueq_self", sym=sym))
        # pairs of units of one type (neither need be the reference unit):
        # the factor is the ratio of the two scales, an exact rational
        for n, c in w.classes.items():
            us = [x for x in c["units"] if w.units[x]["scale"] not in (None, 0)]
            if c["quantum"] is not None or len(us) < 3:
                continue
            for a, b in zip(us[1:], us[2:]):
                ops.append(["q_conv", "1@" + a, b, MODE])
                meta.append(dict(kind="q_conv_pair", sym=a, to=b))
                ops.append(["q_conv", "1@" + b, a, MODE])
                meta.append(dict(kind="q_conv_pair", sym=b, to=a))
        # rejected symbols stay unknown
        for st in steps:
            if st["expect"] == "err" and st["op"][0] == "new_unit":
                s = st["op"][2]
                if s not in ("-", "<empty>") and s not in w.units:
                    ops.append(["unit_info", s]); meta.append(dict(kind="unknown_sym", sym=s))
    world = dict(units={s: dict(cls=u["cls"], scale=None if u["scale"] is None else rat(u["scale"]))
                        for s, u in w.units.items()},
                 classes={n: dict(ref=c["ref"], units=c["units"],
                                  quantum=None if c["quantum"] is None else rat(c["quantum"]))
                          for n, c in w.classes.items()},
                 order=w.order)
    return {"ops": ops, "fork": True, "meta": meta, "world": world,
            "tags": sorted({m["kind"] for m in meta if m["kind"].startswith("invalid")}) +
                    ["hist"]}


def directory_oracle(case, impl, check_trace=True, check_dir=True):
    fails = []
    meta, world = case["meta"], case["world"]
    prev_obs = None
    for i, (m, out) in enumerate(zip(meta, impl)):
        k = m["kind"]
        if k in ("observe", "observe0"):
            if not out.startswith("ok "):
                fails.append({"site": "dir:observe", "msg": f"observe -> {out}"})
                continue
            step = meta[i - 1] if i > 0 else None
            if check_trace and step is not None and step.get("expect") == "err" \
                    and prev_obs is not None and out != prev_obs:
                fails.append({"site": "reject:trace:" + step["kind"], "msg":
                              f"rejected {case['ops'][i - 1]} changed the directories: "
                              f"{_diff(prev_obs, out)}"})
            prev_obs = out
        elif "expect" in m:
            if m["expect"] == "ok":
                if not out.startswith("ok "):
                    fails.append({"site": "decl:rejected-valid:" + k, "msg":
                                  f"{case['ops'][i]} -> {out}"})
                elif m.get("new_sym") and case["ops"][i][0] != "decl_class" \
                        and out[3:] != m["new_sym"]:
                    fails.append({"site": "decl:symbol:" + k, "msg":
                                  f"{case['ops'][i]} -> {out}, expected symbol {m['new_sym']}"})
            else:
                if not out.startswith("err "):
                    fails.append({"site": "decl:accepted-invalid:" + k, "msg":
                                  f"{case['ops'][i]} -> {out}"})
        elif k == "unit_info" and check_dir:
            u = world["units"][m["sym"]]
            want_cls = u["cls"]
            if not out.startswith("ok ") or f"cls={want_cls} " not in out:
                fails.append({"site": "dir:unit-class", "msg": f"{m['sym']}: {out}"})
            want_eq = "none" if u["scale"] is None else u["scale"]
            if out.startswith("ok ") and f"equiv={want_eq} " not in out:
                fails.append({"site": "dir:scale:zero-definition" if want_eq == "0" else "dir:scale", "msg":
                              f"{m['sym']}: {out}, definition denotes {want_eq}"})
        elif k == "q_mk" and check_dir:
            want = f":{world['units'][m['sym']]['cls']}"
            if not out.startswith("ok qty ") or not out.endswith(f"@{m['sym']}" + want):
                fails.append({"site": "dir:factory-class", "msg": f"{m['sym']}: {out}"})
        elif k == "q_conv_ref" and check_dir:
            u = world["units"][m["sym"]]
            ref = world["classes"][u["cls"]]["ref"]
            want = f"ok qty {u['scale']}@{ref}:{u['cls']}"
            if out != want:
                fails.append({"site": "dir:convert-to-ref", "msg":
                              f"1 {m['sym']} -> {out}, expected {want}"})
        elif k == "q_conv_pair" and check_dir:
            u, v = world["units"][m["sym"]], world["units"][m["to"]]
            x = parse_rat(u["scale"]) / parse_rat(v["scale"])
            want = f"ok qty {rat(x)}@{m['to']}:{v['cls']}"
            if out != want:
                fails.append({"site": "dir:convert-pair", "msg":
                              f"1 {m['sym']} -> {out}, expected {want}"})
        elif k == "q_conv_undef":
            if out != "err UnitConversionError":
                fails.append({"site": "dir:undefined-unit-converts", "msg":
                              f"1 {m['sym']} -> {m['to']}: {out}, expected UnitConversionError"})
        elif k == "ueq_undef":
            if out != "ok false":
                fails.append({"site": "dir:undefined-unit-equal", "msg":
                              f"{m['sym']} == {m['to']}: {out}"})
        elif k == "ueq_self":
            if out != "ok true":
                fails.append({"site": "dir:undefined-unit-equal", "msg":
                              f"{m['sym']} == {m['sym']}: {out}"})
        elif k == "unknown_sym":
            if out != "err ValueError":
                fails.append({"site": "reject:symbol-known", "msg":
                              f"rejected symbol {m['sym']} is registered: {out}"})
    if check_dir and prev_obs is not None:
        units, classes, order = parse_observe(prev_obs)
        want_units = {s: (u["cls"], None if u["scale"] is None else parse_rat(u["scale"]))
                      for s, u in world["units"].items()}
        if units != want_units:
            extra = set(units) - set(want_units)
            missing = set(want_units) - set(units)
            wrong = {s for s in set(units) & set(want_units) if units[s] != want_units[s]}
            zero_only = not extra and not missing and all(
                want_units[s][1] == 0 and units[s][0] == want_units[s][0] for s in wrong)
            fails.append({"site": "dir:scale:zero-definition" if zero_only else "dir:symbols", "msg":
                          f"extra={sorted(extra)} missing={sorted(missing)} "
                          f"wrong={[(s, units[s], want_units[s]) for s in sorted(wrong)]}"})
        for n, c in world["classes"].items():
            got = classes.get(n)
            if got is None:
                fails.append({"site": "dir:class-missing", "msg": n})
            elif got["units"] != c["units"] or got["ref"] != (c["ref"] or "none"):
                fails.append({"site": "dir:class-units", "msg":
                              f"{n}: {got} expected {c}"})
        extra_cls = set(classes) - set(world["classes"]) - {"Quantity"}
        if extra_cls:
            fails.append({"site": "dir:class-extra", "msg": str(sorted(extra_cls))})
        if classes.get("Quantity", {}).get("units"):
            fails.append({"site": "dir:base-class-lists-units", "msg":
                          str(classes["Quantity"])})
    return fails


def _diff(a, b):
    sa, sb = set(a.split(" ")), set(b.split(" "))
    return f"+{sorted(sb - sa)} -{sorted(sa - sb)}"
