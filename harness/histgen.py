"""Structured generator of declaration histories with independent bookkeeping.

The generator tracks, with Fractions only and without the library, what every
valid declaration *means*: the class of each unit, its dimension vector over
the base classes and its scale relative to the coherent reference unit (the
product of the numeric factors along its chain of definitions).  That
bookkeeping is the oracle of C01 / C02 / C15 / C16 / C17.
"""
from __future__ import annotations

from fractions import Fraction

from common import rat

FACTORS = [Fraction(1000), Fraction(1, 1000), Fraction(254, 10000), Fraction(12),
           Fraction(3), Fraction(60), Fraction(1, 3), Fraction(7, 5),
           Fraction(22, 7), Fraction(1, 8), Fraction(1024), Fraction(100),
           Fraction(5, 9), Fraction(2), Fraction(1, 2), Fraction(10)]

MODE = "ROUND_HALF_EVEN"


class World:
    """What has been declared so far (independent of the library)."""

    def __init__(self):
        self.classes = {}     # name -> dict(dim, ref, quantum, units[list])
        self.units = {}       # sym -> dict(cls, scale|None, dim)
        self.order = []       # class names in declaration order
        self.n = 0
        self.long_names = False

    def fresh(self, prefix):
        self.n += 1
        if prefix in ("B", "D") and self.long_names:
            # type names that agree in their first 30 characters
            return f"QuantityTypeWithAVeryLongCommonNamePrefix{prefix}{self.n}"
        return f"{prefix}{self.n}"

    def dim_of_class_def(self, items):
        dim = {}
        for c, e in items:
            for b, be in self.classes[c]["dim"].items():
                dim[b] = dim.get(b, 0) + be * e
        return {b: e for b, e in dim.items() if e != 0}

    def class_with_dim(self, dim):
        for n, c in self.classes.items():
            if c["dim"] == dim:
                return n
        return None


SUP = {1: "", 2: "\u00b2", 3: "\u00b3", 4: "\u2074", 5: "\u2075"}


def render_symbol(items):
    """Default symbol of a product of units as documented: unit symbols with
    superscript exponents joined by a middle dot, positive exponents first,
    then '/' and the negative ones; a symbol 'a/b' counts as a over b."""
    pos, neg = [], []
    for sym, e in items:
        parts = sym.split("/")
        if len(parts) > 2:
            return None
        for i, p in enumerate(parts):
            ee = e if i == 0 else -e
            (pos if ee > 0 else neg).append(p + SUP[abs(e)])
    out = "\u00b7".join(pos) if pos else "1"
    if neg:
        out += "/" + "\u00b7".join(neg)
    return out


def fmt_cdef(items):
    return ";".join(f"c:{c}^{e}" for c, e in items) if items else "-"


def fmt_uterm(num, items, numkind="n", nexp=1):
    parts = []
    if num is not None:
        parts.append(f"{numkind}:{rat(num)}^{nexp}")
    parts += [f"u:{u}^{e}" for u, e in items]
    return ";".join(parts) if parts else "-"


class HistGen:
    """Generates steps; each step = dict(op, expect='ok'|'err', new_sym,
    new_cls, scale, cls, dim, kind)."""

    def __init__(self, rng, with_invalid=True, max_exp=3, simple_derived=0.0,
                 refless_derived=0.0, split_items=0.0, alias=0.12, odd_symbols=0.15,
                 long_names=None, undefined_units=0.0, undefined_multiples=False,
                 blank_symbols=False):
        self.rng = rng
        # probability that a unit WITHOUT definition is declared in a base
        # type that HAS a reference unit (it has no scale and converts to
        # nothing); `undefined_multiples`: units defined over such a unit too
        # (accepted by the code; their stored scale means nothing, so only
        # histories whose oracle does not read scales ask for them)
        self.undefined_units = undefined_units
        self.undefined_multiples = undefined_multiples
        # two-word symbols (the directory dump of `observe` separates by blanks,
        # so only contexts that do not read it ask for them)
        self.blank_symbols = blank_symbols
        self.w = World()
        self.w.long_names = (rng.random() < .3) if long_names is None else long_names
        self.with_invalid = with_invalid
        self.max_exp = max_exp
        self.simple_derived = simple_derived
        # probability that a derived class may be defined over base classes
        # WITHOUT reference unit (then no reference unit can be derived: the
        # class has one only if a symbol is given, and that unit is a base unit)
        self.refless_derived = refless_derived
        # probability that a term definition names TWO different units of one
        # base type (u1^e1 * u2^(e-e1)) instead of u^e
        self.split_items = split_items
        # probability that a scaled unit duplicates the scale of an existing unit
        self.alias = alias
        # probability that a scaled unit gets a symbol with characters that
        # Unicode normalisation would change
        self.odd_symbols = odd_symbols

    # -- valid declarations ---------------------------------------------
    def base_class(self, refless=False, quantum=None, force_parent=False):
        w, rng = self.w, self.rng
        name = w.fresh("B")
        sym = "-" if refless else w.fresh("b")
        q = "-" if quantum is None else rat(quantum)
        rname = "1" if (sym != "-" and rng.random() < .5) else "0"
        # one base type in four is written as a subclass of an earlier base type
        # (it is a type of its own)
        parents = [n for n, c in w.classes.items()
                   if "items" not in c and c["ref"] is not None and c["quantum"] is None]
        parent = None
        if quantum is None and parents and (force_parent or rng.random() < .25):
            # (also a subclass WITHOUT a reference unit of its own: it has none)
            parent = rng.choice(parents)
            rname = f"sub:{parent}:{rname}"
        op = ["decl_class", name, "-", sym, rname, q]
        w.classes[name] = dict(dim={name: 1}, ref=None if refless else sym,
                               quantum=quantum, units=[] if refless else [sym], parent=parent)
        w.order.append(name)
        if not refless:
            w.units[sym] = dict(cls=name, scale=Fraction(1), dim={name: 1})
        return dict(op=op, expect="ok", kind="base-class", new_cls=name,
                    new_sym=None if refless else sym)

    def derived_class(self):
        w, rng = self.w, self.rng
        bases = [n for n, c in w.classes.items() if c["ref"] is not None]
        if not bases:
            return None
        if rng.random() < self.refless_derived:
            # base classes proper (not derived ones), with or without reference unit
            bases = [n for n, c in w.classes.items() if "items" not in c]
        for _ in range(10):
            if rng.random() < self.simple_derived:
                # product / quotient of two existing types, or a square
                if len(bases) >= 2 and rng.random() < .8:
                    chosen = rng.sample(bases, 2)
                    items = [(chosen[0], 1), (chosen[1], rng.choice([1, -1]))]
                else:
                    items = [(rng.choice(bases), 2)]
            else:
                k = rng.randint(1, min(3, len(bases)))
                chosen = rng.sample(bases, k)
                items = [(c, rng.choice([-2, -1, 1, 1, 2, 3])) for c in chosen]
            dim = w.dim_of_class_def(items)
            if dim and w.class_with_dim(dim) is None:
                break
        else:
            return None
        name = w.fresh("D")
        given = rng.random() < .4
        if any(w.classes[c]["ref"] is None for c, _ in items):
            # no reference unit derivable from the definition
            given = rng.random() < .6
            sym = w.fresh("d") if given else None
            op = ["decl_class", name, fmt_cdef(items), sym if given else "-",
                  "1" if given and rng.random() < .5 else "0", "-"]
            w.classes[name] = dict(dim=dim, ref=sym, quantum=None,
                                   units=[sym] if given else [], items=items)
            w.order.append(name)
            if given:
                w.units[sym] = dict(cls=name, scale=Fraction(1), dim=dim)
            return dict(op=op, expect="ok", kind="derived-class-refless-base", new_cls=name,
                        new_sym=sym)
        if given:
            sym = w.fresh("d")
        else:
            sym = render_symbol([(w.classes[c]["ref"], e) for c, e in items])
            if sym is None:
                return None
            if sym in w.units:
                return self._bad(["decl_class", name, fmt_cdef(items), "-", "0", "-"],
                                 "dup-auto-symbol")
        op = ["decl_class", name, fmt_cdef(items), sym if given else "-",
              "1" if given and rng.random() < .5 else "0", "-"]
        w.classes[name] = dict(dim=dim, ref=sym, quantum=None, units=[sym], items=items)
        w.order.append(name)
        w.units[sym] = dict(cls=name, scale=Fraction(1), dim=dim)
        return dict(op=op, expect="ok", kind="derived-class", new_cls=name, new_sym=sym)

    def product_class(self):
        """a derived type that is the plain product of two base types with
        reference units (if that dimension is still free)"""
        saved = self.simple_derived
        self.simple_derived = 1.0
        try:
            for _ in range(6):
                snapshot = (dict(self.w.classes), dict(self.w.units), list(self.w.order), self.w.n)
                st = self.derived_class()
                if st is None:
                    return None
                items = self.w.classes.get(st.get("new_cls"), {}).get("items") if st["expect"] == "ok" else None
                if items and len(items) == 2 and all(e == 1 for _, e in items):
                    return st
                # not a product: undo the bookkeeping and try again
                self.w.classes, self.w.units, self.w.order, self.w.n = \
                    snapshot[0], snapshot[1], snapshot[2], snapshot[3]
            return None
        finally:
            self.simple_derived = saved

    def power_class(self, e):
        """a derived type `X ** e` over one base type with reference unit"""
        w, rng = self.w, self.rng
        bases = [n for n, c in w.classes.items() if c["ref"] is not None and "items" not in c]
        rng.shuffle(bases)
        for b in bases:
            items = [(b, e)]
            dim = w.dim_of_class_def(items)
            if w.class_with_dim(dim) is not None:
                continue
            sym = render_symbol([(w.classes[b]["ref"], e)])
            if sym is None or sym in w.units:
                continue
            name = w.fresh("D")
            w.classes[name] = dict(dim=dim, ref=sym, quantum=None, units=[sym], items=items)
            w.order.append(name)
            w.units[sym] = dict(cls=name, scale=Fraction(1), dim=dim)
            return dict(op=["decl_class", name, fmt_cdef(items), "-", "0", "-"], expect="ok",
                        kind="derived-class", new_cls=name, new_sym=sym)
        return None

    def scaled_unit(self):
        w, rng = self.w, self.rng
        cands = [(s, u) for s, u in w.units.items() if u["scale"] is not None]
        if not cands:
            return None
        s, u = rng.choice(cands)
        k = rng.choice(FACTORS)
        if rng.random() < self.alias:
            # an ALIAS: a second unit with the scale of an existing one
            t = rng.choice([x for x in cands if x[1]["cls"] == u["cls"]])
            k = t[1]["scale"] / u["scale"]
        quantum = w.classes[u["cls"]]["quantum"]
        if quantum is not None:
            # the defining quantity itself gets quantised: stay on the grid
            k = Fraction(rng.choice([2, 3, 8, 1000, 1024])) * quantum / u["scale"]
        sym = w.fresh("u")
        if rng.random() < self.odd_symbols:
            # symbols whose characters have compatibility / canonical
            # equivalents (OHM SIGN, ANGSTROM SIGN, KELVIN SIGN, a decomposed
            # letter, a ligature): a symbol is an opaque string
            sym = rng.choice(["\u2126", "\u212b", "\u212a", "u\u0308", "\ufb01", "\u00b5\u2126"]) + sym
            if self.blank_symbols and rng.random() < .4:
                # a symbol made of two words, the first one a registered symbol
                # itself ("sea mile", "N m"): a symbol is whatever follows the
                # first blank of a text
                sym = f"{s} {w.fresh('w')}"
        op = ["new_unit", u["cls"], sym, "qty", rat(k), s, MODE]
        w.units[sym] = dict(cls=u["cls"], scale=k * u["scale"], dim=u["dim"])
        w.classes[u["cls"]]["units"].append(sym)
        return dict(op=op, expect="ok", kind="scaled-unit", new_sym=sym)

    def _term_for(self, cls, ref_only=False):
        """units^exps whose dimension equals cls's, through the class items
        (for a base class with reference unit: one of its own units)"""
        w, rng = self.w, self.rng
        c = w.classes[cls]
        if "items" not in c:
            if c["ref"] is None:
                return None
            us = [c["ref"]] if ref_only else \
                [s for s in c["units"] if w.units[s]["scale"] is not None]
            return [(rng.choice(us), 1)] if us else None
        items = []
        for bc, e in c["items"]:
            us = [s for s in w.classes[bc]["units"] if w.units[s]["scale"] is not None]
            if ref_only:
                us = [w.classes[bc]["ref"]] if w.classes[bc]["ref"] in us else []
            if not us:
                return None
            items.append((rng.choice(us), e))
        return items

    def derived_unit(self):
        w, rng = self.w, self.rng
        cands = [n for n, c in w.classes.items() if "items" in c]
        rng.shuffle(cands)
        for cls in cands:
            items = self._term_for(cls)
            if not items:
                continue
            scale = Fraction(1)
            for u, e in items:
                scale *= w.units[u]["scale"] ** e
            given = rng.random() < .5
            if given:
                sym = w.fresh("v")
            else:
                sym = render_symbol(items)
                if sym is None:
                    continue
                if sym in w.units:
                    return self._bad(["derive_unit", cls, ",".join(u for u, _ in items), "-"],
                                     "dup-auto-symbol")
            op = ["derive_unit", cls, ",".join(u for u, _ in items), sym if given else "-"]
            w.units[sym] = dict(cls=cls, scale=scale, dim=w.classes[cls]["dim"])
            w.classes[cls]["units"].append(sym)
            return dict(op=op, expect="ok", kind="derive-unit", new_sym=sym)
        return None

    def term_unit(self, only_cls=None, force_kind=None, offgrid=None):
        w, rng = self.w, self.rng
        cands = [n for n, c in w.classes.items() if "items" in c or c["ref"] is not None]
        rng.shuffle(cands)
        if only_cls is not None:
            cands = [only_cls]
        for cls in cands:
            # force_kind "i": a plain int times reference units only (the int
            # then survives reduction and normalisation as the unit's scale)
            items = self._term_for(cls, ref_only=(force_kind == "i"))
            if not items:
                continue
            num = rng.choice(FACTORS + [None, None])
            if force_kind == "i":
                num = Fraction(rng.choice([2, 3, 7, 12, 60, 1000, 1024]))
            if w.classes[cls]["quantum"] is not None and force_kind is None:
                # a unit of a quantised type that is smaller than the quantum or
                # lies between two multiples of it (only a term can define one:
                # a defining quantity would itself be rounded)
                u0 = items[0][0]
                num = w.classes[cls]["quantum"] * (offgrid or rng.choice(
                    [Fraction(1, 10), Fraction(1, 4), Fraction(3, 2), Fraction(5, 2)])) / w.units[u0]["scale"]
            if force_kind != "i" and rng.random() < self.split_items:
                # name two different units of one base type: u^e -> u^e1 * u2^e2
                split = []
                for u, e in items:
                    others = [y for y in w.classes[w.units[u]["cls"]]["units"]
                              if y != u and w.units[y]["scale"] is not None]
                    e2 = rng.choice([-2, -1, 1, 2, 3])
                    if others and e - e2 != 0 and rng.random() < .7:
                        split += [(u, e - e2), (rng.choice(others), e2)]
                    else:
                        split.append((u, e))
                items = split
            # the numeric item may carry an exponent of its own (10^6, 2^10, 8^-1)
            nexp = 1
            if num is not None and force_kind is None and w.classes[cls]["quantum"] is None \
                    and rng.random() < .3:
                num = Fraction(rng.choice([2, 10, 8, 3, 60]))
                nexp = rng.choice([-3, -2, -1, 2, 3, 6, 10])
            scale = num ** nexp if num is not None else Fraction(1)
            for u, e in items:
                scale *= w.units[u]["scale"] ** e
            if rng.random() < .5:
                rng.shuffle(items)
            sym = w.fresh("t")
            # the numeric factor as Decimal (when finite), Fraction or plain int
            kind = "n"
            if num is not None and (force_kind or rng.random() < .4):
                kind = "i" if num.denominator == 1 else "f"
            op = ["new_unit", cls, sym, "term", fmt_uterm(num, items, kind, nexp)]
            w.units[sym] = dict(cls=cls, scale=scale, dim=w.classes[cls]["dim"])
            w.classes[cls]["units"].append(sym)
            return dict(op=op, expect="ok", kind="term-unit", new_sym=sym)
        return None

    def refless_unit(self):
        w = self.w
        cands = [n for n, c in w.classes.items() if c["ref"] is None and "items" not in c]
        if self.rng.random() < self.undefined_units:
            und = [s for s, u in w.units.items() if u.get("undefined")]
            if und and self.undefined_multiples and self.rng.random() < .5:
                r = self.rng.choice(und)
                sym = w.fresh("z")
                w.units[sym] = dict(cls=w.units[r]["cls"], scale=None, dim=w.units[r]["dim"],
                                    base=(r, 1))
                w.classes[w.units[r]["cls"]]["units"].append(sym)
                op = ["new_unit", w.units[r]["cls"], sym, "term", fmt_uterm(None, [(r, 1)])] \
                    if self.rng.random() < .5 else \
                    ["new_unit", w.units[r]["cls"], sym, "qty", "5/2", r, MODE]
                return dict(op=op, expect="ok", kind="undefined-multiple", new_sym=sym)
            lin = [n for n, c in w.classes.items()
                   if c["ref"] is not None and "items" not in c and c["quantum"] is None]
            if lin:
                cls = self.rng.choice(lin)
                sym = w.fresh("z")
                w.units[sym] = dict(cls=cls, scale=None, dim=w.classes[cls]["dim"], undefined=True)
                w.classes[cls]["units"].append(sym)
                return dict(op=["new_unit", cls, sym, "none"], expect="ok",
                            kind="undefined-unit", new_sym=sym)
        if not cands:
            return None
        cls = self.rng.choice(cands)
        sym = w.fresh("r")
        w.units[sym] = dict(cls=cls, scale=None, dim=w.classes[cls]["dim"])
        w.classes[cls]["units"].append(sym)
        return dict(op=["new_unit", cls, sym, "none"], expect="ok",
                    kind="refless-unit", new_sym=sym)

    def undefined_unit_in(self, cls=None):
        """a unit WITHOUT definition in a base type that has a reference unit"""
        w = self.w
        lin = [n for n, c in w.classes.items()
               if c["ref"] is not None and "items" not in c and c["quantum"] is None]
        if cls is None:
            if not lin:
                return None
            cls = self.rng.choice(lin)
        sym = w.fresh("z")
        w.units[sym] = dict(cls=cls, scale=None, dim=w.classes[cls]["dim"], undefined=True)
        w.classes[cls]["units"].append(sym)
        return dict(op=["new_unit", cls, sym, "none"], expect="ok", kind="undefined-unit", new_sym=sym)

    def refless_multiple(self):
        """a unit of a type WITHOUT reference unit declared as a multiple of one
        of its (base) units: it has a definition but converts to nothing"""
        w, rng = self.w, self.rng
        cands = [(s, u) for s, u in w.units.items()
                 if u["scale"] is None and "base" not in u and w.classes[u["cls"]]["ref"] is None
                 and "items" not in w.classes[u["cls"]]]
        if not cands:
            return None
        r, u = rng.choice(cands)
        k = rng.choice([Fraction(12), Fraction(1, 1000), Fraction(1000), Fraction(5, 2)])
        sym = w.fresh("k")
        w.units[sym] = dict(cls=u["cls"], scale=None, dim=u["dim"], base=(r, k))
        w.classes[u["cls"]]["units"].append(sym)
        return dict(op=["new_unit", u["cls"], sym, "qty", rat(k), r, MODE], expect="ok",
                    kind="refless-multiple", new_sym=sym)

    def _related(self, a, b):
        def anc(x):
            out = set()
            while x is not None:
                out.add(x)
                x = self.w.classes[x].get("parent")
            return out
        return a in anc(b) or b in anc(a)

    # -- invalid declarations (must be rejected, must leave no trace) ------
    def invalid(self, only=None):
        w, rng = self.w, self.rng
        kinds = ["dup-symbol", "empty-symbol", "nonstr-symbol", "wrong-class-qty",
                 "wrong-dim-term", "undefined-term", "derive-wrong-count",
                 "derive-wrong-class", "derive-on-base", "dup-dimension",
                 "name-without-symbol", "quantum-without-symbol", "other-def",
                 "dup-ref-symbol", "dimensionless-term", "class-def-with-number"]
        rng.shuffle(kinds)
        if only is not None:
            kinds = [k for k in kinds if k in only]
        syms = list(w.units)
        refcls = [n for n, c in w.classes.items() if c["ref"] is not None]
        dercls = [n for n, c in w.classes.items() if "items" in c]
        for kind in kinds:
            if kind == "dup-symbol" and syms:
                s = rng.choice(syms)
                t = rng.choice([x for x in syms if w.units[x]["scale"] is not None] or [None])
                if t is None:
                    continue
                return self._bad(["new_unit", w.units[t]["cls"], s, "qty", "3", t, MODE], kind)
            if kind == "empty-symbol" and syms:
                t = rng.choice(syms)
                if w.units[t]["scale"] is None:
                    continue
                return self._bad(["new_unit", w.units[t]["cls"], "<empty>", "qty", "3", t, MODE], kind)
            if kind == "nonstr-symbol" and syms:
                t = rng.choice(syms)
                if w.units[t]["scale"] is None:
                    continue
                return self._bad(["new_unit", w.units[t]["cls"], "-", "qty", "3", t, MODE], kind)
            if kind == "wrong-class-qty" and len(refcls) >= 2:
                a, b = rng.sample(refcls, 2)
                if self._related(a, b):
                    continue      # a quantity of a subclass IS an instance of its parent
                t = w.classes[b]["units"][0]
                return self._bad(["new_unit", a, w.fresh("x"), "qty", "3", t, MODE], kind)
            if kind == "wrong-dim-term" and len(refcls) >= 2:
                a, b = rng.sample(refcls, 2)
                t = w.classes[b]["units"][0]
                return self._bad(["new_unit", a, w.fresh("x"), "term", fmt_uterm(Fraction(2), [(t, 1)])], kind)
            if kind == "undefined-term" and refcls:
                a = rng.choice(refcls)
                t = w.classes[a]["units"][0]
                dim = {k: 7 * v for k, v in w.classes[a]["dim"].items()}
                if w.class_with_dim(dim) is None:
                    return self._bad(["new_unit", a, w.fresh("x"), "term", fmt_uterm(None, [(t, 7)])], kind)
            if kind == "dimensionless-term" and refcls:
                a = rng.choice(refcls)
                us = [s for s in w.classes[a]["units"] if w.units[s]["scale"] is not None]
                if len(us) >= 2:
                    x, y = rng.sample(us, 2)
                    return self._bad(["new_unit", a, w.fresh("x"), "term", fmt_uterm(None, [(x, 1), (y, -1)])], kind)
            if kind == "derive-wrong-count" and dercls:
                a = rng.choice(dercls)
                items = self._term_for(a)
                if items:
                    us = [u for u, _ in items] + [items[0][0]]
                    return self._bad(["derive_unit", a, ",".join(us), w.fresh("x")], kind)
            if kind == "derive-wrong-class" and dercls and len(refcls) >= 2:
                a = rng.choice(dercls)
                items = self._term_for(a)
                if items:
                    other = [s for s in syms if w.units[s]["cls"] != w.units[items[0][0]]["cls"]]
                    if other:
                        us = [rng.choice(other)] + [u for u, _ in items[1:]]
                        return self._bad(["derive_unit", a, ",".join(us), w.fresh("x")], kind)
            if kind == "derive-on-base" and refcls:
                a = rng.choice([n for n in refcls if "items" not in w.classes[n]] or [None])
                if a:
                    return self._bad(["derive_unit", a, w.classes[a]["units"][0], w.fresh("x")], kind)
            if kind == "dup-dimension" and dercls:
                a = rng.choice(dercls)
                items = list(w.classes[a]["items"])
                rng.shuffle(items)
                return self._bad(["decl_class", w.fresh("X"), fmt_cdef(items),
                                  w.fresh("x") if rng.random() < .8 else "-",
                                  "0", "-"], kind)
            if kind == "class-def-with-number" and len(refcls) >= 2:
                # a type defined by a term that is not a product of types only
                # (1000 * A * B): rejected, with or without an explicit symbol
                # for the reference unit - which must not stay registered
                a, b = rng.sample(refcls, 2)
                cdef = fmt_cdef([(a, 1), (b, rng.choice([1, -1, 2]))]) + \
                    f";n:{rng.choice(['1000', '1/8', '3'])}^1"
                if rng.random() < .5:
                    cdef = cdef.split(";")[2] + ";" + ";".join(cdef.split(";")[:2])
                return self._bad(["decl_class", w.fresh("X"), cdef,
                                  w.fresh("x") if rng.random() < .7 else "-", "0", "-"], kind)
            if kind == "name-without-symbol":
                return self._bad(["decl_class", w.fresh("X"), "-", "-", "1", "-"], kind)
            if kind == "quantum-without-symbol":
                return self._bad(["decl_class", w.fresh("X"), "-", "-", "0", "1/8"], kind)
            if kind == "other-def" and refcls:
                a = rng.choice(refcls)
                return self._bad(["new_unit", a, w.fresh("x"), "other"], kind)
            if kind == "dup-ref-symbol" and syms:
                return self._bad(["decl_class", w.fresh("X"), "-", rng.choice(syms), "0", "-"], kind)
        return None

    def _bad(self, op, kind):
        return dict(op=op, expect="err", kind="invalid:" + kind)

    # -- driver -------------------------------------------------------------
    def history(self, length, refless_script=False):
        rng = self.rng
        steps = []
        steps.append(self.base_class())
        steps.append(self.base_class())
        if refless_script:
            # targeted: derived types over base types WITHOUT reference unit,
            # then rejected re-declarations of their dimension, then the
            # rejected symbols used by valid declarations
            steps.append(self.base_class(refless=True))
            if rng.random() < .5:
                steps.append(self.base_class(refless=True))
            saved = self.refless_derived
            self.refless_derived = 1.0
            for _ in range(rng.randint(2, 4)):
                st = self.derived_class()
                if st is not None:
                    steps.append(st)
            self.refless_derived = saved
            for _ in range(rng.randint(2, 4)):
                st = self.invalid(only=("dup-dimension",))
                if st is None:
                    continue
                steps.append(st)
                sym = st["op"][3]
                if sym != "-" and rng.random() < .6:
                    # the rejected reference symbol must still be free
                    name = self.w.fresh("B")
                    self.w.classes[name] = dict(dim={name: 1}, ref=sym, quantum=None, units=[sym])
                    self.w.order.append(name)
                    self.w.units[sym] = dict(cls=name, scale=Fraction(1), dim={name: 1})
                    steps.append(dict(op=["decl_class", name, "-", sym, "0", "-"], expect="ok",
                                      kind="base-class-reusing-rejected-symbol", new_cls=name,
                                      new_sym=sym))
        if rng.random() < .5:
            steps.append(self.base_class(quantum=rng.choice([
                Fraction(1, 8), Fraction(1, 100), Fraction(1, 3), Fraction(5, 8),
                Fraction(6), Fraction(5, 2), Fraction(2, 3), Fraction(1, 20)])))
        while len(steps) < length:
            r = rng.random()
            st = None
            if self.with_invalid and r < .25:
                st = self.invalid()
            elif r < .33:
                st = self.base_class(refless=rng.random() < .3)
            elif r < .48:
                st = self.derived_class()
            elif r < .70:
                st = self.scaled_unit()
            elif r < .78:
                st = self.term_unit()
            elif r < .86:
                st = self.derived_unit()
            elif r < .90:
                st = self.refless_unit()
            else:
                st = self.scaled_unit()
            if st is not None:
                steps.append(st)
        return steps
