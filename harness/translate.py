#!/usr/bin/env python3
"""Translators: /repo source -> Lean (`lean/QuantityModel/Gen/*.lean`).

Every `Gen/` file is regenerated from /repo's *working tree* on every run of a
check; a file is rewritten only when its content changes (so an unchanged tree
costs a no-op `lake build`).  A construct outside the supported subset raises
`Untranslatable` -- the tie is then broken and the check starts the failing
input search (DESIGN.md section 8).

Supported subset for kernels (`_floordiv_rounded`, `_quantize_fraction`):
int / Fraction arithmetic (+ - * / // %), `divmod`, `abs`, comparisons,
`and`/`or`/`not`, `is None`, `if/elif/else`, tuple assignment, `return`,
`raise`, calls of other translated functions, `.numerator/.denominator`.
Python `//` and `%` become `Int.fdiv` / `Int.fmod` (floor semantics); every
division by a non-literal is guarded by an explicit ZeroDivisionError branch.
"""
from __future__ import annotations

import ast
import os
import re
import sys
import xml.etree.ElementTree as ET
from fractions import Fraction

REPO = os.environ.get("QUANTITY_REPO", "/repo")
HERE = os.path.dirname(os.path.abspath(__file__))
GEN_DIR = os.path.join(os.path.dirname(HERE), "lean", "QuantityModel", "Gen")


class Untranslatable(Exception):
    pass


# --------------------------------------------------------------------------
# kernel translator (Python AST -> Lean expression in the Except monad)
# --------------------------------------------------------------------------

ROUNDINGS = ["ROUND_05UP", "ROUND_CEILING", "ROUND_DOWN", "ROUND_FLOOR",
             "ROUND_HALF_DOWN", "ROUND_HALF_EVEN", "ROUND_HALF_UP",
             "ROUND_UP"]

ERRS = {"TypeError", "ValueError", "QuantityError", "ZeroDivisionError",
        "AssertionError", "KeyError", "IndexError", "OverflowError"}

TYPE_MAP = {"int": "Int", "Fraction": "Rat", "Rational": "Rat",
            "Optional[ROUNDING]": "Option Rounding"}


class KernelTranslator:
    """Translate one module-level function into a Lean `def`."""

    def __init__(self, known_funcs):
        # name -> (lean name, arg types, return type)
        self.known = dict(known_funcs)

    def fail(self, node, what):
        shown = ast.dump(node)[:120] if isinstance(node, ast.AST) else repr(node)
        raise Untranslatable(
            f"line {getattr(node, 'lineno', '?')}: unsupported {what}: {shown}")

    # ---- types
    def ann(self, node):
        s = ast.unparse(node)
        if s not in TYPE_MAP:
            self.fail(node, "annotation")
        return TYPE_MAP[s]

    # ---- expressions: returns (lean text, type, guards)
    # guards: list of lean boolean texts that must hold, else ZeroDivisionError
    def expr(self, e, env):
        if isinstance(e, ast.Constant):
            if isinstance(e.value, bool) or not isinstance(e.value, int):
                if e.value is None:
                    return "none", "Option Rounding", []
                self.fail(e, "constant")
            return (f"({e.value} : Int)", "Int", [])
        if isinstance(e, ast.Name):
            if e.id not in env:
                self.fail(e, "free name")
            return e.id if e.id != "self" else "self_", env[e.id], []
        if isinstance(e, ast.Attribute):
            if (isinstance(e.value, ast.Name) and e.value.id == "ROUNDING"
                    and e.attr in ROUNDINGS):
                return f"(some Rounding.{e.attr})", "Option Rounding", []
            v, t, g = self.expr(e.value, env)
            if t == "Rat" and e.attr == "numerator":
                return f"({v}).num", "Int", g
            if t == "Rat" and e.attr == "denominator":
                return f"(({v}).den : Int)", "Int", g
            self.fail(e, "attribute")
        if isinstance(e, ast.IfExp):
            # `a if c else b` (operands without partial operations only: their
            # guards would otherwise become unconditional)
            c, tc, gc = self.expr(e.test, env)
            a, ta, ga = self.expr(e.body, env)
            b, tb, gb = self.expr(e.orelse, env)
            if tc != "Bool" or ta != tb or ga or gb:
                self.fail(e, "conditional expression")
            return f"(if {c} then {a} else {b})", ta, gc
        if isinstance(e, ast.UnaryOp):
            v, t, g = self.expr(e.operand, env)
            if isinstance(e.op, ast.USub) and t in ("Int", "Rat"):
                return f"(-{v})", t, g
            if isinstance(e.op, ast.Not) and t == "Bool":
                return f"(!{v})", "Bool", g
            self.fail(e, "unary op")
        if isinstance(e, ast.BinOp):
            a, ta, ga = self.expr(e.left, env)
            b, tb, gb = self.expr(e.right, env)
            g = ga + gb
            if ta == tb == "Int":
                t = "Int"
            elif {ta, tb} <= {"Int", "Rat"}:
                t = "Rat"
                if ta == "Int":
                    a = f"(({a} : Int) : Rat)"
                if tb == "Int":
                    b = f"(({b} : Int) : Rat)"
            else:
                self.fail(e, "operand types")
            op = e.op
            if isinstance(op, ast.Add):
                return f"({a} + {b})", t, g
            if isinstance(op, ast.Sub):
                return f"({a} - {b})", t, g
            if isinstance(op, ast.Mult):
                return f"({a} * {b})", t, g
            nonzero_lit = (isinstance(e.right, ast.Constant)
                           and isinstance(e.right.value, int)
                           and e.right.value != 0)
            if not nonzero_lit:
                g = g + [f"({b} != 0)"]
            if isinstance(op, ast.Div):
                if t == "Int":
                    a, b, t = (f"(({a} : Int) : Rat)", f"(({b} : Int) : Rat)",
                               "Rat")
                return f"({a} / {b})", "Rat", g
            if isinstance(op, ast.FloorDiv) and t == "Int":
                return f"(Int.fdiv {a} {b})", "Int", g
            if isinstance(op, ast.Mod) and t == "Int":
                return f"(Int.fmod {a} {b})", "Int", g
            self.fail(e, "binary op")
        if isinstance(e, ast.Compare):
            if len(e.ops) != 1:
                self.fail(e, "chained comparison")
            a, ta, ga = self.expr(e.left, env)
            b, tb, gb = self.expr(e.comparators[0], env)
            op = e.ops[0]
            if isinstance(op, (ast.Is, ast.IsNot)):
                if tb != "Option Rounding" or ta != "Option Rounding":
                    self.fail(e, "is-comparison")
                sym = "==" if isinstance(op, ast.Is) else "!="
                return f"({a} {sym} {b})", "Bool", ga + gb
            if ta != tb:
                if {ta, tb} <= {"Int", "Rat"}:
                    if ta == "Int":
                        a = f"(({a} : Int) : Rat)"
                    if tb == "Int":
                        b = f"(({b} : Int) : Rat)"
                else:
                    self.fail(e, "comparison types")
            syms = {ast.Eq: "==", ast.NotEq: "!=", ast.Lt: "<", ast.LtE: "<=",
                    ast.Gt: ">", ast.GtE: ">="}
            if type(op) not in syms:
                self.fail(e, "comparison operator")
            sym = syms[type(op)]
            if sym in ("==", "!="):
                return f"({a} {sym} {b})", "Bool", ga + gb
            return f"(decide ({a} {sym} {b}))", "Bool", ga + gb
        if isinstance(e, ast.BoolOp):
            parts, g = [], []
            for v in e.values:
                s, t, gg = self.expr(v, env)
                if t != "Bool":
                    self.fail(v, "non-boolean in and/or")
                if gg and parts:
                    # a guard inside a short-circuited operand would change
                    # evaluation order; not needed for the kernels
                    self.fail(v, "division inside short-circuit operand")
                parts.append(s)
                g += gg
            sym = " && " if isinstance(e.op, ast.And) else " || "
            return "(" + sym.join(parts) + ")", "Bool", g
        if isinstance(e, ast.Call) and isinstance(e.func, ast.Name):
            if e.func.id == "abs" and len(e.args) == 1 and not e.keywords:
                v, t, g = self.expr(e.args[0], env)
                if t == "Int":
                    return f"(iabs {v})", "Int", g
                self.fail(e, "abs of non-int")
        self.fail(e, "expression")

    def guarded(self, guards, body):
        for g in reversed(guards):
            body = (f"if {g} then (\n{body}\n) else "
                    f".error Err.ZeroDivisionError")
        return body

    # ---- statements, continuation style
    def stmts(self, body, cont, env, ind):
        """Translate `body` followed by the statement list `cont`."""
        if not body:
            if not cont:
                raise Untranslatable("control reaches end of function")
            return self.stmts(cont, [], env, ind)
        st, rest = body[0], list(body[1:])
        pad = "  " * ind
        if isinstance(st, ast.Expr) and isinstance(st.value, ast.Constant):
            return self.stmts(rest, cont, env, ind)     # docstring
        if isinstance(st, ast.Return):
            v, t, g = self.expr(st.value, env)
            if t != self.ret_type:
                if t == "Int" and self.ret_type == "Rat":
                    v = f"(({v} : Int) : Rat)"
                else:
                    self.fail(st, f"return type {t}")
            return self.guarded(g, f".ok {v}")
        if isinstance(st, ast.Raise):
            exc = st.exc
            name = None
            if isinstance(exc, ast.Call) and isinstance(exc.func, ast.Name):
                name = exc.func.id
            elif isinstance(exc, ast.Name):
                name = exc.id
            if name not in ERRS:
                self.fail(st, "raise")
            return f".error Err.{name}"
        if isinstance(st, (ast.Assign, ast.AnnAssign)):
            if isinstance(st, ast.AnnAssign):
                targets, value = [st.target], st.value
            else:
                targets, value = st.targets, st.value
            if len(targets) != 1:
                self.fail(st, "multiple assignment")
            tgt = targets[0]
            env = dict(env)
            # divmod
            if (isinstance(tgt, ast.Tuple) and isinstance(value, ast.Call)
                    and isinstance(value.func, ast.Name)
                    and value.func.id == "divmod" and len(tgt.elts) == 2):
                a, ta, ga = self.expr(value.args[0], env)
                b, tb, gb = self.expr(value.args[1], env)
                if ta != "Int" or tb != "Int":
                    self.fail(st, "divmod of non-int")
                q, r = tgt.elts[0].id, tgt.elts[1].id
                env[q] = env[r] = "Int"
                inner = (f"let {q} := Int.fdiv {a} {b}\n{pad}"
                         f"let {r} := Int.fmod {a} {b}\n{pad}"
                         + self.stmts(rest, cont, env, ind))
                return self.guarded(ga + gb + [f"({b} != 0)"], inner)
            if isinstance(tgt, ast.Tuple) and isinstance(value, ast.Tuple) \
                    and len(tgt.elts) == len(value.elts):
                out, guards = "", []
                new = {}
                for t_, v_ in zip(tgt.elts, value.elts):
                    v, t, g = self.expr(v_, env)
                    guards += g
                    out += f"let {t_.id} := {v}\n{pad}"
                    new[t_.id] = t
                env.update(new)
                return self.guarded(guards,
                                    out + self.stmts(rest, cont, env, ind))
            if not isinstance(tgt, ast.Name):
                self.fail(st, "assignment target")
            # call of a known function -> bind
            if isinstance(value, ast.Call) and isinstance(value.func, ast.Name)\
                    and value.func.id in self.known:
                lname, argtys, rty = self.known[value.func.id]
                args, guards = [], []
                params = list(value.args) + [k.value for k in value.keywords]
                if len(params) != len(argtys):
                    self.fail(st, "call arity")
                for p, ty in zip(params, argtys):
                    v, t, g = self.expr(p, env)
                    if t != ty:
                        self.fail(p, f"argument type {t} != {ty}")
                    args.append(v)
                    guards += g
                env[tgt.id] = rty
                inner = (f"match {lname} {' '.join(args)} dflt with\n{pad}"
                         f"| .error e => .error e\n{pad}"
                         f"| .ok {tgt.id} =>\n{pad}  "
                         + self.stmts(rest, cont, env, ind + 1))
                return self.guarded(guards, inner)
            # rounding = get_dflt_rounding_mode()
            if isinstance(value, ast.Call) and isinstance(value.func, ast.Name)\
                    and value.func.id == "get_dflt_rounding_mode" \
                    and not value.args:
                env[tgt.id] = "Option Rounding"
                return (f"let {tgt.id} := some dflt\n{pad}"
                        + self.stmts(rest, cont, env, ind))
            v, t, g = self.expr(value, env)
            env[tgt.id] = t
            name = tgt.id if tgt.id != "self" else "self_"
            return self.guarded(g, f"let {name} := {v}\n{pad}"
                                + self.stmts(rest, cont, env, ind))
        if isinstance(st, ast.If):
            c, t, g = self.expr(st.test, env)
            if t != "Bool":
                self.fail(st.test, "non-boolean condition")
            # `if c: x = v` (no else, single assignment to a bound name)
            # becomes `let x := if c then v else x`
            if (not st.orelse and len(st.body) == 1
                    and isinstance(st.body[0], ast.Assign)
                    and len(st.body[0].targets) == 1
                    and isinstance(st.body[0].targets[0], ast.Name)
                    and st.body[0].targets[0].id in env and not g):
                name = st.body[0].targets[0].id
                val = st.body[0].value
                if (isinstance(val, ast.Call) and isinstance(val.func, ast.Name)
                        and val.func.id == "get_dflt_rounding_mode"
                        and not val.args):
                    v, tv, gv = "(some dflt)", "Option Rounding", []
                else:
                    v, tv, gv = self.expr(val, env)
                if tv == env[name] and not gv:
                    return (f"let {name} := if {c} then {v} else {name}\n{pad}"
                            + self.stmts(rest, cont, env, ind))
            then = self.stmts(st.body, rest + cont, env, ind + 1)
            els = self.stmts(st.orelse, rest + cont, env, ind + 1)
            return self.guarded(
                g, f"if {c} then\n{pad}  {then}\n{pad}else\n{pad}  {els}")
        self.fail(st, "statement")

    def function(self, fn: ast.FunctionDef, lean_name: str):
        env, params, argtys = {}, [], []
        for a in fn.args.args:
            if a.annotation is None:
                self.fail(a, "unannotated argument")
            t = self.ann(a.annotation)
            env[a.arg] = t
            argtys.append(t)
            pname = a.arg if a.arg != "self" else "self_"
            params.append(f"({pname} : {t})")
        self.ret_type = TYPE_MAP.get(ast.unparse(fn.returns))
        if self.ret_type is None:
            self.fail(fn, "return annotation")
        body = self.stmts(fn.body, [], env, 1)
        text = (f"def {lean_name} {' '.join(params)} (dflt : Rounding) : "
                f"Except Err {self.ret_type} :=\n  {body}\n")
        self.known[fn.name] = (lean_name, argtys, self.ret_type)
        return text


def _find_funcs(path, names):
    with open(path, encoding="utf-8") as f:
        tree = ast.parse(f.read())
    found = {}
    for node in tree.body:
        if isinstance(node, ast.FunctionDef) and node.name in names:
            found[node.name] = node
    missing = [n for n in names if n not in found]
    if missing:
        raise Untranslatable(f"{path}: function(s) not found: {missing}")
    return found


HEADER = ("-- GENERATED by /verif/harness/translate.py from {src}\n"
          "-- DO NOT EDIT: rewritten on every run of a check.\n")


def gen_floordiv(repo=REPO):
    src = os.path.join(repo, "src", "quantity", "__init__.py")
    fns = _find_funcs(src, ["_floordiv_rounded", "_quantize_fraction"])
    kt = KernelTranslator({})
    out = HEADER.format(src="src/quantity/__init__.py "
                        "(_floordiv_rounded, _quantize_fraction)")
    out += "import QuantityModel.Model.Basic\nnamespace QM.Gen\nopen QM\n\n"
    out += kt.function(fns["_floordiv_rounded"], "floordivRounded") + "\n"
    out += kt.function(fns["_quantize_fraction"], "quantizeFraction") + "\n"
    out += "end QM.Gen\n"
    return out


# --------------------------------------------------------------------------
# declarative data: SI prefixes, predefined catalogue, temperature table,
# documentation tables
# --------------------------------------------------------------------------

def lean_str(s):
    return '"' + s.replace("\\", "\\\\").replace('"', '\\"') + '"'


def lean_rat(fr):
    fr = Fraction(fr)
    if fr.denominator == 1:
        return f"({fr.numerator} : Rat)"
    return f"(({fr.numerator} : Rat) / {fr.denominator})"


def _prefixes_by_execution(repo):
    import json
    import subprocess
    code = ("import json, quantity.si_prefixes as m\n"
            "print(json.dumps({k: [v.name, v.abbr, v.exp] for k, v in vars(m).items() "
            "if isinstance(v, m.SIPrefix) and k.isupper()}))")
    py = "/venv/bin/python" if os.path.exists("/venv/bin/python") else sys.executable
    try:
        p = subprocess.run([py, "-c", code], capture_output=True, text=True, timeout=120,
                           env=dict(os.environ, PYTHONPATH=os.path.join(repo, "src"),
                                    DECIMALFP_FORCE_PYTHON_IMPL="1"))
        data = json.loads(p.stdout)
    except Exception:      # noqa: BLE001
        return {}
    out = {}
    for k, (name, abbr, exp) in data.items():
        if isinstance(name, str) and isinstance(abbr, str) and isinstance(exp, int):
            out[k] = (name, abbr, exp)
    return out


def parse_prefixes(repo=REPO):
    """NAME -> (name, abbr, exp) from si_prefixes.py (SIPrefix(...) calls)."""
    path = os.path.join(repo, "src", "quantity", "si_prefixes.py")
    with open(path, encoding="utf-8") as f:
        tree = ast.parse(f.read())
    out = {}
    factor_src = None
    for node in tree.body:
        if isinstance(node, ast.ClassDef) and node.name == "SIPrefix":
            for item in node.body:
                if isinstance(item, ast.FunctionDef) and item.name == "factor":
                    factor_src = ast.unparse(item.body[-1])
        if (isinstance(node, ast.Assign) and len(node.targets) == 1
                and isinstance(node.targets[0], ast.Name)
                and isinstance(node.value, ast.Call)
                and isinstance(node.value.func, ast.Name)
                and node.value.func.id == "SIPrefix"):
            args = [ast.literal_eval(a) for a in node.value.args]
            if len(args) != 3 or not isinstance(args[2], int):
                raise Untranslatable(f"si_prefixes.py line {node.lineno}")
            out[node.targets[0].id] = tuple(args)
    if factor_src != "return Decimal(10) ** self.exp":
        raise Untranslatable("SIPrefix.factor is no longer "
                             f"'Decimal(10) ** self.exp': {factor_src!r}")
    if not out:
        # the constants are not written as `NAME = SIPrefix(...)` statements
        # (built in a loop, from a table, ...): read them off the EXECUTED
        # module instead - the data the code itself constructs (fresh
        # interpreter, the repository's own sources)
        out = _prefixes_by_execution(repo)
    if not out:
        raise Untranslatable("no SIPrefix definitions found")
    return out


def gen_prefixes(repo=REPO):
    pf = parse_prefixes(repo)
    out = HEADER.format(src="src/quantity/si_prefixes.py")
    out += "import QuantityModel.Model.Basic\nnamespace QM.Gen\n\n"
    out += ("/-- (constant, name, abbreviation, exponent); "
            "`factor = Decimal(10) ** exp` -/\n")
    out += "def siPrefixes : List (String × String × String × Int) := [\n"
    out += ",\n".join(f"  ({lean_str(k)}, {lean_str(n)}, {lean_str(a)}, {e})"
                      for k, (n, a, e) in pf.items())
    out += "]\n\nend QM.Gen\n"
    return out


SUPS = {1: "", 2: "²", 3: "³", 4: "⁴", 5: "⁵",
        6: "⁶", 7: "⁷", 8: "⁸", 9: "⁹"}


def render_symbol(items):
    pos, neg = [], []
    for sym, e in items:
        parts = sym.split("/")
        if len(parts) > 2 or abs(e) not in SUPS:
            raise Untranslatable(f"cannot render default symbol of {items}")
        for i, p in enumerate(parts):
            ee = e if i == 0 else -e
            (pos if ee > 0 else neg).append(p + SUPS[abs(e)])
    out = "·".join(pos) if pos else "1"
    if neg:
        out += "/" + "·".join(neg)
    return out


class Catalogue:
    """Symbolic execution of predefined.py as a declaration script."""

    def __init__(self, repo=REPO):
        self.prefixes = {k: Fraction(10) ** e
                         for k, (_, _, e) in parse_prefixes(repo).items()}
        self.classes = {}      # python name -> dict(id, ref(sym|None), items)
        self.units = {}        # python var -> symbol
        self.unit_ids = {}     # symbol -> id
        self.unit_cls = {}     # symbol -> class name
        self.steps = []        # protocol ops
        self.lean = []         # Lean CatStep constructors
        self.temp_rows = None
        self.temp_registered = False
        path = os.path.join(repo, "src", "quantity", "predefined.py")
        with open(path, encoding="utf-8") as f:
            self.src = f.read()
        self.tree = ast.parse(self.src)
        self.doc = ast.get_docstring(self.tree, clean=False) or ""
        self.class_ids = {"Quantity": 0}
        self.run()

    # -- numbers (Python semantics, exact) --------------------------------
    def num(self, e):
        if isinstance(e, ast.Constant) and isinstance(e.value, (int, float)) \
                and not isinstance(e.value, bool):
            return Fraction(e.value)          # a float literal: exact binary
        if isinstance(e, ast.UnaryOp) and isinstance(e.op, ast.USub):
            return -self.num(e.operand)
        if isinstance(e, ast.Call) and isinstance(e.func, ast.Name) \
                and not e.keywords:
            fn, args = e.func.id, e.args
            if fn == "Decimal" and len(args) == 1:
                a = args[0]
                if isinstance(a, ast.Constant) and isinstance(a.value, str):
                    try:
                        return Fraction(a.value)
                    except ValueError:
                        pass
                else:
                    return self.num(a)
            if fn == "Fraction" and len(args) == 2:
                return Fraction(self.num(args[0]), self.num(args[1]))
            if fn == "Fraction" and len(args) == 1:
                return self.num(args[0])
        if isinstance(e, ast.BinOp):
            if isinstance(e.op, ast.Pow):
                b, x = self.num(e.left), self.num(e.right)
                if x.denominator == 1:
                    return b ** int(x)
            if isinstance(e.op, ast.Mult):
                return self.num(e.left) * self.num(e.right)
            if isinstance(e.op, ast.Div):
                return self.num(e.left) / self.num(e.right)
        if isinstance(e, ast.Name) and e.id in self.prefixes:
            return self.prefixes[e.id]
        raise Untranslatable(f"predefined.py line {e.lineno}: unsupported "
                             f"number {ast.unparse(e)}")

    def is_unit(self, e):
        return isinstance(e, ast.Name) and e.id in self.units

    # -- class definition terms -------------------------------------------
    def cls_items(self, e, sign=1):
        if isinstance(e, ast.Name) and e.id in self.classes:
            return [(e.id, sign)]
        if isinstance(e, ast.BinOp):
            if isinstance(e.op, ast.Mult):
                return self.cls_items(e.left, sign) + self.cls_items(e.right, sign)
            if isinstance(e.op, ast.Div):
                return self.cls_items(e.left, sign) + self.cls_items(e.right, -sign)
            if isinstance(e.op, ast.Pow):
                n = self.num(e.right)
                if n.denominator == 1:
                    return [(c, x * int(n)) for c, x in self.cls_items(e.left, sign)]
        raise Untranslatable(f"predefined.py line {e.lineno}: unsupported "
                             f"class definition {ast.unparse(e)}")

    def add_unit(self, var, sym, cls):
        if sym in self.unit_ids:
            raise Untranslatable(f"symbol {sym!r} declared twice")
        self.unit_ids[sym] = len(self.unit_ids)
        self.unit_cls[sym] = cls
        if var:
            self.units[var] = sym

    def fmt_uitems(self, num, items):
        parts = []
        if num is not None:
            parts.append(f"n:{num.numerator}/{num.denominator}^1")
        parts += [f"u:{self.units[v]}^{e}" for v, e in items]
        return ";".join(parts) if parts else "-"

    def lean_items(self, num, items):
        parts = []
        if num is not None:
            parts.append(f"(.num {lean_rat(num)}, 1)")
        parts += [f"(.atom {self.unit_ids[self.units[v]]}, {e})" for v, e in items]
        return "[" + ", ".join(parts) + "]"

    # -- statements --------------------------------------------------------
    def run(self):
        for node in self.tree.body:
            self.stmt(node)

    def kw(self, call_or_cls):
        kws = {}
        for k in call_or_cls.keywords:
            if k.arg is None:
                raise Untranslatable("**kwargs in predefined.py")
            kws[k.arg] = k.value
        return kws

    def stmt(self, node):
        if isinstance(node, ast.Expr) and isinstance(node.value, ast.Constant):
            return
        if isinstance(node, (ast.Import, ast.ImportFrom, ast.Assert)):
            return
        if isinstance(node, ast.ClassDef):
            return self.classdef(node)
        if isinstance(node, ast.Assign) and len(node.targets) == 1 \
                and isinstance(node.targets[0], ast.Name):
            var, val = node.targets[0].id, node.value
            if var == "__all__":
                return
            if var == "_temp_conv":
                return self.temp_table(val)
            # X = Cls.ref_unit
            if isinstance(val, ast.Attribute) and val.attr == "ref_unit" \
                    and isinstance(val.value, ast.Name) \
                    and val.value.id in self.classes:
                ref = self.classes[val.value.id]["ref"]
                if ref is None:
                    raise Untranslatable(f"{val.value.id} has no reference unit")
                self.units[var] = ref
                return
            if isinstance(val, ast.Call) and isinstance(val.func, ast.Attribute) \
                    and isinstance(val.func.value, ast.Name) \
                    and val.func.value.id in self.classes:
                cls, meth = val.func.value.id, val.func.attr
                if meth == "new_unit":
                    return self.new_unit(var, cls, val)
                if meth == "derive_unit_from":
                    return self.derive(var, cls, val)
        if isinstance(node, ast.Expr) and isinstance(node.value, ast.Call):
            c = node.value
            if ast.unparse(c) == "Temperature.register_converter(TableConverter(_temp_conv))":
                self.temp_registered = True
                return
        raise Untranslatable(f"predefined.py line {node.lineno}: unsupported "
                             f"statement {ast.unparse(node)[:80]}")

    def classdef(self, node):
        if [ast.unparse(b) for b in node.bases] != ["Quantity"]:
            raise Untranslatable(f"class {node.name}: unexpected bases")
        kws = self.kw(node)
        extra = set(kws) - {"define_as", "ref_unit_name", "ref_unit_symbol", "quantum"}
        if extra:
            raise Untranslatable(f"class {node.name}: keywords {extra}")
        items = self.cls_items(kws["define_as"]) if "define_as" in kws else None
        sym = ast.literal_eval(kws["ref_unit_symbol"]) if "ref_unit_symbol" in kws else None
        has_name = "ref_unit_name" in kws
        quantum = self.num(kws["quantum"]) if "quantum" in kws else None
        ref = sym
        if not sym and items is not None and all(self.classes[c]["ref"] for c, _ in items):
            merged = {}
            for c, e in items:
                merged[c] = merged.get(c, 0) + e
            ref = render_symbol([(self.classes[c]["ref"], e)
                                 for c, e in merged.items() if e != 0])
        cid = len(self.class_ids)
        self.class_ids[node.name] = cid
        self.classes[node.name] = dict(id=cid, ref=ref or None, items=items)
        cdef = ";".join(f"c:{c}^{e}" for c, e in items) if items else "-"
        self.steps.append(["decl_class", node.name, cdef, sym if sym else "-",
                           "1" if has_name else "0",
                           "-" if quantum is None else f"{quantum.numerator}/{quantum.denominator}"])
        lean_def = "none" if items is None else "(some [" + ", ".join(
            f"(.atom {self.class_ids[c]}, {e})" for c, e in items) + "])"
        self.lean.append(f".cls {lean_str(node.name)} {lean_def} "
                         f"{'(some ' + lean_str(sym) + ')' if sym else 'none'} "
                         f"{'true' if has_name else 'false'} "
                         f"{'none' if quantum is None else '(some ' + lean_rat(quantum) + ')'}")
        if ref:
            self.add_unit(None, ref, node.name)

    def new_unit(self, var, cls, call):
        args = list(call.args)
        kws = self.kw(call)
        names = ["symbol", "name", "define_as"]
        for i, a in enumerate(args):
            kws[names[i]] = a
        sym = ast.literal_eval(kws["symbol"])
        d = kws.get("define_as")
        cid = self.classes[cls]["id"]
        if d is None:
            self.steps.append(["new_unit", cls, sym, "none"])
            self.lean.append(f".unitNone {cid} {lean_str(sym)}")
        elif isinstance(d, ast.Call) and ast.unparse(d.func) == "Term":
            tup = ast.literal_eval(ast.unparse(d.args[0]).replace("(", "(").replace(")", ")")) \
                if False else None
            items = []
            for elt in d.args[0].elts:
                u, e = elt.elts
                if not self.is_unit(u):
                    raise Untranslatable(f"line {d.lineno}: Term element {ast.unparse(u)}")
                items.append((u.id, int(self.num(e))))
            self.steps.append(["new_unit", cls, sym, "term", self.fmt_uitems(None, items)])
            self.lean.append(f".unitTerm {cid} {lean_str(sym)} {self.lean_items(None, items)}")
        elif isinstance(d, ast.BinOp) and isinstance(d.op, ast.Mult) and \
                (self.is_unit(d.right) or self.is_unit(d.left)):
            # `number * UNIT` or `UNIT * number`: the quantity `number UNIT` either
            # way (what the translation says is compared with the imported
            # catalogue on every run: C20's directory dump)
            un, nu = (d.right, d.left) if self.is_unit(d.right) else (d.left, d.right)
            k = self.num(nu)
            usym = self.units[un.id]
            self.steps.append(["new_unit", cls, sym, "qty", f"{k.numerator}/{k.denominator}",
                               usym, "ROUND_HALF_EVEN"])
            self.lean.append(f".unitQty {cid} {lean_str(sym)} {lean_rat(k)} {self.unit_ids[usym]}")
        else:
            raise Untranslatable(f"predefined.py line {call.lineno}: unsupported "
                                 f"definition {ast.unparse(d)}")
        self.add_unit(var, sym, cls)

    def derive(self, var, cls, call):
        kws = self.kw(call)
        for a in call.args:
            if not self.is_unit(a):
                raise Untranslatable(f"line {call.lineno}: {ast.unparse(a)} is not a unit")
        args = [a.id for a in call.args]
        sym = ast.literal_eval(kws["symbol"]) if "symbol" in kws else None
        items = self.classes[cls]["items"]
        if items is None or len(items) != len(args):
            raise Untranslatable(f"line {call.lineno}: derive_unit_from arity")
        auto = sym or render_symbol([(self.units[a], e) for a, (_, e) in zip(args, items)])
        cid = self.classes[cls]["id"]
        self.steps.append(["derive_unit", cls, ",".join(self.units[a] for a in args),
                           sym if sym else "-"])
        self.lean.append(f".derive {cid} [{', '.join(str(self.unit_ids[self.units[a]]) for a in args)}] "
                         f"{'(some ' + lean_str(sym) + ')' if sym else 'none'}")
        self.add_unit(var, auto, cls)

    def temp_table(self, val):
        rows = []
        if not isinstance(val, ast.List):
            raise Untranslatable("_temp_conv is not a list literal")
        for elt in val.elts:
            f, t, k, o = elt.elts
            if not (self.is_unit(f) and self.is_unit(t)):
                raise Untranslatable("_temp_conv row units")
            rows.append((self.units[f.id], self.units[t.id], self.num(k), self.num(o)))
        self.temp_rows = rows


def gen_catalogue(repo=REPO):
    cat = Catalogue(repo)
    out = HEADER.format(src="src/quantity/predefined.py (declaration script)")
    out += ("import QuantityModel.Model.Catalogue\nnamespace QM.Gen\nopen QM\n\n"
            "/-- the declarations of predefined.py in source order -/\n"
            "def catalogueSteps : List CatStep := [\n  ")
    out += ",\n  ".join(cat.lean)
    out += "]\n\n"
    out += ("/-- symbols in creation order (unit id = position) -/\n"
            "def catalogueSymbols : List String := [" +
            ", ".join(lean_str(s) for s in cat.unit_ids) + "]\n\n")
    out += "end QM.Gen\n"
    return out


def catalogue_ops(repo=REPO):
    """Protocol lines that replay predefined.py on the model."""
    cat = Catalogue(repo)
    ops = list(cat.steps)
    if cat.temp_rows is not None and cat.temp_registered:
        ops.append(["conv_table", "Temperature",
                    ";".join(f"{f}>{t}:{k.numerator}/{k.denominator}:{o.numerator}/{o.denominator}"
                             for f, t, k, o in cat.temp_rows)])
    return ops, cat


def gen_temptable(repo=REPO):
    cat = Catalogue(repo)
    if cat.temp_rows is None or not cat.temp_registered:
        raise Untranslatable("temperature table / its registration not found")
    out = HEADER.format(src="src/quantity/predefined.py (_temp_conv)")
    out += "import QuantityModel.Model.Basic\nnamespace QM.Gen\n\n"
    out += ("/-- rows (from, to, factor, offset): "
            "`to = from * factor + offset` -/\n"
            "def tempTable : List (String × String × Rat × Rat) := [\n  ")
    out += ",\n  ".join(f"({lean_str(f)}, {lean_str(t)}, {lean_rat(k)}, {lean_rat(o)})"
                        for f, t, k, o in cat.temp_rows)
    out += "]\n\nend QM.Gen\n"
    return out


def parse_doc_tables(doc):
    """Rows of the reST tables of predefined.__doc__:
    (section, symbol, name, definition, equivalent-text)."""
    rows, section, in_table, header = [], None, False, None
    lines = doc.splitlines()
    for i, line in enumerate(lines):
        if i + 1 < len(lines) and set(lines[i + 1]) == {"^"} and line.strip():
            section = line.strip()
        if line.startswith("======"):
            cols = [(m.start(), m.end()) for m in re.finditer(r"=+", line)]
            if not in_table:
                in_table, header, hcols = True, None, cols
            elif header is None:
                pass
            continue
        if in_table and header is None:
            header = line
            continue
        if in_table:
            if not line.strip():
                in_table = False
                continue
            cells = [line[a:(b if j + 1 < len(hcols) else None)].strip()
                     for j, (a, b) in enumerate(hcols)]
            rows.append((section, header, cells))
        if not line.strip():
            in_table = False
    return rows


def gen_doctables(repo=REPO):
    cat = Catalogue(repo)
    rows = parse_doc_tables(cat.doc)
    lin = []
    for section, header, cells in rows:
        if "Equivalent in" in header and len(cells) == 4:
            sym, name, definition, eq = cells
            try:
                val = Fraction(eq)
            except ValueError:
                raise Untranslatable(f"doc table {section}: equivalent {eq!r}")
            m = re.search(r"Equivalent in '([^']+)'", header)
            lin.append((section, sym, m.group(1), val))
    if len(lin) < 50:
        raise Untranslatable(f"only {len(lin)} documentation rows found")
    out = HEADER.format(src="src/quantity/predefined.py (module docstring)")
    out += "import QuantityModel.Model.Basic\nnamespace QM.Gen\n\n"
    out += ("/-- (section, symbol, reference symbol, tabulated equivalent) -/\n"
            "def docRows : List (String × String × String × Rat) := [\n  ")
    out += ",\n  ".join(f"({lean_str(a)}, {lean_str(b)}, {lean_str(c)}, {lean_rat(d)})"
                        for a, b, c, d in lin)
    out += "]\n\n"
    temp = [cells for section, header, cells in rows
            if section == "Temperature" and "Equivalents" in header]
    out += ("/-- temperature rows: (symbol, text of the equivalents) -/\n"
            "def docTempRows : List (String × String) := [\n  ")
    out += ",\n  ".join(f"({lean_str(c[0])}, {lean_str(c[2])})" for c in temp)
    out += "]\n\nend QM.Gen\n"
    return out


# --------------------------------------------------------------------------
# driver
# --------------------------------------------------------------------------

def parse_iso4217(repo=REPO):
    """Independent reading of the bundled ISO 4217 table (NOT via
    currencies.py): first entry per code with numeric number and minor units."""
    path = os.path.join(repo, "src", "quantity", "money", "iso_4217.xml")
    root = ET.parse(path).getroot()
    table, seen = [], set()
    for entry in root.iter("CcyNtry"):
        d = {child.tag: (child.text or "") for child in entry}
        if len(list(entry)) != 5:
            continue
        code, num, minor = d.get("Ccy", ""), d.get("CcyNbr", ""), d.get("CcyMnrUnts", "")
        if not (num.isdigit() and minor.isdigit()) or not code:
            continue
        if code in seen:
            continue
        seen.add(code)
        table.append((code, d.get("CcyNm", ""), int(minor)))
    if len(table) < 100:
        raise Untranslatable(f"only {len(table)} currencies found in iso_4217.xml")
    return table


def gen_iso4217(repo=REPO):
    table = parse_iso4217(repo)
    out = HEADER.format(src="src/quantity/money/iso_4217.xml (parsed by the "
                        "translator, not by currencies.py)")
    out += "import QuantityModel.Model.Basic\nnamespace QM.Gen\n\n"
    out += ("/-- (ISO code, currency name, minor units) -/\n"
            "def isoTable : List (String × String × Nat) := [\n  ")
    out += ",\n  ".join(f"({lean_str(c)}, {lean_str(n)}, {m})" for c, n, m in table)
    out += "]\n\nend QM.Gen\n"
    return out


GENERATORS = {
    "FloorDiv.lean": gen_floordiv,
    "Prefixes.lean": gen_prefixes,
    "Catalogue.lean": gen_catalogue,
    "TempTable.lean": gen_temptable,
    "DocTables.lean": gen_doctables,
    "Iso4217.lean": gen_iso4217,
}


def write_if_changed(path, text):
    try:
        with open(path, encoding="utf-8") as f:
            if f.read() == text:
                return False
    except FileNotFoundError:
        pass
    tmp = path + ".tmp"
    with open(tmp, "w", encoding="utf-8") as f:
        f.write(text)
    os.replace(tmp, path)
    return True


def regenerate(repo=REPO, only=None):
    """Regenerate Gen/*.lean.  Returns (changed, errors)."""
    os.makedirs(GEN_DIR, exist_ok=True)
    changed, errors = [], {}
    for name, fn in GENERATORS.items():
        if only and name not in only:
            continue
        try:
            text = fn(repo)
        except Exception as exc:      # noqa: BLE001
            # whatever the translator cannot digest - outside its Python subset,
            # or a construct it did not anticipate - breaks the tie; it never
            # crashes the check (the check then looks for a failing input)
            errors[name] = f"{type(exc).__name__}: {exc}"
            continue
        if write_if_changed(os.path.join(GEN_DIR, name), text):
            changed.append(name)
    return changed, errors


if __name__ == "__main__":
    ch, errs = regenerate()
    print("changed:", ch)
    for k, v in errs.items():
        print("ERROR", k, v)
    sys.exit(1 if errs else 0)
