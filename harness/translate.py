#!/usr/bin/env python3
"""Translators: /repo source -> Lean (`lean/QuantityModel/Gen/*.lean`).

Every `Gen/` file is regenerated from /repo's *working tree* on every run of a
check; a file is rewritten only when its content changes (so an unchanged tree
costs a no-op `lake build`).  A construct outside the supported subset raises
`Untranslatable` -- the tie is then broken and the check starts the failing
input search (DESIGN.md section 8).

Supported subset for kernels (`_floordiv_rounded`, `_quantize_fraction`):
int / Fraction arithmetic (+ - * / // %), `divmod`, `abs`, comparisons,
`and`/`or`/`not`, `is None`, `if/elif/else`, tuple assignment, `return`,
`raise`, calls of other translated functions, `.numerator/.denominator`.
Python `//` and `%` become `Int.fdiv` / `Int.fmod` (floor semantics); every
division by a non-literal is guarded by an explicit ZeroDivisionError branch.
"""
from __future__ import annotations

import ast
import os
import re
import sys
import xml.etree.ElementTree as ET
from fractions import Fraction

REPO = os.environ.get("QUANTITY_REPO", "/repo")
HERE = os.path.dirname(os.path.abspath(__file__))
GEN_DIR = os.path.join(os.path.dirname(HERE), "lean", "QuantityModel", "Gen")


class Untranslatable(Exception):
    pass


# --------------------------------------------------------------------------
# kernel translator (Python AST -> Lean expression in the Except monad)
# --------------------------------------------------------------------------

ROUNDINGS = ["ROUND_05UP", "ROUND_CEILING", "ROUND_DOWN", "ROUND_FLOOR",
             "ROUND_HALF_DOWN", "ROUND_HALF_EVEN", "ROUND_HALF_UP",
             "ROUND_UP"]

ERRS = {"TypeError", "ValueError", "QuantityError", "ZeroDivisionError",
        "AssertionError", "KeyError", "IndexError", "OverflowError"}

TYPE_MAP = {"int": "Int", "Fraction": "Rat", "Rational": "Rat",
            "Optional[ROUNDING]": "Option Rounding"}


class KernelTranslator:
    """Translate one module-level function into a Lean `def`."""

    def __init__(self, known_funcs):
        # name -> (lean name, arg types, return type)
        self.known = dict(known_funcs)

    def fail(self, node, what):
        raise Untranslatable(
            f"line {getattr(node, 'lineno', '?')}: unsupported {what}: "
            f"{ast.dump(node)[:120]}")

    # ---- types
    def ann(self, node):
        s = ast.unparse(node)
        if s not in TYPE_MAP:
            self.fail(node, "annotation")
        return TYPE_MAP[s]

    # ---- expressions: returns (lean text, type, guards)
    # guards: list of lean boolean texts that must hold, else ZeroDivisionError
    def expr(self, e, env):
        if isinstance(e, ast.Constant):
            if isinstance(e.value, bool) or not isinstance(e.value, int):
                if e.value is None:
                    return "none", "Option Rounding", []
                self.fail(e, "constant")
            return (f"({e.value} : Int)", "Int", [])
        if isinstance(e, ast.Name):
            if e.id not in env:
                self.fail(e, "free name")
            return e.id if e.id != "self" else "self_", env[e.id], []
        if isinstance(e, ast.Attribute):
            if (isinstance(e.value, ast.Name) and e.value.id == "ROUNDING"
                    and e.attr in ROUNDINGS):
                return f"(some Rounding.{e.attr})", "Option Rounding", []
            v, t, g = self.expr(e.value, env)
            if t == "Rat" and e.attr == "numerator":
                return f"({v}).num", "Int", g
            if t == "Rat" and e.attr == "denominator":
                return f"(({v}).den : Int)", "Int", g
            self.fail(e, "attribute")
        if isinstance(e, ast.UnaryOp):
            v, t, g = self.expr(e.operand, env)
            if isinstance(e.op, ast.USub) and t in ("Int", "Rat"):
                return f"(-{v})", t, g
            if isinstance(e.op, ast.Not) and t == "Bool":
                return f"(!{v})", "Bool", g
            self.fail(e, "unary op")
        if isinstance(e, ast.BinOp):
            a, ta, ga = self.expr(e.left, env)
            b, tb, gb = self.expr(e.right, env)
            g = ga + gb
            if ta == tb == "Int":
                t = "Int"
            elif {ta, tb} <= {"Int", "Rat"}:
                t = "Rat"
                if ta == "Int":
                    a = f"(({a} : Int) : Rat)"
                if tb == "Int":
                    b = f"(({b} : Int) : Rat)"
            else:
                self.fail(e, "operand types")
            op = e.op
            if isinstance(op, ast.Add):
                return f"({a} + {b})", t, g
            if isinstance(op, ast.Sub):
                return f"({a} - {b})", t, g
            if isinstance(op, ast.Mult):
                return f"({a} * {b})", t, g
            nonzero_lit = (isinstance(e.right, ast.Constant)
                           and isinstance(e.right.value, int)
                           and e.right.value != 0)
            if not nonzero_lit:
                g = g + [f"({b} != 0)"]
            if isinstance(op, ast.Div):
                if t == "Int":
                    a, b, t = (f"(({a} : Int) : Rat)", f"(({b} : Int) : Rat)",
                               "Rat")
                return f"({a} / {b})", "Rat", g
            if isinstance(op, ast.FloorDiv) and t == "Int":
                return f"(Int.fdiv {a} {b})", "Int", g
            if isinstance(op, ast.Mod) and t == "Int":
                return f"(Int.fmod {a} {b})", "Int", g
            self.fail(e, "binary op")
        if isinstance(e, ast.Compare):
            if len(e.ops) != 1:
                self.fail(e, "chained comparison")
            a, ta, ga = self.expr(e.left, env)
            b, tb, gb = self.expr(e.comparators[0], env)
            op = e.ops[0]
            if isinstance(op, (ast.Is, ast.IsNot)):
                if tb != "Option Rounding" or ta != "Option Rounding":
                    self.fail(e, "is-comparison")
                sym = "==" if isinstance(op, ast.Is) else "!="
                return f"({a} {sym} {b})", "Bool", ga + gb
            if ta != tb:
                if {ta, tb} <= {"Int", "Rat"}:
                    if ta == "Int":
                        a = f"(({a} : Int) : Rat)"
                    if tb == "Int":
                        b = f"(({b} : Int) : Rat)"
                else:
                    self.fail(e, "comparison types")
            syms = {ast.Eq: "==", ast.NotEq: "!=", ast.Lt: "<", ast.LtE: "<=",
                    ast.Gt: ">", ast.GtE: ">="}
            if type(op) not in syms:
                self.fail(e, "comparison operator")
            sym = syms[type(op)]
            if sym in ("==", "!="):
                return f"({a} {sym} {b})", "Bool", ga + gb
            return f"(decide ({a} {sym} {b}))", "Bool", ga + gb
        if isinstance(e, ast.BoolOp):
            parts, g = [], []
            for v in e.values:
                s, t, gg = self.expr(v, env)
                if t != "Bool":
                    self.fail(v, "non-boolean in and/or")
                if gg and parts:
                    # a guard inside a short-circuited operand would change
                    # evaluation order; not needed for the kernels
                    self.fail(v, "division inside short-circuit operand")
                parts.append(s)
                g += gg
            sym = " && " if isinstance(e.op, ast.And) else " || "
            return "(" + sym.join(parts) + ")", "Bool", g
        if isinstance(e, ast.Call) and isinstance(e.func, ast.Name):
            if e.func.id == "abs" and len(e.args) == 1 and not e.keywords:
                v, t, g = self.expr(e.args[0], env)
                if t == "Int":
                    return f"(iabs {v})", "Int", g
                self.fail(e, "abs of non-int")
        self.fail(e, "expression")

    def guarded(self, guards, body):
        for g in reversed(guards):
            body = (f"if {g} then (\n{body}\n) else "
                    f".error Err.ZeroDivisionError")
        return body

    # ---- statements, continuation style
    def stmts(self, body, cont, env, ind):
        """Translate `body` followed by the statement list `cont`."""
        if not body:
            if not cont:
                raise Untranslatable("control reaches end of function")
            return self.stmts(cont, [], env, ind)
        st, rest = body[0], list(body[1:])
        pad = "  " * ind
        if isinstance(st, ast.Expr) and isinstance(st.value, ast.Constant):
            return self.stmts(rest, cont, env, ind)     # docstring
        if isinstance(st, ast.Return):
            v, t, g = self.expr(st.value, env)
            if t != self.ret_type:
                if t == "Int" and self.ret_type == "Rat":
                    v = f"(({v} : Int) : Rat)"
                else:
                    self.fail(st, f"return type {t}")
            return self.guarded(g, f".ok {v}")
        if isinstance(st, ast.Raise):
            exc = st.exc
            name = None
            if isinstance(exc, ast.Call) and isinstance(exc.func, ast.Name):
                name = exc.func.id
            elif isinstance(exc, ast.Name):
                name = exc.id
            if name not in ERRS:
                self.fail(st, "raise")
            return f".error Err.{name}"
        if isinstance(st, (ast.Assign, ast.AnnAssign)):
            if isinstance(st, ast.AnnAssign):
                targets, value = [st.target], st.value
            else:
                targets, value = st.targets, st.value
            if len(targets) != 1:
                self.fail(st, "multiple assignment")
            tgt = targets[0]
            env = dict(env)
            # divmod
            if (isinstance(tgt, ast.Tuple) and isinstance(value, ast.Call)
                    and isinstance(value.func, ast.Name)
                    and value.func.id == "divmod" and len(tgt.elts) == 2):
                a, ta, ga = self.expr(value.args[0], env)
                b, tb, gb = self.expr(value.args[1], env)
                if ta != "Int" or tb != "Int":
                    self.fail(st, "divmod of non-int")
                q, r = tgt.elts[0].id, tgt.elts[1].id
                env[q] = env[r] = "Int"
                inner = (f"let {q} := Int.fdiv {a} {b}\n{pad}"
                         f"let {r} := Int.fmod {a} {b}\n{pad}"
                         + self.stmts(rest, cont, env, ind))
                return self.guarded(ga + gb + [f"({b} != 0)"], inner)
            if isinstance(tgt, ast.Tuple) and isinstance(value, ast.Tuple) \
                    and len(tgt.elts) == len(value.elts):
                out, guards = "", []
                new = {}
                for t_, v_ in zip(tgt.elts, value.elts):
                    v, t, g = self.expr(v_, env)
                    guards += g
                    out += f"let {t_.id} := {v}\n{pad}"
                    new[t_.id] = t
                env.update(new)
                return self.guarded(guards,
                                    out + self.stmts(rest, cont, env, ind))
            if not isinstance(tgt, ast.Name):
                self.fail(st, "assignment target")
            # call of a known function -> bind
            if isinstance(value, ast.Call) and isinstance(value.func, ast.Name)\
                    and value.func.id in self.known:
                lname, argtys, rty = self.known[value.func.id]
                args, guards = [], []
                params = list(value.args) + [k.value for k in value.keywords]
                if len(params) != len(argtys):
                    self.fail(st, "call arity")
                for p, ty in zip(params, argtys):
                    v, t, g = self.expr(p, env)
                    if t != ty:
                        self.fail(p, f"argument type {t} != {ty}")
                    args.append(v)
                    guards += g
                env[tgt.id] = rty
                inner = (f"match {lname} {' '.join(args)} dflt with\n{pad}"
                         f"| .error e => .error e\n{pad}"
                         f"| .ok {tgt.id} =>\n{pad}  "
                         + self.stmts(rest, cont, env, ind + 1))
                return self.guarded(guards, inner)
            # rounding = get_dflt_rounding_mode()
            if isinstance(value, ast.Call) and isinstance(value.func, ast.Name)\
                    and value.func.id == "get_dflt_rounding_mode" \
                    and not value.args:
                env[tgt.id] = "Option Rounding"
                return (f"let {tgt.id} := some dflt\n{pad}"
                        + self.stmts(rest, cont, env, ind))
            v, t, g = self.expr(value, env)
            env[tgt.id] = t
            name = tgt.id if tgt.id != "self" else "self_"
            return self.guarded(g, f"let {name} := {v}\n{pad}"
                                + self.stmts(rest, cont, env, ind))
        if isinstance(st, ast.If):
            c, t, g = self.expr(st.test, env)
            if t != "Bool":
                self.fail(st.test, "non-boolean condition")
            # `if c: x = v` (no else, single assignment to a bound name)
            # becomes `let x := if c then v else x`
            if (not st.orelse and len(st.body) == 1
                    and isinstance(st.body[0], ast.Assign)
                    and len(st.body[0].targets) == 1
                    and isinstance(st.body[0].targets[0], ast.Name)
                    and st.body[0].targets[0].id in env and not g):
                name = st.body[0].targets[0].id
                val = st.body[0].value
                if (isinstance(val, ast.Call) and isinstance(val.func, ast.Name)
                        and val.func.id == "get_dflt_rounding_mode"
                        and not val.args):
                    v, tv, gv = "(some dflt)", "Option Rounding", []
                else:
                    v, tv, gv = self.expr(val, env)
                if tv == env[name] and not gv:
                    return (f"let {name} := if {c} then {v} else {name}\n{pad}"
                            + self.stmts(rest, cont, env, ind))
            then = self.stmts(st.body, rest + cont, env, ind + 1)
            els = self.stmts(st.orelse, rest + cont, env, ind + 1)
            return self.guarded(
                g, f"if {c} then\n{pad}  {then}\n{pad}else\n{pad}  {els}")
        self.fail(st, "statement")

    def function(self, fn: ast.FunctionDef, lean_name: str):
        env, params, argtys = {}, [], []
        for a in fn.args.args:
            if a.annotation is None:
                self.fail(a, "unannotated argument")
            t = self.ann(a.annotation)
            env[a.arg] = t
            argtys.append(t)
            pname = a.arg if a.arg != "self" else "self_"
            params.append(f"({pname} : {t})")
        self.ret_type = TYPE_MAP.get(ast.unparse(fn.returns))
        if self.ret_type is None:
            self.fail(fn, "return annotation")
        body = self.stmts(fn.body, [], env, 1)
        text = (f"def {lean_name} {' '.join(params)} (dflt : Rounding) : "
                f"Except Err {self.ret_type} :=\n  {body}\n")
        self.known[fn.name] = (lean_name, argtys, self.ret_type)
        return text


def _find_funcs(path, names):
    with open(path, encoding="utf-8") as f:
        tree = ast.parse(f.read())
    found = {}
    for node in tree.body:
        if isinstance(node, ast.FunctionDef) and node.name in names:
            found[node.name] = node
    missing = [n for n in names if n not in found]
    if missing:
        raise Untranslatable(f"{path}: function(s) not found: {missing}")
    return found


HEADER = ("-- GENERATED by /verif/harness/translate.py from {src}\n"
          "-- DO NOT EDIT: rewritten on every run of a check.\n")


def gen_floordiv(repo=REPO):
    src = os.path.join(repo, "src", "quantity", "__init__.py")
    fns = _find_funcs(src, ["_floordiv_rounded", "_quantize_fraction"])
    kt = KernelTranslator({})
    out = HEADER.format(src="src/quantity/__init__.py "
                        "(_floordiv_rounded, _quantize_fraction)")
    out += "import QuantityModel.Model.Basic\nnamespace QM.Gen\nopen QM\n\n"
    out += kt.function(fns["_floordiv_rounded"], "floordivRounded") + "\n"
    out += kt.function(fns["_quantize_fraction"], "quantizeFraction") + "\n"
    out += "end QM.Gen\n"
    return out


# --------------------------------------------------------------------------
# driver
# --------------------------------------------------------------------------

GENERATORS = {
    "FloorDiv.lean": gen_floordiv,
}


def write_if_changed(path, text):
    try:
        with open(path, encoding="utf-8") as f:
            if f.read() == text:
                return False
    except FileNotFoundError:
        pass
    tmp = path + ".tmp"
    with open(tmp, "w", encoding="utf-8") as f:
        f.write(text)
    os.replace(tmp, path)
    return True


def regenerate(repo=REPO, only=None):
    """Regenerate Gen/*.lean.  Returns (changed, errors)."""
    os.makedirs(GEN_DIR, exist_ok=True)
    changed, errors = [], {}
    for name, fn in GENERATORS.items():
        if only and name not in only:
            continue
        try:
            text = fn(repo)
        except (Untranslatable, SyntaxError, OSError, KeyError, ValueError,
                ET.ParseError) as exc:
            errors[name] = f"{type(exc).__name__}: {exc}"
            continue
        if write_if_changed(os.path.join(GEN_DIR, name), text):
            changed.append(name)
    return changed, errors


if __name__ == "__main__":
    ch, errs = regenerate()
    print("changed:", ch)
    for k, v in errs.items():
        print("ERROR", k, v)
    sys.exit(1 if errs else 0)
