"""Independent oracles (Fractions only; written from the *definitions*, not
from the code's branch structure)."""
from __future__ import annotations

import math
from fractions import Fraction

MODES = ["ROUND_05UP", "ROUND_CEILING", "ROUND_DOWN", "ROUND_FLOOR",
         "ROUND_HALF_DOWN", "ROUND_HALF_EVEN", "ROUND_HALF_UP", "ROUND_UP"]


def round_ref(v: Fraction, mode: str) -> int:
    """Round the exact rational v to an integer per the General Decimal
    Arithmetic definition of `mode`."""
    fl = math.floor(v)
    if v == fl:
        return fl
    ce = fl + 1
    toward = fl if v > 0 else ce          # truncation
    away = ce if v > 0 else fl
    if mode == "ROUND_FLOOR":
        return fl
    if mode == "ROUND_CEILING":
        return ce
    if mode == "ROUND_DOWN":
        return toward
    if mode == "ROUND_UP":
        return away
    if mode == "ROUND_05UP":
        return away if toward % 5 == 0 else toward
    # nearest
    dfl, dce = v - fl, ce - v
    if dfl < dce:
        return fl
    if dce < dfl:
        return ce
    if mode == "ROUND_HALF_UP":
        return away
    if mode == "ROUND_HALF_DOWN":
        return toward
    if mode == "ROUND_HALF_EVEN":
        return fl if fl % 2 == 0 else ce
    raise ValueError(mode)


# ---- exchange rates (independent reference of the documented normal form) ----

def ilog10(x: Fraction) -> int:
    """exact floor(log10(x)) for x > 0"""
    assert x > 0
    k = 0
    if x >= 1:
        n = x.numerator // x.denominator
        while n >= 10:
            n //= 10
            k += 1
        return k
    while x < 1:
        x *= 10
        k -= 1
    return k


class RateRejected(Exception):
    pass


def ref_rate(um: Fraction, ta: Fraction, mode: str):
    """(unit multiple, term amount) as documented: the unit multiple is
    adjusted to a power of ten so that the term amount's magnitude is >= -1,
    the term amount is rounded to 6 decimals."""
    if um.denominator != 1 or um < 1:
        raise RateRejected("unit multiple")
    if ta <= 0 or ta < Fraction(1, 10 ** 6):
        raise RateRejected("term amount")
    e = ilog10(um) - min(0, ilog10(ta) + 1)
    mult = Fraction(10) ** e
    t = Fraction(round_ref(ta * mult / um * 10 ** 6, mode), 10 ** 6)
    return mult, t


def is_pow10(x: Fraction) -> bool:
    if x.denominator != 1 or x < 1:
        return False
    n = x.numerator
    while n % 10 == 0:
        n //= 10
    return n == 1
