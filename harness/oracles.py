"""Independent oracles (Fractions only; written from the *definitions*, not
from the code's branch structure)."""
from __future__ import annotations

import math
from fractions import Fraction

MODES = ["ROUND_05UP", "ROUND_CEILING", "ROUND_DOWN", "ROUND_FLOOR",
         "ROUND_HALF_DOWN", "ROUND_HALF_EVEN", "ROUND_HALF_UP", "ROUND_UP"]


def round_ref(v: Fraction, mode: str) -> int:
    """Round the exact rational v to an integer per the General Decimal
    Arithmetic definition of `mode`."""
    fl = math.floor(v)
    if v == fl:
        return fl
    ce = fl + 1
    toward = fl if v > 0 else ce          # truncation
    away = ce if v > 0 else fl
    if mode == "ROUND_FLOOR":
        return fl
    if mode == "ROUND_CEILING":
        return ce
    if mode == "ROUND_DOWN":
        return toward
    if mode == "ROUND_UP":
        return away
    if mode == "ROUND_05UP":
        return away if toward % 5 == 0 else toward
    # nearest
    dfl, dce = v - fl, ce - v
    if dfl < dce:
        return fl
    if dce < dfl:
        return ce
    if mode == "ROUND_HALF_UP":
        return away
    if mode == "ROUND_HALF_DOWN":
        return toward
    if mode == "ROUND_HALF_EVEN":
        return fl if fl % 2 == 0 else ce
    raise ValueError(mode)
