#!/bin/sh
# usage: harness/seedtest.sh <patch.diff> <prop> [<prop>...]
# applies a seeded change to /repo, runs the given checks (quick), reverts.
set -u
PATCH="$1"; shift
cd /repo || exit 2
if [ -n "$(git status --porcelain --untracked-files=no)" ]; then
  echo "REPO NOT CLEAN - refusing"; exit 3
fi
if ! git apply --check "$PATCH" 2>/dev/null; then
  echo "PATCH DOES NOT APPLY (rebase it): $PATCH"; exit 3
fi
# evidence written while a seeded change is applied must not survive the test
EVBAK=$(mktemp -d /tmp/evbak.XXXXXX); cp -a /verif/evidence/*.json "$EVBAK"/ 2>/dev/null
trap 'git -C /repo checkout -f -- . ; git -C /repo reset -q; cp -a "$EVBAK"/*.json /verif/evidence/ 2>/dev/null; rm -rf "$EVBAK"' EXIT INT TERM
git apply "$PATCH" || exit 3
cd /verif
for p in "$@"; do
  out=$(./check "$p" --tier quick 2>&1); rc=$?
  echo "== $p exit=$rc: $(echo "$out" | grep -E 'VIOLATION|KNOWN' | grep -v KNOWN | head -3)"
done
