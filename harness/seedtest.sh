#!/bin/sh
# usage: harness/seedtest.sh <patch.diff> <prop> [<prop>...]
# applies a seeded change to /repo, runs the given checks (quick), reverts.
set -u
PATCH="$1"; shift
cd /repo || exit 2
if ! git apply --check "$PATCH" 2>/dev/null; then
  if git apply --3way --check "$PATCH" 2>/dev/null; then :; else echo "PATCH DOES NOT APPLY: $PATCH"; exit 3; fi
fi
git apply "$PATCH" || git apply --3way "$PATCH" || exit 3
# evidence written while a seeded change is applied must not survive the test
EVBAK=$(mktemp -d /tmp/evbak.XXXXXX); cp -a /verif/evidence/*.json "$EVBAK"/ 2>/dev/null
trap 'git -C /repo checkout -- . ; git -C /repo reset -q; cp -a "$EVBAK"/*.json /verif/evidence/ 2>/dev/null; rm -rf "$EVBAK"' EXIT
cd /verif
for p in "$@"; do
  out=$(./check "$p" --tier quick 2>&1); rc=$?
  echo "== $p exit=$rc: $(echo "$out" | grep -E 'VIOLATION|KNOWN' | head -3)"
done
