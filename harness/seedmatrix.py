#!/usr/bin/env python3
"""usage: harness/seedmatrix.py [seed-id ...]   (default: every seeded/*/)

Applies each seeded change to $QUANTITY_REPO (default /repo; use a scratch
copy when /repo is busy), runs the quick check of the property it breaks,
reverts, and records the outcome in seeded/MATRIX.json and in the seed's
meta.json (`caught_by`).  Evidence files are restored afterwards.
"""
import glob, json, os, re, shutil, subprocess, sys, tempfile, time

HERE = os.path.dirname(os.path.abspath(__file__))
VERIF = os.path.dirname(HERE)
REPO = os.environ.get("QUANTITY_REPO", "/repo")


def sh(cmd, cwd=None):
    return subprocess.run(cmd, shell=True, cwd=cwd, capture_output=True, text=True)


def main():
    ids = sys.argv[1:] or sorted(os.path.basename(d) for d in glob.glob(f"{VERIF}/seeded/C*"))
    if sh("git status --porcelain --untracked-files=no", REPO).stdout.strip():
        print("repo not clean"); sys.exit(3)
    bak = tempfile.mkdtemp(prefix="evbak")
    for f in glob.glob(f"{VERIF}/evidence/*.json"):
        shutil.copy(f, bak)
    out_path = f"{VERIF}/seeded/MATRIX.json"
    whole = json.load(open(out_path)) if os.path.exists(out_path) else {}
    matrix = whole.setdefault("results", {})
    try:
        for sid in ids:
            prop = sid.split("-")[0]
            patch = f"{VERIF}/seeded/{sid}/patch.diff"
            if sh(f"git apply --check {patch}", REPO).returncode != 0:
                matrix[sid] = {"status": "patch does not apply"}
                print(sid, "PATCH DOES NOT APPLY", flush=True)
                continue
            mp = f"{VERIF}/seeded/{sid}/meta.json"
            # a change written against one property may fall into the statement
            # of another one (`check_with` in its meta.json): tried in turn
            props = [prop]
            if os.path.exists(mp):
                props = json.load(open(mp)).get("check_with", props)
            sh(f"git apply {patch}", REPO)
            t0 = time.time()
            try:
                for prop in props:
                    r = sh(f"./check {prop} --tier quick", VERIF)
                    if any(l.startswith("VIOLATION") for l in r.stdout.splitlines()):
                        break
            finally:
                sh(f"git apply -R {patch}", REPO)
            viol = [l for l in r.stdout.splitlines() if l.startswith("VIOLATION")]
            neutral = None
            demo = f"{VERIF}/seeded/{sid}/demo.py"
            if not viol and os.path.exists(demo):
                # not reported: does the change still break anything?  (a later
                # fix: commit can neutralise a seeded change) - its own demo decides
                sh(f"git apply {patch}", REPO)
                try:
                    dr = subprocess.run(["/venv/bin/python", demo], capture_output=True, text=True,
                                        env=dict(os.environ, PYTHONPATH=f"{REPO}/src",
                                                 DECIMALFP_FORCE_PYTHON_IMPL="1"))
                    neutral = dr.returncode == 0
                finally:
                    sh(f"git apply -R {patch}", REPO)
            res = {"check": prop, "exit": r.returncode, "violation": bool(viol),
                   "failing_input_found": bool(viol) and not any(
                       "no-failing-input-found" in l for l in viol),
                   "seconds": round(time.time() - t0)}
            if neutral is not None:
                res["demo_passes_with_change"] = neutral
            matrix[sid] = res
            if os.path.exists(mp):
                m = json.load(open(mp))
                m["caught_by"] = [prop] if res["violation"] and res["exit"] == 1 else []
                m["failing_input_found"] = res["failing_input_found"]
                json.dump(m, open(mp, "w"), indent=1)
            print(sid, res, flush=True)
            json.dump(whole, open(out_path, "w"), indent=1, sort_keys=True)
    finally:
        for f in glob.glob(f"{bak}/*.json"):
            shutil.copy(f, f"{VERIF}/evidence/")
        shutil.rmtree(bak)
        assert not sh("git status --porcelain --untracked-files=no", REPO).stdout.strip(), "repo left dirty"


if __name__ == "__main__":
    main()
