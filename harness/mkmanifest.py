#!/usr/bin/env python3
"""Writes MANIFEST.json from the table below (kept in one place)."""
import json, os
HERE = os.path.dirname(os.path.abspath(__file__))
VERIF = os.path.dirname(HERE)

NOTE = ("Trusted: Lean 4.33 kernel + propext/Classical.choice/Quot.sound; "
        "Mathlib; harness/translate.py (validated by running generated Lean "
        "against the Python source on the same inputs each run); the "
        "correspondence harness (differential, bounded by its generators); "
        "decimalfp modelled as exact rationals (pure-Python implementation "
        "exercised); CPython numerics. ")

CLAIMS = {
 "C13": ("Lean 4 proof over the translated rounding kernel + differential correspondence",
         "Theorems (Props/C13.lean) over Gen/FloorDiv.lean, which is regenerated from "
         "/repo's _floordiv_rounded/_quantize_fraction on every run: for all integers, "
         "non-zero divisors and all 8 modes the kernel returns the unique integer the "
         "standard (General Decimal Arithmetic) definition assigns to the exact quotient; "
         "fraction path and Decimal.quantize path are the same function of the value; error "
         "bounds; default-mode and zero-divisor behaviour. The dispatch around the kernels "
         "(Quantity.quantize / round) is tied by correspondence against the real code.",
         "6 C13", NOTE + "decimalfp's Decimal.quantize is hand-modelled (decQuantize) and checked by correspondence."),
 "C07": ("Lean 4 proof (denotational semantics of the term model) + differential correspondence",
         "Theorems (Props/C07.lean): every path of _reduce_items (all n_items shortcuts, both "
         "keep_item_order modes), normalisation, product, quotient, reciprocal, power and scalar "
         "operations preserve / compute the value a term denotes under EVERY admissible valuation "
         "of its elements; equality is sound and implies equal hash keys; split/num_elem agree; "
         "shape of the numeric part of the normal form. The hand-written model is tied to "
         "term.py by running ~1.7k operations per run on random element environments against "
         "the real Term class. Partial: completeness of equality is false of the code for "
         "non-convertible elements sharing a sort key (known finding D5, negation proved); "
         "ordering/uniqueness of the non-numeric part of the normal form is checked by the oracle, not proved.",
         "6 C07", NOTE),
}

def main():
    props = [json.loads(l)["id"] for l in open(os.path.join(VERIF, "properties.jsonl"))]
    checks, na = [], []
    for pid in props:
        if pid in CLAIMS:
            tech, text, ref, note = CLAIMS[pid]
            checks.append({
                "property_id": pid,
                "quick_cmd": f"./check {pid} --tier quick",
                "thorough_cmd": f"./check {pid} --tier thorough",
                "evidence_file": f"/verif/evidence/{pid}.json",
                "replay_cmd_template": f"./check {pid} --replay {{path}}",
                "engine": "lean4-model+correspondence",
                "level_claimed": {"category": "proof", "text": text, "design_ref": f"DESIGN.md section {ref}"},
                "level_note": note,
                "technique": tech,
            })
        else:
            na.append({"property_id": pid, "reason": "check under construction in this round (model and theorems not yet committed); see DESIGN.md section 6"})
    man = {
        "version": 1,
        "setup_cmd": "./setup.sh",
        "hooks": {
            "guard": "QUANTITY_VERIF",
            "enable": "no source hooks: checks import /repo/src directly (PYTHONPATH) and obtain fresh registry state per history by os.fork(); QUANTITY_VERIF=1 is exported by ./check but nothing in /repo reads it",
            "baseline_off_cmd": "cd /repo && /venv/bin/python -m pytest -ra -q -p no:cacheprovider --timeout=900 --continue-on-collection-errors",
            "source_commits": [],
            "add_only": True,
        },
        "engines": [{
            "name": "lean4-model+correspondence",
            "path": "/verif/lean, /verif/harness",
            "serves_properties": sorted(CLAIMS),
            "kind_free_text": "Lean 4 model + theorems (lake build, #print axioms audit); Gen/*.lean regenerated from /repo by harness/translate.py on every run; hand-written model parts tied to the real code by a line-protocol correspondence check (native model driver vs in-process Python) with an independent Fraction-based oracle for the failing-input search",
        }],
        "checks": checks,
        "not_applicable": na,
        "notes": "See DESIGN.md. known_findings.json lists recorded genuine defects; ./check prints KNOWN-FINDING lines for them.",
    }
    with open(os.path.join(VERIF, "MANIFEST.json"), "w") as f:
        json.dump(man, f, indent=1)
        f.write("\n")

if __name__ == "__main__":
    main()
