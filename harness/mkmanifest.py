#!/usr/bin/env python3
"""Writes MANIFEST.json from the table below (kept in one place)."""
import json, os
HERE = os.path.dirname(os.path.abspath(__file__))
VERIF = os.path.dirname(HERE)

NOTE = ("Trusted: Lean 4.33 kernel + propext/Classical.choice/Quot.sound; "
        "Mathlib; harness/translate.py (validated by running generated Lean "
        "against the Python source on the same inputs each run); the "
        "correspondence harness (differential, bounded by its generators); "
        "decimalfp modelled as exact rationals (pure-Python implementation "
        "exercised); CPython numerics. ")

CLAIMS = {
 "C13": ("Lean 4 proof over the translated rounding kernel + differential correspondence",
         "Theorems (Props/C13.lean) over Gen/FloorDiv.lean, which is regenerated from "
         "/repo's _floordiv_rounded/_quantize_fraction on every run: for all integers, "
         "non-zero divisors and all 8 modes the kernel returns the unique integer the "
         "standard (General Decimal Arithmetic) definition assigns to the exact quotient; "
         "fraction path and Decimal.quantize path are the same function of the value; error "
         "bounds; default-mode and zero-divisor behaviour; at the level of quantities (qtyQuantize / qtyRound of the model): the result is, in the "
         "called quantity's unit and type, the multiple of the quantum converted to that unit selected by the requested or default mode for "
         "either representation, other types / types without reference unit are TypeError, round(q, n) keeps unit and type and yields a "
         "multiple of 10^-n less than one such unit away. The dispatch around the kernels "
         "(Quantity.quantize with the quantum in any unit of the type, negative quanta, other types, "
         "quantised types, Decimal and Fraction amounts; round(q, n)) is tied by correspondence "
         "against the real code in the predefined catalogue and in random user histories.",
         "6 C13", NOTE + "decimalfp's Decimal.quantize is hand-modelled (decQuantize) and checked by correspondence."),
 "C07": ("Lean 4 proof (denotational semantics of the term model) + differential correspondence",
         "Theorems (Props/C07.lean): every path of _reduce_items (all n_items shortcuts, both "
         "keep_item_order modes), normalisation, product, quotient, reciprocal, power and scalar "
         "operations preserve / compute the value a term denotes under EVERY admissible valuation "
         "of its elements; equality is sound and implies equal hash keys; split/num_elem agree; "
         "normalisation is idempotent and yields the canonical form (one numeric item in front, "
         "then base elements only, ascending sort keys, each once, non-zero exponents), also for "
         "every registry reachable by well-formed declarations; reduction preserves the rational "
         "factor and every exponent (free-abelian-group semantics); two terms are equal EXACTLY "
         "when they denote the same factor and the same exponent for every base element, provided "
         "no two distinct base elements occurring in them share a sort key; in every registry REACHABLE by well-formed declarations "
         "this needs no hypothesis on the registry for terms over units that have a scale (Proofs/RefUnique.lean: a base unit with a "
         "scale is its type's reference unit — an invariant of every declaration, valid or rejected — so distinct base units are never "
         "convertible and scaled base units never share a sort key). The hand-written model "
         "is tied to term.py by running ~1.7k operations per run on random element environments "
         "against the real Term class, each operation also with operands whose cached normal form / "
         "hash were warmed before. Partial: that proviso fails for units of a type without "
         "reference unit (known finding D5, negation proved).",
         "6 C07", NOTE),
 "C20": ("Lean 4 proof by kernel evaluation (decide +kernel, no axioms) of the registry model replaying the translated predefined.py, against a hand-written SI reference table; exhaustive correspondence",
         "Gen/Catalogue.lean, Gen/Prefixes.lean, Gen/DocTables.lean are regenerated from predefined.py / si_prefixes.py on every run. "
         "Theorems (Props/C20.lean): the script replays without rejection; EVERY unit of Ref/SIRef.lean (110 linear units) exists, is in "
         "the type of its dimension and has exactly its SI / yard-pound / IEC scale; no unit outside the table; every type has its SI "
         "dimension; derived reference units are products of base reference units; every SI prefix is its power of ten; DataVolume quantum "
         "= 1 bit; every one of the 97 documentation rows equals the computed scale and the documentation is complete; temperature "
         "fixed-point rows. Lifted to all amounts by C01. Correspondence: after import quantity.predefined the real directories, every "
         "unit's class/scale/quantum and conversions (quick: sample of ordered pairs per type; thorough: all) are compared with model and table.",
         "6 C20", NOTE + "Ref/SIRef.lean (hand-written from the SI and the 1959 yard-pound agreement) is trusted."),
 "C01": ("Lean 4 proof (conversion theorems over the quantity model) + differential correspondence incl. all ordered unit pairs per predefined type",
         "Theorems (Props/C01.lean), for ALL amounts and any two units of one type with non-zero scales: convert multiplies by exactly "
         "the ratio of scales; converted == original; converting back returns the identical amount; via any intermediate unit == direct; "
         "other type => IncompatibleUnitsError; with a quantum the exact value is rounded exactly once. Scales are what definitions "
         "denote (C15/C20/C07). Correspondence: predefined catalogue (every ordered pair of every type there-and-back in one process) and "
         "random user histories (scaled / term-defined / derived units), Decimal and Fraction amounts; the implementation side asserts "
         "type(amount) in (Decimal, Fraction) on every result.",
         "6 C01", NOTE),
 "C03": ("Lean 4 proof (operator dispatch and sum value over the quantity model) + differential correspondence",
         "Theorems (Props/C03.lean): different types => +,- and the four order comparisons raise IncompatibleUnitsError and == is False, for all "
         "amounts and units; same type => result in the left operand's unit with exactly the sum/difference (reference value = sum of "
         "reference values, hence commutative/associative/inverse/distributive by value). Quantity vs plain object (10 kinds, both orders): "
         "TypeError / == False — tied by correspondence. sum() without start value = fold of +. Correspondence also: a type without "
         "reference unit and a type declared as a SUBCLASS of another against other types with every operator in both orders; augmented "
         "assignment (s = a; s += b) gives the sum and leaves a's value to later sums.",
         "6 C03", NOTE),
 "C04": ("Lean 4 proof (comparison = comparison of exact reference values, positive scales) + differential correspondence",
         "Theorems (Props/C04.lean): for all amounts and any two units of one type: == is equality of reference values (non-zero scales); "
         "each of <,<=,>,>= returns what it returns on the reference values (positive scales), whatever the units; trichotomy; units compare "
         "by scale. Partial: for a unit with NEGATIVE scale the statement is false of the code (known finding D6, negation proved). "
         "Correspondence: equal-by-construction amounts across units, zero/negative equal amounts, near-ties, Decimal vs Fraction.",
         "6 C04", NOTE),
 "C02": ("Lean 4 proof (soundness of unit resolution and of products/quotients under every admissible valuation; error characterisation) + differential correspondence with a value-based oracle",
         "Theorems (Props/C02.lean, Proofs/UnitOps.lean): under the directory invariant (entries keyed by the unit's normalised definition) "
         "and for EVERY admissible valuation of the units, unit*unit and unit/unit return (f, w) with f*w worth exactly the product/quotient "
         "(w = None: dimensions cancel, f is the exact plain number) — dimension and scale in one statement; any resolved unit term has "
         "exactly the value of the term; the only possible error of unit*unit is UndefinedResultError and it occurs iff the directory has "
         "no unit for the normalised result term (with or without its numeric factor); quantity*quantity constructs once with a*b*f; number "
         "operands scale the amount and keep unit/type; same-type division is the plain ratio; the resolution of a unit term is a "
         "function of what the term denotes (same rational factor and base exponents => same unit and factor, or both undefined); "
         "COMPLETENESS: whenever the directory holds a unit whose normalised definition has factor 1 and the exponents the term denotes "
         "(the reference unit of a declared type of that dimension), the operation is defined (non-vacuity: km/min in the catalogue), "
         "without any hypothesis on the registry for terms over scaled units in every reachable registry (resolution_complete_reachable). "
         "Correspondence: predefined catalogue "
         "(thorough: all 113x113 ordered pairs x {*,/}) and user histories, all operand kinds. Partial: completeness for reference-less "
         "types whose declared unit carries a numeric factor (known finding D2) is not claimed.",
         "6 C02", NOTE),
 "C05": ("Lean 4 proof (constructor = single rounding to the grid; bounds from the proved rounding spec) + differential correspondence under all 8 default modes",
         "Theorems (Props/C05.lean): the constructor stores roundQ(mode, a/quantum)*quantum; that is on the grid, < 1 quantum from the exact "
         "amount, <= 1/2 quantum under half modes, never above under FLOOR / below under CEILING; on-grid amounts are fixed points (no "
         "second rounding), the grid is closed under +; unit quantum = class quantum / scale, currency quantum = smallest fraction; scaling "
         "rounds once. Correspondence: every DataVolume unit and user types with quanta 1/8, 1/100, 1/3, 5/8 under all 8 default modes for "
         "constructor, + - neg abs, * / by number, conversion, products landing in a quantised type; oracle = independent Fraction rounding "
         "of the exact result on the stored operands. Money under exchange rates is covered by C10.",
         "6 C05", NOTE),
 "C17": ("Lean 4 proof (cache invariant: every cached entry has the value of its operation; hits, repeats, failures not cached; value independent of the state) + differential correspondence on two declaration orders in two processes",
         "Theorems (Props/C17.lean): the operation cache only ever holds sound entries (preserved by * and /); a repeated operation returns "
         "the identical result; a failed operation leaves the state (cache) untouched so it is recomputed after later declarations; for any "
         "two states reached by any histories, successful results of the same operation have the same value under every valuation "
         "admissible in both; and for EVERY history (ReachableQ: any interleaving of declarations - valid or rejected, any order - and unit "
         "products / quotients) with no hypothesis left: the cache invariant holds in every reachable state, a successful u*v is worth "
         "scale(u)*scale(v), and two histories give the same value for corresponding units (results_do_not_depend_on_history). "
         "Correspondence: same declaration set in two dependency-respecting orders in two forked processes with "
         "different operation schedules, operations targeted BEFORE their result type exists, repeats, common final block; checked by "
         "value against the history-independent expectation.",
         "6 C17", NOTE),
 "C08": ("Lean 4 proof (no implicit factor between currencies; registration against any table; kernel-decided facts about the translated ISO table) + exhaustive correspondence over the whole table",
         "Theorems (Props/C08.lean): with no converter active, +, -, /, the four orderings and convert between two distinct currencies raise "
         "UnitConversionError, == is False, money*money is undefined, for all amounts; registration against ANY table is idempotent (same unit, "
         "state unchanged), rejects unknown codes without a trace, and yields smallest fraction 10^-minor; Gen/Iso4217.lean (the harness's own "
         "reading of iso_4217.xml, regenerated every run): 167 distinct 3-letter codes, minor units in {0,2,3,4}; the validation table of user "
         "currencies; rejected currency declarations leave no trace. That currencies.py reads the same table is validated EXHAUSTIVELY on every "
         "run (every entry registered, read back, registered again) — translation validation, not proof.",
         "6 C08", NOTE),
 "C09": ("Lean 4 proof (normal form and accuracy of every accepted rate from the proved rounding spec; rejection table; inversion; triangulation directions) + differential correspondence",
         "Theorems (Props/C09.lean): every accepted rate stores a power-of-ten multiple >= 1 and a term amount with <= 6 fractional digits that "
         "differs from true rate x multiple by < 1e-6 (<= 0.5e-6 under half modes), for ALL inputs and all 8 modes; the rejection table; rate x "
         "inverse = 1; inversion swaps currencies and is the constructor applied to the exact reciprocal; the four triangulation patterns give "
         "the documented direction, no shared currency is rejected; the model's magnitude is floor(log10 x) (10^m <= x < 10^(m+1), within the "
         "fuel 10^-4000 <= x < 10^4000), hence the stored term amount is POSITIVE for every accepted rate and mode and at least 0.1 "
         "(magnitude >= -1) whenever the given unit multiple is a power of ten. Partial: 'magnitude >= -1' is false for other multiples (known "
         "finding D7, negation proved); float log10 near powers of ten is runtime behaviour outside the model.",
         "6 C09", NOTE),
 "C10": ("Lean 4 proof (money x rate = exact product rounded once; price units: resolved unit worth exactly unit x term/unit currency under every admissible valuation) + differential correspondence with a value-based oracle",
         "Theorems (Props/C10.lean): money*rate / rate*money / money/rate give money in the right currency with the exact product (inverse) "
         "rounded once to that currency's fraction, a non-matching currency is ValueError; for prices the resolved (factor, unit) is worth "
         "exactly the price's unit with the currency replaced, the amount is f*rate*a constructed once, an undeclared target or a target of "
         "another type is QuantityError. Correspondence: several money-per-X types, declared / missing / differently scaled targets, all 8 modes.",
         "6 C10", NOTE),
 "C11": ("Lean 4 proof (converter state = log of accepted entries; lookup = most recent entry of the date's period; rejected updates change nothing; lookup shapes) + differential correspondence on update/lookup histories",
         "Theorems (Props/C11.lean): a rejected update (invalid period, other kind, any invalid spec) leaves the converter unchanged; an accepted "
         "one appends its rates under the normalised period; the stored rate for a date is the MOST RECENT entry whose key is (period of the "
         "date, currency) — entries of other periods/currencies never matter (proved for all histories); from-base / towards-base (inverted) / "
         "cross (quotient of base rates) / missing (None) shapes; call = amount x rate; spellings of a period agree; invalid periods rejected. "
         "Partial: 'one for a currency and itself' is false of the code (known finding D8, proved).",
         "6 C11", NOTE),
 "C12": ("Lean 4 proof (stack discipline; induction over well-nested programs with exceptional exits) + differential correspondence on operation sequences",
         "Theorems (Props/C12.lean): removing the top converter undoes its registration; removing any other raises and changes nothing; empty stack "
         "IndexError; conversions consult the top; for EVERY well-nested program of with-blocks (normal or exceptional exit anywhere) the stack "
         "after equals the stack before (induction on the nesting); generic types: idempotent registration, removal restores, an unregistered "
         "converter cannot be removed - all stated about the model functions the driver executes (stackPush, stackRemove, registerGeneric, "
         "removeGeneric). Correspondence: converter objects registered, re-registered, removed, listed and called directly; "
         "random sequences over 4 converters incl. the same converter entered twice with another in between; thorough: all sequences <= 4.",
         "6 C12", NOTE),
 "C14": ("Lean 4 proof (table lookup rule, round trips, composition; kernel-decided consistency and fixed points of the translated temperature table) + differential correspondence",
         "Theorems (Props/C14.lean): direct row => a*f+o, only the opposite row => (a-o)/f, neither => no answer; last row wins; one-direction "
         "tables round-trip identically and two-direction tables do iff the rows are inverse, via-third-unit equals direct iff the rows compose "
         "— for ALL amounts; Gen/TempTable.lean (regenerated from predefined.py): all six rows pairwise inverse and composing, complete, and the "
         "fixed points 0 degC = 273.15 K = 32 degF, -40 = -40, 0 K = -459.67 degF; the table look-up of the quantity model IS this tableConvert "
         "(tableLookup_eq_tableConvert), and Quantity.convert in a reference-less type with the table registered returns exactly what the "
         "table says, UnitConversionError otherwise (convert_through_table). Correspondence: temperature and random user tables (list and "
         "mapping form, int / Fraction / Decimal entries, both directions tabulated with non-inverse rows, units WITH a definition in the type).",
         "6 C14", NOTE),
 "C19": ("Lean 4 proof (equal quantities of a type with reference unit have equal hash keys; terms; rates use the quotation for both) + differential correspondence on equal-by-construction pairs",
         "Theorems (Props/C19.lean): for quantities of a type with reference unit, a == b implies equal hash keys whatever the units and "
         "representations (after the fix: commit); equal terms have equal hash keys; exchange rates hash what they compare. Partial (known "
         "findings, negations proved): same-scale units hash by symbol (D13u); converter-based equality of reference-less types cannot be "
         "hash-consistent (D13c). Correspondence also over derived types on reference-less bases (money per mass, temperature per duration): "
         "units of such a type equal themselves only (after the fix: commit for D22). Python's hash of equal numbers/tuples is trusted.",
         "6 C19", NOTE),
 "C15": ("Lean 4 proof (registry model: effect of unit creation; reachable-state invariants for every declaration history: directory coherence and stored scale = value of the definition; rejection table) + differential correspondence on declaration histories",
         "Theorems (Props/C15.lean) over the registry model: what a successful unit creation does to each directory (next id, found under its "
         "symbol, appended to its own class's list and no other, scale = numeric part of the normalised definition), symbols stay unique and point "
         "back to their unit (invariant preserved by every creation), factory dispatch to the unit's class, and the rejection table "
         "(duplicate/empty/non-string symbol, foreign quantity, term not resolving to the own class, duplicate dimension). The model is tied to the "
         "code by random declaration histories (40 quick / 400 thorough, 15 kinds of invalid steps) compared after EVERY step through a full "
         "directory dump, plus an independent oracle that tracks class, dimension and scale (product of the factors along the chain) with Fractions "
         "only. CLOSED over histories (Proofs/Invariants.lean, Proofs/Scale.lean): for every state reachable from import by ANY sequence of "
         "declarations (accepted or rejected) the directories are coherent (symbols unique, every unit found under its symbol, listed by its own "
         "type only, term directory keyed by normalised definitions), and — when definitions mention existing units and do not denote zero — "
         "the scale stored for a new unit is EXACTLY a*scale(u) / the value of the defining term / the product of scale(u_i)^e_i for derived units, "
         "reference units have scale 1, and the valuation 'unit -> stored scale' is admissible (so the hypotheses of the C01/C02/C10/C17 theorems "
         "are satisfiable in every such state). Excluded by hypothesis: definitions denoting zero (the code stores scale 1 for them: D10 in DESIGN section 7).",
         "6 C15", NOTE),
 "C16": ("Lean 4 proof (every failing path of the declaration model returns the unchanged state) + differential correspondence with directory dumps before/after every rejected step",
         "Theorems (Props/C16.lean, C08, C11): for new_unit, derive_unit_from, class statements, currency declarations, money-converter updates "
         "and failing unit arithmetic (operation cache), a rejected attempt returns exactly the state it started from, for ALL states and "
         "arguments; hence all later queries answer as if the attempt had never been made. The model mirrors the code's order of validation and "
         "registration (after the fix: commits for duplicate-dimension classes and for MoneyConverter.update); the mirror is validated by comparing "
         "the full directory dump / converter table of the real objects before and after every rejected step of random histories (16 kinds "
         "of invalid steps, among them class definitions with a numeric factor; units without definition in types WITH reference unit and "
         "units defined over them: after the fix: commit for D21 these declarations are accepted and leave coherent directories).",
         "6 C16", NOTE),
 "C06": ("Lean 4 proof (conservation; exact shares without quantum; dispersal lemma: zero remainder and < 1 quantum deviation for every input and mode) + differential correspondence",
         "Theorems (Props/C06.lean, Proofs/Allocate.lean): without a quantum every portion is exactly its share and the remainder is zero; "
         "portions + remainder = receiver exactly, one portion per ratio, with or without dispersal; each portion is the grid value of its share "
         "(< 1 quantum away, <= 1/2 under half modes); without dispersal |remainder| <= n quanta (n/2 under half modes); and THE dispersal "
         "theorem: for a receiver on the grid, positive quantum, every non-empty ratio list with non-zero total and every default mode, the "
         "dispersed result has remainder ZERO and every portion < 1 quantum from its exact share (induction over the sorted error list with "
         "the invariant sum(remaining errors) <= -(remaining quanta), sortedness and permutation of the insertion sort proved). The receiver "
         "is unchanged: the model is pure, the implementation side asserts it in-process. Correspondence: quantised and plain quantities, "
         "ratio lists of length 1-8 (numbers and quantities), both flags, all 8 modes.",
         "6 C06", NOTE),
 "C18": ("Lean 4 proof (digit-list induction: the text form of every Decimal / Fraction amount parses back to its exact value; str(q) splits back into amount and symbol) + differential correspondence",
         "Theorems (Props/C18.lean, Proofs/Text.lean): the digits printed for a natural number read back as that number; str of a Decimal amount with "
         "internal value v and ANY precision p parses back to exactly v/10^p; str of a Fraction amount parses back to exactly that rational; "
         "str(q) = amount, one blank, symbol splits back into exactly the amount's value and the symbol (symbols with inner blanks included); "
         "parsing through the generic factory or the own type re-creates the quantity; malformed amounts are QuantityError; a tab is not a "
         "separator; the accepted literal forms. Correspondence: every amount kind incl. huge/tiny/subnormal floats (exact binary value), all "
         "predefined symbols (non-ASCII, compound), both factories, explicit other unit == parse-then-convert, malformed stream. Partial: "
         "Python's wider numeric literal grammar (underscores, non-ASCII digits, inner whitespace) is outside the modelled subset.",
         "6 C18", NOTE),
}

def main():
    props = [json.loads(l)["id"] for l in open(os.path.join(VERIF, "properties.jsonl"))]
    checks, na = [], []
    for pid in props:
        if pid in CLAIMS:
            tech, text, ref, note = CLAIMS[pid]
            checks.append({
                "property_id": pid,
                "quick_cmd": f"./check {pid} --tier quick",
                "thorough_cmd": f"./check {pid} --tier thorough",
                "evidence_file": f"/verif/evidence/{pid}.json",
                "replay_cmd_template": f"./check {pid} --replay {{path}}",
                "engine": "lean4-model+correspondence",
                "level_claimed": {"category": "proof", "text": text, "design_ref": f"DESIGN.md section {ref}"},
                "level_note": note,
                "technique": tech,
            })
        else:
            na.append({"property_id": pid, "reason": "check under construction in this round (model and theorems not yet committed); see DESIGN.md section 6"})
    man = {
        "version": 1,
        "setup_cmd": "./setup.sh",
        "hooks": {
            "guard": "QUANTITY_VERIF",
            "enable": "no source hooks: checks import /repo/src directly (PYTHONPATH) and obtain fresh registry state per history by os.fork(); QUANTITY_VERIF=1 is exported by ./check but nothing in /repo reads it",
            "baseline_off_cmd": "cd /repo && /venv/bin/python -m pytest -ra -q -p no:cacheprovider --timeout=900 --continue-on-collection-errors",
            "source_commits": [],
            "add_only": True,
        },
        "engines": [{
            "name": "lean4-model+correspondence",
            "path": "/verif/lean, /verif/harness",
            "serves_properties": sorted(CLAIMS),
            "kind_free_text": "Lean 4 model + theorems (lake build, #print axioms audit); Gen/*.lean regenerated from /repo by harness/translate.py on every run; hand-written model parts tied to the real code by a line-protocol correspondence check (native model driver vs in-process Python) with an independent Fraction-based oracle for the failing-input search",
        }],
        "checks": checks,
        "not_applicable": na,
        "notes": "See DESIGN.md. known_findings.json lists recorded genuine defects; ./check prints KNOWN-FINDING lines for them.",
    }
    with open(os.path.join(VERIF, "MANIFEST.json"), "w") as f:
        json.dump(man, f, indent=1)
        f.write("\n")

if __name__ == "__main__":
    main()
