"""Line coverage of the implementation achieved by the correspondence.

`executable()` lists, per function of /repo/src/quantity, the source lines
that carry byte code; `summarise()` turns the set of lines the implementation
side executed (pyside.COVER) into a per-function report for the evidence
file.  Purpose: the hand-written model cannot notice a change that no
generated case reaches, so what the cases reach is measured on every run.
"""
from __future__ import annotations

import os

import common

SRC = os.path.join(common.REPO, "src", "quantity")
FILES = ["__init__.py", "term.py", "registry.py", "converter.py", "utils.py",
         "cwdmeta.py", "money/__init__.py", "money/currencies.py"]


def _walk(code, qual, out):
    import types
    for c in code.co_consts:
        if isinstance(c, types.CodeType):
            name = c.co_qualname if hasattr(c, "co_qualname") else c.co_name
            lines = {ln for _, _, ln in c.co_lines() if ln is not None}
            lines.discard(c.co_firstlineno)
            if c.co_name not in ("<listcomp>", "<genexpr>", "<lambda>",
                                 "<dictcomp>", "<setcomp>"):
                # class bodies run at import time only: skip their own lines
                if not _is_class_body(c):
                    # `@overload` stubs share the name of the implementation
                    # that follows them: the last definition is the real one
                    out[name] = set(lines)
            else:
                out.setdefault(qual, set()).update(lines)
            _walk(c, name, out)


def _is_class_body(c):
    return "__qualname__" in c.co_names and "__module__" in c.co_names


def executable():
    """{relfile: {qualname: set(lines)}} for every function / method."""
    res = {}
    for rel in FILES:
        path = os.path.join(SRC, rel)
        try:
            with open(path, encoding="utf-8") as f:
                code = compile(f.read(), path, "exec")
        except (OSError, SyntaxError):
            continue
        out = {}
        _walk(code, "<module>", out)
        out.pop("<module>", None)
        res[rel] = {k: v for k, v in out.items() if v}
    return res


def _docstring_lines(path):
    import ast
    skip = set()
    with open(path, encoding="utf-8") as f:
        tree = ast.parse(f.read())
    for node in ast.walk(tree):
        if isinstance(node, (ast.FunctionDef, ast.AsyncFunctionDef)):
            b = node.body
            if b and isinstance(b[0], ast.Expr) and isinstance(
                    getattr(b[0], "value", None), ast.Constant) \
                    and isinstance(b[0].value.value, str):
                skip.update(range(b[0].lineno, b[0].end_lineno + 1))
    return skip


def ranges(nums):
    nums = sorted(nums)
    out, i = [], 0
    while i < len(nums):
        j = i
        while j + 1 < len(nums) and nums[j + 1] == nums[j] + 1:
            j += 1
        out.append(str(nums[i]) if i == j else f"{nums[i]}-{nums[j]}")
        i = j + 1
    return ",".join(out)


def summarise(hit, funcs=None):
    """hit: set of (relfile, line).  funcs: optional list of 'file::qualname'
    the property's model mirrors; the report lists those first."""
    ex = executable()
    byfile = {}
    for f, n in hit:
        byfile.setdefault(f, set()).add(n)
    report, tot_hit, tot = {}, 0, 0
    for rel, fns in ex.items():
        doc = _docstring_lines(os.path.join(SRC, rel))
        h = byfile.get(rel, set())
        for q, lines in fns.items():
            lines = lines - doc
            if not lines:
                continue
            got = lines & h
            if not got:
                continue                     # function not reached at all
            tot_hit += len(got)
            tot += len(lines)
            entry = {"hit": len(got), "of": len(lines)}
            if got != lines:
                entry["missed"] = ranges(lines - got)
            report[f"{rel}::{q}"] = entry
    unreached = []
    for key in funcs or []:
        if key not in report:
            unreached.append(key)
    return {"functions_reached": len(report), "lines_hit": tot_hit,
            "lines_in_reached_functions": tot,
            "anchored_functions_not_reached": unreached,
            "per_function": dict(sorted(report.items())),
            "hit_lines": {rel: ranges(v) for rel, v in sorted(byfile.items())}}


# ---- branches ---------------------------------------------------------------

def _branch_sites(code, out, rel):
    """conditional jumps of a code object: {(qualname, offset): (line, {dest offsets})}"""
    import dis
    import types
    ins = list(dis.get_instructions(code))
    nxt = {a.offset: b.offset for a, b in zip(ins, ins[1:])}
    for i in ins:
        name = i.opname
        if name.startswith("POP_JUMP_") or name in ("FOR_ITER", "SEND") or \
                name.startswith("JUMP_IF_"):
            dests = {i.argval}
            if i.offset in nxt:
                dests.add(nxt[i.offset])
            line = i.positions.lineno if i.positions else None
            out[(code.co_qualname, i.offset)] = (line, dests)
    for c in code.co_consts:
        if isinstance(c, types.CodeType):
            _branch_sites(c, out, rel)


def branch_sites():
    res = {}
    for rel in FILES:
        path = os.path.join(SRC, rel)
        try:
            with open(path, encoding="utf-8") as f:
                code = compile(f.read(), path, "exec")
        except (OSError, SyntaxError):
            continue
        out = {}
        _branch_sites(code, out, rel)
        res[rel] = out
    return res


def summarise_branches(hit):
    """hit: set of (relfile, qualname, src offset, dst offset) observed.  A
    conditional jump is fully covered when both of its destinations were
    reached; reported per function: jumps seen / both ways, and the lines of
    jumps taken one way only."""
    seen = {}
    for rel, q, src, dst in hit:
        seen.setdefault((rel, q, src), set()).add(dst)
    sites = branch_sites()
    per, tot, both = {}, 0, 0
    for (rel, q, src), dests in seen.items():
        line = sites.get(rel, {}).get((q, src), (None, None))[0]
        e = per.setdefault(f"{rel}::{q}", {"jumps": 0, "both_ways": 0, "one_way_lines": []})
        e["jumps"] += 1
        tot += 1
        if len(dests) >= 2:
            e["both_ways"] += 1
            both += 1
        elif line is not None:
            e["one_way_lines"].append(line)
    for e in per.values():
        e["one_way_lines"] = ranges(set(e["one_way_lines"]))
    return {"jumps_reached": tot, "taken_both_ways": both,
            "per_function": dict(sorted(per.items())),
            "raw": sorted([rel, q, src, dst] for rel, q, src, dst in hit)}
