#!/usr/bin/env python3
"""Union of the implementation line coverage recorded in evidence/*.json:
which lines of the functions of /repo/src/quantity no correspondence case of
any property executed."""
import glob, json, os, sys
sys.path.insert(0, os.path.dirname(os.path.abspath(__file__)))
import cover


def expand(s):
    out = set()
    for part in s.split(","):
        if not part:
            continue
        a, _, b = part.partition("-")
        out.update(range(int(a), int(b or a) + 1))
    return out


hit = {}
for f in sorted(glob.glob(os.path.join(os.path.dirname(__file__), "..", "evidence", "C*.json"))):
    cov = json.load(open(f))["coverage"].get("impl_line_coverage")
    if not cov:
        continue
    for rel, rng in cov["hit_lines"].items():
        hit.setdefault(rel, set()).update(expand(rng))
ex = cover.executable()
tot = got = 0
for rel, fns in ex.items():
    doc = cover._docstring_lines(os.path.join(cover.SRC, rel))
    for q, lines in sorted(fns.items(), key=lambda kv: min(kv[1])):
        lines = lines - doc
        if not lines:
            continue
        h = lines & hit.get(rel, set())
        tot += len(lines); got += len(h)
        if h != lines:
            print(f"{rel}::{q}: {len(h)}/{len(lines)} missed {cover.ranges(lines - h)}")
print(f"TOTAL {got}/{tot} lines of function bodies executed by the correspondence of some property")

# ---- branches: union over the evidence files --------------------------------
seen = {}
for f in sorted(glob.glob(os.path.join(os.path.dirname(__file__), "..", "evidence", "C*.json"))):
    br = json.load(open(f))["coverage"].get("impl_branch_coverage")
    if not br:
        continue
    for rel, q, src, dst in br["raw"]:
        seen.setdefault((rel, q, src), set()).add(dst)
sites = cover.branch_sites()
one_way, never, both = {}, {}, 0
for rel, fn_sites in sites.items():
    for (q, src), (line, dests) in fn_sites.items():
        got = seen.get((rel, q, src), set())
        if len(got) >= 2:
            both += 1
        elif got:
            one_way.setdefault(f"{rel}::{q}", set()).add(line)
        else:
            never.setdefault(f"{rel}::{q}", set()).add(line)
print()
print(f"BRANCHES: {both} conditional jumps taken both ways; one way only:")
for k in sorted(one_way):
    print(f"  {k}: lines {cover.ranges({x for x in one_way[k] if x})}")
print("never reached (functions reached at all are listed; others omitted):")
for k in sorted(never):
    if k in one_way or any(k == kk for kk in one_way):
        print(f"  {k}: lines {cover.ranges({x for x in never[k] if x})}")
